---------------------------- MODULE MonSubscribe ----------------------------
(***************************************************************************)
(* Trace specification for the SUBSCRIBE / PUBLISH subsystem (engine       *)
(* "Sub", harness/inpkg/server/zz_verif_sub_test.go).  It judges what the  *)
(* REAL server did - every SUBSCRIBE command and result, every lock        *)
(* request and reply, every PUBLISH frame read on every subscriber         *)
(* connection, connection ends, and the in-package snapshot of the         *)
(* Subscriber objects taken whenever the subsystem is at rest - against    *)
(* the clauses below.  No copy of the subsystem's logic: the monitor knows *)
(*   - which replies mean an event (README flag 0x20: a TIMEOUT reply to a *)
(*     request with TimeoutFlag push_subscribe, an EXPRIED notice for a    *)
(*     request with ExpriedFlag push_subscribe; a lock granted with        *)
(*     Expried = 0 MAY publish EXPRIED - agnostic),                        *)
(*   - the matching rule (some common bit in either 64-bit half),          *)
(*   - subscription windows as a client sees them (command sent .. result  *)
(*     read).                                                              *)
(* Clauses (code "..." of the VIOL record):                                *)
(*  S1 frame-malformed            magic / version / result / data flag     *)
(*  S2 frame-for-no-event         a PUBLISH frame that no reply explains;  *)
(*     frame-content-wrong        Count / Rcount differ from the request;  *)
(*     publish-id-outside-step    id not drawn during the step that caused *)
(*                                the event                                *)
(*  S3 event-delivered-twice      same subscriber, same event / same id    *)
(*  S4 event-not-matching         no mask of the subscriber that could be  *)
(*                                active (sent before the frame, not yet   *)
(*                                answered-as-removed when the step began) *)
(*                                has a bit in common with the key         *)
(*  S5 frame-on-foreign-connection  the connection never commanded that    *)
(*                                subscriber id                            *)
(*  S6 channel-order-broken       single-shard world: publish ids of one   *)
(*                                subscriber on one connection increase    *)
(*  S7 event-not-delivered        at rest: an event pushed after the       *)
(*                                subscription was answered, no unsubscribe*)
(*                                sent, subscriber alive, attached to an   *)
(*                                open connection that takes bytes         *)
(*  S8 buffer-exceeds-max-size    allocated buffer > MaxSize rounded up to *)
(*                                a 4096-byte block                        *)
(*  S9 subscriber-vanished-without-reason / grace-period-ignored /         *)
(*     reattached-subscriber-killed / connection-closed-without-reason /   *)
(*     subscriber-killed-with-shared-connection                            *)
(*                                a Subscriber (or a connection) is closed *)
(*                                by the server only for: unsubscribe of   *)
(*                                its last mask, loss of ITS connection    *)
(*                                (after Expried seconds), overflow,       *)
(*                                shutdown                                 *)
(*  S10 subscribe-not-answered / subscribe-result-wrong                    *)
(*  S11 subsystem-stuck           the driver's watchdog: a step, a wait    *)
(*                                for rest, or the shutdown never ended    *)
(* Agnostic: timing (only order of trace lines and coarse wall time for    *)
(* Expried), order across shards, whether a zero-expiry grant publishes,   *)
(* Lcount / Lrcount of a frame, the exact overflow point (block            *)
(* granularity: 2 blocks of slack), results of racing commands.            *)
(***************************************************************************)
EXTENDS Integers, Sequences, FiniteSets, TLC, Json, SequencesExt, FiniteSetsExt

CONSTANTS TraceFile, Props

Trace == ndJsonDeserialize(TraceFile)

VARIABLES l, m
vars == <<l, m>>

TIMEOUT == 8
EXPRIED == 9
PUSH == 32        \* push_subscribe bit of TimeoutFlag / ExpriedFlag
BLOCK == 4096

EmptyFn == [x \in {} |-> 0]
SetFn(f, k, v) == [x \in (DOMAIN f) \cup {k} |-> IF x = k THEN v ELSE f[x]]
Has(e, f) == f \in DOMAIN e
Bit(x, b) == (x \div b) % 2 = 1

RECURSIVE AndN(_, _, _)
AndN(a, b, n) == IF n = 0 \/ a <= 0 \/ b <= 0 THEN 0 ELSE (a % 2) * (b % 2) + 2 * AndN(a \div 2, b \div 2, n - 1)
MatchK(mh, ml, kh, kl) == AndN(mh, kh, 31) # 0 \/ AndN(ml, kl, 31) # 0

RoundUp(x) == ((x + BLOCK - 1) \div BLOCK) * BLOCK

Report(mm, code, detail) ==
    IF "SUB" \in Props
    THEN IF PrintT("VIOL " \o ToJson([prop |-> "SUB", code |-> code, line |-> l, trace |-> mm.tr, name |-> mm.name, detail |-> detail]))
         THEN [mm EXCEPT !.nv = @ + 1] ELSE mm
    ELSE mm
Check(mm, cond, code, detail) == IF cond THEN mm ELSE Report(mm, code, detail)

NoSnap == [subs |-> <<>>, conns |-> <<>>, pid |-> 0, ms |-> 0, line |-> 0, nfast |-> 0]

M0 == [ cmds |-> EmptyFn,      \* rid -> SUBSCRIBE command (+ result)
        wins |-> <<>>,         \* subscription windows: [rid, c, sid, mh, ml, sendL, resL, usendL, uresL]
        reqs |-> EmptyFn,      \* lock request id -> record
        evs  |-> <<>>,         \* events derived from replies
        frames |-> <<>>,       \* PUBLISH frames not yet judged
        got  |-> {},           \* <<sid, event index>> delivered
        gotp |-> {},           \* <<sid, publish id>> delivered
        lastp |-> EmptyFn,     \* <<sid, c>> -> last publish id read (single-shard order)
        owed |-> {},           \* <<sid, event index>> that must still arrive
        storms |-> <<>>,       \* [pid0, pid, n, line, done]
        step |-> [on |-> FALSE, beginL |-> 0, pid0 |-> 0],
        last |-> NoSnap,
        cclosed |-> EmptyFn,   \* c -> [line, ms]   the client ended the connection
        sclosed |-> {},        \* connections the server closed
        sjudged |-> {},
        gated |-> {},
        unsubs |-> {},         \* <<sid, mh, ml, c>> of unsubscribe commands sent since the last snapshot
        subsOn |-> {},         \* connections with a SUBSCRIBE command sent since the last snapshot
        vanished |-> {},       \* sids whose disappearance has been judged
        down |-> FALSE,        \* shutdown has begun
        hung |-> FALSE,
        ms |-> 0, shards |-> 1, nodata |-> FALSE,
        nv |-> 0, tr |-> 0, name |-> "" ]

-----------------------------------------------------------------------------
StepBegin(mm, e) == [M0 EXCEPT !.nv = mm.nv, !.tr = e.idx, !.name = e.name, !.shards = e.shards, !.nodata = e.nodata]

StepSub(mm, e) ==
    LET c == [rid |-> e.rid, c |-> e.c, cid |-> e.cid, sid |-> e.sid, typ |-> e.typ, mh |-> e.mh, ml |-> e.ml, sex |-> e.sex, smax |-> e.smax,
              line |-> l, resL |-> 0, res |-> -1, rsid |-> 0, gated |-> e.gated, gone |-> e.gone]
        w == [rid |-> e.rid, c |-> e.c, sid |-> e.sid, mh |-> e.mh, ml |-> e.ml, sendL |-> l, resL |-> 0, usendL |-> 0, uresL |-> 0, urid |-> 0, void |-> FALSE]
        m1 == [mm EXCEPT !.cmds = SetFn(@, e.rid, c), !.subsOn = @ \cup {e.c}]
    IN IF e.gone THEN mm
       ELSE IF e.typ = 0 THEN [m1 EXCEPT !.wins = Append(@, w)]
       ELSE [m1 EXCEPT !.unsubs = @ \cup {<<e.sid, e.mh, e.ml, e.c>>},
                       \* the unsubscribe may take effect any time from now on
                       !.wins = [i \in 1..Len(mm.wins) |->
                                   IF mm.wins[i].sid = e.sid /\ mm.wins[i].mh = e.mh /\ mm.wins[i].ml = e.ml /\ mm.wins[i].usendL = 0 /\ e.sid # 0
                                   THEN [mm.wins[i] EXCEPT !.usendL = l, !.urid = e.rid] ELSE mm.wins[i]]]

StepSubRes(mm, e) ==
    IF e.rid \notin DOMAIN mm.cmds
    THEN Report(mm, "subscribe-result-wrong", [why |-> "result for a command that was never sent", c |-> e.c, rid |-> e.rid])
    ELSE LET c == mm.cmds[e.rid]
             m1 == Check(mm, c.resL = 0, "subscribe-result-wrong", [why |-> "second result for one command", c |-> e.c, rid |-> e.rid])
             m2 == Check(m1, e.c = c.c, "subscribe-result-wrong", [why |-> "result on another connection", sent |-> c.c, got |-> e.c, rid |-> e.rid])
             m3 == Check(m2, e.res # 0 \/ (e.sid > 0 /\ e.cid = c.cid), "subscribe-result-wrong",
                         [why |-> "success without a subscriber id, or another client id echoed", rid |-> e.rid, sid |-> e.sid, cid |-> e.cid])
             \* the id exists under another client id (last snapshot, nothing since): must be refused
             Other == {i \in 1..Len(mm.last.subs) : mm.last.subs[i].sid = c.sid /\ mm.last.subs[i].cid # c.cid /\ ~mm.last.subs[i].closed}
             m4 == Check(m3, ~(c.sid > 0 /\ Other # {} /\ e.res = 0 /\ e.sid = c.sid), "subscribe-result-wrong",
                         [why |-> "subscriber of another client id handed out", rid |-> e.rid, sid |-> c.sid, cid |-> c.cid])
         IN [m4 EXCEPT !.cmds[e.rid].resL = l, !.cmds[e.rid].res = e.res, !.cmds[e.rid].rsid = e.sid,
                       !.wins = [i \in 1..Len(mm.wins) |->
                                   LET w == mm.wins[i] IN
                                   IF w.rid = e.rid THEN (IF e.res = 0 THEN [w EXCEPT !.sid = e.sid, !.resL = l] ELSE [w EXCEPT !.void = TRUE])
                                   ELSE IF w.urid = e.rid /\ e.res = 0 THEN [w EXCEPT !.uresL = l]
                                   ELSE IF w.urid = e.rid THEN [w EXCEPT !.usendL = 0, !.urid = 0]      \* a refused unsubscribe changes nothing
                                   ELSE w]]

\* connections that commanded subscriber sid (sent before line x)
Commanded(mm, sid, c, x) ==
    \E rid \in DOMAIN mm.cmds : LET k == mm.cmds[rid] IN k.c = c /\ k.line < x /\ (k.sid = sid \/ k.rsid = sid \/ (k.resL = 0 /\ k.sid = 0))

-----------------------------------------------------------------------------
\* lock traffic

StepReq(mm, e) ==
    LET r == [id |-> e.id, cmd |-> e.cmd, db |-> e.db, key |-> e.key, klo |-> e.klo, lid |-> e.lid, flag |-> e.flag, tf |-> e.tf, ef |-> e.ef,
              to |-> e.to, ex |-> e.ex, cnt |-> e.cnt, rc |-> e.rc, line |-> l]
    IN [mm EXCEPT !.reqs = SetFn(@, e.id, r), !.step = [on |-> TRUE, beginL |-> l, pid0 |-> e.pid0]]

StepTick(mm, e) == [mm EXCEPT !.step = [on |-> TRUE, beginL |-> l, pid0 |-> e.pid0]]

NewEv(mm, r, res, maybe) ==
    [db |-> r.db, key |-> r.key, klo |-> r.klo, lid |-> r.lid, res |-> res, cnt |-> r.cnt, rc |-> r.rc, maybe |-> maybe,
     beginL |-> IF mm.step.on THEN mm.step.beginL ELSE l, pid0 |-> IF mm.step.on THEN mm.step.pid0 ELSE mm.last.pid, pid1 |-> -1, rid |-> r.id, fresh |-> TRUE]

StepReply(mm, e) ==
    IF e.rid \notin DOMAIN mm.reqs THEN mm
    ELSE LET r == mm.reqs[e.rid]
             simple == r.cmd = "L"
         IN IF simple /\ e.res = TIMEOUT /\ Bit(r.tf, PUSH) THEN [mm EXCEPT !.evs = Append(@, NewEv(mm, r, TIMEOUT, FALSE))]
            ELSE IF simple /\ e.res = EXPRIED /\ Bit(r.ef, PUSH) THEN [mm EXCEPT !.evs = Append(@, NewEv(mm, r, EXPRIED, FALSE))]
            ELSE IF simple /\ e.res = 0 /\ r.ex = 0 /\ Bit(r.ef, PUSH) THEN [mm EXCEPT !.evs = Append(@, NewEv(mm, r, EXPRIED, TRUE))]
            ELSE mm

\* end of a step: the publish ids drawn during it
StepRet(mm, e) ==
    [mm EXCEPT !.step.on = FALSE,
               !.evs = [i \in 1..Len(mm.evs) |-> IF mm.evs[i].pid1 = -1 THEN [mm.evs[i] EXCEPT !.pid1 = e.pid] ELSE mm.evs[i]]]

StepStorm(mm, e) == [mm EXCEPT !.storms = Append(@, [pid0 |-> e.pid0, pid |-> e.pid, n |-> e.n, line |-> l, done |-> FALSE, cnt |-> EmptyFn])]

StepPub(mm, e) ==
    LET m1 == Check(mm, e.magic = 86 /\ e.version = 1 /\ e.res \in {TIMEOUT, EXPRIED} /\ ((e.flag \div 32) % 2 = 1) = (e.dlen > 0) /\ e.lidhi = 0,
                    "frame-malformed", [c |-> e.c, magic |-> e.magic, version |-> e.version, res |-> e.res, flag |-> e.flag, dlen |-> e.dlen])
        k  == <<e.sid, e.c>>
        m3 == Check(m1, ~(mm.shards = 1 /\ k \in DOMAIN mm.lastp /\ mm.lastp[k] >= e.pid), "channel-order-broken",
                    [sid |-> e.sid, c |-> e.c, pid |-> e.pid, after |-> IF k \in DOMAIN mm.lastp THEN mm.lastp[k] ELSE 0])
    IN [m3 EXCEPT !.frames = Append(@, [c |-> e.c, sid |-> e.sid, pid |-> e.pid, res |-> e.res, db |-> e.db, key |-> e.key, klo |-> e.klo, lid |-> e.lid,
                                        cnt |-> e.cnt, rc |-> e.rc, line |-> l]),
                  !.lastp = SetFn(@, k, e.pid)]

-----------------------------------------------------------------------------
\* judgement at rest

\* windows of sid that may have been active for an event that began at line b, seen by a frame at line f
MayWins(mm, sid, kh, kl, b, f) ==
    {i \in 1..Len(mm.wins) : LET w == mm.wins[i] IN
        /\ ~w.void /\ (w.sid = sid \/ (w.sid = 0 /\ w.resL = 0)) /\ MatchK(w.mh, w.ml, kh, kl)
        /\ w.sendL < f /\ (w.uresL = 0 \/ b < w.uresL)}
\* windows that were certainly active for the whole step and still are
SureWins(mm, sid, kh, kl, b) ==
    {i \in 1..Len(mm.wins) : LET w == mm.wins[i] IN
        /\ ~w.void /\ w.sid = sid /\ MatchK(w.mh, w.ml, kh, kl) /\ w.resL # 0 /\ w.resL < b /\ w.usendL = 0}

\* index of the storm a publish id belongs to (0 none); the latest storms are looked at first (ids grow with time)
RECURSIVE StormIdxFrom(_, _, _)
StormIdxFrom(mm, pid, k) == IF k = 0 THEN 0
                            ELSE IF mm.storms[k].pid0 < pid /\ pid <= mm.storms[k].pid THEN k
                            ELSE IF mm.storms[k].pid < pid THEN 0
                            ELSE StormIdxFrom(mm, pid, k - 1)
StormIdx(mm, pid) == StormIdxFrom(mm, pid, Len(mm.storms))
InStorm(mm, pid) == StormIdx(mm, pid) # 0

\* a frame of an ordinary (recorded) lock request
JudgeFrame(mm0, f) ==
    LET mm == Check(mm0, <<f.sid, f.pid>> \notin mm0.gotp, "event-delivered-twice", [sid |-> f.sid, pid |-> f.pid, c |-> f.c, by |-> "publish id"])
        I == {i \in 1..Len(mm.evs) : LET v == mm.evs[i] IN v.db = f.db /\ v.key = f.key /\ v.klo = f.klo /\ v.lid = f.lid /\ v.res = f.res}
    IN IF I = {} THEN Report(mm, "frame-for-no-event", [c |-> f.c, sid |-> f.sid, pid |-> f.pid, res |-> f.res, key |-> f.key, klo |-> f.klo, lid |-> f.lid])
       ELSE LET J == {i \in I : mm.evs[i].pid0 < f.pid /\ (mm.evs[i].pid1 = -1 \/ f.pid <= mm.evs[i].pid1)}
                i == IF J # {} THEN Min(J) ELSE Max(I)
                v == mm.evs[i]
                m1 == Check(mm, J # {}, "publish-id-outside-step", [sid |-> f.sid, pid |-> f.pid, step |-> <<v.pid0, v.pid1>>, key |-> f.key, lid |-> f.lid])
                m2 == Check(m1, f.cnt = v.cnt /\ f.rc = v.rc, "frame-content-wrong", [sid |-> f.sid, pid |-> f.pid, cnt |-> f.cnt, rc |-> f.rc, want |-> <<v.cnt, v.rc>>])
                m3 == Check(m2, <<f.sid, i>> \notin mm.got, "event-delivered-twice", [sid |-> f.sid, pid |-> f.pid, c |-> f.c, by |-> "event", key |-> f.key, lid |-> f.lid])
                Sub == {j \in 1..Len(mm.wins) : ~mm.wins[j].void /\ (mm.wins[j].sid = f.sid \/ (mm.wins[j].sid = 0 /\ mm.wins[j].resL = 0)) /\ mm.wins[j].sendL < f.line}
                May == MayWins(mm, f.sid, f.key, f.klo, v.beginL, f.line)
                m4 == Check(m3, May # {}, "event-not-matching",
                            [sid |-> f.sid, pid |-> f.pid, key |-> f.key, klo |-> f.klo, lid |-> f.lid,
                             why |-> IF Sub = {} THEN "no subscription of that subscriber"
                                     ELSE IF \E j \in Sub : MatchK(mm.wins[j].mh, mm.wins[j].ml, f.key, f.klo) THEN "pushed after the unsubscribe was answered"
                                     ELSE "no mask has a bit in common with the key",
                             masks |-> SetToSeq({<<mm.wins[j].mh, mm.wins[j].ml>> : j \in Sub})])
                m5 == Check(m4, Commanded(mm, f.sid, f.c, f.line), "frame-on-foreign-connection", [sid |-> f.sid, pid |-> f.pid, c |-> f.c])
            IN [m5 EXCEPT !.got = @ \cup {<<f.sid, i>>}, !.gotp = @ \cup {<<f.sid, f.pid>>}]

\* frames of a storm (unrecorded requests: key = LockId, key % 16 # 0, EXPRIED), judged in bulk
JudgeStormFrames(mm, F) ==
    LET P == {<<F[i].sid, F[i].pid>> : i \in 1..Len(F)}
        m1 == Check(mm, Cardinality(P) = Len(F), "event-delivered-twice", [by |-> "publish id", frames |-> Len(F), distinct |-> Cardinality(P), storm |-> TRUE])
        BadC == {i \in 1..Len(F) : ~(F[i].res = EXPRIED /\ F[i].lid = F[i].key /\ F[i].key % 16 # 0)}
        m2 == Check(m1, BadC = {}, "frame-content-wrong", [why |-> "storm frame", n |-> Cardinality(BadC)])
        BadM == {i \in 1..Len(F) : MayWins(mm, F[i].sid, F[i].key, F[i].klo, 0, F[i].line) = {}}
        m3 == Check(m2, BadM = {}, "event-not-matching", [why |-> "storm frame", n |-> Cardinality(BadM),
                                                         first |-> IF BadM = {} THEN <<>> ELSE <<F[Min(BadM)].sid, F[Min(BadM)].key>>])
        BadA == {i \in 1..Len(F) : ~Commanded(mm, F[i].sid, F[i].c, F[i].line)}
        m4 == Check(m3, BadA = {}, "frame-on-foreign-connection", [why |-> "storm frame", n |-> Cardinality(BadA)])
        Idx == [i \in 1..Len(F) |-> StormIdx(mm, F[i].pid)]
        Ks == {Idx[i] : i \in 1..Len(F)}
        Add(k, sid) == Cardinality({i \in 1..Len(F) : F[i].sid = sid /\ Idx[i] = k})
        SidsF == {F[i].sid : i \in 1..Len(F)}
    IN [m4 EXCEPT !.storms = [k \in 1..Len(mm.storms) |->
                                IF k \notin Ks THEN mm.storms[k]
                                ELSE [mm.storms[k] EXCEPT !.cnt = [sid \in (DOMAIN mm.storms[k].cnt) \cup SidsF |->
                                                                     (IF sid \in DOMAIN mm.storms[k].cnt THEN mm.storms[k].cnt[sid] ELSE 0) + Add(k, sid)]]]]

SubOf(snap, sid) == LET I == {i \in 1..Len(snap.subs) : snap.subs[i].sid = sid} IN IF I = {} THEN [sid |-> 0, closed |-> TRUE] ELSE snap.subs[Min(I)]
ConnOf(snap, c) == LET I == {i \in 1..Len(snap.conns) : snap.conns[i].c = c} IN
                   IF I = {} THEN [c |-> c, gated |-> FALSE, blocked |-> 0, cligone |-> TRUE, srvgone |-> TRUE] ELSE snap.conns[Min(I)]
AnyBlocked(snap) == \E i \in 1..Len(snap.conns) : snap.conns[i].gated /\ snap.conns[i].blocked > 0 /\ ~snap.conns[i].cligone /\ ~snap.conns[i].srvgone
Sids(snap) == {snap.subs[i].sid : i \in {j \in 1..Len(snap.subs) : ~snap.subs[j].closed}}

\* can this subscriber deliver right now?  (attached, its connection open and taking bytes, nobody held at a gate)
CanDeliver(e, sid) ==
    LET s == SubOf(e, sid) IN
    /\ ~s.closed /\ s.conn # -1
    /\ LET c == ConnOf(e, s.conn) IN ~c.cligone /\ ~c.srvgone /\ ~c.gated
    /\ ~AnyBlocked(e)

JudgeOwed(mm, e, x) ==
    LET sid == x[1]  i == x[2]  v == mm.evs[i]  s == SubOf(e, sid) IN
    IF x \in mm.got \/ s.closed THEN [mm EXCEPT !.owed = @ \ {x}]
    ELSE IF \E j \in 1..Len(mm.wins) : mm.wins[j].sid = sid /\ mm.wins[j].usendL # 0 /\ MatchK(mm.wins[j].mh, mm.wins[j].ml, v.key, v.klo)
         THEN [mm EXCEPT !.owed = @ \ {x}]
    ELSE IF ~CanDeliver(e, sid) THEN mm
    ELSE [Report(mm, "event-not-delivered", [sid |-> sid, key |-> v.key, klo |-> v.klo, lid |-> v.lid, res |-> v.res, pushed_in |-> <<v.pid0, v.pid1>>,
                                              buffered_bytes |-> s.pend, where |-> IF s.pend > 0 THEN "stuck-in-buffer" ELSE "lost", storm |-> FALSE])
            EXCEPT !.owed = @ \ {x}]

JudgeStorm(mm, e, k) ==
    LET st == mm.storms[k]
        \* subscribers certainly subscribed to every storm key (low nibble of the mask all ones) before the storm
        Sure == {sid \in Sids(e) : \E j \in 1..Len(mm.wins) : LET w == mm.wins[j] IN
                    ~w.void /\ w.sid = sid /\ w.mh % 16 = 15 /\ w.resL # 0 /\ w.resL < st.line /\ w.usendL = 0}
        Got(sid) == IF sid \in DOMAIN st.cnt THEN st.cnt[sid] ELSE 0
        TooMany == {sid \in DOMAIN st.cnt : st.cnt[sid] > st.pid - st.pid0}
        Bad == {sid \in Sure : CanDeliver(e, sid) /\ Got(sid) < st.pid - st.pid0}
        rep(acc, sid) == Report(acc, "event-not-delivered", [sid |-> sid, pushed_in |-> <<st.pid0, st.pid>>, missing |-> (st.pid - st.pid0) - Got(sid),
                                                             buffered_bytes |-> SubOf(e, sid).pend,
                                                             where |-> IF SubOf(e, sid).pend > 0 THEN "stuck-in-buffer" ELSE "lost", storm |-> TRUE])
    IN IF st.done THEN mm
       ELSE [Check(FoldLeft(rep, mm, SetToSeq(Bad)), TooMany = {}, "event-delivered-twice", [by |-> "count", storm |-> TRUE, sids |-> SetToSeq(TooMany)])
               EXCEPT !.storms[k].done = TRUE]

\* S9: a subscriber of the previous snapshot is gone (or closed)
JudgeVanish(mm, e, p) ==
    LET now == SubOf(e, p.sid)
        gone == now.closed
        unsubbed == {<<u[2], u[3]>> : u \in {x \in mm.unsubs : x[1] = p.sid}}
        left == {<<p.masks[i][1], p.masks[i][2]>> : i \in 1..Len(p.masks)} \ unsubbed
        R_unsub == unsubbed # {} /\ left = {}
        myc == p.conn
        lostNow == myc # -1 /\ myc \in DOMAIN mm.cclosed
        since == IF lostNow THEN e.ms - mm.cclosed[myc].ms ELSE IF p.conn = -1 /\ p.lostms >= 0 THEN p.lostms + (e.ms - mm.last.ms) ELSE -1
        R_loss == (lostNow /\ p.ex = 0) \/ (since >= 0 /\ since + 1100 >= p.ex * 1000 /\ (lostNow \/ p.conn = -1))
        R_over == p.max > 0 /\ p.pend + 64 * (e.pid - mm.last.pid) + 2 * BLOCK > p.max
        \* a write of its goroutine was held at the gate of a connection that the client then closed
        Held == {c \in DOMAIN mm.cclosed : ConnOf(mm.last, c).gated /\ ConnOf(mm.last, c).blocked > 0}
        R_werr == Held # {} /\ p.pend > 0
    IN IF ~gone \/ p.sid \in mm.vanished THEN mm
       ELSE LET m1 == [mm EXCEPT !.vanished = @ \cup {p.sid}] IN
            IF mm.down \/ R_unsub \/ R_over THEN m1
            ELSE IF R_werr /\ myc \notin Held /\ myc # -1 /\ myc \notin DOMAIN mm.cclosed
                 THEN Report(m1, "reattached-subscriber-killed", [sid |-> p.sid, attached_to |-> myc, write_failed_on |-> SetToSeq(Held), expried |-> p.ex,
                                                                   cause |-> "write-error-on-previous-connection"])
            ELSE IF R_loss THEN m1
            \* its connection was closed by the SERVER because ANOTHER subscriber on it was closed (unsubscribed its last mask, overflowed)
            ELSE IF myc # -1 /\ myc \in mm.sclosed /\ myc \notin DOMAIN mm.cclosed /\ p.ex = 0
                 THEN Report(m1, "subscriber-killed-with-shared-connection",
                             [sid |-> p.sid, conn |-> myc, masks |-> p.masks,
                              cause |-> IF \E u \in mm.unsubs : u[4] = myc /\ u[1] # p.sid THEN "unsubscribe-of-another-subscriber" ELSE "close-of-another-subscriber"])
            ELSE IF (lostNow \/ p.conn = -1) /\ p.ex > 0
                 THEN Report(m1, "grace-period-ignored", [sid |-> p.sid, expried |-> p.ex, lost_for_ms |-> since, buffered_bytes |-> p.pend,
                                                          cause |-> IF R_werr \/ (lostNow /\ p.pend > 0) THEN "write-error-at-connection-loss" ELSE "other"])
            ELSE Report(m1, "subscriber-vanished-without-reason", [sid |-> p.sid, conn |-> p.conn, masks |-> p.masks, expried |-> p.ex, max |-> p.max, buffered_bytes |-> p.pend])

\* S9: the server closed a connection
JudgeSclosed(mm, e, c) ==
    LET att == {i \in 1..Len(mm.last.subs) : mm.last.subs[i].conn = c}
        ok == \/ mm.down \/ c \in DOMAIN mm.cclosed \/ c \in mm.subsOn \/ att # {}
    IN [Check(mm, ok, "connection-closed-without-reason", [c |-> c]) EXCEPT !.sjudged = @ \cup {c}]

StepSnap(mm0, e) ==
    LET mm == [mm0 EXCEPT !.ms = e.ms]
        \* 1. frames
        Fs == SelectSeq(mm.frames, LAMBDA f : InStorm(mm, f.pid))
        Fo == SelectSeq(mm.frames, LAMBDA f : ~InStorm(mm, f.pid))
        m0 == IF Len(Fs) > 0 THEN JudgeStormFrames(mm, Fs) ELSE mm
        m1 == [FoldLeft(JudgeFrame, m0, Fo) EXCEPT !.frames = <<>>]
        \* 2. what is owed: events of finished steps, to subscribers certainly subscribed before the step and healthy now
        Fresh == {i \in 1..Len(m1.evs) : m1.evs[i].fresh /\ m1.evs[i].pid1 # -1}
        NewOwed == {<<sid, i>> \in Sids(e) \X Fresh :
                       /\ ~m1.evs[i].maybe /\ m1.evs[i].pid1 > m1.evs[i].pid0
                       /\ SureWins(m1, sid, m1.evs[i].key, m1.evs[i].klo, m1.evs[i].beginL) # {}
                       /\ sid \in Sids(m1.last)}
        m2 == [m1 EXCEPT !.owed = @ \cup NewOwed,
                         !.evs = [i \in 1..Len(m1.evs) |-> IF i \in Fresh THEN [m1.evs[i] EXCEPT !.fresh = FALSE] ELSE m1.evs[i]]]
        m3 == FoldLeft(LAMBDA acc, x : JudgeOwed(acc, e, x), m2, SetToSeq(m2.owed))
        m4 == FoldLeft(LAMBDA acc, k : JudgeStorm(acc, e, k), m3, SetToSeq({k \in 1..Len(m3.storms) : ~m3.storms[k].done}))
        \* 3. buffer bound
        Over == {i \in 1..Len(e.subs) : e.subs[i].max > 0 /\ (e.subs[i].bufsz > RoundUp(e.subs[i].max) \/ e.subs[i].pend > e.subs[i].bufsz)}
        m5 == Check(m4, Over = {}, "buffer-exceeds-max-size",
                    [subs |-> [i \in 1..Cardinality(Over) |-> LET s == e.subs[SetToSeq(Over)[i]] IN [sid |-> s.sid, max |-> s.max, allocated |-> s.bufsz, buffered |-> s.pend]]])
        \* 4. closures
        m6 == FoldLeft(LAMBDA acc, p : JudgeVanish(acc, e, p), m5, SelectSeq(mm.last.subs, LAMBDA p : ~p.closed))
        m7 == FoldLeft(LAMBDA acc, c : JudgeSclosed(acc, e, c), m6, SetToSeq(m6.sclosed \ m6.sjudged))
    IN [m7 EXCEPT !.last = [subs |-> e.subs, conns |-> e.conns, pid |-> e.pid, ms |-> e.ms, line |-> l, nfast |-> e.nfast],
                  !.unsubs = {}, !.subsOn = {}]

StepHang(mm, e) ==
    Report([mm EXCEPT !.hung = TRUE], "subsystem-stuck", [what |-> e.what, step |-> e.step, blocked_in |-> e.frame, state |-> e.state, blocked |-> e.blocked])

StepEnd(mm, e) == mm

Step(mm, e) ==
    CASE e.e = "begin"    -> StepBegin(mm, e)
      [] e.e = "sub"      -> StepSub(mm, e)
      [] e.e = "subres"   -> StepSubRes(mm, e)
      [] e.e = "subtimeout" -> Report(mm, "subscribe-not-answered", [c |-> e.c, rid |-> e.rid, why |-> "no result within 5 s on an open connection"])
      [] e.e = "subunanswered" ->
            LET k == mm.cmds[e.rid] IN
            Check(mm, k.typ = 1 \/ k.sid # 0, "subscribe-not-answered", [c |-> e.c, rid |-> e.rid, why |-> "the server closed the connection instead of answering a new subscription"])
      [] e.e = "req"      -> StepReq(mm, e)
      [] e.e = "tick"     -> StepTick(mm, e)
      [] e.e = "reply"    -> StepReply(mm, e)
      [] e.e = "ret"      -> StepRet(mm, e)
      [] e.e = "tock"     -> StepRet(mm, e)
      [] e.e = "storm"    -> StepStorm(mm, e)
      [] e.e = "pub"      -> StepPub(mm, e)
      [] e.e = "cclose"   -> [mm EXCEPT !.cclosed = SetFn(@, e.c, [line |-> l, ms |-> e.ms])]
      [] e.e = "sclosed"  -> [mm EXCEPT !.sclosed = @ \cup {e.c}]
      [] e.e = "ssnap"    -> StepSnap(mm, e)
      [] e.e = "chansclosed" -> [mm EXCEPT !.down = TRUE]
      [] e.e = "mgrclosed" -> Check(mm, e.left = 0, "subsystem-stuck", [what |-> "subscribers left registered after SubscribeManager.Close()", left |-> e.left])
      [] e.e = "hang"     -> StepHang(mm, e)
      [] e.e = "panic"    -> Report(mm, "subsystem-panicked", [msg |-> e.msg, site |-> e.site])
      [] e.e = "end"      -> StepEnd(mm, e)
      [] OTHER            -> mm

Init == l = 1 /\ m = M0

Next == /\ l <= Len(Trace)
        /\ m' = Step(m, Trace[l])
        /\ l' = l + 1

Spec == Init /\ [][Next]_vars

NoViolation == m.nv = 0

TraceConsumed == TLCGet("stats").diameter - 1 = Len(Trace)
=============================================================================

------------------------------- MODULE MonReplRing -------------------------------
(***************************************************************************)
(* Trace specification for the data-structure part of property C09         *)
(* ("followers apply the leader's log exactly and converge"): the leader's *)
(* replication ring buffer hands every logged record to every cursor       *)
(* exactly once and in order, or tells the cursor "out of buf" - never a   *)
(* silent gap, duplicate or reordering.                                    *)
(*                                                                         *)
(* TLC reads the ndjson trace recorded from the REAL                       *)
(* ReplicationBufferQueue by harness/inpkg/server/zz_verif_ring_test.go.   *)
(* One line per step:                                                      *)
(*   begin {idx, name, buf, max, nc, st}      a fresh ring is built        *)
(*   op    {i, op, c, a, res [, rec] [, dlv], st}                          *)
(*         the operation, its result (record handed out, eof, oob = "out   *)
(*         of buf", nf, catchup, hang), the record SendProcess delivered   *)
(*         in this step, and the projection `st` of the real struct taken  *)
(*         right after it (live chain / free list walked over nextItem,    *)
(*         usedBufferSize, bufferSize, seq, pollCount, every cursor)       *)
(*   skip  the driver did not run the operation (production could not      *)
(*         issue it in the cursor's phase)                                 *)
(*   panic the operation panicked inside the real code                     *)
(*   end                                                                   *)
(*                                                                         *)
(* VERDICT (prints "VIOL {json}", first one per history):                  *)
(*   the reference ReplRing!Judge is advanced with every step: every       *)
(*   record handed out by Pop is the successor of the cursor's position    *)
(*   (pop-returned-wrong-record, pop-skipped-records), EOF only at the     *)
(*   newest record (pop-eof-while-records-pending), Search positions on    *)
(*   the record asked for, Head on a record of the log, and the stream     *)
(*   delivered to the follower is the log without gap / duplicate          *)
(*   (delivered-..);                                                       *)
(*   the structural clauses ReplRing!StructCode on the projection: live    *)
(*   chain from tailItem ends on headItem (live-chain-..), free list from  *)
(*   freeTailItem ends on freeHeadItem with nil (free-list-not-terminated) *)
(*   and shares no slot with the live chain (live-slot-on-free-list), seqs *)
(*   consecutive up to queue.seq-1, usedBufferSize = sum of the live       *)
(*   sizes, every registered cursor stands on a live slot or on one that   *)
(*   Pop will recognise as recycled (cursor-on-detached-slot).             *)
(*   "out of buf", a refused Search and a Head on another live record are  *)
(*   always accepted (the follower is told to resynchronise / is given a   *)
(*   complete stream): what the tight reference says about them is only    *)
(*   counted (field obs of the CONF line).                                 *)
(*                                                                         *)
(* A violation on a cursor that stands, with seq 0, on a free-list slot    *)
(* whose recycled marker was wiped by an AddPoll over a recycled slot      *)
(* (pollCount 0xffffffff + 1 = 0; ReplRing constant AddPollWrapsMarker)    *)
(* is reported under the code                                              *)
(* violation-after-addpoll-on-recycled-slot (see known_findings.json R5).  *)
(*                                                                         *)
(* CONFORMANCE (never a verdict; prints "DIVG {json}"): the implementation *)
(* shaped model ReplRing!Apply executes the same operation and must give   *)
(* the same result and land in the same projection (up to slot names).     *)
(***************************************************************************)
EXTENDS Integers, Sequences, FiniteSets, TLC, Json

CONSTANTS TraceFile, Props

RR == INSTANCE ReplRing WITH BufSize <- 0, MaxBufSize <- 0, NC <- 0, DataLens <- {}, MaxPush <- 0, MaxSync <- 0, SearchBack <- 0,
                             ReleaseClearsNext <- TRUE, AddPollWrapsMarker <- TRUE,
                             R <- 0, S <- 0, ph <- 0, nsync <- 0, bad <- "", hist <- <<>>

Trace == ndJsonDeserialize(TraceFile)

VARIABLES l, m
vars == <<l, m>>

Range(s) == {s[i] : i \in 1..Len(s)}

M0 == [T |-> RR!Ref0(0), Q |-> RR!NewRing(0, 0, 0), on |-> FALSE, prev |-> <<>>, wiped |-> FALSE, failed |-> FALSE,
       name |-> "", tr |-> 0, nc |-> 0, nv |-> 0, nd |-> 0, steps |-> 0, obs |-> 0, hists |-> 0]

\* a record as the driver read it from the cursor: the id in currentAofId, in buf[3:19], in buf[60:64] and in the data
\* must agree, otherwise it is no record of the log (id -1)
RecOfEv(e, f) ==
    IF f \notin DOMAIN e THEN RR!NoRec
    ELSE LET r == e[f] IN
         [seq |-> r.seq, dl |-> r.dl,
          id  |-> IF r.id = r.bid /\ r.b2 = r.id /\ (r.dl >= 4 => r.d0 = r.id) THEN r.id ELSE -1]

\* the recorded projection in the shape ReplRing!StructCode reads
ProjOf(st) == [live |-> st.live, free |-> st.free, lseq |-> st.lseq, ldl |-> st.ldl, lhead |-> st.lhead, fhead |-> st.fhead,
               used |-> st.used, seq |-> st.seq, cur |-> st.cur, reg |-> Range(st.reg)]

\* projections up to slot names: a cursor's slot is named by its place in the live walk (k), the free walk (-k), 0 = nil
PosIn(s, x) == IF \E i \in 1..Len(s) : s[i] = x THEN CHOOSE i \in 1..Len(s) : s[i] = x ELSE 0
Canon(P, curs) ==
    [lseq |-> P.lseq, ldl |-> P.ldl, lpc |-> P.lpc, lpi |-> P.lpi, nfree |-> Len(P.free), fpc |-> P.fpc,
     lhead |-> P.lhead, fhead |-> P.fhead, used |-> P.used, bsize |-> P.bsize, seq |-> P.seq, qpc |-> P.qpc, nslots |-> P.nslots,
     cur |-> [c \in 1..Len(curs) |->
                LET k == curs[c] IN
                [seq |-> k.seq, w |-> k.w, sseq |-> k.sseq, spc |-> k.spc,
                 pos |-> IF k.slot = 0 THEN 0 ELSE IF PosIn(P.live, k.slot) > 0 THEN PosIn(P.live, k.slot)
                         ELSE IF PosIn(P.free, k.slot) > 0 THEN 0 - PosIn(P.free, k.slot) ELSE 999]]]
ModelCurs(Q) == LET P == RR!Proj(Q, {}) IN [c \in 1..Len(Q.cur) |-> P.cur[c]]

\* the cursor stands, with seq 0, on a slot outside the live chain whose recycled marker is gone (seq of a released slot is 0)
StaleZero(st, c) == c >= 1 /\ c <= Len(st.cur) /\ st.cur[c].slot # 0 /\ st.cur[c].seq = 0 /\ st.cur[c].sseq = 0
                    /\ st.cur[c].spc # -1 /\ st.cur[c].slot \notin Range(st.live)
Detached(st) == {c \in Range(st.reg) : LET k == st.cur[c] IN k.slot # 0 /\ k.spc # -1 /\ k.sseq = k.seq /\ k.slot \notin Range(st.live)}

Report(mm, code, e, st, detail) ==
    IF mm.failed \/ "C09" \notin Props THEN mm
    ELSE LET known == mm.wiped /\ (IF code = "cursor-on-detached-slot" THEN \A c \in Detached(st) : StaleZero(st, c)
                                   ELSE StaleZero(mm.prev, e.c))
             c == IF known THEN "violation-after-addpoll-on-recycled-slot" ELSE code IN
         IF PrintT("VIOL " \o ToJson([prop |-> "C09", code |-> c, line |-> l, trace |-> mm.tr, name |-> mm.name,
                                      detail |-> [clause |-> code, part |-> "ring", op |-> e.op, cursor |-> e.c, arg |-> e.a, step |-> e.i,
                                                  info |-> detail]]))
         THEN [mm EXCEPT !.nv = @ + 1, !.failed = TRUE] ELSE mm

Diverge(mm, e, what, exp, got) ==
    IF PrintT("DIVG " \o ToJson([name |-> mm.name, trace |-> mm.tr, line |-> l, step |-> e.i, op |-> e.op, what |-> what,
                                 model |-> exp, real |-> got]))
    THEN [mm EXCEPT !.nd = @ + 1, !.on = FALSE] ELSE mm

StepBegin(mm, e) ==
    [M0 EXCEPT !.T = RR!Ref0(e.nc), !.Q = RR!NewRing(e.buf, e.max, e.nc), !.on = TRUE, !.prev = e.st, !.name = e.name, !.tr = e.idx,
               !.nc = e.nc, !.nv = mm.nv, !.nd = mm.nd, !.steps = mm.steps, !.obs = mm.obs, !.hists = mm.hists + 1]

StepOp(mm, e) ==
    IF mm.failed THEN mm ELSE      \* one report per history; nothing is judged behind it
    LET o == <<e.op, e.c, e.a>> IN
    IF e.res = "hang"
    THEN Report(mm, "operation-does-not-return", e, mm.prev, [why |-> e.why])
    ELSE
    LET a  == [res |-> e.res, rec |-> RecOfEv(e, "rec"), dlv |-> RecOfEv(e, "dlv")]
        st == e.st
        j  == RR!Judge(mm.T, o, a, Range(st.lseq))
        sc == RR!StructCode(ProjOf(st))
        w1 == mm.wiped \/ (e.op = "addpoll" /\ mm.prev.cur[e.c].slot # 0 /\ mm.prev.cur[e.c].spc = -1)
        m0 == [mm EXCEPT !.T = j.T, !.wiped = w1, !.steps = @ + 1, !.obs = @ + (IF j.strict # "" THEN 1 ELSE 0)]
        m1 == IF j.code # "" THEN Report(m0, j.code, e, st, [handed |-> a.rec, delivered |-> a.dlv, have |-> mm.T.have[e.c], sent |-> mm.T.sent[e.c],
                                                            logged |-> Len(mm.T.L), live |-> st.lseq])
              ELSE IF sc # "" THEN Report(m0, sc, e, st, [live |-> st.live, lseq |-> st.lseq, free |-> st.free, lhead |-> st.lhead, fhead |-> st.fhead,
                                                          used |-> st.used, ldl |-> st.ldl, seq |-> st.seq, cur |-> st.cur])
              ELSE m0
        \* conformance of the implementation-shaped model
        m2 == IF ~m1.on THEN m1
              ELSE LET b  == RR!Apply(mm.Q, o)
                       cm == Canon(RR!Proj(b.Q, {}), ModelCurs(b.Q))
                       cr == Canon(st, st.cur)
                       m3 == [m1 EXCEPT !.Q = b.Q]
                   IN IF b.res # a.res THEN Diverge(m3, e, "result", b.res, a.res)
                      ELSE IF b.rec # a.rec THEN Diverge(m3, e, "record", b.rec, a.rec)
                      ELSE IF b.dlv # a.dlv THEN Diverge(m3, e, "delivered", b.dlv, a.dlv)
                      ELSE IF cm # cr THEN Diverge(m3, e, "struct", cm, cr)
                      ELSE m3
    IN [m2 EXCEPT !.prev = st]

StepPanic(mm, e) == Report([mm EXCEPT !.on = FALSE], "panic-in-ring-operation", e, mm.prev, [msg |-> e.msg])

Step(mm, e) ==
    IF "e" \notin DOMAIN e THEN mm          \* the driver's "done" marker
    ELSE CASE e.e = "begin" -> StepBegin(mm, e)
           [] e.e = "op"    -> StepOp(mm, e)
           [] e.e = "panic" -> StepPanic(mm, e)
           [] e.e = "skip"  -> [mm EXCEPT !.on = FALSE]
           [] OTHER         -> mm

Init == l = 1 /\ m = M0
Next == /\ l <= Len(Trace)
        /\ m' = Step(m, Trace[l])
        /\ l' = l + 1
Spec == Init /\ [][Next]_vars

NoViolation == m.nv = 0
\* statistics line for the driver
Stats == l = Len(Trace) + 1 => PrintT("CONF " \o ToJson([steps |-> m.steps, divergences |-> m.nd, violations |-> m.nv, strict_only |-> m.obs, histories |-> m.hists]))
TraceConsumed == TLCGet("stats").diameter - 1 = Len(Trace)
=============================================================================

------------------------------- MODULE MonAof -------------------------------
(***************************************************************************)
(* Property monitors for the persistence family (engine F):               *)
(*   C07  restart recovers exactly the persisted, still-live holds         *)
(*   C08  a crash at any byte of the log recovers a clean record prefix;   *)
(*        what is persisted after that restart is recovered by the next    *)
(*   C16  compaction never changes what a restart would recover, even if   *)
(*        interrupted after any of its file-system steps                   *)
(*                                                                         *)
(* Trace specification: TLC reads the ndjson trace recorded by the engine  *)
(* F driver (harness/inpkg/server/zz_verif_f_test.go) from the REAL code   *)
(* and consumes one line per step.  The monitor contains no copy of the    *)
(* persistence logic: "persisted" is the statement's own definition        *)
(* (persist-immediately flag, or older than the delay in force; never      *)
(* with the never-persist flag), computed from the observed requests,      *)
(* replies and hold snapshots of the first instance; the admissible        *)
(* outcomes of a crash are the whole-record prefixes, each recovered by    *)
(* the same real code; the reference of a compaction image is the          *)
(* directory of the files it replaced (plus later appends).                *)
(*                                                                         *)
(* Separately (never a verdict): every image whose files are intact is     *)
(* also replayed with AofReplay!Recover - the replay discipline the model  *)
(* spec/AofLog.tla is checked against - and compared with what the real    *)
(* code recovered.  A difference prints a DIVERGE line (refinement).       *)
(*                                                                         *)
(* Output lines:  "VIOL {json}"  "DIVERGE {json}"  "STAT {json}"           *)
(***************************************************************************)
EXTENDS Integers, Sequences, FiniteSets, TLC, Json, SequencesExt, FiniteSetsExt

CONSTANTS TraceFile, Props

MinuteLen == 60
R == INSTANCE AofReplay
V == INSTANCE ValueReg        \* the register interpreter of C15 (Apply on decoded frames): the value a record describes

Trace == ndJsonDeserialize(TraceFile)

VARIABLES l, m
vars == <<l, m>>

INF == R!INF
Bit(x, b) == R!Bit(x, b)
EmptyFn == [x \in {} |-> 0]
SetFn(f, k, v) == [x \in (DOMAIN f) \cup {k} |-> IF x = k THEN v ELSE f[x]]

EF_IMM == 256   EF_NEVER == 512   EF_PCT == 4096

-----------------------------------------------------------------------------
\* snapshot (trace form) -> state form of AofReplay:  <<db,key>> -> [H, data]
HoldOf(h) == [lid |-> h.lid, depth |-> h.depth, cnt |-> h.cnt, rc |-> h.rc,
              exp |-> IF h.exp < 0 THEN INF ELSE h.exp, ef |-> h.ef]
StateOf(keys) == [k \in {<<keys[i].db, keys[i].key>> : i \in 1..Len(keys)} |->
                    LET i == CHOOSE j \in 1..Len(keys) : <<keys[j].db, keys[j].key>> = k
                    IN [H |-> [j \in 1..Len(keys[i].holds) |-> HoldOf(keys[i].holds[j])], data |-> keys[i].data]]

\* persistence class of a hold, from the ExpriedFlag of the request that set its terms (lock.go AddLock: mask 0x1300)
ClsOf(ef) == LET imm == Bit(ef, EF_IMM)  nev == Bit(ef, EF_NEVER)  pct == Bit(ef, EF_PCT)
             IN IF imm /\ ~nev /\ ~pct THEN "imm"
                ELSE IF nev /\ ~imm /\ ~pct THEN "never"
                ELSE IF pct /\ ~imm /\ ~nev THEN "pct"
                ELSE "dflt"

DelayOf(cls, ex, mm) == IF cls = "imm" THEN 0
                        ELSE IF cls = "pct" THEN ((ex * mm.parcent) \div 1000) % 256
                        ELSE mm.aoftime

Active(p) == p \in Props

Report(mm, p, code, detail) ==
    IF Active(p)
    THEN IF PrintT("VIOL " \o ToJson([prop |-> p, code |-> code, line |-> l, name |-> mm.name, detail |-> detail]))
         THEN [mm EXCEPT !.nv = @ + 1] ELSE mm
    ELSE mm

CI0(mm) == [generation |-> IF mm.ctx = "" THEN 1 ELSE 2]

Check(mm, cond, p, code, detail) == IF cond THEN mm ELSE Report(mm, p, code, detail)

Diverge(mm, what, detail) ==
    IF PrintT("DIVERGE " \o ToJson([line |-> l, name |-> mm.name, what |-> what, detail |-> detail]))
    THEN [mm EXCEPT !.ndiv = @ + 1] ELSE mm

-----------------------------------------------------------------------------
M0 == [ nv |-> 0, ndiv |-> 0, name |-> "", aoftime |-> 1, parcent |-> 300,
        born |-> EmptyFn,      \* <<db,key,lid>> -> [t, cls, mixed, inh]   holds of the instance being driven
        gone |-> EmptyFn,      \* <<db,key,lid>> -> born record of the last hold of that id that ended (deadline range it had)
        freecpt |-> FALSE,     \* the current generation was started with a free-running start-up compaction
        updnow |-> {},         \* ids that sent a lock request carrying the update flag since the last snapshot
        rel |-> {},            \* holds released (unlock accepted / expired) since the last snapshot
        vt |-> EmptyFn,        \* <<db,key>> -> [t (last value change), bad (touched by a never/pct/inheriting hold)]
        live |-> <<>>,         \* last hold snapshot (trace form)
        pre |-> <<>>, tstop |-> 0, havepre |-> FALSE,
        forced |-> {},         \* holds known to be in the log because they were recovered from it (second epoch)
        disk |-> <<>>, havedisk |-> FALSE,
        prefixes |-> <<>>,     \* recovered state of every whole-record prefix (index n+1)
        cptref |-> EmptyFn, cptrefok |-> FALSE, havecptref |-> FALSE,
        lastrec |-> <<>>,
        ctx |-> "",            \* "" first epoch | "cut" | "restart"
        cuttorn |-> FALSE,     \* the crash image the current second epoch started from ended in partial bytes of a record / header
        cutnoval |-> FALSE,    \* ... its record file ended on a record boundary but a value frame of a whole record was missing / partial (A2b)
        cptrefdisk |-> <<>>, cptreft |-> 0, cptreflo |-> 0, cptrefhi |-> 0, ntimeagn |-> 0, npreflush |-> 0,
        \* bursts (requests run while the records of earlier ones are still queued, handed to the log by reference)
        bq |-> <<>>,           \* records pushed by the burst in progress: [db, key, lid, ty, has, atpush, exp, hex, judged, i]
        bcur |-> EmptyFn,      \* <<db,key>> -> stored value of the key after the last request of the burst (bytes)
        bexp |-> EmptyFn,      \* <<db,key>> -> [pres (values before a burst, hex), recs (value-carrying burst records of the key in log order:
                               \*                [file, n, hex, judged])]
        nbreq |-> 0, nbrec |-> 0, nbfrm |-> 0, nbagn |-> 0, nbimg |-> 0, nbskip |-> 0,
        njudged |-> 0, nmust |-> 0, nmay |-> 0, nmustnot |-> 0, nrestored |-> 0, nvalchk |-> 0, nvalskip |-> 0,
        ncut |-> 0, nprefix |-> 0, ncpt |-> 0, nrefine |-> 0, nrefskip |-> 0, nstop |-> 0, nstop2 |-> 0, ncptexact |-> 0 ]

StepBegin(mm, e) == [M0 EXCEPT !.nv = mm.nv, !.ndiv = mm.ndiv, !.name = e.name, !.aoftime = e.aoftime, !.parcent = e.parcent1000]

StepEnd(mm, e) ==
    IF PrintT("STAT " \o ToJson([name |-> mm.name, judged |-> mm.njudged, must |-> mm.nmust, may |-> mm.nmay, mustnot |-> mm.nmustnot,
                                 restored |-> mm.nrestored, valchk |-> mm.nvalchk, valskip |-> mm.nvalskip, cuts |-> mm.ncut,
                                 prefixes |-> mm.nprefix, cptimgs |-> mm.ncpt, refined |-> mm.nrefine, refskip |-> mm.nrefskip,
                                 stops |-> mm.nstop, stops2 |-> mm.nstop2,
                                 burst_requests |-> mm.nbreq, burst_records |-> mm.nbrec, burst_frames_judged |-> mm.nbfrm,
                                 burst_requests_agnostic |-> mm.nbagn, burst_image_values_judged |-> mm.nbimg, bursts_not_located |-> mm.nbskip,
                                 cpt_deadlines_exact |-> mm.ncptexact, keys_not_compared_record_ends_between_starts |-> mm.ntimeagn, preflush_images |-> mm.npreflush]))
    THEN mm ELSE mm

\* a hold ends when its unlock is accepted (also one level of a re-entrant hold: conservative) or it expires
StepReply(mm, e) ==
    IF (e.ct = 2 /\ e.res = 0) \/ e.res = 9
    THEN [mm EXCEPT !.rel = @ \cup {<<e.db, e.key, e.lid>>}]
    ELSE mm

\* hold snapshot of the driven instance after a step
StepLive(mm, e) ==
    LET keys == e.keys
        IdsOf(i) == {<<keys[i].db, keys[i].key, keys[i].holds[j].lid>> : j \in 1..Len(keys[i].holds)}
        allIds == UNION {IdsOf(i) : i \in 1..Len(keys)}
        HoldRec(id) == LET i == CHOOSE x \in 1..Len(keys) : keys[x].db = id[1] /\ keys[x].key = id[2]
                           j == CHOOSE y \in 1..Len(keys[i].holds) : keys[i].holds[y].lid = id[3]
                       IN [h |-> keys[i].holds[j], pos |-> j, first |-> keys[i].holds[1], n |-> Len(keys[i].holds)]
        Dl(h) == IF h.exp < 0 THEN INF ELSE h.exp
        NewBorn(id) ==
            LET hr == HoldRec(id)
                c  == ClsOf(hr.h.ef)
            IN IF id \in DOMAIN mm.born /\ id \notin mm.rel
               THEN [mm.born[id] EXCEPT !.mixed = @ \/ c # mm.born[id].cls,
                                        !.chg = @ \/ mm.born[id].terms # <<hr.h.cnt, hr.h.rc, hr.h.exp>>,
                                        !.updlater = @ \/ id \in mm.updnow,
                                        !.shared = @ \/ hr.n >= 2,
                                        !.terms = <<hr.h.cnt, hr.h.rc, hr.h.exp>>,
                                        !.umax = IF R!UnitOf(hr.h.ef) > @ THEN R!UnitOf(hr.h.ef) ELSE @,
                                        !.dmin = IF Dl(hr.h) < @ THEN Dl(hr.h) ELSE @,
                                        !.dmax = IF Dl(hr.h) > @ THEN Dl(hr.h) ELSE @]
               ELSE LET cont == id \in DOMAIN mm.born      \* one level of a re-entrant hold was released: the hold goes on
                    IN [t |-> e.rt, bl |-> IF cont THEN mm.born[id].bl ELSE l, cls |-> c, mixed |-> FALSE,
                        inh |-> hr.pos > 1 /\ (ClsOf(hr.first.ef) # c
                                                \/ LET fid == <<id[1], id[2], hr.first.lid>> IN fid \in DOMAIN mm.born /\ mm.born[fid].inh),
                        dmin |-> IF cont /\ mm.born[id].dmin < Dl(hr.h) THEN mm.born[id].dmin ELSE Dl(hr.h),
                        dmax |-> IF cont /\ mm.born[id].dmax > Dl(hr.h) THEN mm.born[id].dmax ELSE Dl(hr.h),
                        umax |-> IF cont /\ mm.born[id].umax > R!UnitOf(hr.h.ef) THEN mm.born[id].umax ELSE R!UnitOf(hr.h.ef),
                        upd |-> IF cont THEN mm.born[id].upd ELSE id \in mm.updnow,
                        chg |-> IF cont THEN mm.born[id].chg ELSE FALSE,
                        updlater |-> IF cont THEN mm.born[id].updlater \/ id \in mm.updnow ELSE FALSE,
                        shared |-> (IF cont THEN mm.born[id].shared ELSE FALSE) \/ hr.n >= 2,
                        terms |-> <<hr.h.cnt, hr.h.rc, hr.h.exp>>]
        born2 == [id \in allIds |-> NewBorn(id)]
        kset == {<<keys[i].db, keys[i].key>> : i \in 1..Len(keys)}
        KeyRec(k) == keys[CHOOSE x \in 1..Len(keys) : keys[x].db = k[1] /\ keys[x].key = k[2]]
        OldData(k) == LET I == {x \in 1..Len(mm.live) : mm.live[x].db = k[1] /\ mm.live[x].key = k[2]}
                      IN IF I = {} THEN "" ELSE mm.live[CHOOSE x \in I : TRUE].data
        BadNow(k) == \E id \in allIds : id[1] = k[1] /\ id[2] = k[2] /\ (born2[id].cls \in {"never", "pct"} \/ born2[id].inh \/ born2[id].mixed)
        ended == {id \in DOMAIN mm.born : id \notin allIds \/ id \in mm.rel}
        NewIds == {id \in allIds : id \notin DOMAIN mm.born \/ id \in mm.rel \/ born2[id].terms # mm.born[id].terms}
        vt2 == [k \in kset |->
                  LET old == IF k \in DOMAIN mm.vt THEN mm.vt[k] ELSE [t |-> e.rt, vl |-> l, bad |-> FALSE, by |-> {}, kchg |-> FALSE, left |-> FALSE]
                      newby == {id \in NewIds \cup mm.rel : id[1] = k[1] /\ id[2] = k[2]}
                      chg == KeyRec(k).data # OldData(k) \/ k \notin DOMAIN mm.vt
                  IN [t |-> IF chg THEN e.rt ELSE old.t,
                      vl |-> IF chg THEN l ELSE old.vl,          \* trace line of the last value change
                      bad |-> (IF chg THEN FALSE ELSE old.bad) \/ BadNow(k),
                      by |-> IF chg THEN newby ELSE old.by,
                      \* a hold whose request set the value has been released since (its records leave the log with it)
                      left |-> IF chg THEN newby \cap mm.rel # {} ELSE old.left \/ old.by \cap (ended \cup mm.rel) # {},
                      kchg |-> old.kchg \/ \E id \in allIds : id[1] = k[1] /\ id[2] = k[2] /\ born2[id].chg]]
        gone2 == [id \in (DOMAIN mm.gone) \cup ended |-> IF id \in ended THEN mm.born[id] ELSE mm.gone[id]]
    IN [mm EXCEPT !.born = born2, !.rel = {}, !.vt = vt2, !.live = keys, !.gone = gone2, !.updnow = {},
                  !.forced = (@ \ mm.rel) \cap allIds,
                  !.pre = IF e.role \in {"pre", "pre2"} THEN keys ELSE @,
                  !.havepre = IF e.role \in {"pre", "pre2"} THEN TRUE ELSE @]

StepStop(mm, e) == [mm EXCEPT !.tstop = e.rt, !.prefixes = IF mm.ctx = "cut" THEN @ ELSE <<>>, !.havedisk = FALSE,
                              !.nstop = IF mm.ctx = "" THEN @ + 1 ELSE @, !.nstop2 = IF mm.ctx # "" THEN @ + 1 ELSE @]

StepDisk(mm, e) == [mm EXCEPT !.disk = e.files, !.havedisk = TRUE]

-----------------------------------------------------------------------------
\* the files a start loads (the harness lists rewrite.aof first, then the append files by index)
LoadedFiles(files) == SelectSeq(files, LAMBDA f : f.name # "rewrite.aof.tmp")

\* C07 (and the second sentence of C08): the state recovered by a restart, against the state of the
\* stopped instance restricted by the statement's own definition of "persisted"
Judge(mm, p, e) ==
    LET pre  == mm.pre
        T    == e.rnow
        \* the start read the wall clock somewhere between the two stamps the driver took around it
        Tlo  == (IF e.rlo < e.rnow THEN e.rlo ELSE e.rnow) - 1
        Thi  == (IF e.rhi > e.rnow THEN e.rhi ELSE e.rnow) + 1
        rec  == e.keys
        RecKeyIdx(db, key) == {x \in 1..Len(rec) : rec[x].db = db /\ rec[x].key = key}
        RecHoldOf(db, key, lid) ==
            LET I == RecKeyIdx(db, key) IN
            IF I = {} THEN <<>>
            ELSE LET k == rec[CHOOSE x \in I : TRUE]
                     J == {y \in 1..Len(k.holds) : k.holds[y].lid = lid}
                 IN IF J = {} THEN <<>> ELSE <<k.holds[CHOOSE y \in J : TRUE]>>
        \* all holds of the stopped instance, flattened
        PH == UNION {{[db |-> pre[i].db, key |-> pre[i].key, h |-> pre[i].holds[j], n |-> Len(pre[i].holds)] : j \in 1..Len(pre[i].holds)} : i \in 1..Len(pre)}
        RH == UNION {{[db |-> rec[i].db, key |-> rec[i].key, h |-> rec[i].holds[j]] : j \in 1..Len(rec[i].holds)} : i \in 1..Len(rec)}
        Id(x) == <<x.db, x.key, x.h.lid>>
        Unit(x) == R!UnitOf(x.h.ef)
        B(x) == mm.born[Id(x)]
        Delay(x) == DelayOf(B(x).cls, x.h.ex, mm)
        Age(x) == mm.tstop - B(x).t
        LiveAt(x) == x.h.exp < 0 \/ x.h.exp - Thi > Unit(x) + 1
        Forced(x) == Id(x) \in mm.forced
        Must(x) == /\ LiveAt(x)
                   /\ \/ Forced(x)
                      \/ /\ ~B(x).mixed /\ B(x).cls # "never"
                         /\ (B(x).cls = "imm" \/ Age(x) > Delay(x))
        MustNot(x) == ~Forced(x) /\ ~B(x).mixed /\ B(x).cls = "never"
        \* classification detail only (never the verdict): does the log on disk hold, for this LockId on this key, lock
        \* records of which the start skips some as expired but not others (the skip rule is applied per record)?
        Recs == IF mm.havedisk THEN R!AllRecs(LoadedFiles(mm.disk)) ELSE <<>>
        LockRecsOf(db, key, lid) == {i \in 1..Len(Recs) : Recs[i].ty = 1 /\ Recs[i].db = db /\ Recs[i].key = key /\ Recs[i].lid = lid}
        SkipMix(db, key, lid) == LET I == LockRecsOf(db, key, lid)
                                 IN (\E i \in I : R!Dead(Recs[i], Thi)) /\ (\E i \in I : ~R!Dead(Recs[i], Tlo))
        SkipMixKey(db, key) == \E i \in 1..Len(Recs) : Recs[i].db = db /\ Recs[i].key = key /\ SkipMix(db, key, Recs[i].lid)
        \* a value recorded for an EARLIER lifetime of the key (the key had been released completely in between)
        StaleVal(db, key, v) == v # "" /\ \E i \in 1..Len(Recs) : Recs[i].db = db /\ Recs[i].key = key /\ Recs[i].data = v
        \* the hold had several deadlines during its life (re-lock / update) and the restart falls between them: its
        \* lock and unlock records carry different deadlines and the start skips "expired" records one by one
        MixB(b) == b.dmin < b.dmax /\ b.dmin <= Thi + b.umax + 1
        Mix(x) == SkipMix(x.db, x.key, x.h.lid) \/ MixB(B(x))
        MixKey(db, key) == SkipMixKey(db, key) \/ (\E x \in PH : x.db = db /\ x.key = key /\ MixB(B(x)))
                           \/ (\E id \in DOMAIN mm.gone : id[1] = db /\ id[2] = key /\ MixB(mm.gone[id]))
        \* several holders on the key and the terms (Count / Rcount / deadline) of one of them changed after it was taken:
        \* the log holds the records in the order they were PERSISTED, the replay re-runs the Count admission in that order
        ChgOnKey(db, key) == (\E y \in PH : y.db = db /\ y.key = key /\ y.n >= 2 /\ B(y).chg)
                             \/ (<<db, key>> \in DOMAIN mm.vt /\ mm.vt[<<db, key>>].kchg)
        \* the key is occupied, at the restart, by a hold that was NOT live at the stop point and whose own records were skipped
        \* one by one (its shortening re-lock and its UNLOCK record are "expired", its first LOCK record is not: A27 brings the
        \* released hold back) - the replayed request of the real holder is then refused by the Count admission
        Resurrected == {y \in RH : (~\E z \in PH : Id(z) = Id(y))
                                   /\ (SkipMix(y.db, y.key, y.h.lid) \/ (Id(y) \in DOMAIN mm.gone /\ MixB(mm.gone[Id(y)])))}
        Blocked(x) == \E y \in Resurrected : y.db = x.db /\ y.key = x.key /\ y.h.lid # x.h.lid
        Why(x) == IF Mix(x) \/ Blocked(x) THEN "expired-records-skipped-one-by-one"
                  ELSE IF B(x).upd /\ B(x).chg THEN "taken-with-update-flag-then-terms-changed"
                  \* the log holds NO lock record of this hold: nothing of it was replayed (so no admission was re-run) - it joined a key
                  \* whose oldest holder had another persistence class and inherited that holder's delay (A26)
                  ELSE IF B(x).inh /\ mm.havedisk /\ LockRecsOf(x.db, x.key, x.h.lid) = {} THEN "class-inherited-from-oldest-holder"
                  ELSE IF (x.n >= 2 \/ B(x).shared) /\ ChgOnKey(x.db, x.key) THEN "count-admission-replayed-in-persist-order"
                  ELSE IF B(x).inh THEN "class-inherited-from-oldest-holder"
                  ELSE IF B(x).cls \in {"dflt", "pct"} /\ Delay(x) >= 2 /\ ~Forced(x) THEN "delay-ge-2"
                  ELSE ""
        CI == [after_torn_tail |-> mm.ctx = "cut" /\ mm.cuttorn, after_missing_value_frame |-> mm.ctx = "cut" /\ mm.cutnoval, generation |-> IF mm.ctx = "" THEN 1 ELSE 2,
               after_free_running_startup_compaction |-> mm.freecpt]
        Det(x) == [db |-> x.db, key |-> x.key, lid |-> x.h.lid, cls |-> B(x).cls, delay |-> Delay(x), age |-> Age(x),
                   why |-> Why(x), holders_on_key |-> x.n, deadline |-> x.h.exp, restart_at |-> T, depth |-> x.h.depth,
                   recovered_from_log_before |-> Forced(x)] @@ CI
        Missing == {x \in PH : Must(x) /\ RecHoldOf(x.db, x.key, x.h.lid) = <<>>}
        Extra   == {x \in PH : MustNot(x) /\ RecHoldOf(x.db, x.key, x.h.lid) # <<>>}
        Unknown == {y \in RH : ~\E x \in PH : Id(x) = Id(y)}
        Restored == {x \in PH : RecHoldOf(x.db, x.key, x.h.lid) # <<>>}
        G(x) == RecHoldOf(x.db, x.key, x.h.lid)[1]
        BadField == {x \in Restored : G(x).depth # x.h.depth \/ G(x).cnt # x.h.cnt \/ G(x).rc # x.h.rc}
        BadDeadline == {x \in Restored : \/ (x.h.exp < 0) # (G(x).exp < 0)
                                         \/ /\ x.h.exp >= 0 /\ G(x).exp >= 0
                                            /\ (G(x).exp - x.h.exp > Unit(x) + 1 \/ x.h.exp - G(x).exp > Unit(x) + 1)}
        \* attached value: judged only where the statement leaves no doubt that the last change is persisted
        KeysRestored == {<<x.db, x.key>> : x \in Restored}
        PreData(k) == pre[CHOOSE i \in 1..Len(pre) : pre[i].db = k[1] /\ pre[i].key = k[2]].data
        RecData(k) == rec[CHOOSE i \in RecKeyIdx(k[1], k[2]) : TRUE].data
        \* second epoch after a crash image (C08, "whatever is persisted after that restart is recovered by the following one"):
        \* a value set by the request of a persist-immediately hold is in the log with that request's record at once
        ImmOnly(k) == mm.ctx = "cut" /\ \A x \in PH : (x.db = k[1] /\ x.key = k[2]) => (~Forced(x) /\ ~B(x).mixed /\ B(x).cls = "imm" /\ ~B(x).inh /\ x.n = 1)
        ValJudged(k) == /\ k \in DOMAIN mm.vt /\ ~mm.vt[k].bad
                        /\ mm.aoftime <= 1 /\ (mm.tstop - mm.vt[k].t > mm.aoftime \/ ImmOnly(k))
                        /\ \A x \in PH : (x.db = k[1] /\ x.key = k[2]) => (Forced(x) \/ (~B(x).mixed /\ B(x).cls \in {"imm", "dflt"} /\ ~B(x).inh))
        BadValue == {k \in KeysRestored : ValJudged(k) /\ PreData(k) # RecData(k)}
        m0 == [mm EXCEPT !.njudged = @ + Cardinality(PH), !.nmust = @ + Cardinality({x \in PH : Must(x)}),
                         !.nmustnot = @ + Cardinality({x \in PH : MustNot(x)}),
                         !.nmay = @ + Cardinality({x \in PH : ~Must(x) /\ ~MustNot(x)}),
                         !.nrestored = @ + Cardinality(Restored),
                         !.nvalchk = @ + Cardinality({k \in KeysRestored : ValJudged(k)}),
                         !.nvalskip = @ + Cardinality({k \in KeysRestored : ~ValJudged(k)})]
        m1 == Check(m0, e.ok, p, IF mm.ctx = "cut" THEN "second-restart-fails" ELSE "restart-fails", [err |-> e.err] @@ CI)
        m2 == FoldLeft(LAMBDA acc, x : Report(acc, p, IF mm.ctx = "cut" THEN "epoch2-hold-not-recovered" ELSE "due-hold-not-restored", Det(x)), m1, SetToSeq(Missing))
        m3 == FoldLeft(LAMBDA acc, x : Report(acc, p, "never-persist-hold-restored", Det(x)), m2, SetToSeq(Extra))
        m4 == FoldLeft(LAMBDA acc, y : Report(acc, p, "unknown-hold-restored", [db |-> y.db, key |-> y.key, lid |-> y.h.lid, depth |-> y.h.depth, deadline |-> y.h.exp,
                                                                            why |-> IF SkipMix(y.db, y.key, y.h.lid) \/ (Id(y) \in DOMAIN mm.gone /\ MixB(mm.gone[Id(y)]))
                                                                                    THEN "expired-records-skipped-one-by-one" ELSE ""] @@ CI), m3, SetToSeq(Unknown))
        \* the value was last set by the request of a hold whose own deadline is over at T: its record is skipped
        SetterSkipped(k) == k \in DOMAIN mm.vt /\ \E id \in mm.vt[k].by :
                                \/ (id \in DOMAIN mm.gone /\ mm.gone[id].dmin <= Thi + mm.gone[id].umax + 1)
                                \/ (id \in DOMAIN mm.born /\ mm.born[id].dmin <= Thi + mm.born[id].umax + 1)
        \* A27 / A31 / A28 explain a lost value by the loss of the record that carried it (its hold expired, was released and
        \* compacted away, ...).  They do not apply when ANOTHER hold - live at the stop point, due to be persisted, taken by a
        \* later request than the last value operation, and restored by this restart - exists on the key: every LOCK record
        \* written after a value operation carries the key's value (LockManager.AofLockData), so that hold's own record
        \* restores it.  A value lost although such a record was replayed is a violation of its own.
        LaterCarrier(k) == k \in DOMAIN mm.vt /\ PreData(k) # "" /\
                           \E x \in PH : x.db = k[1] /\ x.key = k[2] /\ Must(x) /\ x \in Restored /\ ~Forced(x)
                                          /\ B(x).bl > mm.vt[k].vl /\ Id(x) \notin mm.vt[k].by /\ ~B(x).mixed
        SetterGone(k) == k \in DOMAIN mm.vt /\ (mm.vt[k].left \/ (mm.vt[k].by # {} /\ \A id \in mm.vt[k].by : id \notin DOMAIN mm.born))
        WhyRec(x) == IF Mix(x) THEN "expired-records-skipped-one-by-one"
                     ELSE IF B(x).upd /\ B(x).chg THEN "taken-with-update-flag-then-terms-changed"
                     ELSE IF (x.n >= 2 \/ B(x).shared) /\ ChgOnKey(x.db, x.key) THEN "count-admission-replayed-in-persist-order"
                     ELSE IF B(x).updlater /\ x.h.depth >= 2 THEN "levels-persisted-late-with-the-update-flag-of-the-last-request" ELSE ""
        m5 == FoldLeft(LAMBDA acc, x : Report(acc, p, "restored-hold-differs",
                                              [db |-> x.db, key |-> x.key, lid |-> x.h.lid, was |-> [depth |-> x.h.depth, cnt |-> x.h.cnt, rc |-> x.h.rc],
                                               restored |-> [depth |-> G(x).depth, cnt |-> G(x).cnt, rc |-> G(x).rc], why |-> WhyRec(x)] @@ CI), m4, SetToSeq(BadField))
        m6 == FoldLeft(LAMBDA acc, x : Report(acc, p, "restored-deadline-off",
                                              [db |-> x.db, key |-> x.key, lid |-> x.h.lid, unit |-> Unit(x), was |-> x.h.exp, restored |-> G(x).exp, restart_at |-> T,
                                               ms |-> Bit(x.h.ef, 1024), why |-> WhyRec(x)] @@ CI), m5, SetToSeq(BadDeadline))
        m7 == FoldLeft(LAMBDA acc, k : Report(acc, p, "restored-value-differs",
                                              [db |-> k[1], key |-> k[2], was |-> PreData(k), restored |-> RecData(k),
                                               why |-> IF LaterCarrier(k) THEN "value-carried-by-the-record-of-a-later-live-hold-lost"
                                                       ELSE IF MixKey(k[1], k[2]) \/ SetterSkipped(k) THEN "expired-records-skipped-one-by-one"
                                                       ELSE IF \E x \in Missing \cup BadField \cup BadDeadline : x.db = k[1] /\ x.key = k[2] /\ Why(x) # ""
                                                            THEN Why(CHOOSE x \in Missing \cup BadField \cup BadDeadline : x.db = k[1] /\ x.key = k[2] /\ Why(x) # "")
                                                       ELSE IF SetterGone(k) THEN "value-set-by-a-hold-released-since"
                                                       ELSE IF PreData(k) = "" /\ StaleVal(k[1], k[2], RecData(k)) THEN "value-of-an-earlier-lifetime-of-the-key"
                                                       ELSE ""] @@ CI), m6, SetToSeq(BadValue))
    IN IF e.ok THEN m7 ELSE m1

-----------------------------------------------------------------------------
\* refinement (never a verdict): AofReplay!Recover of the decoded files against the real recovery
Refine(mm, e) ==
    IF ~mm.havedisk THEN mm
    ELSE LET files == LoadedFiles(mm.disk) IN
         IF ~e.ok \/ e.rlo # e.rhi \/ e.rnow # e.rlo \/ ~(\A i \in 1..Len(files) : files[i].hdr /\ files[i].torn = 0)
            \/ (mm.ctx = "cut" /\ (mm.cuttorn \/ mm.cutnoval))   \* files appended to behind a torn tail / a missing value frame are not replayed by the spec
         THEN [mm EXCEPT !.nrefskip = @ + 1]
         ELSE LET spec == R!Recover(files, e.rnow)
                  real == StateOf(e.keys)
                  m1 == [mm EXCEPT !.nrefine = @ + 1]
                  \* (a key taken again after a complete release may keep the value of its earlier lifetime: A28)
                  Same == /\ DOMAIN spec = DOMAIN real
                          /\ \A k \in DOMAIN spec : /\ R!KeyEq([spec[k] EXCEPT !.data = real[k].data], real[k])
                                                     /\ (real[k].data = spec[k].data \/ (spec[k].data = "" /\ real[k].data = spec[k].ghost))
              IN IF Same THEN m1
                 ELSE Diverge(m1, "recover", [img |-> e.img, role |-> e.role, at |-> e.rnow,
                                              spec_keys |-> SetToSeq(DOMAIN spec), real_keys |-> SetToSeq(DOMAIN real),
                                              spec |-> [i \in 1..Cardinality(DOMAIN spec) |-> spec[SetToSeq(DOMAIN spec)[i]]],
                                              real |-> [i \in 1..Cardinality(DOMAIN real) |-> real[SetToSeq(DOMAIN real)[i]]]])

-----------------------------------------------------------------------------
\* Bursts (C08).  A record is handed to the log writer BY REFERENCE (AofChannel.Push keeps the live value slice of the
\* key) and copied into the value file only when the channel goroutine gets to it.  The record a request persists
\* describes the value its own operation left; the monitor computes that value with the register interpreter of C15
\* (ValueReg!ApplyFrame over the observed value before the request) and adopts nothing from the log:
\*   bstep  the computed value must be what the instance shows after the request (else the request is an open case of
\*          C15 / an interleaving the fold does not cover: its records are not judged)
\*   bdisk  every value frame the burst put into a value file is the computed value of its record, byte for byte
\*          -> logged-value-frame-differs-from-record
\*   prefix / cut images: the value recovered for a key written by bursts is the value of one of its records up to the
\*          cut (or the value before the burst)      -> recovered-value-is-the-value-of-no-record-prefix
StepBBegin(mm, e) == [mm EXCEPT !.bq = <<>>, !.bcur = EmptyFn]

StepBStep(mm, e) ==
    LET k      == <<e.db, e.key>>
        known  == k \in DOMAIN mm.bcur
        before == e.pre.val
        ok0    == known => mm.bcur[k] = e.pre.val
        mine   == SelectSeq(e.replies, LAMBDA r : r.rid = e.rid)
        rep    == IF mine = <<>> THEN [res |-> -1, lc |-> 0, lrc |-> 0] ELSE mine[1]
        upd    == Bit(e.flag, 2)
        exec   == e.issued /\ mine # <<>> /\ ((e.cmd = "L" /\ rep.res = 0) \/ (e.cmd = "L" /\ rep.res = 5 /\ upd) \/ (e.cmd = "U" /\ rep.res = 0))
        open   == e.cmd = "L" /\ rep.res = 0 /\ e.ex = 0 /\ rep.lrc >= 1 /\ ~upd
        hasop  == e.op # <<>>
        wf     == V!WellFormedValue(before) /\ (hasop => (V!WellFormedFrame(e.op) /\ e.op[5] % 64 \notin {V!T_EXECUTE, V!T_PIPELINE} /\ e.op[5] \div 64 = 0))
        agn    == exec /\ hasop /\ (~wf \/ open \/ V!Agnostic(V!Dec(before), V!DecOp(e.op)))
        edge   == IF e.cmd = "L" THEN rep.lc = 1 ELSE (rep.lc = 0 /\ ~e.pre.waited)
        computed == IF exec /\ hasop /\ ~agn THEN V!ApplyFrame(before, e.op, edge) ELSE before
        ok     == ok0 /\ ~agn /\ Len(e.replies) <= 1 /\ computed = e.post.val
        \* the frame by which the log says "the key has no value" (lock.go NewLockManagerDataUnsetData)
        FrameOf(v) == IF v = <<>> THEN <<2, 0, 0, 0, V!T_UNSET, 0>> ELSE v
        Entry(p) == LET judged == ok /\ p.db = e.db /\ p.key = e.key /\ p.has /\ p.data = FrameOf(computed)
                    IN [db |-> p.db, key |-> p.key, lid |-> p.lid, ty |-> p.ty, has |-> p.has, atpush |-> p.data,
                        exp |-> IF judged THEN FrameOf(computed) ELSE p.data, hex |-> IF judged THEN e.post.hex ELSE "?", judged |-> judged, i |-> e.i,
                        prehex |-> e.pre.hex]
        bx     == IF k \in DOMAIN mm.bexp THEN mm.bexp[k] ELSE [pres |-> {}, recs |-> <<>>]
    IN [mm EXCEPT !.bq = @ \o [j \in 1..Len(e.pushed) |-> Entry(e.pushed[j])],
                  !.bcur = SetFn(@, k, e.post.val),
                  !.bexp = IF known THEN @ ELSE SetFn(@, k, [bx EXCEPT !.pres = @ \cup {e.pre.hex}]),
                  !.nbreq = @ + 1, !.nbagn = @ + (IF ok THEN 0 ELSE 1)]

StepBDisk(mm, e) ==
    LET P == mm.bq
        KeyOf(x) == <<x.db, x.key>>
        PKeys == {KeyOf(P[j]) : j \in 1..Len(P)}
        Unjudge(bexp) == [k \in DOMAIN bexp |-> IF k \in PKeys THEN [bexp[k] EXCEPT !.recs = Append(@, [file |-> "", n |-> 0, hex |-> "?", judged |-> FALSE])] ELSE bexp[k]]
    IN
    IF e.lost
    THEN \* a compaction replaced the files while the queue drained: the burst's records cannot be located
         [mm EXCEPT !.bq = <<>>, !.bexp = Unjudge(@), !.nbskip = @ + 1]
    ELSE
    LET F == e.files
        D == FoldLeft(LAMBDA acc, f : acc \o [j \in 1..Len(f.recs) |-> f.recs[j] @@ [file |-> f.name]], <<>>, F)
        \* the i-th record of a key in the files is the i-th record the burst pushed for that key (one channel per key, FIFO)
        RankD(i) == Cardinality({j \in 1..i : KeyOf(D[j]) = KeyOf(D[i])})
        PSet(i) == {j \in 1..Len(P) : KeyOf(P[j]) = KeyOf(D[i])}
        PIdx(i) == IF Cardinality(PSet(i)) < RankD(i) THEN 0
                   ELSE CHOOSE j \in PSet(i) : Cardinality({x \in PSet(i) : x <= j}) = RankD(i)
        matchOK == /\ Len(D) = Len(P)
                   /\ \A i \in 1..Len(D) : /\ PIdx(i) > 0
                                           /\ P[PIdx(i)].ty = D[i].ty /\ P[PIdx(i)].lid = D[i].lid /\ P[PIdx(i)].has = D[i].has
    IN
    IF ~matchOK
    THEN [Diverge(mm, "burst-records", [pushed |-> Len(P), on_disk |-> Len(D)]) EXCEPT !.bq = <<>>, !.bexp = Unjudge(@), !.nbskip = @ + 1]
    ELSE
    LET \* one value file: walk the value-carrying records of the file in order
        Base(fi) == FoldLeft(LAMBDA acc, f : acc + Len(f.recs), 0, SubSeq(F, 1, fi - 1))
        Walk(fi) ==
            LET f == F[fi]
                idx == SelectSeq([j \in 1..Len(f.recs) |-> Base(fi) + j], LAMBDA i : D[i].has)
                step(acc, i) ==
                    IF acc.stop THEN acc
                    ELSE LET p == P[PIdx(i)]
                             n == Len(p.exp)
                             hi == IF acc.off + n > Len(f.dbytes) THEN Len(f.dbytes) ELSE acc.off + n
                             got == SubSeq(f.dbytes, acc.off + 1, hi)
                         IN IF got = p.exp THEN [acc EXCEPT !.off = @ + n, !.nok = @ + (IF p.judged THEN 1 ELSE 0)]
                            ELSE [acc EXCEPT !.stop = TRUE,
                                             !.bad = IF p.judged
                                                     THEN <<[file |-> f.name, record_in_file |-> D[i].n, db |-> p.db, key |-> p.key, lid |-> p.lid,
                                                             request_of_burst |-> p.i, value_of_the_record |-> p.exp, on_disk |-> got,
                                                             handed_to_the_log |-> p.atpush, value_file_offset |-> f.dpre + acc.off,
                                                             why |-> IF p.atpush = p.exp THEN "frame-changed-between-hand-over-and-write" ELSE ""]>>
                                                     ELSE <<>>]
                res == FoldLeft(step, [off |-> 0, stop |-> FALSE, bad |-> <<>>, nok |-> 0, alljudged |-> \A i \in 1..Len(idx) : P[PIdx(idx[i])].judged], idx)
            IN IF ~res.stop /\ res.off # Len(f.dbytes) /\ res.alljudged
               THEN [res EXCEPT !.bad = <<[file |-> f.name, record_in_file |-> 0, bytes_of_no_record |-> Len(f.dbytes) - res.off, value_file_offset |-> f.dpre + res.off, why |-> ""]>>]
               ELSE res
        walks == [fi \in 1..Len(F) |-> Walk(fi)]
        m1 == FoldLeft(LAMBDA acc, fi : FoldLeft(LAMBDA a2, b : Report(a2, "C08", "logged-value-frame-differs-from-record", b @@ CI0(mm)), acc, walks[fi].bad),
                       mm, [fi \in 1..Len(F) |-> fi])
        nok == FoldLeft(LAMBDA acc, fi : acc + walks[fi].nok, 0, [fi \in 1..Len(F) |-> fi])
        \* the value-carrying records of every key in log order, for the image clauses
        NewRecs(k) == LET I == SelectSeq([i \in 1..Len(D) |-> i], LAMBDA i : KeyOf(D[i]) = k /\ D[i].has)
                      IN [x \in 1..Len(I) |-> [file |-> D[I[x]].file, n |-> D[I[x]].n, hex |-> P[PIdx(I[x])].hex, judged |-> P[PIdx(I[x])].judged]]
        bexp2 == [k \in DOMAIN m1.bexp |-> IF k \in PKeys THEN [m1.bexp[k] EXCEPT !.recs = @ \o NewRecs(k)] ELSE m1.bexp[k]]
    IN [m1 EXCEPT !.bq = <<>>, !.bexp = bexp2, !.nbrec = @ + Len(D), !.nbfrm = @ + nok]

\* the value recovered from a crash image for a key written by bursts
BurstImage(mm, e, N, file) ==
    IF ~e.ok THEN mm
    ELSE
    LET rec == e.keys
        Idx(k) == {x \in 1..Len(rec) : rec[x].db = k[1] /\ rec[x].key = k[2]}
        RecData(k) == rec[CHOOSE x \in Idx(k) : TRUE].data
        Recs(k) == mm.bexp[k].recs
        Jud(k) == Recs(k) # <<>> /\ \A i \in 1..Len(Recs(k)) : Recs(k)[i].judged
        Upto(k) == {i \in 1..Len(Recs(k)) : Recs(k)[i].file # file \/ Recs(k)[i].n <= N}
        Adm(k) == mm.bexp[k].pres \cup {Recs(k)[i].hex : i \in Upto(k)}
        cand == {k \in DOMAIN mm.bexp : Jud(k) /\ Idx(k) # {}}
        bad == {k \in cand : RecData(k) \notin Adm(k)}
        m1 == [mm EXCEPT !.nbimg = @ + Cardinality(cand)]
    IN FoldLeft(LAMBDA acc, k : Report(acc, "C08", "recovered-value-is-the-value-of-no-record-prefix",
                                       [db |-> k[1], key |-> k[2], recovered |-> RecData(k), values_of_the_record_prefixes |-> SetToSeq(Adm(k)),
                                        image |-> e.role, file |-> file, whole_records_before_cut |-> N,
                                        value_records_of_the_key_before_cut |-> Cardinality(Upto(k))]),
                m1, SetToSeq(bad))

-----------------------------------------------------------------------------
\* one recovery of an image
StepRec0(mm, e) ==
    LET m1 == Refine(mm, e)
        st == StateOf(e.keys)
    IN
    CASE e.role = "stop" ->
            \* a quiescent stop point of the first epoch: C07
            [Judge(m1, "C07", e) EXCEPT !.lastrec = e.keys]
      [] e.role = "restart" ->
            [Judge(m1, "C07", e) EXCEPT !.lastrec = e.keys]
      [] e.role = "stop2" ->
            \* restart after a second epoch: C08 (after a crash image) or C07 (after a clean restart)
            Judge(m1, IF mm.ctx = "cut" THEN "C08" ELSE "C07", e)
      [] e.role = "preflush" ->
            \* a crash image taken at aof.flush.enter (records still in the write buffer): the start must succeed; the second
            \* epoch that follows (e2begin ctx "cut") and the third start are judged by Judge under C08
            LET m2 == [m1 EXCEPT !.lastrec = e.keys, !.cuttorn = FALSE, !.cutnoval = FALSE, !.npreflush = @ + 1]
            IN IF ~e.ok THEN Report(m2, "C08", "start-fails-after-crash", [file |-> "", cut_at |-> -1, at |-> "aof.flush.enter", err |-> e.err,
                                                                           torn_record_or_header |-> FALSE, torn_tail |-> FALSE, value_file_torn |-> FALSE])
               ELSE m2
      [] e.role = "prefix" ->
            LET m2 == IF "file" \in DOMAIN e THEN BurstImage(m1, e, e.n, e.file) ELSE m1
            IN [m2 EXCEPT !.prefixes = Append(@, [ok |-> e.ok, st |-> st, t |-> e.rnow, lo |-> IF e.rlo < e.rnow THEN e.rlo ELSE e.rnow, hi |-> IF e.rhi > e.rnow THEN e.rhi ELSE e.rnow]), !.nprefix = @ + 1, !.lastrec = e.keys, !.cuttorn = FALSE, !.cutnoval = FALSE]
      [] e.role = "cut" ->
            LET n   == Len(m1.prefixes)
                adm == {i \in 1..n : i - 1 <= e.ncomp /\ m1.prefixes[i].ok}
                Later(i) == IF m1.prefixes[i].t > e.rnow THEN m1.prefixes[i].t ELSE e.rnow
                \* the prefix and the image were started at different seconds: keys with a record whose lifetime ends between
                \* the two starts (+- 2 s) are not compared (one start applies the record, the other skips it)
                crr == IF m1.havedisk THEN R!AllRecs(LoadedFiles(m1.disk)) ELSE <<>>
                clo == IF e.rlo < e.rnow THEN e.rlo ELSE e.rnow
                chi == IF e.rhi > e.rnow THEN e.rhi ELSE e.rnow
                TK(i) == R!TimeKeys(crr, (IF m1.prefixes[i].lo < clo THEN m1.prefixes[i].lo ELSE clo) - 2,
                                         (IF m1.prefixes[i].hi > chi THEN m1.prefixes[i].hi ELSE chi) + 2)
                hit == {i \in adm : R!StateEqAt(R!Without(m1.prefixes[i].st, TK(i)), R!Without(st, TK(i)), Later(i))}
                ntk == IF adm = {} THEN 0 ELSE Cardinality(TK(Max(adm)) \cap DOMAIN st)
                torn == (e.x < 12) \/ ((e.x - 12) % 64 # 0)
                dt  == m1.havedisk /\ \E i \in 1..Len(m1.disk) : m1.disk[i].name = e.file /\
                                           (m1.disk[i].dtorn > 0 \/ \E j \in 1..Len(m1.disk[i].recs) : m1.disk[i].recs[j].data = "-")
                tt  == torn \/ dt
                det == [file |-> e.file, cut_at |-> e.x, value_file_cut_at |-> e.y, whole_records_before_cut |-> e.ncomp,
                        torn_record |-> torn /\ e.x >= 12, torn_header |-> e.x < 12 /\ e.x > 0, torn_record_or_header |-> torn,
                        value_file_torn |-> dt, torn_tail |-> tt, err |-> e.err]
                m2 == [BurstImage(m1, e, e.ncomp, e.file) EXCEPT !.ncut = @ + 1, !.lastrec = e.keys, !.cuttorn = torn, !.cutnoval = dt, !.ntimeagn = @ + ntk]
            IN IF ~e.ok THEN Report(m2, "C08", "start-fails-after-crash", det)
               ELSE IF hit = {} THEN Report(m2, "C08", "recovered-state-is-no-record-prefix",
                                            det @@ [recovered_keys |-> SetToSeq(DOMAIN st), nprefixes |-> n, started_at |-> e.rnow,
                                                    \* classification detail: between the starts on the prefixes and this start, a record of a hold expired
                                                    \* while another LOCK record of the same hold did not (records are skipped one by one)
                                                    why |-> LET rr == IF m1.havedisk THEN R!AllRecs(LoadedFiles(m1.disk)) ELSE <<>>
                                                                t0 == IF n = 0 THEN e.rnow ELSE m1.prefixes[1].t
                                                            IN IF \E i \in 1..Len(rr) : R!Dead(rr[i], chi + 1) /\ ~R!Dead(rr[i], t0 - 2)
                                                                      /\ \E j \in 1..Len(rr) : rr[j].ty = 1 /\ rr[j].db = rr[i].db /\ rr[j].key = rr[i].key
                                                                                                /\ rr[j].lid = rr[i].lid /\ ~R!Dead(rr[j], t0 - 2)
                                                               THEN "expired-records-skipped-one-by-one" ELSE "",
                                                    differs_from_longest_admissible_prefix_on |->
                                                        IF adm = {} THEN <<>> ELSE SetToSeq(R!DiffKeysAt(m1.prefixes[Max(adm)].st, st, Later(Max(adm)))),
                                                    longest_admissible_prefix_started_at |-> IF adm = {} THEN 0 ELSE m1.prefixes[Max(adm)].t])
               ELSE m2
      [] e.role = "cptref" ->
            [m1 EXCEPT !.cptref = st, !.cptrefok = e.ok, !.havecptref = TRUE, !.cptreft = e.rnow, !.cptrefdisk = IF m1.havedisk THEN m1.disk ELSE <<>>,
                       !.cptreflo = IF e.rlo < e.rnow THEN e.rlo ELSE e.rnow, !.cptrefhi = IF e.rhi > e.rnow THEN e.rhi ELSE e.rnow]
      [] e.role = "cptimg" ->
            LET later == IF m1.cptreft > e.rnow THEN m1.cptreft ELSE e.rnow
                \* the two recoveries were started at different seconds on a busy machine: keys with a record whose lifetime
                \* ends between the two starts (+- 2 s) are not compared
                clo == IF e.rlo < e.rnow THEN e.rlo ELSE e.rnow
                chi == IF e.rhi > e.rnow THEN e.rhi ELSE e.rnow
                wlo == (IF m1.cptreflo < clo THEN m1.cptreflo ELSE clo) - 2
                whi == (IF m1.cptrefhi > chi THEN m1.cptrefhi ELSE chi) + 2
                tk  == R!TimeKeys(R!AllRecs(LoadedFiles(m1.cptrefdisk)), wlo, whi)
                ref == R!Without(m1.cptref, tk)
                img == R!Without(st, tk)
                both == DOMAIN ref \cap DOMAIN img
                \* "the same holds, depths, deadlines and values": both states were recovered by the same code, the compacted files
                \* should hold the very records of the replaced ones.  A seconds-unit deadline is CommandTime + ExpriedTime + 1
                \* whatever the second of the start: it must come back EXACTLY.  Where a minute-unit (or millisecond-unit) request
                \* is involved on either side the tolerance stays one unit + 1 s: such a deadline is computed from the second of
                \* the start, and the replay of a minute-unit update skips it when the hold's deadline is within a minute of it
                \* (so which of two close updates survives depends on the other records present - seen on the unchanged code).
                Coarse(h) == Bit(h.ef, 64) \/ Bit(h.ef, 1024)
                Tol(a, b) == IF Coarse(a) \/ Coarse(b)
                             THEN (IF R!UnitOf(a.ef) > R!UnitOf(b.ef) THEN R!UnitOf(a.ef) ELSE R!UnitOf(b.ef)) + 1
                             ELSE 0
                bad == R!DiffKeysAtT(ref, img, later, Tol)
                chg == bad \cap both
                nexact == Cardinality(UNION {{<<k, i>> : i \in {i \in 1..Len(ref[k].H) : ref[k].H[i].exp < INF /\ ~Coarse(ref[k].H[i]) /\ ~R!Near(ref[k].H[i], later)}} : k \in both})
                \* classification detail only: which records of the replaced files are missing from the image's files
                rr == R!AllRecs(LoadedFiles(m1.cptrefdisk))
                ir == IF m1.havedisk THEN R!AllRecs(LoadedFiles(m1.disk)) ELSE <<>>
                Same(a, b) == a.ty = b.ty /\ a.db = b.db /\ a.key = b.key /\ a.lid = b.lid /\ a.ct = b.ct /\ a.et = b.et /\ a.fl = b.fl /\ a.cnt = b.cnt /\ a.rc = b.rc
                Dropped == {i \in 1..Len(rr) : <<rr[i].db, rr[i].key>> \in bad /\ ~R!Dead(rr[i], e.rnow) /\ ~\E j \in 1..Len(ir) : Same(rr[i], ir[j])}
                HeldInRef(i) == <<rr[i].db, rr[i].key>> \in DOMAIN ref /\ R!IdxOfLid(ref[<<rr[i].db, rr[i].key>>].H, rr[i].lid) > 0
                SameId(a, b) == a.db = b.db /\ a.key = b.key /\ a.lid = b.lid
                RefSkipMix == \E i \in 1..Len(rr) : <<rr[i].db, rr[i].key>> \in bad /\ R!Dead(rr[i], whi)
                                                     /\ \E j \in 1..Len(rr) : SameId(rr[i], rr[j]) /\ rr[j].ty = 1 /\ ~R!Dead(rr[j], wlo)
                \* does a record of the replaced files describe the terms its hold has when those files are recovered (it is the
                \* record that set them last)?  The compaction filter (LockDB.HasLock -> CheckLockedEqual) drops update-flag
                \* records whose terms are no longer the holder's: A30 is about those.  A dropped update-flag record that DOES
                \* describe the current terms is another matter (the moved deadline is lost).
                RecDl(r) == R!DeadlineOf(r.ef, R!ReplayExpried(r, m1.cptreft), m1.cptreft)
                RefHold(i) == LET H == ref[<<rr[i].db, rr[i].key>>].H IN H[R!IdxOfLid(H, rr[i].lid)]
                Current(i) == HeldInRef(i) /\ RefHold(i).exp = RecDl(rr[i]) /\ RefHold(i).cnt = rr[i].cnt /\ RefHold(i).rc = rr[i].rc
                why == IF RefSkipMix THEN "expired-records-skipped-one-by-one"
                       ELSE IF \E i \in Dropped : rr[i].ty = 1 /\ Bit(rr[i].fl, 2) /\ HeldInRef(i) /\ ~Current(i) THEN "record-of-live-hold-taken-with-update-flag-dropped"
                       ELSE IF \E i \in Dropped : rr[i].ty = 1 /\ Bit(rr[i].fl, 2) /\ Current(i) THEN "update-record-with-the-current-terms-of-a-live-hold-dropped"
                       ELSE IF Dropped # {} /\ (\A i \in Dropped : ~HeldInRef(i)) /\ (\E i \in Dropped : R!HasData(rr[i]))
                                 /\ (\A k \in bad : k \in both /\ Len(ref[k].H) = Len(img[k].H)) THEN "value-set-by-released-hold-dropped"
                       ELSE ""
                \* the deadlines of the holds on the changed keys, both sides (report detail)
                Dls(S, k) == IF k \in DOMAIN S THEN [i \in 1..Len(S[k].H) |-> [lid |-> S[k].H[i].lid, depth |-> S[k].H[i].depth, deadline |-> S[k].H[i].exp]] ELSE <<>>
                chgseq == SetToSeq(chg)
                det == [run |-> e.run, crash_after |-> e.step, err |-> e.err, trigger |-> e.trigger, why |-> why,
                        changed_keys |-> chgseq, dropped_records |-> Cardinality(Dropped),
                        from_replaced_files |-> [x \in 1..Len(chgseq) |-> Dls(ref, chgseq[x])],
                        from_compacted_files |-> [x \in 1..Len(chgseq) |-> Dls(img, chgseq[x])],
                        values_from_replaced_files |-> [x \in 1..Len(chgseq) |-> IF chgseq[x] \in DOMAIN ref THEN ref[chgseq[x]].data ELSE ""],
                        values_from_compacted_files |-> [x \in 1..Len(chgseq) |-> IF chgseq[x] \in DOMAIN img THEN img[chgseq[x]].data ELSE ""],
                        starts_at |-> <<m1.cptreft, e.rnow>>]
                m2 == [m1 EXCEPT !.ncpt = @ + 1, !.havecptref = FALSE, !.ncptexact = @ + (IF e.final /\ e.ok /\ m1.cptrefok THEN nexact ELSE 0),
                                  !.ntimeagn = @ + Cardinality(tk \cap (DOMAIN m1.cptref \cup DOMAIN st))]
            IN IF ~m1.havecptref \/ ~m1.cptrefok THEN m2
               ELSE IF ~e.ok THEN Report(m2, "C16", IF e.final THEN "start-fails-after-compaction" ELSE "start-fails-after-interrupted-compaction", det)
               ELSE IF ~R!StateEqAtT(ref, img, later, Tol)
                    THEN Report(m2, "C16", IF e.final THEN "compaction-changed-recoverable-state"
                                           ELSE "interrupted-compaction-changed-recoverable-state",
                                det @@ [reference_keys |-> SetToSeq(DOMAIN ref), image_keys |-> SetToSeq(DOMAIN img),
                                        nlost |-> Cardinality(bad \ DOMAIN img),
                                        lost_keys |-> SetToSeq(bad \ DOMAIN img), extra_keys |-> SetToSeq(bad \ DOMAIN ref)])
               ELSE m2
      [] OTHER -> m1

\* the decoded files belong to the recovery that follows them immediately
StepRec(mm, e) == [StepRec0(mm, e) EXCEPT !.havedisk = FALSE]

\* second epoch on a recovered instance: every hold it starts with came out of the log
StepE2Begin(mm, e) ==
    LET keys == mm.lastrec
        ids == UNION {{<<keys[i].db, keys[i].key, keys[i].holds[j].lid>> : j \in 1..Len(keys[i].holds)} : i \in 1..Len(keys)}
    IN [mm EXCEPT !.ctx = e.ctx, !.forced = ids, !.rel = {}, !.live = keys, !.gone = EmptyFn,
                  !.freecpt = IF "cpt" \in DOMAIN e THEN e.cpt = "faithful" ELSE FALSE,
                  !.born = [id \in ids |-> [t |-> e.rt, bl |-> 0, cls |-> "imm", mixed |-> FALSE, inh |-> FALSE, dmin |-> INF, dmax |-> INF, umax |-> 1,
                                              upd |-> FALSE, chg |-> FALSE, updlater |-> FALSE, shared |-> FALSE, terms |-> <<0, 0, 0>>]],
                  !.vt = EmptyFn]

StepE2End(mm, e) == [mm EXCEPT !.ctx = "", !.forced = {}, !.born = EmptyFn, !.rel = {}, !.vt = EmptyFn, !.live = <<>>, !.gone = EmptyFn, !.freecpt = FALSE]

StepReq(mm, e) == IF e.cmd = "L" /\ Bit(e.flag, 2) THEN [mm EXCEPT !.updnow = @ \cup {<<e.db, e.key, e.lid>>}] ELSE mm

Step(mm, e) ==
    CASE e.e = "begin"   -> StepBegin(mm, e)
      [] e.e = "req"     -> StepReq(mm, e)
      [] e.e = "end"     -> StepEnd(mm, e)
      [] e.e = "reply"   -> StepReply(mm, e)
      [] e.e = "hsnap"   -> StepLive(mm, e)
      [] e.e = "stop"    -> StepStop(mm, e)
      [] e.e = "disk"    -> StepDisk(mm, e)
      [] e.e = "rec"     -> StepRec(mm, e)
      [] e.e = "e2begin" -> StepE2Begin(mm, e)
      [] e.e = "e2end"   -> StepE2End(mm, e)
      [] e.e = "bbegin"  -> StepBBegin(mm, e)
      [] e.e = "bstep"   -> StepBStep(mm, e)
      [] e.e = "bdisk"   -> StepBDisk(mm, e)
      [] OTHER           -> mm

Init == l = 1 /\ m = M0
Next == /\ l <= Len(Trace)
        /\ m' = Step(m, Trace[l])
        /\ l' = l + 1
Spec == Init /\ [][Next]_vars

NoViolation == m.nv = 0
TraceConsumed == TLCGet("stats").diameter - 1 = Len(Trace)
=============================================================================

------------------------------- MODULE MonLock -------------------------------
(***************************************************************************)
(* Property monitors for the lock engine, phrased over OBSERVABLE events   *)
(* only (requests, replies, call returns, clock ticks) plus, where the     *)
(* property itself speaks about something no reply shows ("queued at the   *)
(* head", STATE counters), the canonical snapshot.                         *)
(*                                                                         *)
(* The monitor contains NO copy of the engine's decision logic: it keeps   *)
(* the set of outstanding holds per key exactly as the properties define   *)
(* it ("outstanding from its SUCCED reply until its unlock is accepted, it *)
(* expires, or it is rolled back") and judges every event against the      *)
(* property statements C01 C02 C03 C04 C05 C06 C17.  It is deliberately    *)
(* permissive about everything the statements leave open.                  *)
(*                                                                         *)
(* It is a trace specification: TLC reads the ndjson trace recorded from   *)
(* the real code, the (deterministic) next-state relation consumes one     *)
(* line per step.  Each violated clause is reported by a PrintT line       *)
(*   "VIOL {json}"                                                         *)
(* and counted in m.nv; the run-level verdict is the invariant NoViolation *)
(* (evaluated by TLC in every state) - the driver collects the VIOL lines  *)
(* so that known findings can be told from new violations.                 *)
(***************************************************************************)
EXTENDS Integers, Sequences, FiniteSets, TLC, Json, SequencesExt, FiniteSetsExt

CONSTANTS TraceFile,      \* path of the ndjson trace
          Props           \* set of property ids whose clauses are active, e.g. {"C01","C03"}

Trace == ndJsonDeserialize(TraceFile)

VARIABLES l, m
vars == <<l, m>>

-----------------------------------------------------------------------------
\* result codes (protocol/command.go)
SUCCED == 0   LOCKED_ERROR == 5   UNLOCK_ERROR == 6   UNOWN_ERROR == 7
TIMEOUT == 8  EXPRIED == 9        STATE_ERROR == 10   ERROR == 11   ACK_WAITING == 12

Bit(x, b) == (x \div b) % 2 = 1

\* lock flags
F_SHOW == 1   F_UPDATE == 2   F_CONC == 8   F_DATA == 32
\* unlock flags
UF_FIRST == 1   UF_CANCEL == 2
\* timeout flags
TF_PRIO == 16   TF_MINUTE == 64   TF_WAITUNLOCK == 512   TF_MS == 1024   TF_ACK == 4096
\* expiry flags
EF_MINUTE == 64   EF_MS == 1024   EF_UNLIMITED == 16384

INF == 2000000000

EmptyFn == [x \in {} |-> 0]

\* millisecond stamp of an event (real-time engine; 0 on the virtual clock)
Ms(e) == IF "ms" \in DOMAIN e THEN e.ms ELSE 0

KeyOf(e) == <<e.db, e.key>>

HoldsOf(mm, k) == IF k \in DOMAIN mm.holds THEN mm.holds[k] ELSE <<>>
WqOf(mm, k)    == IF k \in DOMAIN mm.wq THEN mm.wq[k] ELSE <<>>

SetFn(f, k, v) == [x \in (DOMAIN f) \cup {k} |-> IF x = k THEN v ELSE f[x]]

DepthSum(H) == FoldLeft(LAMBDA acc, h : acc + h.depth, 0, H)

IdxOfLid(H, lid) == LET I == {i \in 1..Len(H) : H[i].lid = lid}
                    IN IF I = {} THEN 0 ELSE Min(I)

RemoveIdx(S, i) == SubSeq(S, 1, i - 1) \o SubSeq(S, i + 1, Len(S))

Prio(r) == IF Bit(r.tf, TF_PRIO) THEN r.rc ELSE 0

\* timeout / expiry of a request in whole server seconds (ms requests are judged separately)
TimeoutS(r) == IF Bit(r.tf, TF_MS) THEN r.to \div 1000 ELSE IF Bit(r.tf, TF_MINUTE) THEN r.to * 60 ELSE r.to
ExpriedS(r) == IF Bit(r.ef, EF_MS) THEN r.ex \div 1000 ELSE IF Bit(r.ef, EF_MINUTE) THEN r.ex * 60 ELSE r.ex
UnitS(r)    == IF Bit(r.ef, EF_MINUTE) THEN 60 ELSE 1

\* C01, as stated: the holds already outstanding number at most the request's Count and at
\* most the Count of the oldest outstanding holder (a holder's Count is that of the request that
\* last set its terms: the grant, or a later successful re-lock or update).
AdmissibleStmt(H, c) ==
    \/ DepthSum(H) = 0
    \/ /\ DepthSum(H) <= c
       /\ DepthSum(H) <= Head(H).cnt

-----------------------------------------------------------------------------
\* violation reporting

Active(p) == p \in Props

Report(mm, p, code, e, detail) ==
    IF Active(p)
    THEN IF PrintT("VIOL " \o ToJson([prop |-> p, code |-> code, line |-> l, trace |-> mm.tr, name |-> mm.name,
                                      t |-> mm.t, detail |-> detail]))
         THEN [mm EXCEPT !.nv = @ + 1] ELSE mm
    ELSE mm

\* apply a sequence of <<cond, prop, code, detail>> checks
Check(mm, cond, p, code, e, detail) == IF cond THEN mm ELSE Report(mm, p, code, e, detail)

-----------------------------------------------------------------------------
\* monitor state

M0 == [ reqs |-> EmptyFn,   \* request id -> record (parameters, st \in {"open","queued","done"}, tq)
        holds |-> EmptyFn,  \* <<db,key>> -> sequence of outstanding holds, oldest first
        wq |-> EmptyFn,     \* <<db,key>> -> ids of queued lock requests in arrival order
        taint |-> {},       \* <<key, lid>> pairs with two hold records for one LockId (finding A12): depth is ambiguous there
        nv |-> 0, t |-> 0, tr |-> 0, name |-> "", seq |-> TRUE, status |-> 1 ]

NewHold(r, t) == [ gms |-> 0, slack |-> 1, exms |-> r.ex, lid |-> r.lid, depth |-> 1, cnt |-> r.cnt, rc |-> r.rc, rids |-> {r.id},
                   lo |-> IF Bit(r.ef, EF_UNLIMITED) THEN INF ELSE t + ExpriedS(r),
                   hi |-> IF Bit(r.ef, EF_UNLIMITED) THEN INF ELSE t + ExpriedS(r),
                   short |-> FALSE, ms |-> Bit(r.ef, EF_MS), since |-> t, aof |-> FALSE ]

-----------------------------------------------------------------------------
\* event: begin / end of one recorded history

StepBegin(mm, e) == [M0 EXCEPT !.nv = mm.nv, !.tr = e.idx, !.name = e.name, !.t = e.t,
                               !.seq = IF "mode" \in DOMAIN e THEN e.mode = "seq" ELSE TRUE]

Unanswered(mm) == {id \in DOMAIN mm.reqs : mm.reqs[id].st # "done"}

StepEnd(mm, e) ==
    IF "complete" \in DOMAIN e /\ e.complete
    THEN LET U == Unanswered(mm)
             m1 == Check(mm, U = {}, "C03", "request-never-answered", e, [ids |-> SetToSeq(U)])
             Ums == {id \in U : mm.reqs[id].cmd = "L" /\ Bit(mm.reqs[id].tf, TF_MS)}
             m2 == Check(m1, Ums = {}, "C05", "ms-timeout-never-fired", e, [ids |-> SetToSeq(Ums)])
             Hms == {kk \in DOMAIN mm.holds : \E j \in 1..Len(mm.holds[kk]) : mm.holds[kk][j].ms /\ mm.holds[kk][j].lo < INF}
         IN IF mm.seq THEN m2
            ELSE Check(m2, Hms = {} \/ mm.status # 1, "C06", "ms-expiry-never-fired", e, [keys |-> SetToSeq(Hms)])
    ELSE mm

-----------------------------------------------------------------------------
\* event: request sent, call returned

StepReq(mm, e) ==
    LET r == [id |-> e.id, conn |-> e.conn, cmd |-> e.cmd, db |-> e.db, key |-> e.key, lid |-> e.lid, flag |-> e.flag,
              tf |-> e.tf, ef |-> e.ef, to |-> e.to, ex |-> e.ex, cnt |-> e.cnt, rc |-> e.rc, t |-> e.t,
              st |-> "open", tq |-> 0, nterm |-> 0, ldr |-> (mm.status = 1), ms |-> Ms(e)]
    IN [mm EXCEPT !.reqs = SetFn(@, e.id, r), !.t = e.t]

StepRet(mm, e) ==
    LET r == mm.reqs[e.id] IN
    IF r.st # "open" THEN mm
    ELSE \* the call returned without a terminal reply: the request is queued (or ack-pending)
      LET k  == <<r.db, r.key>>
          m1 == [mm EXCEPT !.reqs[e.id].st = "queued", !.reqs[e.id].tq = e.t,
                           !.wq = IF r.cmd = "L" THEN SetFn(@, k, Append(WqOf(mm, k), e.id)) ELSE @]
          m2 == Check(m1, r.cmd = "L", "C03", "unlock-returned-without-reply", e, [id |-> e.id])
          m3 == Check(m2, ~(r.cmd = "L" /\ r.to = 0 /\ ~Bit(r.tf, TF_ACK)), "C05", "timeout0-request-left-queued", e, [id |-> e.id])
      IN m3

-----------------------------------------------------------------------------
\* event: reply

\* common C17 clause for replies in sequential histories: LCount = outstanding holds on the key,
\* LRCount = depth of the LockId named in the reply, both after the event took effect
CheckCounts(mm, e, k) ==
    IF ~mm.seq \/ mm.status # 1 THEN mm ELSE
    LET H  == HoldsOf(mm, k)
        i  == IdxOfLid(H, e.lid)
        d  == IF i = 0 THEN 0 ELSE H[i].depth
        m1 == Check(mm, e.lc = DepthSum(H) % 65536, "C17", "reply-lcount-wrong", e,
                    [rid |-> e.rid, res |-> e.res, lc |-> e.lc, truth |-> DepthSum(H)])
        \* (the concurrent-check fast path answers TIMEOUT before looking at the LockId: not judged)
        fast == e.res = TIMEOUT /\ e.rid \in DOMAIN mm.reqs /\ Bit(mm.reqs[e.rid].flag, F_CONC)
        m2 == Check(m1, fast \/ <<k, e.lid>> \in mm.taint \/ e.lrc = d % 256, "C17", "reply-lrcount-wrong", e,
                    [rid |-> e.rid, res |-> e.res, lrc |-> e.lrc, truth |-> d])
    IN m2

DropFromWq(mm, k, id) == [mm EXCEPT !.wq = IF k \in DOMAIN @ THEN [@ EXCEPT ![k] = SelectSeq(@, LAMBDA x : x # id)] ELSE @]

IdxOfId(Q, id) == LET I == {i \in 1..Len(Q) : Q[i] = id} IN IF I = {} THEN 0 ELSE Min(I)

\* C04 order clause, evaluated when a QUEUED request is granted
CheckGrantOrder(mm, e, r, k) ==
    LET Q   == WqOf(mm, k)
        pos == IdxOfId(Q, r.id)
        earlier == {Q[j] : j \in 1..(pos - 1)}
        overtaken == {id \in earlier : Prio(mm.reqs[id]) >= Prio(r)}
        higher == {Q[j] : j \in 1..Len(Q)} \ {r.id}
        higherWaiting == {id \in higher : Prio(mm.reqs[id]) > Prio(r)}
        m1 == Check(mm, overtaken = {}, "C04", "grant-overtakes-earlier-waiter", e,
                    [granted |-> r.id, overtaken |-> SetToSeq(overtaken)])
        m2 == Check(m1, higherWaiting = {}, "C04", "grant-before-higher-priority-waiter", e,
                    [granted |-> r.id, waiting |-> SetToSeq(higherWaiting)])
    IN m2

\* a lock request answered SUCCED
LockSucced(mm, e, r, k) ==
    LET H == HoldsOf(mm, k)
        i == IdxOfLid(H, r.lid)
        wasQueued == r.st = "queued"
        m0 == IF wasQueued THEN DropFromWq(CheckGrantOrder(mm, e, r, k), k, r.id) ELSE mm
        \* C04: a NEWCOMER (never queued, not a holder of the key) is granted although a live request of equal or
        \* higher priority is queued on the key: newcomers queue behind waiters (the `waited` flag); only a strictly
        \* higher priority may pass.  Judged in sequential histories (the queue is then exactly what the events say);
        \* waiters of the wait-until-unlocked kind do not hold newcomers back (they wait for the key to be released).
        ahead == {id \in {WqOf(mm, k)[j] : j \in 1..Len(WqOf(mm, k))} :
                     /\ id # r.id /\ mm.reqs[id].st = "queued"
                     /\ ~Bit(mm.reqs[id].tf, TF_WAITUNLOCK)
                     /\ Prio(mm.reqs[id]) >= Prio(r)}
        m00 == IF mm.seq /\ mm.status = 1 /\ ~wasQueued /\ i = 0 /\ r.ex > 0 /\ H # <<>>
               THEN Check(m0, ahead = {}, "C04", "newcomer-overtakes-queued-request", e,
                          [granted |-> r.id, prio |-> Prio(r), waiting |-> SetToSeq(ahead)])
               ELSE m0
    IN
    IF r.ex = 0 THEN m0      \* success without a hold (a zero-expiry hold ends at once)
    ELSE IF i = 0 \/ wasQueued
    THEN \* new holder: the C01 clause
         \* (a QUEUED request granted while its LockId already holds the key is a second grant to that
         \*  LockId, not a re-lock: C02 allows at most Rcount further successes - reported under its own code)
         LET mq == Check(m00, i = 0, "C02", "queued-request-granted-to-holding-lockid", e,
                         [rid |-> r.id, key |-> r.key, lid |-> r.lid, rc |-> r.rc])
             m1 == Check(mq, AdmissibleStmt(H, r.cnt), "C01", "grant-exceeds-count", e,
                         [rid |-> r.id, key |-> r.key, lid |-> r.lid, cnt |-> r.cnt, outstanding |-> DepthSum(H),
                          oldest |-> IF H = <<>> THEN -1 ELSE Head(H).cnt])
         IN [m1 EXCEPT !.holds = SetFn(@, k, Append(H, [NewHold(r, e.t) EXCEPT !.gms = IF wasQueued THEN Ms(e) ELSE r.ms, !.slack = IF wasQueued THEN 50 ELSE 1])),
                       !.taint = IF i = 0 THEN @ ELSE @ \cup {<<k, r.lid>>}]
    ELSE \* re-lock by the holder: depth + 1, terms restart (C02 clause: at most Rcount more times)
         LET h  == H[i]
             m2 == Check(m0, h.depth <= r.rc /\ h.depth < 255 /\ ~Bit(r.tf, TF_PRIO), "C02", "relock-beyond-rcount", e,
                         [rid |-> r.id, lid |-> r.lid, depth |-> h.depth, rc |-> r.rc])
             \* the unlimited-expiry flag with Expried = 0xffff (the "keep the deadline" word, see LockUpdate): the statement
             \* does not say whether such a re-lock makes the hold unlimited or leaves its deadline alone - both readings
             \* are accepted: the hold may end from its old deadline on, and no lateness is claimed
             keep == Bit(r.ef, EF_UNLIMITED) /\ r.ex = 65535
             nh == IF keep
                   THEN [h EXCEPT !.depth = @ + 1, !.cnt = r.cnt, !.rc = r.rc, !.rids = {r.id}, !.hi = INF]
                   ELSE [h EXCEPT !.depth = @ + 1, !.cnt = r.cnt, !.rc = r.rc, !.rids = {r.id},
                             !.lo = IF Bit(r.ef, EF_UNLIMITED) THEN INF ELSE e.t + ExpriedS(r),
                             !.hi = IF Bit(r.ef, EF_UNLIMITED) THEN INF ELSE e.t + ExpriedS(r),
                             !.short = (~Bit(r.ef, EF_UNLIMITED) /\ e.t + ExpriedS(r) < h.lo),
                             !.ms = Bit(r.ef, EF_MS), !.since = e.t, !.gms = r.ms, !.slack = 1, !.exms = r.ex]
         IN [m2 EXCEPT !.holds = SetFn(@, k, [H EXCEPT ![i] = nh])]

\* a lock request with the update flag answered LOCKED_ERROR while its LockId (or, with the show
\* flag, the oldest holder) is outstanding: the update may have been applied
LockUpdate(mm, e, r, k) ==
    LET H == HoldsOf(mm, k)
        i == IdxOfLid(H, e.lid)
    IN IF i = 0 THEN mm ELSE
       LET h == H[i]
           keep == Bit(r.ef, EF_UNLIMITED) /\ r.ex = 65535
           d == IF Bit(r.ef, EF_UNLIMITED) THEN INF ELSE e.t + ExpriedS(r)
           near(x) == (IF d > x THEN d - x ELSE x - d) <= UnitS(r)
           mayIgnore == near(h.lo) \/ near(h.hi)
           nh == IF keep THEN [h EXCEPT !.rids = @ \cup {r.id}, !.cnt = r.cnt, !.rc = r.rc]
                 ELSE IF mayIgnore
                 THEN [h EXCEPT !.rids = @ \cup {r.id}, !.cnt = r.cnt, !.rc = r.rc,
                                !.lo = IF d < @ THEN d ELSE @, !.hi = IF d > @ THEN d ELSE @]
                 ELSE [h EXCEPT !.rids = {r.id}, !.cnt = r.cnt, !.rc = r.rc, !.lo = d, !.hi = d,
                                !.short = (d < h.lo) \/ h.short, !.ms = Bit(r.ef, EF_MS), !.gms = r.ms, !.slack = 1, !.exms = r.ex]
       IN [mm EXCEPT !.holds = SetFn(@, k, [H EXCEPT ![i] = nh])]

\* EXPRIED notice for the hold whose terms were last set by request r
LockExpried(mm, e, r, k) ==
    LET H == HoldsOf(mm, k)
        I == {i \in 1..Len(H) : r.id \in H[i].rids}
    IN IF I = {}
       THEN Report(mm, "C03", "expried-notice-without-hold", e, [rid |-> r.id, key |-> r.key])
       ELSE LET i  == Min(I)
                h  == H[i]
                m0 == Check(mm, h.ms \/ e.t >= h.lo, "C06", "expired-early", e,
                            [rid |-> r.id, lid |-> h.lid, t |-> e.t, notbefore |-> h.lo])
                \* millisecond expiry (real-time engine): lower bound only.  The period is measured from the SEND stamp of
                \* the request that set the terms (the timer cannot start earlier; 1 ms of truncation tolerated) or, for a
                \* grant from the queue, from the stamp of its SUCCED reply, which is taken a little after the timer
                \* started (50 ms measurement tolerance); judged only
                \* when the terms are certainly those of one request (no update that may have been ignored)
                m1 == Check(m0, ~h.ms \/ Cardinality(h.rids) # 1 \/ Ms(e) - h.gms >= h.exms - h.slack - (IF h.exms >= 3000 THEN 1000 ELSE 0), "C06", "expired-early-ms", e,
                            [rid |-> r.id, lid |-> h.lid, after_ms |-> Ms(e) - h.gms, expried_ms |-> h.exms])
                m2 == Check(m1, h.lo < INF, "C06", "unlimited-hold-expired", e, [rid |-> r.id, lid |-> h.lid])
                \* C10: a node that is not the leader does not end a replicated (persisted) hold on its own clock
                \* before 300 s past the deadline
                m3 == Check(m2, mm.status = 1 \/ ~h.aof \/ e.t >= h.lo + 300, "C10", "non-leader-expired-replicated-hold", e,
                            [rid |-> r.id, lid |-> h.lid, t |-> e.t, deadline |-> h.lo])
            IN [m3 EXCEPT !.holds = SetFn(@, k, RemoveIdx(H, i))]

\* a queued lock request answered TIMEOUT / cancelled (UNLOCK_ERROR)
LockTimeout(mm, e, r, k) ==
    LET m1 == IF r.st = "queued"
              THEN LET ma == Check(mm, Bit(r.tf, TF_MS) \/ e.t - r.tq >= TimeoutS(r), "C05", "timeout-early", e,
                                   [rid |-> r.id, waited |-> e.t - r.tq, timeout |-> TimeoutS(r)])
                   \* (a millisecond term of 3 s and more is handed to the second ring and kept in SERVER seconds; the server's
                      \*  second counter is written once a second and can lag the wall clock by up to a second on a busy machine)
                      IN Check(ma, ~Bit(r.tf, TF_MS) \/ Ms(e) - r.ms >= r.to - 1 - (IF r.to >= 3000 THEN 1000 ELSE 0), "C05", "timeout-early-ms", e,
                            [rid |-> r.id, waited_ms |-> Ms(e) - r.ms, timeout_ms |-> r.to])
              ELSE mm
        \* "... unless it is granted or cancelled first": a request that already has its answer draws no TIMEOUT
        m2 == Check(m1, r.st # "done", "C05", "timeout-after-answer", e, [rid |-> r.id, t |-> e.t])
    IN DropFromWq(m2, k, r.id)

StepLockReply(mm, e, r, k) ==
    IF e.res = EXPRIED /\ r.st = "done"
    THEN CheckCounts(LockExpried(mm, e, r, k), e, k)
    ELSE
      LET m1 == Check(mm, r.st # "done", "C03", "second-terminal-reply", e, [rid |-> r.id, res |-> e.res])
          m2 == [m1 EXCEPT !.reqs[r.id].st = "done", !.reqs[r.id].nterm = @ + 1]
          m3 == CASE e.res = SUCCED -> LockSucced(m2, e, r, k)
                  [] e.res = LOCKED_ERROR /\ Bit(r.flag, F_UPDATE) -> DropFromWq(LockUpdate(m2, e, r, k), k, r.id)
                  [] e.res = TIMEOUT -> LockTimeout(m2, e, r, k)
                  [] OTHER -> DropFromWq(m2, k, r.id)
          \* C10: a node that is not the leader decides nothing
          m4 == IF ~r.ldr
                \* (the concurrent-check fast path refuses with TIMEOUT from the local - replicated - state before the
                \*  role is looked at; it grants, queues and releases nothing and a leader in that state answers the same)
                THEN Check(m3, e.res = STATE_ERROR \/ (Bit(r.flag, F_CONC) /\ r.to = 0 /\ e.res = TIMEOUT), "C10", "non-leader-answered-lock", e, [rid |-> r.id, res |-> e.res])
                ELSE m3
      IN CheckCounts(m4, e, k)

\* an unlock request answered SUCCED
UnlockSucced(mm, e, r, k) ==
    LET H == HoldsOf(mm, k)
        i == IdxOfLid(H, e.lid)
        own == IdxOfLid(H, r.lid)
        first == Bit(r.flag, UF_FIRST)
    IN
    IF i = 0
    THEN Report(mm, "C02", "unlock-accepted-without-hold", e, [rid |-> r.id, key |-> r.key, lid |-> e.lid])
    ELSE
      LET m1 == Check(mm, e.lid = r.lid \/ (first /\ own = 0 /\ i = 1), "C02", "unlock-released-foreign-hold", e,
                      [rid |-> r.id, asked |-> r.lid, released |-> e.lid, first |-> first])
          h  == H[i]
          \* with unlock-first the terms of the released hold are copied into the command before the
          \* depth rule is applied; the reply shows them (agnostic: adopt what the reply reports)
          rcEff == IF e.lid # r.lid THEN e.rc ELSE r.rc
          one == h.depth > 1 /\ rcEff > 0 /\ ~Bit(r.tf, TF_PRIO) /\ (e.lid = r.lid)
          oneFirst == h.depth > 1 /\ e.lid # r.lid /\ rcEff > 0
          newH == IF one \/ (oneFirst /\ e.lrc = h.depth - 1)
                  THEN [H EXCEPT ![i].depth = @ - 1]
                  ELSE RemoveIdx(H, i)
      IN [m1 EXCEPT !.holds = SetFn(@, k, newH)]

\* an unlock request refused with UNLOCK_ERROR / UNOWN_ERROR
UnlockRefused(mm, e, r, k) ==
    LET H == HoldsOf(mm, k)
        own == IdxOfLid(H, r.lid)
    IN Check(mm, own = 0, "C02", "unlock-of-outstanding-hold-refused", e, [rid |-> r.id, lid |-> r.lid, res |-> e.res])

\* cancel-wait: the canceller is answered LOCKED_ERROR, the cancelled queued request UNLOCK_ERROR
UnlockCancelled(mm, e, r, k) ==
    LET Q == WqOf(mm, k)
        victims == {id \in {Q[j] : j \in 1..Len(Q)} : mm.reqs[id].lid = r.lid}
        m1 == Check(mm, Bit(r.flag, UF_CANCEL) /\ victims # {}, "C02", "cancel-reported-without-queued-request", e,
                    [rid |-> r.id, lid |-> r.lid])
       \* the cancelled request left the queue in this critical section; its own UNLOCK_ERROR reply is sent after
       \* the canceller's and may be overtaken by other sections under concurrency
    IN [m1 EXCEPT !.wq = IF k \in DOMAIN @ THEN [@ EXCEPT ![k] = SelectSeq(@, LAMBDA x : x \notin victims)] ELSE @]

StepUnlockReply(mm, e, r, k) ==
    LET m1 == Check(mm, r.st # "done", "C03", "second-terminal-reply", e, [rid |-> r.id, res |-> e.res])
        m2 == [m1 EXCEPT !.reqs[r.id].st = "done", !.reqs[r.id].nterm = @ + 1]
        m3 == CASE e.res = SUCCED -> UnlockSucced(m2, e, r, k)
                [] e.res \in {UNLOCK_ERROR, UNOWN_ERROR} -> UnlockRefused(m2, e, r, k)
                [] e.res = LOCKED_ERROR -> UnlockCancelled(m2, e, r, k)
                [] OTHER -> m2
        m4 == IF ~r.ldr
              THEN Check(m3, e.res = STATE_ERROR \/ (e.res = UNLOCK_ERROR /\ HoldsOf(mm, k) = <<>>), "C10", "non-leader-answered-unlock", e,
                         [rid |-> r.id, res |-> e.res])
              ELSE m3
    IN CheckCounts(m4, e, k)

StepReply(mm0, e) ==
    LET mm == [mm0 EXCEPT !.t = e.t] IN
    IF e.rid \notin DOMAIN mm.reqs
    THEN Report(mm, "C03", "reply-with-unknown-request-id", e, [conn |-> e.conn, rid |-> e.rid, res |-> e.res])
    ELSE
      LET r  == mm.reqs[e.rid]
          k  == <<r.db, r.key>>
          m1 == Check(mm, r.conn = e.conn, "C03", "reply-delivered-to-wrong-connection", e,
                      [rid |-> e.rid, sent_on |-> r.conn, delivered_to |-> e.conn])
      IN IF r.cmd = "L" THEN StepLockReply(m1, e, r, k) ELSE StepUnlockReply(m1, e, r, k)

-----------------------------------------------------------------------------
\* event: tock (all sweeps of second e.t are done) - the upper time bounds of C05 / C06

LateWaiters(mm, t) ==
    {id \in DOMAIN mm.reqs : LET r == mm.reqs[id] IN
        /\ r.st = "queued" /\ r.cmd = "L" /\ ~Bit(r.tf, TF_MS) /\ ~Bit(r.tf, TF_ACK)
        /\ t - r.tq > TimeoutS(r) + 2}

LateHolds(mm, t) ==
    {<<k, i>> \in UNION {{<<kk, j>> : j \in 1..Len(mm.holds[kk])} : kk \in DOMAIN mm.holds} :
        LET h == mm.holds[k][i] IN
        /\ ~h.ms /\ h.hi < INF
        /\ t > h.hi + (IF h.short THEN 10 ELSE 2)}

StepTock(mm0, e) ==
    LET mm == [mm0 EXCEPT !.t = e.t] IN
    IF mm.status # 1 THEN mm ELSE
    LET LW == LateWaiters(mm, e.t)
        LH == LateHolds(mm, e.t)
        m1 == Check(mm, LW = {}, "C05", "timeout-late", e, [ids |-> SetToSeq(LW), t |-> e.t])
        m2 == Check(m1, LH = {}, "C06", "expiry-late", e,
                    [holds |-> SetToSeq({[key |-> x[1], lid |-> mm.holds[x[1]][x[2]].lid, due |-> mm.holds[x[1]][x[2]].hi] : x \in LH}), t |-> e.t])
        \* report each lateness once: forget the late entries
        m3 == [m2 EXCEPT !.reqs = [id \in DOMAIN @ |-> IF id \in LW THEN [@[id] EXCEPT !.st = "done"] ELSE @[id]],
                         !.holds = [kk \in DOMAIN @ |-> SelectSeq(@[kk], LAMBDA h : ~(~h.ms /\ h.hi < INF /\ e.t > h.hi + (IF h.short THEN 10 ELSE 2)))]]
    IN IF LW = {} /\ LH = {} THEN mm ELSE m3

-----------------------------------------------------------------------------
\* event: snapshot at a quiescent point - C04 head-of-queue clause, C17 STATE counters

SnapKeyHolds(mm, ks) == HoldsOf(mm, <<ks.db, ks.key>>)

StepSnap(mm0, e) ==
    LET mm == [mm0 EXCEPT !.t = e.t]
        K  == 1..Len(e.keys)
        \* C04: no key has a live queued request at the head of its queue that could be admitted
        Stuck == {i \in K : LET ks == e.keys[i] IN
                    /\ Len(ks.waiters) > 0
                    /\ ~Bit(ks.waiters[1].tf, TF_WAITUNLOCK)
                    /\ ~Bit(ks.waiters[1].tf, TF_ACK)
                    /\ AdmissibleStmt(SnapKeyHolds(mm, ks), ks.waiters[1].cnt)}
        m1 == IF mm.status = 1
              THEN Check(mm, Stuck = {}, "C04", "admissible-head-waiter-left-queued", e,
                         [keys |-> SetToSeq({[db |-> e.keys[i].db, key |-> e.keys[i].key, rid |-> e.keys[i].waiters[1].rid,
                                               cnt |-> e.keys[i].waiters[1].cnt,
                                               outstanding |-> DepthSum(SnapKeyHolds(mm, e.keys[i]))] : i \in Stuck})])
              ELSE mm
        \* C04, the same sentence judged on the REQUESTS: the live queued requests of a key are, by definition, the lock
        \* requests whose call returned without an answer and that have not been answered, cancelled or timed out since -
        \* whether or not the server's own queue structure still contains them (a request that fell out of the structure
        \* is still "queued" for its client: it is never granted, only timed out).  The head is the one the statement's
        \* order puts first (priority descending, arrival ascending).  Judged in sequential histories on a leader (the
        \* snapshot point is then quiescent by construction and the event order is the order of the critical sections);
        \* keys with a wait-until-unlocked or ack-pending request in their queue are left to the snapshot clause above.
        LiveQ(k) == SelectSeq(WqOf(mm, k), LAMBDA id : mm.reqs[id].st = "queued")
        Plain(k) == \A j \in 1..Len(LiveQ(k)) : ~Bit(mm.reqs[LiveQ(k)[j]].tf, TF_WAITUNLOCK) /\ ~Bit(mm.reqs[LiveQ(k)[j]].tf, TF_ACK)
        HeadId(Q) == LET P == Max({Prio(mm.reqs[Q[j]]) : j \in 1..Len(Q)})
                     IN Q[Min({j \in 1..Len(Q) : Prio(mm.reqs[Q[j]]) = P})]
        StuckEv == {k \in DOMAIN mm.wq : LiveQ(k) # <<>> /\ Plain(k)
                                           /\ AdmissibleStmt(HoldsOf(mm, k), mm.reqs[HeadId(LiveQ(k))].cnt)}
        m1b == IF mm.seq /\ mm.status = 1
               THEN Check(m1, StuckEv = {}, "C04", "admissible-queued-request-not-served", e,
                          [keys |-> SetToSeq({[db |-> k[1], key |-> k[2], rid |-> HeadId(LiveQ(k)), cnt |-> mm.reqs[HeadId(LiveQ(k))].cnt,
                                                queued |-> Len(LiveQ(k)), outstanding |-> DepthSum(HoldsOf(mm, k))] : k \in StuckEv})])
               ELSE m1
        \* C17: STATE counters equal the true numbers
        Dbs == {mm.reqs[id].db : id \in DOMAIN mm.reqs}
        TrueLocked(d) == FoldSet(LAMBDA k, acc : acc + DepthSum(mm.holds[k]), 0, {k \in DOMAIN mm.holds : k[1] = d})
        TrueWait(d) == Cardinality({id \in DOMAIN mm.reqs : mm.reqs[id].st = "queued" /\ mm.reqs[id].db = d /\ mm.reqs[id].cmd = "L"
                                                             /\ ~Bit(mm.reqs[id].tf, TF_ACK)})
        BusyKeys(d) == Cardinality({k \in DOMAIN mm.holds : k[1] = d /\ mm.holds[k] # <<>>}
                                   \cup {<<d, mm.reqs[id].key>> : id \in {x \in DOMAIN mm.reqs : mm.reqs[x].st = "queued" /\ mm.reqs[x].db = d /\ mm.reqs[x].cmd = "L"}})
        DbName(d) == ToString(d)
        BadLocked == {d \in Dbs : DbName(d) \in DOMAIN e.st /\ e.st[DbName(d)].locked # TrueLocked(d)}
        BadWait   == {d \in Dbs : DbName(d) \in DOMAIN e.st /\ e.st[DbName(d)].wait # TrueWait(d)}
        BadKeys   == {d \in Dbs : DbName(d) \in DOMAIN e.st /\ e.st[DbName(d)].keys < BusyKeys(d)}
        m2 == Check(m1b, BadLocked = {}, "C17", "state-lockedcount-wrong", e,
                    [dbs |-> SetToSeq({[db |-> d, reported |-> e.st[DbName(d)].locked, truth |-> TrueLocked(d)] : d \in BadLocked})])
        m3 == Check(m2, BadWait = {}, "C17", "state-waitcount-wrong", e,
                    [dbs |-> SetToSeq({[db |-> d, reported |-> e.st[DbName(d)].wait, truth |-> TrueWait(d)] : d \in BadWait})])
        m4 == Check(m3, BadKeys = {}, "C17", "state-keycount-below-busy-keys", e,
                    [dbs |-> SetToSeq({[db |-> d, reported |-> e.st[DbName(d)].keys, busy |-> BusyKeys(d)] : d \in BadKeys})])
        \* C17 drained clause (final snapshot of a history that released everything)
        AllKeys == FoldSet(LAMBDA d, acc : acc + (IF DbName(d) \in DOMAIN e.st THEN e.st[DbName(d)].keys ELSE 0), 0, Dbs)
        m5 == IF "final" \in DOMAIN e /\ e.final /\ mm.status = 1
              THEN Check(m4, AllKeys = 0 /\ e.nkeys = 0 /\ e.tw = 0 /\ e.ew = 0 /\ Len(e.keys) = 0, "C17", "not-reclaimed-after-drain", e,
                         [keycount |-> AllKeys, live_keys |-> e.nkeys, live_timeout_entries |-> e.tw, live_expiry_entries |-> e.ew])
              ELSE m4
        \* "the keys' values are gone, and no internal record of a finished request is reachable": a key record that went
        \* back to the pool of recycled records (not live) carries no value, no holder and no count of the key it served -
        \* the next key that is given this record would inherit them.  Judged on every snapshot.
        m5b == IF "pooled_dirty" \in DOMAIN e
               THEN Check(m5, e.pooled_dirty = 0, "C17", "recycled-key-record-keeps-state-of-its-old-key", e,
                          [records |-> e.pooled_dirty, value |-> e.pooled_value])
               ELSE m5
        \* learn which holds are persisted / replicated (needed by the C10 expiry clause)
        AofOf(kk, lid) == LET I == {i \in K : <<e.keys[i].db, e.keys[i].key>> = kk} IN
                          IF I = {} THEN FALSE
                          ELSE LET ks == e.keys[CHOOSE i \in I : TRUE]
                                   J == {j \in 1..Len(ks.holders) : ks.holders[j].lid = lid}
                               IN IF J = {} THEN FALSE ELSE ks.holders[CHOOSE j \in J : TRUE].aof
        learn(x) == [x EXCEPT !.holds = [kk \in DOMAIN x.holds |-> [j \in 1..Len(x.holds[kk]) |->
                                             [x.holds[kk][j] EXCEPT !.aof = x.holds[kk][j].aof \/ AofOf(kk, x.holds[kk][j].lid)]]]]
        \* C10: while the node is not the leader its holds and queue are exactly what the events explain
        \* (nothing granted, queued or released on its own)
        SnapLids(kk) == LET I == {i \in K : <<e.keys[i].db, e.keys[i].key>> = kk} IN
                        IF I = {} THEN {} ELSE {e.keys[CHOOSE i \in I : TRUE].holders[j].lid : j \in 1..Len(e.keys[CHOOSE i \in I : TRUE].holders)}
        MonLids(kk) == {mm.holds[kk][j].lid : j \in 1..Len(mm.holds[kk])}
        AllK == (DOMAIN mm.holds) \cup {<<e.keys[i].db, e.keys[i].key>> : i \in K}
        Diff == {kk \in AllK : SnapLids(kk) # (IF kk \in DOMAIN mm.holds THEN MonLids(kk) ELSE {})}
        m6 == IF mm.status # 1 /\ mm.seq
              THEN Check(m1b, Diff = {}, "C10", "non-leader-holds-changed", e, [keys |-> SetToSeq(Diff)])
              ELSE m1b
    IN learn(IF mm.seq /\ mm.status = 1 THEN m5b ELSE m6)

-----------------------------------------------------------------------------
\* role change: the upper expiry bound of C06 is claimed on a leader only; holds that live through a
\* non-leader period are re-armed by the follower rule, so their lateness is not judged any more
StepStatus(mm, e) ==
    [mm EXCEPT !.status = e.status, !.t = e.t,
               \* a request in flight while the node becomes the leader (again) may be decided as a leader
               !.reqs = IF e.status = 1
                        THEN [i \in DOMAIN mm.reqs |-> IF mm.reqs[i].st = "open" THEN [mm.reqs[i] EXCEPT !.ldr = TRUE] ELSE mm.reqs[i]]
                        ELSE @,
               !.holds = [kk \in DOMAIN mm.holds |-> [j \in 1..Len(mm.holds[kk]) |-> [mm.holds[kk][j] EXCEPT !.hi = INF]]]]

\* engine C: the request left its entry yield point (lock.mgr.got / unlock.mgr.got: after the key manager
\* lookup, BEFORE the shard mutex is taken).  A role change holds every shard mutex, so the role recorded
\* here (the status event is written under those mutexes) is the role the request's whole critical section
\* runs under: from here on a request on a non-leader is a request "reaching a node that is not the leader".
StepPass(mm, e) ==
    IF e.id \in DOMAIN mm.reqs /\ mm.reqs[e.id].st = "open" /\ mm.status # 1
    THEN [mm EXCEPT !.reqs[e.id].ldr = FALSE]
    ELSE mm

Step(mm, e) ==
    CASE e.e = "begin"  -> StepBegin(mm, e)
      [] e.e = "end"    -> StepEnd(mm, e)
      [] e.e = "req"    -> StepReq(mm, e)
      [] e.e = "ret"    -> StepRet(mm, e)
      [] e.e = "reply"  -> StepReply(mm, e)
      [] e.e = "tock"   -> StepTock(mm, e)
      [] e.e = "snap"   -> StepSnap(mm, e)
      [] e.e = "status" -> StepStatus(mm, e)
      [] e.e = "pass"   -> StepPass(mm, e)
      [] OTHER          -> mm

Init == l = 1 /\ m = M0

Next == /\ l <= Len(Trace)
        /\ m' = Step(m, Trace[l])
        /\ l' = l + 1

Spec == Init /\ [][Next]_vars

\* the run-level verdict (the driver reads the VIOL lines; NoViolation is what TLC itself checks
\* when the cfg names it as an INVARIANT)
NoViolation == m.nv = 0

\* acceptance: the whole trace was consumed
TraceConsumed == TLCGet("stats").diameter - 1 = Len(Trace)

=============================================================================

------------------------------ MODULE MonCrash ------------------------------
(***************************************************************************)
(* C13 over request SEQUENCES: every request the sequential engine issues  *)
(* is a well-formed 64-byte LOCK / UNLOCK frame, so a panic of the real    *)
(* code while it executes a history of such requests (or the timer sweeps  *)
(* between them) is a crash a client can cause.  The trace spec consumes   *)
(* the recorded history and reports every `panic` event.                   *)
(***************************************************************************)
EXTENDS Integers, Sequences, TLC, Json

CONSTANTS TraceFile, Props
Trace == ndJsonDeserialize(TraceFile)

VARIABLES l, m
vars == <<l, m>>

Report(mm, e) ==
    IF PrintT("VIOL " \o ToJson([prop |-> "C13", code |-> "engine-panic@" \o e.site, line |-> l, trace |-> mm.tr, name |-> mm.name,
                                  detail |-> [msg |-> e.msg, op |-> e.op, nreq |-> mm.nreq]]))
    THEN [mm EXCEPT !.nv = @ + 1] ELSE mm

Step(mm, e) ==
    CASE e.e = "begin" -> [mm EXCEPT !.tr = e.idx, !.name = e.name, !.nreq = 0]
      [] e.e = "req"   -> [mm EXCEPT !.nreq = @ + 1]
      [] e.e = "panic" -> Report(mm, e)
      \* engine W (real Server.handle + protocol objects over in-memory streams): the harness process died in the code under
      \* test while it served this history of well-formed requests
      [] e.e = "wreq"   -> [mm EXCEPT !.nreq = @ + 1]
      [] e.e = "wcrash" -> Report(mm, [site |-> e.frame, msg |-> e.fatal, op |-> "connection"])
      [] OTHER -> mm

Init == l = 1 /\ m = [tr |-> 0, name |-> "", nreq |-> 0, nv |-> 0]
Next == l <= Len(Trace) /\ m' = Step(m, Trace[l]) /\ l' = l + 1
Spec == Init /\ [][Next]_vars
NoViolation == m.nv = 0
TraceConsumed == TLCGet("stats").diameter - 1 = Len(Trace)
=============================================================================

------------------------------ MODULE MonOutBuf ------------------------------
(***************************************************************************)
(* Trace specification for the output-path phase of property C13 "no       *)
(* client byte stream can crash the server".  TLC reads the ndjson trace   *)
(* recorded by engine W (harness/inpkg/server/zz_verif_proto_test.go) for  *)
(* deliveries made from behaviours of spec/OutBufGen.tla: pipelined        *)
(* batches whose replies put the connection's 4096-byte writer buffer at   *)
(* every position relative to its boundary.  One line per delivery.        *)
(*                                                                         *)
(* VIOL  (property C13, the same three clauses as spec/mon/MonProto.tla)   *)
(*   connection-goroutine-panic / server-process-died /                    *)
(*   other-connection-not-served                                           *)
(* OBS   reply-stream-corrupted: what the client read back is not exactly  *)
(*       one complete reply per request (unparseable stream, a reply       *)
(*       missing, twice, of the wrong length or content).  C13 speaks of   *)
(*       the process and of OTHER connections only, so this is reported as *)
(*       an observation, not as a C13 verdict.                             *)
(* DIVERGE  refinement: the sizes of the server's writes or the order of   *)
(*       the replies differ from what the implementation-shaped model      *)
(*       spec/OutBuf.tla computes for the same replies (never a verdict)   *)
(* BIND  the class sequence recomputed here from the recorded sizes is not *)
(*       the one the generator printed for the behaviour (the concretiser  *)
(*       did not transport the behaviour), or the line is malformed        *)
(* MODEL the as-coded model itself overruns on the recorded sizes          *)
(***************************************************************************)
EXTENDS OutBuf

CONSTANTS TraceFile, Props

Trace == ndJsonDeserialize(TraceFile)

VARIABLES l, m
mvars == <<l, m>>

Has(e, f) == f \in DOMAIN e
Report(mm, kind, rec) == IF PrintT(kind \o " " \o ToJson(rec)) THEN mm ELSE mm
Viol(mm, e, code, detail) ==
    IF "C13" \in Props
    THEN [Report(mm, "VIOL", [prop |-> "C13", code |-> code, line |-> l, name |-> e.name, idx |-> e.idx, detail |-> detail]) EXCEPT !.nv = @ + 1]
    ELSE mm

WellFormed(e) ==
    /\ Has(e, "e") /\ Has(e, "name") /\ Has(e, "idx") /\ e.e \in {"d", "late"}
    /\ e.e = "d" => /\ Has(e, "obs") /\ Has(e, "panic") /\ Has(e, "done") /\ Has(e, "probe") /\ Has(e, "probe2")
                    /\ e.panic \in BOOLEAN /\ e.done \in BOOLEAN
                    /\ (Has(e, "ob") /\ e.done) => Len(e.ob) = Len(e.obs)

Frames(o) == IF Has(o, "frames") THEN o.frames ELSE <<>>
Chunks(o) == IF Has(o, "chunks") THEN o.chunks ELSE <<>>
Junk(o) == IF Has(o, "junk") THEN o.junk ELSE -1

\* ------------------------------------------------------------------ a binary batch
\* exactly one complete reply per request: right type, data length and content
BinComplete(x, o) ==
    LET fr == Frames(o)
    IN /\ Junk(o) = -1
       /\ Len(fr) = Len(x.rids)
       /\ \A i \in 1..Len(x.rids) :
            LET mine == {j \in 1..Len(fr) : fr[j].rid = x.rids[i]}
            IN /\ Cardinality(mine) = 1
               /\ \A j \in mine : fr[j].t = x.expect[i].t /\ fr[j].d = x.expect[i].d /\ fr[j].sum = x.expect[i].sum

BinStep(mm, e, i) ==
    LET x == e.ob[i]
        o == e.obs[i]
        model == RunStep(x.replies, x.writes)
        labels == StepLabels(x.replies, x.writes)
        ends == StepEnds(x.replies, x.writes)
        near == {ends[j] - Cap : j \in {jj \in 1..Len(ends) : ends[jj] >= Cap - 2 * H /\ ends[jj] <= Cap + 2 * H}}
        m0 == [mm EXCEPT !.steps = @ + 1]
        m1 == IF Safe(model) THEN m0 ELSE [Report(m0, "MODEL", [name |-> e.name, why |-> "the as-coded model overruns on these sizes", replies |-> x.replies]) EXCEPT !.nm = @ + 1]
        m2 == IF x.pat = <<>> \/ x.pat = labels THEN m1
              ELSE [Report(m1, "BIND", [line |-> l, name |-> e.name, why |-> "class sequence differs from the generator's", pat |-> x.pat, labels |-> labels]) EXCEPT !.nb = @ + 1]
        complete == BinComplete(x, o)
        \* coverage counts only what the real server really produced: the replies read back are the ones the pattern names
        m3 == IF complete THEN [m2 EXCEPT !.complete = @ + 1, !.labels = @ \cup {labels[j] : j \in 1..Len(labels)}, !.near = @ \cup near]
              ELSE [Report(m2, "OBS", [code |-> "reply-stream-corrupted", line |-> l, name |-> e.name, idx |-> e.idx, junk |-> Junk(o), expected |-> Len(x.rids), got |-> Len(Frames(o)),
                                       labels |-> labels, sizes |-> [j \in 1..Len(Frames(o)) |-> Frames(o)[j].n]]) EXCEPT !.no = @ + 1]
        expOrder == LET w == WireOrder(model) IN [j \in 1..Len(w) |-> x.rids[w[j]]]
        obsOrder == [j \in 1..Len(Frames(o)) |-> Frames(o)[j].rid]
        m4 == IF ~complete \/ (ChunkSizes(model) = Chunks(o) /\ expOrder = obsOrder) THEN m3
              ELSE [Report(m3, "DIVERGE", [name |-> e.name, idx |-> e.idx, labels |-> labels, model_chunks |-> ChunkSizes(model), chunks |-> Chunks(o),
                                           order_as_model |-> (expOrder = obsOrder)]) EXCEPT !.nd = @ + 1]
    IN m4

\* ------------------------------------------------------------------ a text batch: replies come one per request, in order
TextStep(mm, e, i) ==
    LET x == e.ob[i]
        o == e.obs[i]
        fr == Frames(o)
        ok == /\ Junk(o) = -1
              /\ IF x.expect # <<>>
                 THEN /\ Len(fr) = Len(x.expect)
                      /\ \A j \in 1..Len(fr) : fr[j].t = x.expect[j].t /\ fr[j].d = x.expect[j].d /\ fr[j].n = x.expect[j].n /\ fr[j].sum = x.expect[j].sum
                 ELSE Len(fr) = x.count /\ \A j \in 1..Len(fr) : fr[j].t = 42 /\ fr[j].n = fr[1].n
        m0 == [mm EXCEPT !.steps = @ + 1]
    IN IF ok THEN [m0 EXCEPT !.complete = @ + 1]
       ELSE [Report(m0, "OBS", [code |-> "reply-stream-corrupted", line |-> l, name |-> e.name, idx |-> e.idx, junk |-> Junk(o), got |-> Len(fr),
                                sizes |-> [j \in 1..Len(fr) |-> fr[j].n]]) EXCEPT !.no = @ + 1]

RECURSIVE Steps(_, _, _)
Steps(mm, e, i) ==
    IF i > Len(e.ob) \/ i > Len(e.obs) THEN mm
    ELSE LET x == e.ob[i]
             o == e.obs[i]
             \* nothing to compare when the step was not run, or was cut short by a panic
             skip == ~Has(x, "fam") \/ x.fam = "none" \/ o.blocked \/ ~Has(o, "junk")
             m1 == IF skip THEN mm ELSE IF x.fam = "bin" THEN BinStep(mm, e, i) ELSE TextStep(mm, e, i)
         IN Steps(m1, e, i + 1)

StepLine(mm, e) ==
    IF ~WellFormed(e) THEN [Report(mm, "BIND", [line |-> l, why |-> "malformed trace line"]) EXCEPT !.nb = @ + 1]
    ELSE IF e.e = "late"
    THEN Viol(mm, e, "connection-goroutine-panic", [site |-> e.site, kind |-> e.kind, late |-> TRUE])
    ELSE
      LET m1 == IF e.panic THEN Viol(mm, e, "connection-goroutine-panic", [site |-> e.site, kind |-> e.kind, late |-> FALSE]) ELSE mm
          m2 == IF ~e.done THEN Viol(m1, e, "server-process-died", [site |-> e.site, kind |-> e.kind]) ELSE m1
          m3 == IF e.done /\ ~e.panic /\ ~(e.probe = "ok" /\ e.probe2 = "ok")
                THEN Viol(m2, e, "other-connection-not-served", [old |-> e.probe, fresh |-> e.probe2, fam |-> "ob", k |-> e.name])
                ELSE m2
          m4 == IF e.done /\ ~e.panic /\ Has(e, "ob") THEN Steps(m3, e, 1) ELSE m3
      IN [m4 EXCEPT !.nl = @ + 1]

Summary(mm) == PrintT("SUMMARY " \o ToJson([lines |-> mm.nl, steps |-> mm.steps, complete |-> mm.complete, labels |-> mm.labels, near |-> mm.near,
                                             viol |-> mm.nv, obs |-> mm.no, diverge |-> mm.nd, bind |-> mm.nb, model |-> mm.nm]))

Init == l = 1 /\ m = [nv |-> 0, nd |-> 0, nb |-> 0, no |-> 0, nm |-> 0, nl |-> 0, steps |-> 0, complete |-> 0, labels |-> {}, near |-> {}]

Next == /\ l <= Len(Trace)
        /\ m' = StepLine(m, Trace[l])
        /\ l' = l + 1
        /\ (l = Len(Trace)) => Summary(m')

Spec == Init /\ [][Next]_mvars

TraceConsumed == TLCGet("stats").diameter - 1 = Len(Trace)
=============================================================================

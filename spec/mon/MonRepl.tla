------------------------------- MODULE MonRepl -------------------------------
(***************************************************************************)
(* Property monitor / trace specification for C09                          *)
(*   "Followers apply the leader's log exactly and converge".              *)
(*                                                                         *)
(* It is phrased over OBSERVATIONS of a real process cluster only:         *)
(*   L      one record of the leader's log, in the order a reference       *)
(*          follower (the checker's own tap, connected before the          *)
(*          workload, never cut) received it                               *)
(*   sync / resp / W / fdone / cut / disc / fkill / fstart                 *)
(*          what the fault proxy on the leader->follower link of follower  *)
(*          f saw: the position the follower asked to resume from, the     *)
(*          leader's answer, every record that was forwarded COMPLETELY    *)
(*          (phase files / live), where the link was cut                   *)
(*   quiet  leader idle, followers polled                                  *)
(*   F      one record found in a node's AOF files at quiescence           *)
(*   snap   canonical state of a node: live (admin SHOW), recovered from   *)
(*          a copy of its directory by the server's own start-up path, or  *)
(*          "given": recovered from exactly the records the proxy          *)
(*          delivered to that follower since its last full transfer        *)
(*                                                                         *)
(* The monitor contains no copy of the replication code.  It keeps, per    *)
(* follower, the sequence `have` of records delivered since the follower   *)
(* last started from scratch and judges                                    *)
(*   - the stream: after an accepted resume at p the next record is the    *)
(*     successor of p in the leader's log and the live stream is           *)
(*     contiguous (no skip / duplicate / reorder); a file transfer gives   *)
(*     genuine records below the handshake id in order, completely if the  *)
(*     leader never rotated; the live stream starts at the handshake id    *)
(*   - the follower: it resumes from exactly the last record it was        *)
(*     given; refused resume => next request is a full transfer; its       *)
(*     files hold exactly the delivered records in order                   *)
(*   - convergence at quiescence: every follower was given the log up to   *)
(*     the leader's last record, and the states agree (keys, LockIds,      *)
(*     depths, values, deadlines within one unit)                          *)
(* Deterministic: one trace line per step; violations are printed as       *)
(* "VIOL {json}" lines and counted (same convention as MonLock).           *)
(***************************************************************************)
EXTENDS Integers, Sequences, FiniteSets, TLC, Json, SequencesExt, FiniteSetsExt

CONSTANTS TraceFile, Props

Trace == ndJsonDeserialize(TraceFile)

VARIABLES l, m
vars == <<l, m>>

IDM == 1000000                      \* id = file index * IDM + offset
FileOf(n) == n \div IDM

EmptyFn == [x \in {} |-> 0]
SetFn(f, k, v) == [x \in (DOMAIN f) \cup {k} |-> IF x = k THEN v ELSE f[x]]
Abs(x) == IF x < 0 THEN 0 - x ELSE x
LastOr0(s) == IF Len(s) = 0 THEN 0 ELSE s[Len(s)]

-----------------------------------------------------------------------------
Report(mm, code, detail) ==
    IF "C09" \in Props
    THEN IF PrintT("VIOL " \o ToJson([prop |-> "C09", code |-> code, line |-> l, name |-> mm.name, detail |-> detail]))
         THEN [mm EXCEPT !.nv = @ + 1] ELSE mm
    ELSE mm

Check(mm, cond, code, detail) == IF cond THEN mm ELSE Report(mm, code, detail)

F0 == [st |-> "down", mode |-> "", req |-> 0, H |-> 0, have |-> <<>>, next |-> 0, lastf |-> 0, nfile |-> 0,
       refused |-> FALSE, image |-> FALSE, restarted |-> FALSE, cn |-> 0, skipped |-> ""]

M0 == [log |-> <<>>, hs |-> <<>>, hrs |-> <<>>, pos |-> EmptyFn, fs |-> EmptyFn, files |-> EmptyFn, snaps |-> EmptyFn,
       nv |-> 0, name |-> "", quiet |-> FALSE, dupnodes |-> {}, rot |-> FALSE, shortlived |-> FALSE]

Fol(mm, f) == IF f \in DOMAIN mm.fs THEN mm.fs[f] ELSE F0
PutFol(mm, f, r) == [mm EXCEPT !.fs = SetFn(mm.fs, f, r)]

\* did the leader start a new append file during the scenario (it then compacts the older files)?  Told by the driver
\* (it issued BGREWRITEAOF or configured a small rewrite size) or visible in the ids.
Rotated(mm) == mm.rot \/ (Len(mm.log) > 0 /\ FileOf(mm.log[Len(mm.log)]) > FileOf(mm.log[1]))

\* first log position whose id is >= n (Len+1 if none)
FirstPosGE(mm, n) == LET I == {i \in 1..Len(mm.log) : mm.log[i] >= n} IN IF I = {} THEN Len(mm.log) + 1 ELSE Min(I)
CountBelow(mm, n) == FirstPosGE(mm, n) - 1

Known(mm, id) == id \in DOMAIN mm.pos
HashOK(mm, id, h) == mm.hs[mm.pos[id]] = h

-----------------------------------------------------------------------------
StepBegin(mm, e) == [M0 EXCEPT !.name = e.name, !.nv = mm.nv, !.rot = e.rot, !.shortlived = e.shortlived]

\* the leader's log as the reference follower received it: ids go up by one inside a file; a new file starts at offset 1
StepL(mm, e) ==
    LET prev == LastOr0(mm.log)
        succOK == \/ prev = 0
                  \/ e.id = prev + 1
                  \/ (FileOf(e.id) > FileOf(prev) /\ e.id % IDM = 1)
        m1 == Check(mm, succOK, "reference-stream-not-contiguous", [prev |-> prev, got |-> e.id])
        m2 == Check(m1, ~Known(mm, e.id), "reference-stream-duplicate", [got |-> e.id])
    IN [m2 EXCEPT !.log = Append(@, e.id), !.hs = Append(@, e.h), !.hrs = Append(@, e.hr), !.pos = SetFn(@, e.id, Len(mm.log) + 1)]

StepConn(mm, e) == PutFol(mm, e.f, [Fol(mm, e.f) EXCEPT !.st = "hs", !.cn = e.cn, !.refused = FALSE])

\* The follower must resume from exactly the last record it was given.  One way of getting this wrong has a code of
\* its own: asking for the handshake id of a full transfer of which not a single record arrived (the follower then
\* skips everything up to and including that id).
StepSync(mm, e) ==
    LET fr == Fol(mm, e.f)
        hsid == e.mode = "resume" /\ Len(fr.have) = 0 /\ fr.H # 0 /\ e.id = fr.H
        m1 == IF e.mode = "resume"
              THEN LET a == Check(mm, ~fr.refused, "resume-refused-not-followed-by-full-transfer", [f |-> e.f, cn |-> e.cn, asked |-> e.id])
                   IN IF hsid
                      THEN Report(a, "follower-resumes-from-handshake-id-it-never-received", [f |-> e.f, cn |-> e.cn, asked |-> e.id, n_delivered |-> 0])
                      ELSE Check(a, Len(fr.have) > 0 /\ e.id = LastOr0(fr.have), "follower-resumes-from-wrong-position",
                                 [f |-> e.f, cn |-> e.cn, asked |-> e.id, last_delivered |-> LastOr0(fr.have), restarted |-> fr.restarted])
              ELSE mm
    IN PutFol(m1, e.f, [fr EXCEPT !.mode = e.mode, !.req = e.id, !.refused = FALSE, !.st = "hs", !.skipped = IF hsid THEN "handshake-id-resume" ELSE fr.skipped])

StepResp(mm, e) ==
    LET fr == Fol(mm, e.f) IN
    IF e.err = "ERR_NOT_FOUND" THEN PutFol(mm, e.f, [fr EXCEPT !.refused = TRUE])
    ELSE IF e.err # "" THEN mm
    ELSE IF fr.mode = "resume"
         THEN LET m1 == Check(mm, Known(mm, fr.req), "resume-accepted-at-unknown-position", [f |-> e.f, cn |-> e.cn, asked |-> fr.req])
              IN PutFol(m1, e.f, [fr EXCEPT !.st = "live", !.next = IF Known(mm, fr.req) THEN mm.pos[fr.req] + 1 ELSE 0])
         ELSE \* full transfer: the follower forgets everything it had
              PutFol(mm, e.f, [fr EXCEPT !.st = "files", !.H = e.id, !.have = <<>>, !.lastf = 0, !.nfile = 0, !.next = 0,
                                         !.image = (Len(mm.log) > 0 /\ FileOf(e.id) > FileOf(mm.log[1])), !.restarted = FALSE, !.skipped = ""])

StepW(mm, e) ==
    LET fr == Fol(mm, e.f)
        m0 == Check(mm, Known(mm, e.id), "delivered-record-not-in-leader-log", [f |-> e.f, cn |-> e.cn, ph |-> e.ph, got |-> e.id])
        m1 == IF Known(mm, e.id) THEN Check(m0, HashOK(mm, e.id, e.h), "delivered-record-bytes-differ", [f |-> e.f, cn |-> e.cn, ph |-> e.ph, got |-> e.id]) ELSE m0
    IN IF e.ph = "files"
       THEN LET m2 == Check(m1, e.id > fr.lastf, "file-transfer-out-of-order", [f |-> e.f, cn |-> e.cn, prev |-> fr.lastf, got |-> e.id])
                m3 == Check(m2, e.id < fr.H, "file-transfer-beyond-handshake", [f |-> e.f, cn |-> e.cn, handshake |-> fr.H, got |-> e.id])
            IN PutFol(m3, e.f, [fr EXCEPT !.have = Append(@, e.id), !.lastf = e.id, !.nfile = @ + 1])
       ELSE LET exp == IF fr.next >= 1 /\ fr.next <= Len(mm.log) THEN mm.log[fr.next] ELSE 0
                \* a full transfer that carried no record at all (the leader's ring was empty at the handshake) whose
                \* live stream then starts LATER than the handshake id: has a code of its own
                emptystart == fr.mode = "scratch" /\ Len(fr.have) = 0 /\ exp # 0 /\ e.id > exp
                m2 == IF exp = e.id THEN m1
                      ELSE IF emptystart
                      THEN Report(m1, "live-stream-skips-ahead-after-empty-ring-handshake",
                                  [f |-> e.f, cn |-> e.cn, handshake |-> fr.H, expected |-> exp, got |-> e.id, skipped |-> mm.pos[e.id] - fr.next])
                      ELSE Report(m1, "live-stream-not-contiguous",
                                  [f |-> e.f, cn |-> e.cn, expected |-> exp, got |-> e.id, prev |-> LastOr0(fr.have), mode |-> fr.mode])
            IN PutFol(m2, e.f, [fr EXCEPT !.have = Append(@, e.id), !.next = IF Known(mm, e.id) THEN mm.pos[e.id] + 1 ELSE fr.next,
                                          !.skipped = IF exp # e.id /\ emptystart THEN "empty-ring-start" ELSE fr.skipped])

\* end of the file transfer: complete if the leader never rotated (compaction may drop dead records otherwise);
\* the live stream starts at the handshake id
StepFdone(mm, e) ==
    LET fr == Fol(mm, e.f)
        need == CountBelow(mm, fr.H)
        \* (records of holds that have EXPIRED by the time of the transfer are left out by the reader, as at start-up: the
        \*  count is not judged in scenarios with short-lived holds; what was delivered, the files and the states still are)
        m1 == IF Rotated(mm) \/ mm.shortlived THEN mm
              ELSE Check(mm, fr.nfile = need, "file-transfer-incomplete", [f |-> e.f, cn |-> e.cn, handshake |-> fr.H, records_below |-> need, sent |-> fr.nfile])
    IN PutFol(m1, e.f, [fr EXCEPT !.st = "live", !.next = FirstPosGE(mm, fr.H)])

StepDown(mm, e) == IF Fol(mm, e.f).cn = e.cn THEN PutFol(mm, e.f, [Fol(mm, e.f) EXCEPT !.st = "down"]) ELSE mm
StepRestart(mm, e) == PutFol(mm, e.f, [Fol(mm, e.f) EXCEPT !.restarted = TRUE, !.st = "down"])

\* quiescence: every follower was given the log up to the leader's last record
StepQuiet(mm, e) ==
    LET Fs == 1..e.nf
        last == LastOr0(mm.log)
        Bad == {f \in Fs : LastOr0(Fol(mm, f).have) # last \/ Fol(mm, f).st # "live"}
        m1 == IF Bad = {} THEN mm
              ELSE LET f == Min(Bad) IN Report(mm, "follower-not-converged",
                        [f |-> f, state |-> Fol(mm, f).st, last_delivered |-> LastOr0(Fol(mm, f).have), leader_last |-> last, n_delivered |-> Len(Fol(mm, f).have)])
        m2 == Check(m1, e.ok, "follower-not-caught-up-at-quiescence", [why |-> e.why])
    IN [m2 EXCEPT !.quiet = TRUE]

-----------------------------------------------------------------------------
\* records found in a node's files
FilesOf(mm, node) == IF node \in DOMAIN mm.files THEN mm.files[node] ELSE <<>>

StepF(mm, e) == [mm EXCEPT !.files = SetFn(@, e.node, Append(FilesOf(mm, e.node), <<e.id, e.h, e.hr>>))]

OnlyFile(s, fi) == SelectSeq(s, LAMBDA x : FileOf(x) = fi)
Increasing(s) == \A i \in 1..(Len(s) - 1) : s[i] < s[i + 1]
FirstDiff(a, b) == LET n == IF Len(a) < Len(b) THEN Len(a) ELSE Len(b)
                       I == {i \in 1..n : a[i] # b[i]}
                   IN IF I = {} THEN n + 1 ELSE Min(I)
Dedup(s) == FoldLeft(LAMBDA acc, x : IF x \in Range(acc) THEN acc ELSE Append(acc, x), <<>>, s)

\* does the id sequence `got` of a node's files match the sequence `want` it should hold?  Exact when nobody rotated;
\* after a rotation both sides compact files older than the current one, so only the current file is compared
\* exactly and the rest must be an ordered sub-sequence.  `cur` is the index of the newest append file found in the
\* node's directory.
FilesMatch(mm, got, want, cur) ==
    IF ~Rotated(mm) THEN got = want
    ELSE /\ OnlyFile(got, cur) = OnlyFile(want, cur)
         /\ Increasing(got)
         /\ \A i \in DOMAIN got : got[i] \in Range(want)

\* e.f = 0: the leader's own files against its replication stream; e.f > 0: a follower's files against the records
\* it was given since its last full transfer.
StepFend(mm, e) ==
    LET raw == FilesOf(mm, e.node)
        got == [i \in DOMAIN raw |-> raw[i][1]]
        want == IF e.f = 0 THEN mm.log ELSE Fol(mm, e.f).have
        Unknown == {i \in DOMAIN raw : ~Known(mm, got[i])}
        BadHash == {i \in DOMAIN raw : Known(mm, got[i]) /\ ~HashOK(mm, got[i], raw[i][2])}
        \* the 64 record bytes themselves differ (not only the value frame paired with the record)
        BadRec == {i \in DOMAIN raw : Known(mm, got[i]) /\ mm.hrs[mm.pos[got[i]]] # raw[i][3]}
        Dups == {got[i] : i \in {j \in DOMAIN got : \E k \in 1..(j - 1) : got[k] = got[j]}}
        dd == Dedup(got)
        d == FirstDiff(got, want)
        det == [node |-> e.node, position |-> d, in_files |-> IF d <= Len(got) THEN got[d] ELSE 0,
                expected |-> IF d <= Len(want) THEN want[d] ELSE 0, n_files |-> Len(got), n_expected |-> Len(want), rotated |-> Rotated(mm),
                n_value_mismatch |-> Cardinality(BadHash)]
        code == IF e.f = 0 THEN "leader-files-differ-from-replication-stream" ELSE "follower-files-differ-from-delivered-records"
        \* R2 class: the live part (ids from the handshake id of the last full transfer on) is exactly what was delivered, in
        \* order, and no transferred record is missing - but inside the part that arrived by FILE TRANSFER records are
        \* duplicated or out of order
        Hf == IF e.f > 0 THEN Fol(mm, e.f).H ELSE 0
        LivePart(q) == SelectSeq(q, LAMBDA x : x >= Hf)
        TransSet(q) == {x \in Range(q) : x < Hf}
        TransferGarbled == /\ e.f > 0 /\ Unknown = {} /\ got # want
                           /\ (IF ~Rotated(mm) THEN LivePart(got) = LivePart(want)
                               ELSE /\ OnlyFile(LivePart(got), e.cur) = OnlyFile(LivePart(want), e.cur)
                                    /\ Increasing(LivePart(got)) /\ Range(LivePart(got)) \subseteq Range(want))
                           /\ TransSet(got) \subseteq TransSet(want)
                           /\ (IF Rotated(mm) THEN {x \in TransSet(want) : FileOf(x) = e.cur} ELSE TransSet(want)) \subseteq TransSet(got)
                           /\ (Dups # {} \/ ~Increasing(got))
    IN IF TransferGarbled
       THEN [Report(mm, "follower-file-duplicates-transferred-records",
                    [node |-> e.node, n_duplicated |-> Cardinality(Dups), in_order |-> Increasing(dd),
                     n_files |-> Len(got), n_expected |-> Len(want), n_value_mismatch |-> Cardinality(BadHash)])
             EXCEPT !.dupnodes = @ \cup {e.node}]
       ELSE IF e.f > 0 /\ Unknown = {} /\ FilesMatch(mm, got, want, e.cur) /\ BadHash # {} /\ BadRec = {}
                 /\ FileOf(got[Min(BadHash)]) <= FileOf(Fol(mm, e.f).H)
       THEN \* every record is there once and in order with the right 64 bytes, but in a file that (also) holds records
            \* that arrived by FILE TRANSFER the records are paired with the wrong value frames (the .dat side of the same
            \* unlocked buffer: one duplicated or lost frame shifts the pairing to the end of that file)
            [Report(mm, "follower-file-value-frames-misaligned-after-transfer",
                    [node |-> e.node, n_value_mismatch |-> Cardinality(BadHash), first |-> got[Min(BadHash)], n_files |-> Len(got)])
             EXCEPT !.dupnodes = @ \cup {e.node}]
       ELSE LET m1 == Check(mm, Unknown = {}, "file-record-not-in-leader-log", [node |-> e.node, got |-> IF Unknown = {} THEN 0 ELSE got[Min(Unknown)]])
                m2 == Check(m1, FilesMatch(mm, got, want, e.cur), code, det)
            IN Check(m2, BadHash = {} \/ ~FilesMatch(mm, got, want, e.cur), "file-record-bytes-differ",
                     [node |-> e.node, got |-> IF BadHash = {} THEN 0 ELSE got[Min(BadHash)], n |-> Cardinality(BadHash), n_record_bytes |-> Cardinality(BadRec)])

-----------------------------------------------------------------------------
\* canonical states.  snap.keys: sequence of [k, data, holds: sequence of [lid, depth, exp, unit]]
StepSnap(mm, e) == [mm EXCEPT !.snaps = SetFn(@, e.node, e.keys)]

KeySet(S) == {S[i].k : i \in DOMAIN S}
KeyRec(S, k) == S[CHOOSE i \in DOMAIN S : S[i].k = k]
HoldSet(kr) == {<<kr.holds[j].lid, kr.holds[j].depth>> : j \in DOMAIN kr.holds}
ExpOf(kr, lid) == kr.holds[CHOOSE j \in DOMAIN kr.holds : kr.holds[j].lid = lid].exp
UnitOf(kr, lid) == kr.holds[CHOOSE j \in DOMAIN kr.holds : kr.holds[j].lid = lid].unit
DeadlineOK(a, b) == \A lid \in {h[1] : h \in HoldSet(a)} :
                        LET u == IF UnitOf(a, lid) > UnitOf(b, lid) THEN UnitOf(a, lid) ELSE UnitOf(b, lid)
                        IN Abs(ExpOf(a, lid) - ExpOf(b, lid)) <= u

\* kind of the difference of two states on key k ("" = none)
KindOf(A, B, k) ==
    IF k \notin KeySet(B) THEN "key-missing"
    ELSE IF k \notin KeySet(A) THEN "key-extra"
    ELSE LET a == KeyRec(A, k)  b == KeyRec(B, k) IN
         IF {h[1] : h \in HoldSet(a)} # {h[1] : h \in HoldSet(b)} \/ Len(a.holds) # Len(b.holds) THEN "holders"
         ELSE IF HoldSet(a) # HoldSet(b) THEN "depth"
         ELSE IF ~DeadlineOK(a, b) THEN "deadline"
         ELSE IF a.data # b.data THEN "data-only"
         ELSE ""

\* compare state `an` (reference) with state `bn`; report the first differing key
Compare(mm, an, bn, code, f) ==
    IF an \notin DOMAIN mm.snaps \/ bn \notin DOMAIN mm.snaps THEN mm
    ELSE LET A == mm.snaps[an]  B == mm.snaps[bn]
             D == {k \in KeySet(A) \cup KeySet(B) : KindOf(A, B, k) # ""}
         IN IF D = {} THEN mm
            ELSE LET k == Min(D) IN
                 Report(mm, code, [reference |-> an, node |-> bn, key |-> k, kind |-> KindOf(A, B, k), ndiff |-> Cardinality(D),
                                   compaction |-> Rotated(mm),
                                   file_duplicates |-> (\E nd \in mm.dupnodes : bn = nd \o "r" \/ (bn = nd /\ Fol(mm, f).restarted)),
                                   after_skip |-> Fol(mm, f).skipped,
                                   ref |-> IF k \in KeySet(A) THEN KeyRec(A, k) ELSE [k |-> k, data |-> "", holds |-> <<>>],
                                   got |-> IF k \in KeySet(B) THEN KeyRec(B, k) ELSE [k |-> k, data |-> "", holds |-> <<>>]])

\* e.pairs: sequence of [ref, node, code] - which observations exist is decided by the driver, what they must satisfy here
StepEnd(mm, e) ==
    LET RECURSIVE go(_, _)
        go(x, i) == IF i > Len(e.pairs) THEN x ELSE go(Compare(x, e.pairs[i].ref, e.pairs[i].node, e.pairs[i].code, e.pairs[i].f), i + 1)
    IN go(mm, 1)

-----------------------------------------------------------------------------
Step(mm, e) ==
    CASE e.e = "begin"  -> StepBegin(mm, e)
      [] e.e = "L"      -> StepL(mm, e)
      [] e.e = "conn"   -> StepConn(mm, e)
      [] e.e = "sync"   -> StepSync(mm, e)
      [] e.e = "resp"   -> StepResp(mm, e)
      [] e.e = "W"      -> StepW(mm, e)
      [] e.e = "fdone"  -> StepFdone(mm, e)
      [] e.e = "cut"    -> StepDown(mm, e)
      [] e.e = "disc"   -> StepDown(mm, e)
      [] e.e = "fkill"  -> StepRestart(mm, e)
      [] e.e = "quiet"  -> StepQuiet(mm, e)
      [] e.e = "died"   -> Report(mm, "node-process-died", [node |-> e.node, log |-> e.log])
      [] e.e = "tapstall" -> Report(mm, "record-pushed-but-not-streamed-to-connected-follower",
                                    [received |-> e.nrec, pushed |-> e.want, waited_s |-> e.secs, last |-> LastOr0(mm.log)])
      [] e.e = "F"      -> StepF(mm, e)
      [] e.e = "fend"   -> StepFend(mm, e)
      [] e.e = "snap"   -> StepSnap(mm, e)
      [] e.e = "end"    -> StepEnd(mm, e)
      [] OTHER          -> mm

Init == l = 1 /\ m = M0

Next == /\ l <= Len(Trace)
        /\ m' = Step(m, Trace[l])
        /\ l' = l + 1

Spec == Init /\ [][Next]_vars

NoViolation == m.nv = 0

TraceConsumed == TLCGet("stats").diameter - 1 = Len(Trace)

=============================================================================

------------------------------- MODULE MonAck -------------------------------
(***************************************************************************)
(* Property monitor for C11 ("ack-required locks succeed only after log +  *)
(* quorum acknowledgement"), phrased over OBSERVABLE events of engine A:   *)
(*                                                                         *)
(*   req / ret / reply   client requests and every reply the real code     *)
(*                       delivered; the reply of an ack-required lock      *)
(*                       carries `ondisk` = "the LOCK record of this       *)
(*                       request is in the leader's append file on disk    *)
(*                       NOW" (the file is re-read inside the reply        *)
(*                       callback); when the record carries a value frame  *)
(*                       (`hasval`: AOF_FLAG_CONTAINS_DATA) also           *)
(*                       `valondisk` = "that frame is in the value file    *)
(*                       append.aof.N.dat at the place its flush put it"   *)
(*   fack / flush / cut / demote / status                                  *)
(*                       what the environment did: follower k acknowledged *)
(*                       record R with result x, the leader's buffer was   *)
(*                       flushed (ok or failing), a follower link was cut, *)
(*                       the node was demoted.  A flush is two writes:     *)
(*                       `rec` / `val` say whether the write of the entry  *)
(*                       file / of the value file worked, `recs` lists the *)
(*                       ack records of that flush (request, carries a     *)
(*                       value frame or not)                               *)
(*   snap                canonical snapshot at a quiescent point: holders  *)
(*                       (with the ack-pending mark), live waiters, value, *)
(*                       number of follower links, ack mode                *)
(*                                                                         *)
(* The monitor contains no copy of the counting logic of the code.  It     *)
(* re-states C11:                                                          *)
(*  (1) SUCCED of an ack-required lock only if its record is on the        *)
(*      leader's disk - the 64-byte entry AND, when the record carries     *)
(*      one, its value frame: a record whose value is missing is not       *)
(*      "written" - and at least Required(mode, followers) DISTINCT      *)
(*      followers acknowledged it positively (Required: all = n,           *)
(*      majority = majority of the n+1 data nodes minus the leader);       *)
(*  (2) while it is pending every request naming its LockId on that key is *)
(*      answered LOCK_ACK_WAITING;                                         *)
(*  (3) after a failed leader write, a failed REQUIRED ack, or a completed *)
(*      demotion it is never answered SUCCED; when it is answered with an  *)
(*      error (ERROR, TIMEOUT, ...) the hold is gone, the value is the one *)
(*      before the grant and an admissible queued request has been served; *)
(*      at the end of a drained history nothing is left pending.           *)
(*  (4) follower half of the handshake (histories of mode "ackf": a real    *)
(*      node in the follower role is handed records as the replication     *)
(*      client does and its own log is flushed with failing writes;        *)
(*      `fsent` = the ack frame it sent to its leader, with its two log    *)
(*      files re-read at that moment): an acknowledgement is POSITIVE only *)
(*      when the record - entry and value frame - is in that follower's    *)
(*      own log and its write did not fail.                                *)
(*  (3b) the rollback is judged for every kind of value operation the       *)
(*      failed request carried (the request event carries the decoded      *)
(*      operation name `dop` / `dsubs`, snapshots the state class of each  *)
(*      key's value `vcls`: none / unset / value / props - both only for   *)
(*      the violation record); a queued dataless request that is served in *)
(*      the step in which the pending request failed must be handed the    *)
(*      value before the grant in its SUCCED reply.                        *)
(* Agnostic where the statement is silent: the required number is the      *)
(* MINIMUM over the configurations seen while the request was pending; a   *)
(* negative ack dooms the request only when the remaining followers cannot *)
(* reach the quorum and no link was cut meanwhile; demotion counts from    *)
(* the end of the demotion step; the value clause is skipped when another  *)
(* value-carrying request touched the key in the same step or overlapped   *)
(* with the pending one on a shared key.                                   *)
(*                                                                         *)
(* Deterministic trace spec: one trace line per step, violations printed   *)
(* as "VIOL {json}" (same conventions as MonLock).                         *)
(***************************************************************************)
EXTENDS Integers, Sequences, FiniteSets, TLC, Json, SequencesExt, FiniteSetsExt

CONSTANTS TraceFile, Props

Trace == ndJsonDeserialize(TraceFile)

VARIABLES l, m
vars == <<l, m>>

SUCCED == 0   EXPRIED == 9   STATE_ERROR == 10   ACK_WAITING == 12
Bit(x, b) == (x \div b) % 2 = 1
F_SHOW == 1   F_UPDATE == 2   F_CONC == 8
TF_WAITUNLOCK == 512   TF_ACK == 4096
EF_AOF_UNLIMITED == 512     \* EXPRIED_FLAG_UNLIMITED_AOF_TIME: never persisted => no ack path

EmptyFn == [x \in {} |-> 0]
SetFn(f, k, v) == [x \in (DOMAIN f) \cup {k} |-> IF x = k THEN v ELSE f[x]]
DelFn(f, K) == [x \in (DOMAIN f) \ K |-> f[x]]
Get(f, k, d) == IF k \in DOMAIN f THEN f[k] ELSE d
MinI(a, b) == IF a < b THEN a ELSE b

\* "configured number of followers"
Required(mode, n) == IF mode = 1 THEN (n + 1) \div 2 ELSE n

Active(p) == p \in Props
Report(mm, code, detail) ==
    IF Active("C11")
    THEN IF PrintT("VIOL " \o ToJson([prop |-> "C11", code |-> code, line |-> l, trace |-> mm.tr, name |-> mm.name,
                                      t |-> mm.t, detail |-> detail]))
         THEN [mm EXCEPT !.nv = @ + 1] ELSE mm
    ELSE mm
Check(mm, cond, code, detail) == IF cond THEN mm ELSE Report(mm, code, detail)

M0 == [ reqs |-> EmptyFn,      \* request id -> record
        pend |-> EmptyFn,      \* ack request id -> pending record
        failed |-> <<>>,       \* pending requests answered with an error since the last snapshot
        touch |-> {},          \* <<key, request id>>: value-carrying lock requests answered since the last snapshot
        last |-> EmptyFn,      \* <<db,key>> -> value (hex) at the last snapshot
        lastcls |-> EmptyFn,   \* <<db,key>> -> state class of the value at the last snapshot (none / unset / value / props)
        nf |-> 0, mode |-> 0, leader |-> TRUE, demoted |-> FALSE,
        fside |-> FALSE,       \* history of the follower part of engine A
        frecs |-> EmptyFn,     \* follower part: record id -> [ack, hasval, key, lid]
        ffail |-> EmptyFn,     \* follower part: record id -> which write of its flush failed ("entry" / "value")
        nv |-> 0, t |-> 0, tr |-> 0, name |-> "" ]

StepBegin(mm, e) == [M0 EXCEPT !.nv = mm.nv, !.tr = e.idx, !.name = e.name, !.t = e.t,
                               !.nf = e.followers, !.mode = e.ackmode, !.fside = (e.mode = "ackf")]

\* ---------------------------------------------------------------- requests
IsAckReq(e) == e.cmd = "L" /\ Bit(e.tf, TF_ACK) /\ e.ex > 0 /\ ~Bit(e.flag, F_SHOW) /\ ~Bit(e.flag, F_UPDATE)
               /\ ~Bit(e.ef, EF_AOF_UNLIMITED)

StepReq(mm, e) ==
    LET k  == <<e.db, e.key>>
        pa == {rid \in DOMAIN mm.pend : mm.pend[rid].k = k /\ mm.pend[rid].lid = e.lid}
        r  == [id |-> e.id, cmd |-> e.cmd, db |-> e.db, key |-> e.key, lid |-> e.lid, flag |-> e.flag, tf |-> e.tf,
               to |-> e.to, ex |-> e.ex, data |-> e.data, st |-> "open", ack |-> IsAckReq(e), pa |-> pa,
               ldr |-> mm.leader, drain |-> ("drain" \in DOMAIN e),
               dop |-> IF "dop" \in DOMAIN e THEN e.dop ELSE "", dsubs |-> IF "dsubs" \in DOMAIN e THEN e.dsubs ELSE <<>>]
    IN [mm EXCEPT !.reqs = SetFn(@, e.id, r), !.t = e.t]

\* ---------------------------------------------------------------- replies
StepReply(mm0, e) ==
    LET mm == [mm0 EXCEPT !.t = e.t] IN
    IF e.rid \notin DOMAIN mm.reqs THEN mm
    ELSE
    LET r == mm.reqs[e.rid]
        k == <<r.db, r.key>>
    IN
    IF r.st = "done" THEN mm          \* EXPRIED notice of an acknowledged hold etc. (C03's business)
    ELSE
    LET m1 == [mm EXCEPT !.reqs[e.rid].st = "done",
                         !.touch = IF r.cmd = "L" /\ r.data # "" THEN @ \cup {<<k, e.rid>>} ELSE @]
        \* (2) a request naming a pending LockId
        exempt == r.cmd = "L" /\ (Bit(r.flag, F_SHOW) \/ Bit(r.flag, F_CONC))
        m2 == Check(m1, r.pa = {} \/ ~r.ldr \/ exempt \/ e.res = ACK_WAITING, "pending-lockid-not-answered-ack-waiting",
                    [rid |-> e.rid, cmd |-> r.cmd, key |-> r.key, lid |-> r.lid, res |-> e.res, pending |-> SetToSeq(r.pa)])
        \* (3b) a queued dataless request served in the step in which a pending value-carrying request failed on its key:
        \* its SUCCED reply shows the key's value at its grant, which must be the value before the failed request's grant
        Fk == SelectSeq(mm.failed, LAMBDA F : F.k = k)
        judged == /\ r.cmd = "L" /\ ~r.ack /\ r.data = "" /\ r.flag = 0 /\ e.res = SUCCED /\ "data" \in DOMAIN e
                  /\ Len(Fk) = 1 /\ Fk[1].hasdata /\ Fk[1].vb # "?" /\ Fk[1].alone /\ ~Fk[1].mixed
                  /\ ~\E x \in mm.touch : x[1] = k /\ x[2] # Fk[1].rid
                  /\ ~(Fk[1].vb = "" /\ "data_empty" \in DOMAIN e /\ e.data_empty)      \* (reported from the snapshot under its own code)
        m2b == IF judged /\ e.data # Fk[1].vb
               THEN Report(m2, "queued-request-served-with-unrestored-value",
                           [rid |-> e.rid, key |-> r.key, lid |-> r.lid, handed |-> e.data, before_grant |-> Fk[1].vb, failed_rid |-> Fk[1].rid,
                            failed_res |-> Fk[1].res, op |-> Fk[1].op, subops |-> Fk[1].subs,
                            last_subop |-> IF Len(Fk[1].subs) > 0 THEN Fk[1].subs[Len(Fk[1].subs)] ELSE "", prior |-> Fk[1].vbcls])
               ELSE m2
    IN
    IF ~r.ack THEN m2b
    ELSE
    LET seen == e.rid \in DOMAIN mm.pend
        p    == IF seen THEN mm.pend[e.rid]
                ELSE [k |-> k, lid |-> r.lid, vb |-> "?", hasdata |-> FALSE, acks |-> {}, negs |-> {}, reqmin |-> Required(mm.mode, mm.nf),
                      nf0 |-> mm.nf, req0 |-> Required(mm.mode, mm.nf), cfgchanged |-> FALSE, doomed |-> FALSE, why |-> "", flushed |-> FALSE, mixed |-> FALSE, vbcls |-> "?"]
    IN
    IF e.res = SUCCED
    THEN LET disk == "ondisk" \in DOMAIN e /\ e.ondisk
             m3 == Check(m2, disk, "succed-before-leader-log",
                         [rid |-> e.rid, key |-> r.key, lid |-> r.lid, followers |-> p.nf0, mode |-> mm.mode,
                          acked_by |-> SetToSeq(p.acks), acks |-> Cardinality(p.acks), pending_seen |-> seen])
             \* the entry is there but the value frame of the record is not (only judged when the harness could attribute
             \* the value buffer of that flush frame by frame)
             valmiss == /\ disk /\ "hasval" \in DOMAIN e /\ e.hasval
                        /\ "valknown" \in DOMAIN e /\ e.valknown /\ ~e.valondisk
             m3b == Check(m3, ~valmiss, "succed-before-value-in-leader-log",
                         [rid |-> e.rid, key |-> r.key, lid |-> r.lid, followers |-> p.nf0, mode |-> mm.mode,
                          entry_on_disk |-> TRUE, value_frame_on_disk |-> FALSE, acks |-> Cardinality(p.acks), pending_seen |-> seen])
             m4 == Check(m3b, Cardinality(p.acks) >= p.reqmin, "succed-before-follower-quorum",
                         [rid |-> e.rid, key |-> r.key, lid |-> r.lid, followers |-> p.nf0, mode |-> mm.mode,
                          acked_by |-> SetToSeq(p.acks), required |-> p.reqmin, pending_seen |-> seen])
             m5 == Check(m4, ~p.doomed, "succed-after-failure",
                         [rid |-> e.rid, key |-> r.key, lid |-> r.lid, why |-> p.why, mode |-> mm.mode, followers |-> p.nf0])
             m6 == Check(m5, ~mm.demoted, "succed-after-demotion", [rid |-> e.rid, key |-> r.key, lid |-> r.lid])
         IN [m6 EXCEPT !.pend = DelFn(@, {e.rid})]
    ELSE IF seen
         THEN \* a pending request is answered with an error: cleanup judged at the next snapshot
              [m2 EXCEPT !.pend = DelFn(@, {e.rid}),
                         !.failed = Append(@, [rid |-> e.rid, k |-> k, lid |-> r.lid, vb |-> p.vb, hasdata |-> p.hasdata, res |-> e.res, mixed |-> p.mixed, rdata |-> e.data, op |-> r.dop, subs |-> r.dsubs, vbcls |-> p.vbcls, rempty |-> ("data_empty" \in DOMAIN e /\ e.data_empty),
                                               alone |-> ~\E r2 \in (DOMAIN mm.pend) \ {e.rid} : mm.pend[r2].k = k /\ mm.pend[r2].hasdata])]
         ELSE m2

\* ---------------------------------------------------------------- environment
StepFack(mm, e) ==
    IF e.skipped \/ e.rid \notin DOMAIN mm.pend THEN mm
    ELSE LET p  == mm.pend[e.rid]
             p1 == IF e.res = 0 THEN [p EXCEPT !.acks = @ \cup {e.f}] ELSE [p EXCEPT !.negs = @ \cup {e.f}]
             dead == ~p1.cfgchanged /\ Cardinality(p1.negs) > p1.nf0 - p1.req0
             p2 == IF dead /\ ~p1.doomed THEN [p1 EXCEPT !.doomed = TRUE, !.why = "required-follower-ack-negative"] ELSE p1
         IN [mm EXCEPT !.pend[e.rid] = p2]

\* a failed write dooms the requests whose record was in that write: the entry write fails -> every ack record of the
\* flush; the entry write works and the value write fails -> the records that carry a value frame (the others are
\* completely in the log; the statement is silent on them)
StepFlush(mm, e) ==
    IF "recs" \in DOMAIN e
    THEN LET R   == {e.recs[j].rid : j \in 1..Len(e.recs)}
             HV  == {e.recs[j].rid : j \in {k \in 1..Len(e.recs) : e.recs[k].hv}}
             bad == IF ~e.rec THEN R ELSE IF ~e.val THEN HV ELSE {}
             why == IF ~e.rec THEN "leader-write-failed" ELSE "leader-value-write-failed"
         IN IF mm.fside
            THEN [mm EXCEPT !.ffail = [x \in (DOMAIN @) \cup bad |-> IF x \in bad THEN (IF ~e.rec THEN "entry" ELSE "value") ELSE @[x]]]
            ELSE [mm EXCEPT !.pend = [rid \in DOMAIN @ |->
                IF rid \in bad THEN (IF @[rid].doomed THEN @[rid] ELSE [@[rid] EXCEPT !.doomed = TRUE, !.why = why])
                ELSE IF rid \in R THEN [@[rid] EXCEPT !.flushed = TRUE] ELSE @[rid]]]
    ELSE \* (older traces: one outcome for the whole flush, no record list)
    [mm EXCEPT !.pend = [rid \in DOMAIN @ |->
        IF e.ok THEN [@[rid] EXCEPT !.flushed = TRUE]
        ELSE IF ~@[rid].flushed /\ ~@[rid].doomed THEN [@[rid] EXCEPT !.doomed = TRUE, !.why = "leader-write-failed"] ELSE @[rid]]]

\* ---------------------------------------------------------------- follower part
StepFRec(mm, e) == [mm EXCEPT !.frecs = SetFn(@, e.id, [ack |-> e.ack, hasval |-> e.hasval, key |-> e.key, lid |-> e.lid]), !.t = e.t]

\* the ack frame a follower sends for record e.id
StepFSent(mm, e) ==
    IF "res" \notin DOMAIN e \/ e.id \notin DOMAIN mm.frecs THEN mm
    ELSE LET fr == mm.frecs[e.id]
             inlog == /\ e.entry
                      /\ ("hasval" \in DOMAIN e /\ e.hasval /\ "valknown" \in DOMAIN e /\ e.valknown) => e.valondisk
             m1 == Check(mm, e.res # 0 \/ inlog, "follower-acked-positive-before-own-log",
                         [record |-> e.id, key |-> fr.key, lid |-> fr.lid, result |-> e.res, entry_on_disk |-> e.entry, carries_value |-> fr.hasval,
                          value_frame_on_disk |-> IF "valondisk" \in DOMAIN e THEN e.valondisk ELSE TRUE])
         IN Check(m1, e.res # 0 \/ e.id \notin DOMAIN mm.ffail, "follower-acked-positive-after-failed-log-write",
                  [record |-> e.id, key |-> fr.key, lid |-> fr.lid, result |-> e.res, failed_write |-> Get(mm.ffail, e.id, "")])

StepCut(mm, e) ==
    IF e.skipped THEN mm
    ELSE [mm EXCEPT !.pend = [rid \in DOMAIN @ |-> [@[rid] EXCEPT !.cfgchanged = TRUE]]]

StepStatus(mm, e) == [mm EXCEPT !.leader = (e.status = 1), !.demoted = @ \/ (e.status # 1)]

\* ---------------------------------------------------------------- snapshot
KeyIdx(e, k) == {i \in 1..Len(e.keys) : <<e.keys[i].db, e.keys[i].key>> = k}
\* (keys whose value frame has an empty payload or is the number 0 are listed by the harness in `empty`)
IsEmptyKey(e, k) == "empty" \in DOMAIN e /\ \E j \in 1..Len(e.empty) : <<e.empty[j][1], e.empty[j][2]>> = k
DataOf(e, k) == LET I == KeyIdx(e, k) IN IF I = {} THEN "" ELSE e.keys[CHOOSE i \in I : TRUE].data

StepSnap(mm0, e) ==
    LET mm == [mm0 EXCEPT !.t = e.t]
        K  == 1..Len(e.keys)
        \* --- (3) cleanup after an error reply to a pending request
        JudgeFailed(acc, F) ==
            LET I  == KeyIdx(e, F.k)
                ks == IF I = {} THEN [holders |-> <<>>, waiters |-> <<>>, locked |-> 0, data |-> ""] ELSE e.keys[CHOOSE i \in I : TRUE]
                still == {j \in 1..Len(ks.holders) : ks.holders[j].rid = F.rid}
                a1 == Check(acc, still = {}, "hold-not-removed-after-failed-ack",
                            [rid |-> F.rid, key |-> F.k[2], lid |-> F.lid, res |-> F.res])
                \* another value-carrying request holds / is pending on the key now: the value is legitimately different
                others == {j \in 1..Len(ks.holders) : ks.holders[j].rid # F.rid /\ ks.holders[j].rid \in DOMAIN mm.reqs
                                                      /\ mm.reqs[ks.holders[j].rid].data # ""}
                \* the value lives in the key's manager: when the manager was reclaimed (nobody holds or waits) the
                \* snapshot cannot show it; the error reply carries the value the key had when it was sent
                seenval == IF I # {} THEN DataOf(e, F.k) ELSE F.rdata
                touched == \E x \in mm.touch : x[1] = F.k /\ x[2] # F.rid
                \* (a request that carried no value operation made no value change; with another value-carrying request
                \*  pending on the same - shared - key "the value before the grant" is not defined: agnostic)
                \* "no value" coming back as an EMPTY value (empty payload / number 0) is reported under its own code
                zeroish == IF I # {} THEN IsEmptyKey(e, F.k) ELSE F.rempty
                a2 == IF ~F.hasdata \/ F.vb = "?" \/ others # {} \/ touched \/ ~F.alone \/ F.mixed \/ (I = {} /\ F.rdata = "") \/ seenval = F.vb THEN a1
                      ELSE Report(a1, IF F.vb = "" /\ zeroish THEN "unset-value-restored-as-empty-value" ELSE "value-not-restored-after-failed-ack",
                                  [rid |-> F.rid, key |-> F.k[2], lid |-> F.lid, res |-> F.res, value |-> seenval, before_grant |-> F.vb,
                                   from_snapshot |-> (I # {}), op |-> F.op, subops |-> F.subs,
                                   last_subop |-> IF Len(F.subs) > 0 THEN F.subs[Len(F.subs)] ELSE "", prior |-> F.vbcls])
                stuck == /\ Len(ks.waiters) > 0 /\ mm.leader /\ e.leader
                         /\ ~Bit(ks.waiters[1].tf, TF_WAITUNLOCK)
                         /\ \/ ks.locked = 0
                            \/ (Len(ks.holders) > 0 /\ ks.locked <= ks.waiters[1].cnt /\ ks.locked <= ks.holders[1].cnt)
                a3 == Check(a2, ~stuck, "queued-request-not-served-after-failed-ack",
                            [rid |-> F.rid, key |-> F.k[2], waiting |-> IF Len(ks.waiters) > 0 THEN ks.waiters[1].rid ELSE -1, outstanding |-> ks.locked])
            IN a3
        m1 == FoldLeft(JudgeFailed, mm, mm.failed)
        \* --- newly pending ack requests
        NewP == {<<i, j>> \in UNION {{<<ii, jj>> : jj \in 1..Len(e.keys[ii].holders)} : ii \in K} :
                    LET h == e.keys[i].holders[j] IN
                    /\ h.ack # 255 /\ h.rid \in DOMAIN m1.reqs /\ m1.reqs[h.rid].ack /\ m1.reqs[h.rid].st # "done"
                    /\ h.rid \notin DOMAIN m1.pend}
        \* value before the grant: the value at the last snapshot, unless other value-carrying requests were answered on
        \* the key in this step (exactly one, a failed pending one: its own value-before; anything else: unknown)
        VbOf(k, rid) == LET Oth == {x[2] : x \in {y \in mm.touch : y[1] = k /\ y[2] # rid}}
                            Fk  == SelectSeq(mm.failed, LAMBDA F : F.k = k /\ F.hasdata /\ F.rid \in Oth)
                        IN IF Oth = {} THEN Get(mm.last, k, "")
                           ELSE IF Cardinality(Oth) = 1 /\ Len(Fk) = 1 THEN Fk[1].vb ELSE "?"
        AddP(acc, x) ==
            LET ks == e.keys[x[1]]   h == ks.holders[x[2]]   k == <<ks.db, ks.key>>
                rq == Required(e.mode, e.nf)
            IN [acc EXCEPT !.pend = SetFn(@, h.rid,
                    [k |-> k, lid |-> h.lid, vb |-> VbOf(k, h.rid), hasdata |-> (m1.reqs[h.rid].data # ""), acks |-> {}, negs |-> {},
                     reqmin |-> rq, nf0 |-> e.nf, req0 |-> rq, cfgchanged |-> FALSE, doomed |-> FALSE, why |-> "", flushed |-> FALSE, mixed |-> FALSE,
                     vbcls |-> IF VbOf(k, h.rid) = Get(mm.last, k, "") THEN Get(mm.lastcls, k, "none") ELSE "?"])]
        m2 == FoldLeft(AddP, m1, SetToSeq(NewP))
        \* --- the configuration seen while pending
        \* value operations of several requests overlapped on the key (shared key) while rid was pending: "the value
        \* before the grant" is then not what a rollback can be held to (the statement is silent) - remembered
        Mixed(rid) == LET k == m2.pend[rid].k
                          I == KeyIdx(e, k)
                      IN \/ /\ rid \in DOMAIN m1.pend      \* (answers in the step that made rid pending are handled by VbOf)
                            /\ \E x \in mm.touch : x[1] = k /\ x[2] # rid
                         \/ /\ I # {}
                            /\ LET ks == e.keys[CHOOSE i \in I : TRUE] IN
                               \E j \in 1..Len(ks.holders) : ks.holders[j].rid # rid /\ ks.holders[j].rid \in DOMAIN m2.reqs
                                                              /\ m2.reqs[ks.holders[j].rid].data # ""
        m3 == [m2 EXCEPT !.pend = [rid \in DOMAIN @ |-> [@[rid] EXCEPT !.reqmin = MinI(@, Required(e.mode, e.nf)),
                                                                         !.mixed = @ \/ Mixed(rid),
                                                                         !.cfgchanged = @ \/ (e.nf # m2.pend[rid].nf0)]],
                         !.nf = e.nf, !.mode = e.mode, !.leader = e.leader,
                         !.last = [k \in {<<e.keys[i].db, e.keys[i].key>> : i \in K} |-> DataOf(e, k)],
                         !.lastcls = IF "vcls" \in DOMAIN e THEN [k \in {<<e.vcls[i][1], e.vcls[i][2]>> : i \in 1..Len(e.vcls)} |->
                                                                   LET j == CHOOSE i \in 1..Len(e.vcls) : <<e.vcls[i][1], e.vcls[i][2]>> = k IN e.vcls[j][3]]
                                     ELSE EmptyFn,
                         !.failed = <<>>, !.touch = {}]
    IN m3

\* ---------------------------------------------------------------- end of a history
StepEnd(mm, e) ==
    IF "complete" \in DOMAIN e /\ e.complete
    THEN LET U == {id \in DOMAIN mm.reqs : mm.reqs[id].ack /\ mm.reqs[id].st # "done"}
             m1 == Check(mm, U = {}, "ack-request-never-answered", [ids |-> SetToSeq(U)])
         IN Check(m1, DOMAIN mm.pend = {}, "ack-request-left-pending", [ids |-> SetToSeq(DOMAIN mm.pend)])
    ELSE mm

Step(mm, e) ==
    CASE e.e = "begin"  -> StepBegin(mm, e)
      [] e.e = "end"    -> StepEnd(mm, e)
      [] e.e = "req"    -> StepReq(mm, e)
      [] e.e = "reply"  -> StepReply(mm, e)
      [] e.e = "snap"   -> StepSnap(mm, e)
      [] e.e = "fack"   -> StepFack(mm, e)
      [] e.e = "flush"  -> StepFlush(mm, e)
      [] e.e = "cut"    -> StepCut(mm, e)
      [] e.e = "status" -> StepStatus(mm, e)
      [] e.e = "frec"   -> StepFRec(mm, e)
      [] e.e = "fsent"  -> StepFSent(mm, e)
      [] OTHER          -> mm

Init == l = 1 /\ m = M0

Next == /\ l <= Len(Trace)
        /\ m' = Step(m, Trace[l])
        /\ l' = l + 1

Spec == Init /\ [][Next]_vars

NoViolation == m.nv = 0

TraceConsumed == TLCGet("stats").diameter - 1 = Len(Trace)

=============================================================================

------------------------------ MODULE MonLockExt ------------------------------
(***************************************************************************)
(* Trace monitor of the growth check `lockext`: the promises written in    *)
(* the header of spec/LockEngineExt.tla (UW unlock-to-wait, RT / RE        *)
(* reverse-key re-issues, LV less-lock-version, KA keepalive) and the core *)
(* safety that must survive those flags, judged over the events engine X   *)
(* records from the real code: requests, every reply, executor steps, the  *)
(* pending executor tasks after every step, connection closes, clock ticks *)
(* and the in-package snapshot.                                            *)
(*                                                                         *)
(* The monitor keeps, per RequestId, the current ISSUE (the client request *)
(* or its latest re-issue: key, LockId, connection, terms), the holds and  *)
(* the wait queue per key exactly as the replies define them.  It contains *)
(* the promises, not the engine: admission is judged with the statement    *)
(* form (C01) plus LV3.  Same plumbing as MonLock: one trace line per      *)
(* step, `VIOL {json}` lines, acceptance = whole trace consumed.           *)
(*                                                                         *)
(* mode "seq": the order of the events is the order of the critical        *)
(* sections, every clause is judged.  mode "free" (runners not gated):     *)
(* only order-independent clauses (replies per issue, unknown ids, final   *)
(* drain, tasks left behind, panic).  A request outside the flag alphabet  *)
(* of this check taints the history: nothing is judged after it.           *)
(***************************************************************************)
EXTENDS Integers, Sequences, FiniteSets, TLC, Json, SequencesExt, FiniteSetsExt

CONSTANTS TraceFile, Props

Trace == ndJsonDeserialize(TraceFile)

VARIABLES l, m
vars == <<l, m>>

SUCCED == 0   LOCKED_ERROR == 5   UNLOCK_ERROR == 6   UNOWN_ERROR == 7   TIMEOUT == 8   EXPRIED == 9

Bit(x, b) == (x \div b) % 2 = 1
TF_REV == 128   TF_LV == 16384   TF_KEEP == 32768
EF_REV == 128   EF_KEEP == 32768
UF_FIRST == 1   UF_TOWAIT == 8
INF == 2000000000

EmptyFn == [x \in {} |-> 0]
SetFn(f, k, v) == [x \in (DOMAIN f) \cup {k} |-> IF x = k THEN v ELSE f[x]]
HoldsOf(mm, k) == IF k \in DOMAIN mm.holds THEN mm.holds[k] ELSE <<>>
WqOf(mm, k)    == IF k \in DOMAIN mm.wq THEN mm.wq[k] ELSE <<>>
DepthSum(H) == FoldLeft(LAMBDA acc, h : acc + h.depth, 0, H)
IdxOfLid(H, lid) == LET I == {i \in 1..Len(H) : H[i].lid = lid} IN IF I = {} THEN 0 ELSE Min(I)
IdxOfRid(H, rid) == LET I == {i \in 1..Len(H) : H[i].rid = rid} IN IF I = {} THEN 0 ELSE Min(I)
RemoveIdx(S, i) == SubSeq(S, 1, i - 1) \o SubSeq(S, i + 1, Len(S))
RemoveFirstOcc(S, x) == LET I == {i \in 1..Len(S) : S[i] = x} IN IF I = {} THEN S ELSE RemoveIdx(S, Min(I))
MaxOf(a, b) == IF a > b THEN a ELSE b

RevKey(k) == IF k >= 900 THEN k ELSE 0 - k         \* the key with its sixteen bytes in reverse order (engine X key codes)
Ver(lid) == lid % 1000                            \* LV1: the lower eight bytes (engine X LockId codes)

AdmissibleStmt(H, c) == DepthSum(H) = 0 \/ (DepthSum(H) <= c /\ DepthSum(H) <= Head(H).cnt)
HeldBackByVersion(H, r) == H # <<>> /\ Bit(r.tf, TF_LV) /\ Ver(r.lid) > Ver(Head(H).lid)
LowerVersion(H, r) == H # <<>> /\ Bit(r.tf, TF_LV) /\ IdxOfLid(H, r.lid) = 0 /\ Ver(r.lid) < Ver(Head(H).lid)

-----------------------------------------------------------------------------
Report(mm, code, detail) ==
    IF mm.taint /\ code # "code-panicked" THEN mm
    ELSE IF PrintT("VIOL " \o ToJson([prop |-> "extra:lockext", code |-> code, line |-> l, trace |-> mm.tr, name |-> mm.name, t |-> mm.t, detail |-> detail]))
         THEN [mm EXCEPT !.nv = @ + 1] ELSE mm
Check(mm, cond, code, detail) == IF cond THEN mm ELSE Report(mm, code, detail)
\* clauses that need the order of events
CheckSeq(mm, cond, code, detail) == IF mm.seq THEN Check(mm, cond, code, detail) ELSE mm

M0 == [ reqs |-> EmptyFn, holds |-> EmptyFn, wq |-> EmptyFn, pend |-> <<>>, closed |-> EmptyFn,
        nv |-> 0, t |-> 0, tr |-> 0, name |-> "", seq |-> TRUE, taint |-> FALSE ]

StepBegin(mm, e) == [M0 EXCEPT !.nv = mm.nv, !.tr = e.idx, !.name = e.name, !.t = e.t, !.seq = (e.mode = "seq")]

StepEnd(mm, e) ==
    IF ~e.complete THEN mm ELSE
    LET U == {id \in DOMAIN mm.reqs : mm.reqs[id].st # "done"}
        m1 == Check(mm, U = {}, "issue-never-answered", [ids |-> SetToSeq(U), kinds |-> [i \in 1..Cardinality(U) |-> mm.reqs[SetToSeq(U)[i]].kind]])
    IN Check(m1, mm.pend = <<>>, "executor-task-left-behind", [pend |-> mm.pend])

-----------------------------------------------------------------------------
InScope(e) == IF e.cmd = "L"
              THEN e.flag = 0 /\ (e.tf % 128 = 0) /\ ((e.tf \div 256) % 64 = 0) /\ (e.ef % 128 = 0) /\ ((e.ef \div 256) % 128 = 0)
              ELSE (e.flag \div 2) % 4 = 0 /\ e.flag < 16 /\ (e.tf % 128 = 0) /\ ((e.tf \div 256) % 64 = 0) /\ (e.ef % 128 = 0) /\ ((e.ef \div 256) % 128 = 0)

StepReq(mm, e) ==
    LET r == [id |-> e.id, conn |-> e.conn, cmd |-> e.cmd, key |-> e.key, lid |-> e.lid, flag |-> e.flag, tf |-> e.tf, ef |-> e.ef,
              to |-> e.to, ex |-> e.ex, cnt |-> e.cnt, rc |-> e.rc, st |-> "open", tq |-> 0, kind |-> "client", nissue |-> 1, nterm |-> 0]
        \* free mode: an unlock-to-wait needs the hold it releases (whose request is re-issued): not reconstructed there
    IN [mm EXCEPT !.reqs = SetFn(@, e.id, r), !.t = e.t, !.taint = @ \/ ~InScope(e) \/ (~mm.seq /\ e.cmd = "U" /\ Bit(e.flag, UF_TOWAIT))]

\* an issue was executed and left without a terminal reply: it is queued
Queued(mm, id, t) ==
    LET r == mm.reqs[id]
        k == r.key
        H == HoldsOf(mm, k)
        \* two live queued issues of one LockId on one key: finding A12 (C02: both are granted) - not this check's subject
        dup == \E j \in 1..Len(WqOf(mm, k)) : mm.reqs[WqOf(mm, k)[j]].lid = r.lid
        m1 == [mm EXCEPT !.reqs[id].st = "queued", !.reqs[id].tq = t, !.wq = SetFn(@, k, Append(WqOf(mm, k), id)), !.taint = @ \/ dup]
        m2 == Check(m1, r.to > 0, "timeout0-issue-left-queued", [rid |-> id, kind |-> r.kind])
        \* LV2 (README): locked, version smaller than the current holder's => success
    IN CheckSeq(m2, ~LowerVersion(H, r), "lessver-not-honoured", [rid |-> id, key |-> k, lid |-> r.lid, holder |-> IF H = <<>> THEN 0 ELSE Head(H).lid, outcome |-> "queued"])

StepRet(mm, e) ==
    LET r == mm.reqs[e.id] IN
    IF r.st # "open" THEN mm
    ELSE IF r.cmd = "U" THEN Report(mm, "unlock-returned-without-reply", [id |-> e.id])
    ELSE Queued(mm, e.id, e.t)

-----------------------------------------------------------------------------
DropFromWq(mm, k, id) == [mm EXCEPT !.wq = IF k \in DOMAIN @ THEN [@ EXCEPT ![k] = SelectSeq(@, LAMBDA x : x # id)] ELSE @]

\* short: the deadline was SHORTENED by a re-lock - the wheel entry is re-checked with the back-off it had (C06 allows 10 s there, as for
\* updates); rep: its lateness was reported already
NewHold(r, t) == [lid |-> r.lid, depth |-> 1, cnt |-> r.cnt, rc |-> r.rc, rid |-> r.id, ef |-> r.ef, ex |-> r.ex, conn |-> r.conn, lo |-> t + r.ex,
                  short |-> FALSE, rep |-> FALSE]

LockSucced(mm, e, r, k, wasQueued, Q) ==
    LET H == HoldsOf(mm, k)
        i == IdxOfLid(H, r.lid)
    IN
    IF e.lid # r.lid
    THEN \* success under another LockId: only LV2 explains it - nothing is added, nobody is disturbed
         CheckSeq(mm, ~wasQueued /\ LowerVersion(H, r) /\ e.lid = Head(H).lid /\ e.lrc = 0, "lessver-succed-wrong",
                  [rid |-> r.id, key |-> k, lid |-> r.lid, reply_lid |-> e.lid, lrc |-> e.lrc, flag |-> Bit(r.tf, TF_LV),
                   holder |-> IF H = <<>> THEN 0 ELSE Head(H).lid])
    ELSE IF r.ex = 0 THEN mm
    ELSE IF i = 0 \/ wasQueued
    THEN LET m1 == CheckSeq(mm, i = 0, "queued-issue-granted-to-holding-lockid", [rid |-> r.id, key |-> k, lid |-> r.lid])
             m2 == CheckSeq(m1, AdmissibleStmt(H, r.cnt), "grant-exceeds-count",
                            [rid |-> r.id, key |-> k, lid |-> r.lid, cnt |-> r.cnt, kind |-> r.kind, outstanding |-> DepthSum(H),
                             oldest |-> IF H = <<>> THEN 0 - 1 ELSE Head(H).cnt])
             m3 == CheckSeq(m2, ~HeldBackByVersion(H, r), "higher-version-admitted",
                            [rid |-> r.id, key |-> k, lid |-> r.lid, holder |-> IF H = <<>> THEN 0 ELSE Head(H).lid])
             m4 == IF wasQueued THEN CheckSeq(m3, Q # <<>> /\ Head(Q) = r.id, "grant-overtakes-earlier-waiter", [rid |-> r.id, key |-> k, queue |-> Q]) ELSE m3
         IN [m4 EXCEPT !.holds = SetFn(@, k, Append(H, NewHold(r, e.t)))]
    ELSE LET h  == H[i]
             m1 == CheckSeq(mm, h.depth <= r.rc /\ h.depth < 255, "relock-beyond-rcount", [rid |-> r.id, lid |-> r.lid, depth |-> h.depth, rc |-> r.rc])
             nh == [NewHold(r, e.t) EXCEPT !.depth = h.depth + 1, !.short = (e.t + r.ex < h.lo), !.rep = h.rep]
         IN [m1 EXCEPT !.holds = SetFn(@, k, [H EXCEPT ![i] = nh])]

\* RT: the sweeper answered a queued issue TIMEOUT
Reissue(mm, rid, nr) == [mm EXCEPT !.reqs[rid] = nr, !.pend = Append(@, <<rid, nr.key>>)]

LockTimeout(mm, e, r, k, wasQueued) ==
    LET H == HoldsOf(mm, k) IN
    IF ~wasQueued
    THEN CheckSeq(mm, ~LowerVersion(H, r), "lessver-not-honoured", [rid |-> r.id, key |-> k, lid |-> r.lid, holder |-> IF H = <<>> THEN 0 ELSE Head(H).lid, outcome |-> "TIMEOUT"])
    ELSE LET m1 == CheckSeq(mm, e.t - r.tq >= r.to, "timeout-early", [rid |-> r.id, waited |-> e.t - r.tq, timeout |-> r.to, kind |-> r.kind])
             m2 == Check(m1, ~(Bit(r.tf, TF_KEEP) /\ r.conn \notin DOMAIN mm.closed), "keepalive-timeout-while-open",
                         [rid |-> r.id, conn |-> r.conn, t |-> e.t, kind |-> r.kind])
         IN IF Bit(r.tf, TF_REV)
            THEN Reissue(m2, r.id, [r EXCEPT !.key = RevKey(k), !.tf = 0, !.st = "pend", !.kind = "rt", !.nissue = @ + 1])       \* RT2
            ELSE m2

LockExpried(mm, e, r) ==
    LET k == e.key
        H == HoldsOf(mm, k)
        i == IdxOfRid(H, r.id)
    IN IF ~mm.seq
       THEN \* free mode: replies are written after the shard mutex is released, so the order of two events of one key need not be
            \* the order of their critical sections (a runner's grant can be recorded before the sweeper's EXPRIED of the hold it
            \* replaced) - the holds are not reconstructed; the re-issue is read off the expiry flag the notice itself carries
            IF Bit(e.ef, EF_REV)
            THEN Reissue(mm, r.id, [r EXCEPT !.key = RevKey(k), !.ef = 0, !.ex = e.to, !.to = e.to, !.tf = e.tf, !.lid = e.lid, !.conn = e.conn,
                                             !.st = "pend", !.kind = "re", !.nissue = @ + 1])
            ELSE mm
       ELSE IF i = 0 THEN Report(mm, "expried-notice-without-hold", [rid |-> r.id, key |-> k])
       ELSE LET h  == H[i]
                m0 == Check(mm, e.conn = h.conn, "reply-on-wrong-connection", [rid |-> r.id, expected |-> h.conn, got |-> e.conn, res |-> e.res])
                m1 == CheckSeq(m0, e.t >= h.lo \/ h.rep, "expired-early", [rid |-> r.id, key |-> k, t |-> e.t, notbefore |-> h.lo])
                m2 == Check(m1, ~(Bit(h.ef, EF_KEEP) /\ h.conn \notin DOMAIN mm.closed), "keepalive-expiry-while-open",
                            [rid |-> r.id, key |-> k, conn |-> h.conn, t |-> e.t])
                m3 == [m2 EXCEPT !.holds = SetFn(@, k, RemoveIdx(H, i))]
            IN IF Bit(h.ef, EF_REV)
               THEN Reissue(m3, r.id, [r EXCEPT !.key = RevKey(k), !.ef = 0, !.ex = r.to, !.st = "pend", !.kind = "re", !.nissue = @ + 1])   \* RE1
               ELSE m3

StepLockReply(mm, e, r) ==
    IF e.res = EXPRIED
    THEN IF r.st = "done" THEN LockExpried(mm, e, r) ELSE Report(mm, "expried-notice-for-unanswered-issue", [rid |-> r.id, st |-> r.st])
    ELSE IF r.st = "done"
    THEN Report(mm, "reply-without-issue", [rid |-> r.id, res |-> e.res, key |-> e.key, issues |-> r.nissue, answered |-> r.nterm])
    ELSE
      LET k  == r.key
          wasQueued == r.st = "queued"
          m0 == CheckSeq(mm, r.st # "pend", "reply-before-executor-ran-the-task", [rid |-> r.id, res |-> e.res])
          m1 == Check(m0, e.key = k, "reply-on-wrong-key", [rid |-> r.id, expected |-> k, got |-> e.key, kind |-> r.kind, res |-> e.res])
          m2 == Check(m1, e.conn = r.conn, "reply-on-wrong-connection", [rid |-> r.id, expected |-> r.conn, got |-> e.conn, kind |-> r.kind, res |-> e.res])
          m3 == DropFromWq([m2 EXCEPT !.reqs[r.id].st = "done", !.reqs[r.id].nterm = @ + 1,
                                      !.pend = IF r.st = "pend" THEN RemoveFirstOcc(@, <<r.id, k>>) ELSE @], k, r.id)
      IN CASE e.res = SUCCED -> LockSucced(m3, e, r, k, wasQueued, WqOf(mm, k))
           [] e.res = TIMEOUT -> LockTimeout(m3, e, r, k, wasQueued)
           [] OTHER -> m3

UnlockSucced(mm, e, r, k) ==
    LET H == HoldsOf(mm, k)
        own == IdxOfLid(H, r.lid)
        first == Bit(r.flag, UF_FIRST)
        i == IF own # 0 THEN own ELSE IF first /\ H # <<>> THEN 1 ELSE 0
    IN
    IF i = 0 THEN CheckSeq(mm, FALSE, "unlock-accepted-without-hold", [rid |-> r.id, key |-> k, lid |-> r.lid])
    ELSE
    LET h  == H[i]
        hr == mm.reqs[h.rid]
        \* unlock-first with a foreign LockId copies the released hold's terms into the command
        t  == IF own # 0 THEN r ELSE [r EXCEPT !.to = hr.to, !.tf = hr.tf, !.ex = hr.ex, !.ef = hr.ef, !.cnt = hr.cnt, !.rc = hr.rc]
    IN
    IF h.depth > 1
    THEN LET newH == IF t.rc > 0 THEN [H EXCEPT ![i].depth = @ - 1] ELSE RemoveIdx(H, i)
             m1 == CheckSeq(mm, e.lid = h.lid, "unlock-reply-lockid-wrong", [rid |-> r.id, expected |-> h.lid, got |-> e.lid])
         IN [m1 EXCEPT !.holds = SetFn(@, k, newH)]                                                              \* UW1
    ELSE
    LET m1 == [mm EXCEPT !.holds = SetFn(@, k, RemoveIdx(H, i))] IN
    IF ~Bit(r.flag, UF_TOWAIT)
    THEN CheckSeq(m1, e.lid = h.lid, "unlock-reply-lockid-wrong", [rid |-> r.id, expected |-> h.lid, got |-> e.lid])
    ELSE LET nl == IF Bit(hr.tf, TF_LV) THEN h.lid + 1 ELSE h.lid                                                \* LV4
             m2 == CheckSeq(m1, e.lid = nl, "unlock-to-wait-lockid-wrong", [rid |-> r.id, expected |-> nl, got |-> e.lid])
             nr == [hr EXCEPT !.lid = nl, !.conn = r.conn, !.to = t.to, !.tf = t.tf, !.ex = t.ex, !.ef = t.ef, !.cnt = t.cnt, !.rc = t.rc,
                              !.st = "queued", !.tq = e.t, !.kind = "uw", !.nissue = @ + 1]
         IN IF t.to > 0                                                                                          \* UW3 / UW4
            THEN [m2 EXCEPT !.reqs[h.rid] = nr, !.wq = SetFn(@, k, Append(WqOf(m2, k), h.rid)),
                            !.taint = @ \/ \E j \in 1..Len(WqOf(m2, k)) : m2.reqs[WqOf(m2, k)[j]].lid = nl]
            ELSE m2

StepUnlockReply(mm, e, r) ==
    LET k  == r.key
        H  == HoldsOf(mm, k)
        m0 == Check(mm, r.st # "done", "reply-without-issue", [rid |-> r.id, res |-> e.res, key |-> e.key, issues |-> 1, answered |-> r.nterm])
        m1 == Check(m0, e.conn = r.conn, "reply-on-wrong-connection", [rid |-> r.id, expected |-> r.conn, got |-> e.conn, kind |-> "unlock", res |-> e.res])
        m2 == [m1 EXCEPT !.reqs[r.id].st = "done", !.reqs[r.id].nterm = @ + 1]
    IN IF r.st = "done" THEN m0
       ELSE CASE e.res = SUCCED -> UnlockSucced(m2, e, r, k)
              [] e.res \in {UNLOCK_ERROR, UNOWN_ERROR} ->
                    CheckSeq(m2, IdxOfLid(H, r.lid) = 0 /\ ~(Bit(r.flag, UF_FIRST) /\ H # <<>>), "unlock-of-outstanding-hold-refused",
                             [rid |-> r.id, key |-> k, lid |-> r.lid, res |-> e.res])
              [] OTHER -> m2

StepReply(mm0, e) ==
    LET mm == [mm0 EXCEPT !.t = e.t] IN
    IF e.rid \notin DOMAIN mm.reqs
    THEN Report(mm, "reply-with-unknown-request-id", [conn |-> e.conn, rid |-> e.rid, res |-> e.res, key |-> e.key])
    ELSE LET r == mm.reqs[e.rid] IN
         IF r.cmd = "L" THEN StepLockReply(mm, e, r) ELSE StepUnlockReply(mm, e, r)

-----------------------------------------------------------------------------
\* executor
StepExec(mm0, e) ==
    LET mm == [mm0 EXCEPT !.t = e.t]
        x  == <<e.rid, e.key>>
    IN IF e.rid \notin DOMAIN mm.reqs \/ \A j \in 1..Len(mm.pend) : mm.pend[j] # x
       THEN Report(mm, "executor-ran-unexpected-task", [rid |-> e.rid, key |-> e.key, pend |-> mm.pend])
       ELSE LET r  == mm.reqs[e.rid]
                \* RT2 / RE1: the terms of the re-issued command
                ok == e.lid = r.lid /\ e.tf = r.tf /\ e.ef = r.ef /\ e.to = r.to /\ e.ex = r.ex /\ e.cnt = r.cnt /\ e.rc = r.rc
                m1 == Check(mm, ok, "reissue-terms-wrong",
                            [rid |-> e.rid, kind |-> r.kind, expected |-> [lid |-> r.lid, tf |-> r.tf, ef |-> r.ef, to |-> r.to, ex |-> r.ex, cnt |-> r.cnt, rc |-> r.rc],
                             got |-> [lid |-> e.lid, tf |-> e.tf, ef |-> e.ef, to |-> e.to, ex |-> e.ex, cnt |-> e.cnt, rc |-> e.rc]])
            IN [m1 EXCEPT !.pend = RemoveFirstOcc(@, x), !.reqs[e.rid].st = "open"]

StepXret(mm, e) ==
    IF e.rid \in DOMAIN mm.reqs /\ mm.reqs[e.rid].st = "open" THEN Queued([mm EXCEPT !.t = e.t], e.rid, e.t) ELSE mm

\* the executor tasks that are pending after a step
StepXq(mm0, e) ==
    LET mm == [mm0 EXCEPT !.t = e.t]
        real == [j \in 1..Len(e.tasks) |-> <<e.tasks[j].rid, e.tasks[j].key>>]
    IN IF mm.seq
       THEN Check(mm, real = mm.pend, "executor-queue-mismatch", [expected |-> mm.pend, pending |-> real])      \* RT2 / RE1: exactly one re-issue each
       ELSE \* free mode: the runners have come to rest - every pending issue has run; the ones without an answer are queued
            LET m1 == Check(mm, real = <<>>, "executor-task-left-behind", [pending |-> real])
                P  == {mm.pend[j][1] : j \in 1..Len(mm.pend)}
            IN [m1 EXCEPT !.pend = <<>>,
                          !.reqs = [id \in DOMAIN @ |-> IF id \in P /\ @[id].st = "pend" THEN [@[id] EXCEPT !.st = "queued", !.tq = e.t] ELSE @[id]]]

StepClose(mm, e) == [mm EXCEPT !.closed = IF e.conn \in DOMAIN @ THEN @ ELSE SetFn(@, e.conn, e.t), !.t = e.t]

-----------------------------------------------------------------------------
\* clock: the upper bounds (C05 / C06 windows; KA2 after the close of the connection)
StepTock(mm0, e) ==
    LET mm == [mm0 EXCEPT !.t = e.t] IN
    IF ~mm.seq \/ mm.taint THEN mm ELSE
    LET Tc(c) == IF c \in DOMAIN mm.closed THEN mm.closed[c] ELSE INF
        LateW == {id \in DOMAIN mm.reqs : LET r == mm.reqs[id] IN
                    /\ r.st = "queued" /\ r.cmd = "L"
                    /\ IF Bit(r.tf, TF_KEEP) THEN Tc(r.conn) < INF /\ e.t > MaxOf(r.tq, Tc(r.conn)) + r.to + 2
                       ELSE e.t - r.tq > r.to + 2}
        LateH == {x \in UNION {{<<k, j>> : j \in 1..Len(mm.holds[k])} : k \in DOMAIN mm.holds} : LET h == mm.holds[x[1]][x[2]] IN
                    /\ ~h.rep
                    /\ IF Bit(h.ef, EF_KEEP) THEN Tc(h.conn) < INF /\ e.t > MaxOf(h.lo, Tc(h.conn) + h.ex) + (IF h.short THEN 10 ELSE 2)
                       ELSE e.t > h.lo + (IF h.short THEN 10 ELSE 2)}
        m1 == Check(mm, LateW = {}, "timeout-late", [ids |-> SetToSeq(LateW), t |-> e.t,
                                                     keepalive |-> [i \in 1..Cardinality(LateW) |-> Bit(mm.reqs[SetToSeq(LateW)[i]].tf, TF_KEEP)]])
        m2 == Check(m1, LateH = {}, "expiry-late", [holds |-> SetToSeq({[key |-> x[1], lid |-> mm.holds[x[1]][x[2]].lid, due |-> mm.holds[x[1]][x[2]].lo,
                                                                         keepalive |-> Bit(mm.holds[x[1]][x[2]].ef, EF_KEEP)] : x \in LateH}), t |-> e.t])
    IN IF LateW = {} /\ LateH = {} THEN mm
       ELSE [m2 EXCEPT !.reqs = [id \in DOMAIN @ |-> IF id \in LateW THEN [@[id] EXCEPT !.tq = INF] ELSE @[id]],
                       !.holds = [k \in DOMAIN @ |-> [j \in 1..Len(@[k]) |-> IF <<k, j>> \in LateH THEN [@[k][j] EXCEPT !.rep = TRUE] ELSE @[k][j]]]]

-----------------------------------------------------------------------------
\* snapshot: the state the promises speak about
StepSnap(mm0, e) ==
    LET mm == [mm0 EXCEPT !.t = e.t]
        K  == 1..Len(e.keys)
        SnapOf(k) == LET I == {i \in K : e.keys[i].key = k} IN IF I = {} THEN [holders |-> <<>>, waiters |-> <<>>, locked |-> 0] ELSE e.keys[CHOOSE i \in I : TRUE]
        AllK == (DOMAIN mm.holds) \cup (DOMAIN mm.wq) \cup {e.keys[i].key : i \in K}
        HSet(k) == {<<SnapOf(k).holders[j].lid, SnapOf(k).holders[j].depth>> : j \in 1..Len(SnapOf(k).holders)}
        MSet(k) == {<<HoldsOf(mm, k)[j].lid, HoldsOf(mm, k)[j].depth>> : j \in 1..Len(HoldsOf(mm, k))}
        BadH == {k \in AllK : HSet(k) # MSet(k) \/ SnapOf(k).locked # DepthSum(HoldsOf(mm, k))}
        WSeq(k) == [j \in 1..Len(SnapOf(k).waiters) |-> SnapOf(k).waiters[j].rid]
        BadW == {k \in AllK : WSeq(k) # WqOf(mm, k)}
        TermsH(h) == h.rid \in DOMAIN mm.reqs /\ LET r == mm.reqs[h.rid] IN
                        h.lid = r.lid /\ h.cnt = r.cnt /\ h.rc = r.rc /\ h.tf = r.tf /\ h.ef = r.ef /\ h.ex = r.ex /\ h.to = r.to
        BadTH == {<<k, j>> \in UNION {{<<kk, jj>> : jj \in 1..Len(SnapOf(kk).holders)} : kk \in AllK} : ~TermsH(SnapOf(k).holders[j])}
        BadTW == {<<k, j>> \in UNION {{<<kk, jj>> : jj \in 1..Len(SnapOf(kk).waiters)} : kk \in AllK} : ~TermsH(SnapOf(k).waiters[j])}
        Stuck == {k \in AllK : WqOf(mm, k) # <<>> /\ LET r == mm.reqs[Head(WqOf(mm, k))] H == HoldsOf(mm, k) IN
                                  AdmissibleStmt(H, r.cnt) /\ ~HeldBackByVersion(H, r)}
        TrueLocked == FoldSet(LAMBDA k, acc : acc + DepthSum(mm.holds[k]), 0, DOMAIN mm.holds)
        TrueWait == Cardinality({id \in DOMAIN mm.reqs : mm.reqs[id].st = "queued"})
        St == IF "0" \in DOMAIN e.st THEN e.st["0"] ELSE [locked |-> 0, wait |-> 0, keys |-> 0]
        m1 == Check(mm, BadH = {}, "hold-set-mismatch",
                    [keys |-> SetToSeq({[key |-> k, real |-> SetToSeq(HSet(k)), explained |-> SetToSeq(MSet(k)), locked |-> SnapOf(k).locked] : k \in BadH})])
        m2 == Check(m1, BadW = {}, "wait-queue-mismatch", [keys |-> SetToSeq({[key |-> k, real |-> WSeq(k), explained |-> WqOf(mm, k)] : k \in BadW})])
        m3 == Check(m2, BadTH = {}, "hold-terms-wrong",
                    [holds |-> SetToSeq({[key |-> x[1], got |-> SnapOf(x[1]).holders[x[2]]] : x \in BadTH})])
        m4 == Check(m3, BadTW = {}, "waiter-terms-wrong",
                    [waiters |-> SetToSeq({[key |-> x[1], got |-> SnapOf(x[1]).waiters[x[2]]] : x \in BadTW})])
        m5 == Check(m4, Stuck = {}, "admissible-head-waiter-left-queued", [keys |-> SetToSeq(Stuck)])
        m6 == Check(m5, St.locked = TrueLocked, "state-lockedcount-wrong", [reported |-> St.locked, truth |-> TrueLocked])
        m7 == Check(m6, St.wait = TrueWait, "state-waitcount-wrong", [reported |-> St.wait, truth |-> TrueWait])
        fin(x) == IF e.final
                  THEN Check(x, St.keys = 0 /\ St.locked = 0 /\ St.wait = 0 /\ e.nkeys = 0 /\ e.tw = 0 /\ e.ew = 0 /\ Len(e.keys) = 0 /\ e.xqueued = 0 /\ e.xbusy = 0,
                             "not-reclaimed-after-drain",
                             [keycount |-> St.keys, locked |-> St.locked, wait |-> St.wait, live_keys |-> e.nkeys, live_timeout_entries |-> e.tw,
                              live_expiry_entries |-> e.ew, executor_queued |-> e.xqueued, executor_busy |-> e.xbusy])
                  ELSE x
    IN IF mm.seq THEN fin(m7) ELSE fin(mm)

StepPanic(mm, e) == Report(mm, "code-panicked", [where |-> e.site, msg |-> e.msg, op |-> e.op])

Step(mm, e) ==
    CASE e.e = "begin"  -> StepBegin(mm, e)
      [] e.e = "end"    -> StepEnd(mm, e)
      [] e.e = "req"    -> StepReq(mm, e)
      [] e.e = "ret"    -> StepRet(mm, e)
      [] e.e = "reply"  -> StepReply(mm, e)
      [] e.e = "exec"   -> StepExec(mm, e)
      [] e.e = "xret"   -> StepXret(mm, e)
      [] e.e = "xq"     -> StepXq(mm, e)
      [] e.e = "close"  -> StepClose(mm, e)
      [] e.e = "tock"   -> StepTock(mm, e)
      [] e.e = "snap"   -> StepSnap(mm, e)
      [] e.e = "panic"  -> StepPanic(mm, e)
      [] e.e = "status" -> [mm EXCEPT !.taint = TRUE]
      [] OTHER          -> mm

Init == l = 1 /\ m = M0
Next == /\ l <= Len(Trace)
        /\ m' = Step(m, Trace[l])
        /\ l' = l + 1
Spec == Init /\ [][Next]_vars
NoViolation == m.nv = 0
TraceConsumed == TLCGet("stats").diameter - 1 = Len(Trace)
=============================================================================

------------------------------- MODULE MonQueue -------------------------------
(***************************************************************************)
(* Trace specification for property C20 ("internal queues refine a plain   *)
(* deque / stable priority queue under every operation mix").              *)
(*                                                                         *)
(* TLC reads the ndjson trace recorded from the REAL queues by             *)
(* harness/inpkg/server/zz_verif_queue_test.go.  One line per step:        *)
(*   begin  {idx, name, kind, impls, prio}      a fresh queue is built     *)
(*   op     {i, op, x, pr, ret, len, head, tail, mp [, iter] [, st]}       *)
(*          the operation, its return value and the read-only              *)
(*          observations taken right after it                              *)
(*   skip   the driver did not run the operation (its target is gone)      *)
(*   panic  the operation panicked inside the real code                    *)
(*   end                                                                   *)
(* The abstract queue value is advanced with Deque!Effect and EVERY        *)
(* recorded value is compared with what the plain deque gives:             *)
(*   return value, Len, Head, Tail, MaxPriority, full iteration order.     *)
(* For the two queues whose elements are flagged removed in place by their *)
(* owner (kind "holder", "wait") the real queue may purge flagged elements *)
(* whenever it likes; nothing else may differ.                             *)
(*                                                                         *)
(* Each violated clause prints  "VIOL {json}"  (first one per history; the *)
(* abstract value is then re-synchronised with the recorded iteration).    *)
(* A divergence in a history that called Shrink before is reported under   *)
(* the code divergence-after-shrink (Shrink is given "identity on          *)
(* contents"; see known_findings.json Q1).  An index-out-of-range panic in *)
(* a long-wait history in which a db.go restructuring has left the         *)
(* recorded struct with nodeIndex beyond the last allocated node is        *)
(* reported as longwait-panic-after-stale-nodeindex (Q2); the same after   *)
(* LockQueue.Restructuring on a node queue with spare nodes behind the     *)
(* tail as node-panic-after-restructuring-broke-nodeindex (Q3); Q2 and Q3  *)
(* are repaired (2b698da, 775ec1e) and these codes are plain violations.   *)
(* The same count-down defect in the db.go copies (spare base nodes behind *)
(* the tail) has the code longwait-panic-after-restructuring-with-spare-   *)
(* nodes (Q4, repaired by e13fd2e; a plain violation now).                 *)
(***************************************************************************)
EXTENDS Integers, Sequences, FiniteSets, TLC, Json, Deque

CONSTANTS TraceFile, Props

Trace == ndJsonDeserialize(TraceFile)

VARIABLES l, m
vars == <<l, m>>

M0 == [S |-> InitQ(FALSE), kind |-> "", impls |-> <<>>, name |-> "", tr |-> 0,
       shrunk |-> FALSE, stale |-> FALSE, spare |-> FALSE, failed |-> FALSE, nv |-> 0, steps |-> 0]

Purgeable(kind) == kind \in {"holder", "wait"}
HasTail(kind)   == kind \in {"node", "longwait"}
HasPrio(kind)   == kind \in {"wait", "ring", "pring"}

Report(mm, code, e, detail) ==
    IF mm.failed \/ "C20" \notin Props THEN mm
    ELSE LET c == IF mm.shrunk THEN "divergence-after-shrink" ELSE code IN
         IF PrintT("VIOL " \o ToJson([prop |-> "C20", code |-> c, line |-> l, trace |-> mm.tr, name |-> mm.name,
                                      detail |-> [clause |-> code, op |-> e.op, step |-> e.i, kind |-> mm.kind,
                                                  impls |-> mm.impls, info |-> detail]]))
         THEN [mm EXCEPT !.nv = @ + 1, !.failed = TRUE] ELSE mm

\* rebuild the abstract value from a recorded iteration (after a reported divergence)
FromIter(q, it) ==
    [i \in 1..Len(it) |->
        LET p == PosOf(q, it[i]) IN
        IF it[i] = 0 THEN HoleElem ELSE IF p > 0 THEN q[p] ELSE Elem(it[i], 0)]

\* The driver marks an event with "nbad" when the recorded struct of the real node queue no longer has
\* nodes 0..nodeIndex allocated.  A restructuring that leaves the queue like that is the root cause of Q2 / Q3.
StaleNodeIndex(mm, e) == e.op = "restruct" /\ "nbad" \in DOMAIN e
\* ... and "nspare" when an allocated node lies above nodeIndex: the restructuring counted nodeIndex down from the
\* old tail node although spare nodes were allocated behind the tail (Q4; Q3 was the same in Restructuring)
SpareAbove(mm, e) == StaleNodeIndex(mm, e) /\ "nspare" \in DOMAIN e

StepBegin(mm, e) ==
    [M0 EXCEPT !.S = InitQ(e.prio), !.kind = e.kind, !.impls = e.impls, !.name = e.name, !.tr = e.idx, !.nv = mm.nv]

StepOp(mm, e) ==
    IF mm.failed THEN mm ELSE      \* one report per history; nothing is judged behind it
    LET S0      == mm.S
        m0      == [mm EXCEPT !.shrunk = @ \/ e.op = "shrink", !.stale = @ \/ StaleNodeIndex(mm, e), !.spare = @ \/ SpareAbove(mm, e), !.steps = @ + 1]
        retok   == e.ret \in Returns(S0, e)
        S1      == Effect(S0, e)
        hasIter == "iter" \in DOMAIN e
        iterok  == IF ~hasIter THEN TRUE
                   ELSE IF Purgeable(mm.kind) THEN PurgeOK(S1.q, e.iter)
                   ELSE e.iter = Ids(S1.q)
        S2      == IF ~hasIter THEN S1
                   ELSE IF iterok THEN (IF Purgeable(mm.kind) THEN [S1 EXCEPT !.q = Restrict(S1.q, e.iter)] ELSE S1)
                   ELSE [S1 EXCEPT !.q = FromIter(S1.q, e.iter)]
        m1 == IF retok THEN m0
              ELSE Report(m0, "wrong-return-value", e, [expected |-> Returns(S0, e), got |-> e.ret])
        m2 == IF iterok THEN m1
              ELSE Report(m1, "iteration-differs-from-deque", e, [expected |-> Ids(S1.q), got |-> e.iter])
        m3 == IF e.len = LenOf(S2) THEN m2
              ELSE Report(m2, "len-mismatch", e, [expected |-> LenOf(S2), got |-> e.len])
        m4 == IF e.head = HeadOf(S2) THEN m3
              ELSE Report(m3, "head-mismatch", e, [expected |-> HeadOf(S2), got |-> e.head])
        m5 == IF ~HasTail(mm.kind) \/ e.tail = TailOf(S2) THEN m4
              ELSE Report(m4, "tail-mismatch", e, [expected |-> TailOf(S2), got |-> e.tail])
        m6 == IF ~HasPrio(mm.kind) \/ e.mp = MaxPrioOf(S2) THEN m5
              ELSE Report(m5, "maxpriority-mismatch", e, [expected |-> MaxPrioOf(S2), got |-> e.mp])
    IN [m6 EXCEPT !.S = S2]

StepPanic(mm, e) ==
    LET m0 == [mm EXCEPT !.shrunk = @ \/ e.op = "shrink"]
        q2 == mm.kind = "longwait" /\ mm.stale /\ e.pk = "index-out-of-range"
        q3 == mm.kind = "node" /\ mm.stale /\ e.pk = "index-out-of-range"
        q4 == q2 /\ mm.spare
    IN Report(m0, IF q4 THEN "longwait-panic-after-restructuring-with-spare-nodes"
                  ELSE IF q2 THEN "longwait-panic-after-stale-nodeindex"
                  ELSE IF q3 THEN "node-panic-after-restructuring-broke-nodeindex"
                  ELSE IF e.pk = "runaway" THEN "queue-operation-does-not-return"
                  ELSE "panic-in-queue-operation", e, [msg |-> e.msg, pk |-> e.pk])

Step(mm, e) ==
    CASE e.e = "begin" -> StepBegin(mm, e)
      [] e.e = "op"    -> StepOp(mm, e)
      [] e.e = "panic" -> StepPanic(mm, e)
      [] OTHER         -> mm          \* skip, end

Init == l = 1 /\ m = M0

Next == /\ l <= Len(Trace)
        /\ m' = Step(m, Trace[l])
        /\ l' = l + 1

Spec == Init /\ [][Next]_vars

NoViolation == m.nv = 0

TraceConsumed == TLCGet("stats").diameter - 1 = Len(Trace)
=============================================================================

--------------------------- MODULE MonMembership ---------------------------
(***************************************************************************)
(* Property monitor of the growth check `bin/extra member`: a trace        *)
(* specification over what engine Mb (zz_verif_member_test.go) recorded of *)
(* N real ArbiterManager objects: every step of the schedule (admin        *)
(* command through the real text handler, delivered REPL_ANNOUNCEMENT with *)
(* the handler's answer, link cut / admitted, vote wake-up, poll, crash,   *)
(* restart, final heal) and after every step - at quiescence - the         *)
(* in-package snapshot of every node (member list with weight / arbiter /  *)
(* role / status, version, vertime, leaderMember, pending commit, slock    *)
(* state, replication leader address, decoded meta.pb).                    *)
(*                                                                         *)
(* The clauses are the promises written in the header of spec/Membership   *)
(* (R1..R5 README, K1..K5 code); the monitor holds no copy of the handler  *)
(* rules.  Where a promise is silent the monitor is agnostic: timing,      *)
(* which member wins an election, what happens while links are cut, roles  *)
(* of non-leader members, sets without an eligible member.                 *)
(*                                                                         *)
(*  K1 version-regress          a configured node's version is lower than  *)
(*                              at the previous step (it did not leave the *)
(*                              set in between); after a restart lower     *)
(*                              than what it had                           *)
(*  K2 metafile-differs         at quiescence meta.pb of a configured node *)
(*                              differs from its memory (hosts, weight,    *)
(*                              arbiter, version, vertime)                 *)
(*  K3 leader-without-quorum    at quiescence a node leads while it sees   *)
(*                              fewer than len(list)/2+1 members online    *)
(*  K5 process-died             the process died inside the code under     *)
(*                              test while serving membership requests     *)
(*  K5 node-hung               a mutex of the node's voter is never        *)
(*                              released (every goroutine of the process   *)
(*                              is parked): its election handlers hang     *)
(*  K5 link-stuck              a request of the node is parked for ever on *)
(*                              a dead connection holding the client mutex *)
(*                              (the link to that member never reopens)    *)
(*  R4 leader-not-eligible      at quiescence a node leads with weight 0   *)
(*                              or arbiter # 0 in its own list             *)
(* after the final heal (all nodes up, every link admitted, every          *)
(* announcement delivered, every retry timer fired repeatedly):            *)
(*  R2 members-not-converged    a member of the leader's list holds another*)
(*                              list / version / leader                    *)
(*  R2 follower-not-following   a data-bearing member does not replicate   *)
(*                              from the leader                            *)
(*  R2 two-leaders              two nodes lead and one is in the other's   *)
(*                              list                                       *)
(*  R1 acked-command-lost       the last +OK command on a host is not      *)
(*                              reflected in the leader's list             *)
(*  R5 removed-member-stays     a host outside the leader's list still     *)
(*                              holds a configuration naming the leader    *)
(*  R3 no-leader-at-rest        a majority of some node's list is up,      *)
(*                              configured with that same list and has an  *)
(*                              eligible member, yet nobody of it leads    *)
(***************************************************************************)
EXTENDS Integers, Sequences, FiniteSets, TLC, Json, SequencesExt, FiniteSetsExt

CONSTANTS TraceFile, Props

Trace == ndJsonDeserialize(TraceFile)

VARIABLES l, m
vars == <<l, m>>

Has(e, k) == k \in DOMAIN e
EmptyFn == [x \in {} |-> 0]
SetFn(f, k, v) == [x \in (DOMAIN f) \cup {k} |-> IF x = k THEN v ELSE f[x]]

Report(mm, code, detail) ==
    IF "extra:member" \in Props
    THEN IF PrintT("VIOL " \o ToJson([prop |-> "extra:member", code |-> code, line |-> l, name |-> mm.name, detail |-> detail]))
         THEN [mm EXCEPT !.nv = @ + 1] ELSE mm
    ELSE mm
Check(mm, cond, code, detail) == IF cond THEN mm ELSE Report(mm, code, detail)

M0 == [prev |-> <<>>, acked |-> EmptyFn, cmds |-> 0, name |-> "", nv |-> 0, steps |-> 0, heals |-> 0, judged |-> 0]

-----------------------------------------------------------------------------
Up(s) == Has(s, "up") /\ s.up
Cfg(s) == Up(s) /\ Has(s, "cfg") /\ s.cfg
Trip(x) == <<x[1], x[2], x[3]>>
ListOf(mem) == {Trip(mem[i]) : i \in 1..Len(mem)}
HostsOf(mem) == {mem[i][1] : i \in 1..Len(mem)}
Entry(mem, h) == LET I == {i \in 1..Len(mem) : mem[i][1] = h} IN IF I = {} THEN <<0, 0, 0, 0, 0>> ELSE mem[CHOOSE i \in I : TRUE]
Leads(s, i) == Cfg(s) /\ s.own = i /\ s.ldr = i /\ s.st = 1
OnlineCount(s) == Cardinality({i \in 1..Len(s.mem) : s.mem[i][5] = 5})
Quorum(k) == (k \div 2) + 1

Nodes(e) == 1..Len(e.nodes)

\* K1
ChkVersion(mm, e) ==
    IF Len(mm.prev) # Len(e.nodes) \/ e.op = "heal" THEN mm
    ELSE LET Bad == {i \in Nodes(e) : Cfg(mm.prev[i]) /\ Cfg(e.nodes[i]) /\ e.nodes[i].ver < mm.prev[i].ver}
             BadR == {i \in Nodes(e) : e.op = "restart" /\ e.n = i /\ Has(mm.prev[i], "disk") /\ mm.prev[i].disk.has /\ ~mm.prev[i].disk.bad
                                        /\ Cfg(e.nodes[i]) /\ e.nodes[i].ver < mm.prev[i].disk.ver}
             m1 == IF Bad = {} THEN mm
                   ELSE LET i == CHOOSE x \in Bad : TRUE
                        IN Report(mm, "version-regress", [node |-> i, before |-> mm.prev[i].ver, after |-> e.nodes[i].ver, op |-> e.op,
                                                           what |-> IF e.op = "ann" /\ Has(e, "pre") /\ Has(e, "msg") /\ e.j = i /\ Cfg(e.pre) /\ e.pre.ph # 0 /\ e.msg.cid = e.pre.cid
                                                                    THEN "an older list was adopted through the pending-commit bypass"
                                                                    ELSE IF e.op = "ann" THEN "an announcement with a lower version was adopted" ELSE "version decreased"])
         IN IF BadR = {} THEN m1
            ELSE LET i == CHOOSE x \in BadR : TRUE
                 IN Report(m1, "version-regress", [node |-> i, before |-> mm.prev[i].disk.ver, after |-> e.nodes[i].ver, op |-> e.op, what |-> "version after restart lower than the saved one"])

\* K2
DiskOK(s) == /\ Has(s, "disk") /\ s.disk.has /\ ~s.disk.bad
             /\ s.disk.ver = s.ver /\ s.disk.vt = s.vt
             /\ ListOf(s.disk.mem) = ListOf(s.mem)
ChkDisk(mm, e) ==
    LET Bad == {i \in Nodes(e) : Cfg(e.nodes[i]) /\ ~DiskOK(e.nodes[i])}
    IN IF Bad = {} THEN mm
       ELSE LET i == CHOOSE x \in Bad : TRUE
                s == e.nodes[i]
            IN Report(mm, "metafile-differs", [node |-> i, op |-> e.op, memory |-> [ver |-> s.ver, vt |-> s.vt, mem |-> s.mem], disk |-> s.disk,
                                               what |-> IF ~s.disk.has THEN "no meta.pb"
                                                        ELSE IF s.disk.bad THEN "meta.pb unreadable"
                                                        ELSE IF s.disk.ver # s.ver \/ s.disk.vt # s.vt THEN "version or vertime differ"
                                                        ELSE "member list differs"])

\* K3, R4
\* K3 is judged where the code computes the quorum: when a node BECOMES leader in this step, and when a member of a
\* leading node went offline in this step (memberStatusUpdated) while the list kept its size
WentOffline(p, s) == \E i \in 1..Len(s.mem) : s.mem[i][5] # 5 /\ Entry(p.mem, s.mem[i][1])[5] = 5
ChkLeader(mm, e) ==
    LET L == {i \in Nodes(e) : Leads(e.nodes[i], i)}
        Judged == {i \in L : Len(mm.prev) = Len(e.nodes) /\
                      (IF Leads(mm.prev[i], i) THEN Len(mm.prev[i].mem) = Len(e.nodes[i].mem) /\ WentOffline(mm.prev[i], e.nodes[i]) ELSE e.op \in {"vote", "brk", "crash"})}      \* not "ann": a winner that is told of its election by the candidate did not count anybody itself
        NoQ == {i \in Judged : OnlineCount(e.nodes[i]) < Quorum(Len(e.nodes[i].mem))}
        NoE == {i \in L : Entry(e.nodes[i].mem, i)[2] = 0 \/ Entry(e.nodes[i].mem, i)[3] # 0}
        m1 == IF NoQ = {} \/ e.op = "heal" THEN mm
              ELSE LET i == CHOOSE x \in NoQ : TRUE
                   IN Report(mm, "leader-without-quorum", [node |-> i, online |-> OnlineCount(e.nodes[i]), members |-> Len(e.nodes[i].mem), op |-> e.op,
                                                            what |-> IF Leads(mm.prev[i], i) THEN "a leader that lost sight of the majority of its list keeps leading" ELSE "a node became leader without seeing a majority of its list"])
    IN IF NoE = {} THEN m1
       ELSE LET i == CHOOSE x \in NoE : TRUE
            IN Report(m1, "leader-not-eligible", [node |-> i, entry |-> Entry(e.nodes[i].mem, i), op |-> e.op,
                                                   what |-> IF Entry(e.nodes[i].mem, i)[3] # 0 THEN "the leader is an arbiter" ELSE "the leader has weight 0"])

\* acknowledged commands: host -> last +OK command on it
Acks(mm, e) ==
    LET F[k \in 0..Len(e.res)] ==
          IF k = 0 THEN mm
          ELSE LET r == e.res[k]
               IN IF r.ok /\ r.k \in {"add", "set", "remove"} THEN [F[k - 1] EXCEPT !.acked = SetFn(@, r.x, r), !.cmds = @ + 1]
                  ELSE IF r.ok THEN [F[k - 1] EXCEPT !.cmds = @ + 1] ELSE F[k - 1]
    IN F[Len(e.res)]

Reflects(mem, c) == IF c.k = "remove" THEN c.x \notin HostsOf(mem)
                    ELSE c.x \in HostsOf(mem) /\ Entry(mem, c.x)[2] = c.w /\ Entry(mem, c.x)[3] = c.a

\* the promises at rest
ChkRest(mm, e) ==
    IF e.op # "heal" \/ \E i \in Nodes(e) : ~Up(e.nodes[i]) THEN mm
    ELSE
    LET S == e.nodes
        L == {i \in Nodes(e) : Leads(S[i], i)}
        Div == {<<a, k>> \in L \X Nodes(e) : k \in HostsOf(S[a].mem) /\ k # a /\
                   ~(Cfg(S[k]) /\ S[k].ver = S[a].ver /\ S[k].vt = S[a].vt /\ ListOf(S[k].mem) = ListOf(S[a].mem) /\ S[k].ldr = a)}
        NoF == {<<a, k>> \in L \X Nodes(e) : k \in HostsOf(S[a].mem) /\ k # a /\ Cfg(S[k]) /\ S[k].ldr = a /\ Entry(S[k].mem, k)[3] = 0 /\ S[k].rl # a}
        Two == {<<a, b>> \in L \X L : a < b /\ (b \in HostsOf(S[a].mem) \/ a \in HostsOf(S[b].mem))}
        Lost == {<<a, h>> \in L \X DOMAIN mm.acked : Cardinality(L) = 1 /\ ~Reflects(S[a].mem, mm.acked[h])}
        Stay == {<<a, k>> \in L \X Nodes(e) : k \notin HostsOf(S[a].mem) /\ Cfg(S[k]) /\ a \in HostsOf(S[k].mem)}
        \* R3: node i's list: a majority is up, configured with the same list, one of them eligible in its own view, nobody of the list leads
        Stuck == {i \in Nodes(e) : /\ Cfg(S[i])
                                  /\ LET H == HostsOf(S[i].mem)
                                         Same == {k \in H : k \in Nodes(e) /\ Cfg(S[k]) /\ ListOf(S[k].mem) = ListOf(S[i].mem)}
                                     IN /\ Cardinality(Same) >= Quorum(Cardinality(H))
                                        /\ \E k \in Same : Entry(S[k].mem, k)[2] > 0 /\ Entry(S[k].mem, k)[3] = 0 /\ ~S[k].abst     \* quit-leader: the operator's wish, no promise
                                        /\ ~\E k \in H : k \in L}
        m1 == IF Div = {} THEN mm
              ELSE LET p == CHOOSE x \in Div : TRUE
                   IN Report(mm, "members-not-converged",
                             [leader |-> p[1], member |-> p[2], calm |-> e.calm, rounds |-> e.rounds,
                              leaderview |-> [ver |-> S[p[1]].ver, vt |-> S[p[1]].vt, mem |-> S[p[1]].mem],
                              memberview |-> IF Cfg(S[p[2]]) THEN [ver |-> S[p[2]].ver, vt |-> S[p[2]].vt, mem |-> S[p[2]].mem, ldr |-> S[p[2]].ldr] ELSE [ver |-> 0, vt |-> 0, mem |-> <<>>, ldr |-> 0],
                              what |-> IF ~Cfg(S[p[2]]) THEN "member holds no configuration"
                                       ELSE IF S[p[2]].ver > S[p[1]].ver \/ (S[p[2]].ver = S[p[1]].ver /\ S[p[2]].vt > S[p[1]].vt) THEN "member is ahead of the leader and refuses its announcements"
                                       ELSE IF ListOf(S[p[2]].mem) # ListOf(S[p[1]].mem) \/ S[p[2]].ver # S[p[1]].ver THEN "member is behind the leader"
                                       ELSE "member names another leader"])
        m2 == IF NoF = {} THEN m1
              ELSE LET p == CHOOSE x \in NoF : TRUE
                   IN Report(m1, "follower-not-following", [leader |-> p[1], member |-> p[2], follows |-> S[p[2]].rl, state |-> S[p[2]].st, what |-> "replication address is not the leader"])
        m3 == IF Two = {} THEN m2
              ELSE LET p == CHOOSE x \in Two : TRUE
                   IN Report(m2, "two-leaders", [a |-> p[1], b |-> p[2], lista |-> S[p[1]].mem, listb |-> S[p[2]].mem, what |-> IF ListOf(S[p[1]].mem) = ListOf(S[p[2]].mem) THEN "two leaders of one list" ELSE "two leaders of overlapping lists"])
        m4 == IF Lost = {} THEN m3
              ELSE LET p == CHOOSE x \in Lost : TRUE
                   IN Report(m3, "acked-command-lost", [leader |-> p[1], command |-> mm.acked[p[2]], list |-> S[p[1]].mem, what |-> mm.acked[p[2]].k])
        m5 == IF Stay = {} THEN m4
              ELSE LET p == CHOOSE x \in Stay : TRUE
                   IN Report(m4, "removed-member-stays", [leader |-> p[1], host |-> p[2], itslist |-> S[p[2]].mem, what |-> "host outside the list keeps its configuration"])
        m6 == IF Stuck = {} THEN m5
              ELSE LET i == CHOOSE x \in Stuck : TRUE
                   IN Report(m5, "no-leader-at-rest", [node |-> i, list |-> S[i].mem, ldr |-> S[i].ldr, voting |-> S[i].voting, calm |-> e.calm, rounds |-> e.rounds, what |-> IF S[i].ldr # 0 /\ S[i].ldr \notin HostsOf(S[i].mem) THEN "leaderMember still names a removed member" ELSE "nobody leads"])
    IN [m6 EXCEPT !.heals = @ + 1]

Step(mm, e) ==
    IF e.e = "begin" THEN [M0 EXCEPT !.name = e.name, !.prev = e.nodes, !.nv = mm.nv, !.judged = mm.judged]
    ELSE IF e.e = "hung" THEN Report(mm, "node-hung", [node |-> e.n, lock |-> e.lock, func |-> e.func, at |-> e.at, what |-> e.func])
    ELSE IF e.e = "stuck" THEN Report(mm, "link-stuck", [requests |-> e.requests, func |-> e.func, at |-> e.at, what |-> e.func])
    ELSE IF e.e = "crashed" THEN Report(mm, "process-died", [panic |-> e.panic, func |-> e.func, at |-> e.at, what |-> e.func])
    ELSE IF e.e # "step" THEN mm
    ELSE LET a == Acks(mm, e)
             b == ChkVersion(a, e)
             c == ChkDisk(b, e)
             d == ChkLeader(c, e)
             f == ChkRest(d, e)
         IN [f EXCEPT !.prev = e.nodes, !.steps = @ + 1, !.judged = @ + 1]

Init == l = 1 /\ m = M0
Next == /\ l <= Len(Trace)
        /\ m' = Step(m, Trace[l])
        /\ l' = l + 1
        /\ (l = Len(Trace)) => PrintT("STATS " \o ToJson([steps |-> m'.judged, viols |-> m'.nv]))
Spec == Init /\ [][Next]_vars

TraceConsumed == TLCGet("stats").diameter - 1 = Len(Trace)
=============================================================================

------------------------------- MODULE MonProto -------------------------------
(***************************************************************************)
(* Trace specification for property C13 "no client byte stream can crash   *)
(* the server".  TLC reads the ndjson trace recorded by engine W           *)
(* (harness/inpkg/server/zz_verif_proto_test.go: one line per delivery fed *)
(* to the REAL Server.handle) and consumes one line per step.              *)
(*                                                                         *)
(* Verdict clauses (property C13, phrased over observations only):         *)
(*   connection-goroutine-panic   the goroutine serving the fed connection *)
(*                                panicked (nothing in the server recovers *)
(*                                it: the process terminates)              *)
(*   server-process-died          the server process terminated while the  *)
(*                                delivery was in flight (panic in another *)
(*                                goroutine, fatal error)                  *)
(*   other-connection-not-served  after the delivery the long-lived second *)
(*                                connection or a fresh third connection   *)
(*                                no longer gets its requests answered     *)
(* Each violated clause is a PrintT line "VIOL {json}".                    *)
(*                                                                         *)
(* Binding / refinement (never a verdict by themselves):                   *)
(*   BIND     a recorded class is not a member of the spec's alphabet      *)
(*            (spec/ProtoClasses.tla, Universe) or the line is malformed   *)
(*   DIVERGE  the observed response class of a step is outside the         *)
(*            expectation Step(state, class).exp of the session model      *)
(* The monitor is agnostic about everything the statement leaves open: it  *)
(* does not judge WHICH reply a malformed input earns.                     *)
(***************************************************************************)
EXTENDS ProtoClasses

CONSTANTS TraceFile,      \* path of the ndjson trace
          Props           \* set of property ids whose clauses are active

Trace == ndJsonDeserialize(TraceFile)

VARIABLES l, m
mvars == <<l, m>>

Has(e, f) == f \in DOMAIN e

Report(mm, kind, rec) == IF PrintT(kind \o " " \o ToJson(rec)) THEN mm ELSE mm

Viol(mm, e, code, detail) ==
    IF "C13" \in Props
    THEN [Report(mm, "VIOL", [prop |-> "C13", code |-> code, line |-> l, name |-> e.name, idx |-> e.idx, detail |-> detail]) EXCEPT !.nv = @ + 1]
    ELSE mm

\* ------------------------------------------------------------------ binding
WellFormed(e) ==
    /\ Has(e, "e") /\ Has(e, "name") /\ Has(e, "idx")
    /\ e.e \in {"d", "late"}
    /\ e.e = "d" => /\ Has(e, "path") /\ Has(e, "obs") /\ Has(e, "panic") /\ Has(e, "done") /\ Has(e, "probe") /\ Has(e, "probe2")
                    /\ e.panic \in BOOLEAN /\ e.done \in BOOLEAN
                    /\ Len(e.path) >= 1
                    /\ e.done => Len(e.obs) = Len(e.path)

\* the alphabet is evaluated once (Init) and kept in TLC register 1: `c \in Universe` would rebuild it on every line
ClassOK(c) == c \in TLCGet(1)

\* ------------------------------------------------------------------ refinement: replay the session model
RECURSIVE Replay(_, _, _, _, _)
Replay(mm, e, i, s, stopped) ==
    IF i > Len(e.path) \/ i > Len(e.obs) \/ stopped THEN mm
    ELSE LET c == e.path[i]
             o == e.obs[i]
             r == Step(s, c)
             \* lenient where the observation is a matter of timing: no answer within the window (blocked), a close not yet seen
             ok == (o.blocked \/ o.r \in r.exp.resp) /\ (o.closed => TRUE \in r.exp.closes)
             m1 == IF ok \/ e.panic THEN mm
                   ELSE [Report(mm, "DIVERGE", [name |-> e.name, idx |-> e.idx, step |-> i, fam |-> c.fam, k |-> c.k, mode |-> s.mode, pend |-> s.pend,
                                                obs |-> [r |-> o.r, closed |-> o.closed, blocked |-> o.blocked],
                                                exp |-> r.exp]) EXCEPT !.nd = @ + 1]
         IN Replay(m1, e, i + 1, r.st, o.closed)

\* ------------------------------------------------------------------ one trace line
StepLine(mm, e) ==
    IF ~WellFormed(e) THEN [Report(mm, "BIND", [line |-> l, why |-> "malformed trace line"]) EXCEPT !.nb = @ + 1]
    ELSE IF e.e = "late"
    THEN Viol(mm, e, "connection-goroutine-panic", [site |-> e.site, kind |-> e.kind, late |-> TRUE])
    ELSE
      LET bad == {i \in 1..Len(e.path) : ~ClassOK(e.path[i])}
          m0 == IF bad = {} THEN mm
                ELSE [Report(mm, "BIND", [line |-> l, name |-> e.name, why |-> "class not in the alphabet of the spec", steps |-> bad]) EXCEPT !.nb = @ + 1]
          m1 == IF e.panic THEN Viol(m0, e, "connection-goroutine-panic", [site |-> e.site, kind |-> e.kind, late |-> FALSE]) ELSE m0
          m2 == IF ~e.done THEN Viol(m1, e, "server-process-died", [site |-> e.site, kind |-> e.kind]) ELSE m1
          m3 == IF e.done /\ ~e.panic /\ ~(e.probe = "ok" /\ e.probe2 = "ok")
                THEN Viol(m2, e, "other-connection-not-served",
                          [old |-> e.probe, fresh |-> e.probe2, fam |-> e.path[Len(e.path)].fam, k |-> e.path[Len(e.path)].k])
                ELSE m2
          m4 == IF bad = {} /\ e.done THEN Replay(m3, e, 1, Init0, FALSE) ELSE m3
      IN [m4 EXCEPT !.nl = @ + 1]

Init == l = 1 /\ m = [nv |-> 0, nd |-> 0, nb |-> 0, nl |-> 0] /\ TLCSet(1, Universe)

Next == /\ l <= Len(Trace)
        /\ m' = StepLine(m, Trace[l])
        /\ l' = l + 1

Spec == Init /\ [][Next]_mvars

TraceConsumed == TLCGet("stats").diameter - 1 = Len(Trace)
=============================================================================

----------------------------- MODULE MonForward -----------------------------
(***************************************************************************)
(* Trace monitor for the FORWARDING half of property C10 ("only the leader *)
(* decides; other nodes refuse or forward ... the leader's reply is        *)
(* relayed unchanged, so a client gets the same outcome from any node").   *)
(*                                                                         *)
(* Input: ndjson traces recorded by engine P (lib/fwdcluster.py) from real *)
(* slock processes: every client request and reply on every connection     *)
(* (leader, followers, a CONFIG-state member; binary and text), every      *)
(* frame that crossed a follower's upstream connection to the leader       *)
(* (up_req / up_reply, seen by a proxy on the follower->leader address),   *)
(* fault and role events, and snapshots of the nodes' holds at the end.    *)
(*                                                                         *)
(* Clauses (each violated clause is printed as `VIOL {json}`):             *)
(*  (a) one reply per request, with ITS id, on ITS connection; a leader    *)
(*      reply that reached an intact upstream is relayed                   *)
(*  (b) outcome equivalence: all leader-decided replies, whichever node    *)
(*      the requests were sent to, are explained by ONE sequential lock    *)
(*      engine per deciding node (grants admissible, re-locks within       *)
(*      Rcount, unlocks only by holders, refusals only when not            *)
(*      admissible, LCount exact) and the leader's snapshot equals the     *)
(*      holds the history implies                                          *)
(*  (c) what a non-leader tells a client is either the leader's reply for  *)
(*      that very request (all fields equal) or a refusal; never a         *)
(*      success of its own; nothing but refusals while no leader is        *)
(*      reachable; nothing at all for a forwarded request while the        *)
(*      leader is frozen                                                   *)
(*  (d) a follower's holds are a subset of the leader's and contain every  *)
(*      hold the leader has logged, once it reports the leader's position  *)
(*                                                                         *)
(*  (e) unsolicited frames on an upstream link (the EXPRIED notice the      *)
(*      leader pushes down the connection a hold was taken on, carrying the *)
(*      id of a request it has already answered): exactly ONE leader frame  *)
(*      is the answer of a request - what a client is told for a LATER      *)
(*      request is the leader's frame for THAT request, never the frame of  *)
(*      another one (reply-of-another-request); a binary client gets the    *)
(*      notice as a further frame of that very request with all fields      *)
(*      equal (relayed-notice-differs, notice-not-from-leader,              *)
(*      notice-not-relayed)                                                 *)
(*                                                                         *)
(* Holds may expire: a hold the leader reported expired (notice seen on an  *)
(* upstream link or by a binary client) leaves the monitor's picture; a     *)
(* hold whose expiry time may have passed without such evidence excuses a   *)
(* contradiction of the engine clauses (the key is no longer judged) - the  *)
(* expiry times themselves are C06's matter.                                *)
(*                                                                         *)
(*  (f) the text key commands.  Every key command registered in the text     *)
(*      dispatch tables has a CLASS, taken from what the command does on a   *)
(*      LEADER: WriteNames change engine state there (the leader's handler   *)
(*      runs LockDB.Lock / UnLock with the converted command), ReadNames     *)
(*      only look.  Through a non-leader a write-class command is refused    *)
(*      or forwarded - an answer with no upstream request for it is          *)
(*      non-leader-answered-on-its-own - and its answer is the leader's      *)
(*      frame as the command's reply writer renders it (value, number,       *)
(*      size: relayed-reply-differs); a read-class command may be answered   *)
(*      from the replica.  The leader's values follow the sequential         *)
(*      key-value store of spec/RedisCmds.tla (Exec) applied to the          *)
(*      commands the leader accepted, whichever node they were sent to:      *)
(*      reads on the leader and the values read back at the end must be      *)
(*      replies of that store (get-differs-from-last-acknowledged-set,       *)
(*      leader-value-differs-from-last-acknowledged-set).  Where that store  *)
(*      leaves a case open, a time-to-live may have run out, or the leader   *)
(*      refused a command the store would accept (C15's matters), the key    *)
(*      is not judged until an unconditional write makes it known again.     *)
(*                                                                         *)
(* Agnostic where the statement is silent: which of refuse / forward is    *)
(* chosen; the code and text of a refusal; timing; the fate of requests    *)
(* that were in flight when their upstream connection broke (their keys    *)
(* are no longer judged: "taint"); replies racing each other on different  *)
(* connections (a clause is skipped while another open request on the key  *)
(* could explain the reply).  A request that was forwarded and is never    *)
(* answered after its upstream broke is neither refused nor relayed:       *)
(* reported as request-via-follower-never-answered (finding FW2).          *)
(***************************************************************************)
EXTENDS Integers, Sequences, FiniteSets, TLC, Json, SequencesExt, FiniteSetsExt

CONSTANTS TraceFile, Props

Trace == ndJsonDeserialize(TraceFile)

VARIABLES l, m
vars == <<l, m>>

SUCCED == 0   LOCKED_ERROR == 5   UNLOCK_ERROR == 6   UNOWN_ERROR == 7
TIMEOUT == 8  EXPRIED == 9        STATE_ERROR == 10   ERROR == 11
TEXTERR == 0 - 1

\* the plain key-value store of the Redis-style text commands (C15's reference)
RC == INSTANCE RedisCmds

\* classes of the text key commands: does the command change engine state on a LEADER?  (server/protocol.go
\* TextServerProtocol.FindHandler: commandHandlerKeyWriteValueCommand runs LockDB.Lock / UnLock with the converted command;
\* commandHandlerKeyReadValueCommand / ..KeyTTLCommand / ..KeysCommand / ..ScanCommand only look)
WriteNames == {"SET", "SETNX", "SETEX", "PSETEX", "GETSET", "APPEND", "INCR", "INCRBY", "DECR", "DECRBY",
               "EXPIRE", "PEXPIRE", "EXPIREAT", "PEXPIREAT", "PERSIST", "DEL"}
ReadNames  == {"GET", "STRLEN", "EXISTS", "TYPE", "DUMP", "TTL", "PTTL", "KEYS", "SCAN"}
\* (cmd "C": SELECT / TIMEOUT - settings of the connection itself, handled by the node the connection is on)
IsRead(r)       == r.cmd \in {"G", "C"} \/ (r.cmd = "V" /\ r.name \in ReadNames)
IsValueWrite(r) == r.cmd \in {"S", "D"} \/ (r.cmd = "V" /\ r.name \in WriteNames)

Bit(x, b) == (x \div b) % 2 = 1
F_SHOW == 1   F_UPDATE == 2   F_CONC == 8
UF_FIRST == 1   UF_CANCEL == 2
TF_WAITUNLOCK == 512
ZERO_AOF == 256

EmptyFn == [x \in {} |-> 0]
SetFn(f, k, v) == [x \in (DOMAIN f) \cup {k} |-> IF x = k THEN v ELSE f[x]]

Active(p) == p \in Props

Report(mm, p, code, detail) ==
    IF Active(p)
    THEN IF PrintT("VIOL " \o ToJson([prop |-> p, code |-> code, line |-> l, trace |-> mm.tr, name |-> mm.name, detail |-> detail]))
         THEN [mm EXCEPT !.nv = @ + 1] ELSE mm
    ELSE mm
Check(mm, cond, p, code, detail) == IF cond THEN mm ELSE Report(mm, p, code, detail)

M0 == [ reqs |-> EmptyFn, ups |-> EmptyFn, upseen |-> {}, holds |-> EmptyFn, taint |-> {}, roles |-> EmptyFn, gone |-> {}, frozen |-> FALSE,
        vals |-> EmptyFn, kv |-> EmptyFn, t0 |-> 0, tnow |-> 0, maxd |-> EmptyFn, upof |-> EmptyFn, upnode |-> EmptyFn, notes |-> EmptyFn, closed |-> {}, lsnap |-> <<>>, lvals |-> <<>>, vkeys |-> {}, ldr |-> "L", nv |-> 0, tr |-> 0, name |-> "" ]

HoldsOf(mm, d, k) == IF <<d, k>> \in DOMAIN mm.holds THEN mm.holds[<<d, k>>] ELSE <<>>
DepthSum(H) == FoldLeft(LAMBDA acc, h : acc + h.depth, 0, H)
IdxOfLid(H, lid) == LET I == {i \in 1..Len(H) : H[i].lid = lid} IN IF I = {} THEN 0 ELSE Min(I)
RemoveIdx(S, i) == SubSeq(S, 1, i - 1) \o SubSeq(S, i + 1, Len(S))

\* C01 as stated (same operator as MonLock)
AdmissibleStmt(H, c) == \/ DepthSum(H) = 0
                        \/ DepthSum(H) <= c /\ DepthSum(H) <= Head(H).cnt

\* a hold whose expiry time may have passed (no notice seen yet): contradictions on its key are excused
MayExp(H, ts) == \E i \in 1..Len(H) : ts >= H[i].dlo
\* the leader reported the hold that request `id` was granted into (or updated) as expired
ExpireHold(mm, d, k, id) ==
    LET H == HoldsOf(mm, d, k)
        I == {i \in 1..Len(H) : id \in H[i].grids}
    IN IF I = {} THEN mm ELSE [mm EXCEPT !.holds = SetFn(@, <<d, k>>, RemoveIdx(H, Min(I)))]

RoleOf(mm, n) == IF n \in DOMAIN mm.roles THEN mm.roles[n] ELSE (IF n = "L" THEN "leader" ELSE IF n = "G" THEN "config" ELSE "follower")
\* the engine that decides a request: the node itself while it leads, else the leader of its set (mm.ldr)
DomOf(mm, n) == IF RoleOf(mm, n) = "leader" THEN n ELSE mm.ldr

OpenOn(mm, d, k, except) == {id \in DOMAIN mm.reqs : id # except /\ mm.reqs[id].st = "open" /\ mm.reqs[id].dom = d /\ mm.reqs[id].key = k
                                                     /\ mm.reqs[id].cmd \in {"L", "U"}}
OpenLocks(mm, d, k, except)   == {id \in OpenOn(mm, d, k, except) : mm.reqs[id].cmd = "L"}
OpenUnlocks(mm, d, k, except) == {id \in OpenOn(mm, d, k, except) : mm.reqs[id].cmd = "U"}
Tainted(mm, d, k) == <<d, k>> \in mm.taint

-----------------------------------------------------------------------------
StepBegin(mm, e) == [M0 EXCEPT !.nv = mm.nv, !.tr = e.idx, !.name = e.name, !.vkeys = {e.vkeys[i] : i \in 1..Len(e.vkeys)},
                               !.ldr = IF "leader" \in DOMAIN e THEN e.leader ELSE "L",
                               !.roles = IF "roles" \in DOMAIN e THEN e.roles ELSE EmptyFn]

StepReq(mm, e) ==
    LET d == DomOf(mm, e.node)
        \* two immediate requests in flight on one key at once (only under hold / freeze): their order at the leader is unknown
        clash == {id \in OpenOn(mm, d, e.key, 0) : mm.reqs[id].to = 0} # {} /\ e.cmd \in {"L", "U"} /\ e.to = 0
        r == [id |-> e.id, conn |-> e.conn, node |-> e.node, proto |-> e.proto, cmd |-> e.cmd, key |-> e.key, lid |-> e.lid, flag |-> e.flag,
              tf |-> e.tf, to |-> e.to, ef |-> e.ef, ex |-> e.ex, exlo |-> e.exlo, exhi |-> e.exhi, cnt |-> e.cnt, rc |-> e.rc, val |-> e.val, first |-> e.first, len |-> e.len,
              name |-> e.name, valb |-> e.valb, kc |-> e.kc, kd |-> e.kd,
              uprid |-> e.uprid, tap |-> e.tap, ts |-> e.ts, st |-> "open", rres |-> 0 - 9, dom |-> d, nfl |-> 0, role |-> RoleOf(mm, e.node), broken |-> FALSE,
              nolead |-> (e.node \in mm.gone \/ RoleOf(mm, e.node) = "config"), infreeze |-> (mm.frozen /\ RoleOf(mm, e.node) # "leader")]
    IN [mm EXCEPT !.reqs = SetFn(@, e.id, r), !.taint = IF clash THEN @ \cup {<<d, e.key>>} ELSE @,
                  !.t0 = IF @ = 0 THEN e.ts ELSE @, !.tnow = e.ts]

\* requests of a node that were open when one of its upstream connections broke / its leader went away / its role changed
\* a later request of the same connection travelled on the same upstream connection (rollbackLatestCommand knows only the
\* latest request written to an upstream)
LaterForwarded(mm, id) == {x \in DOMAIN mm.reqs : x > id /\ mm.reqs[x].conn = mm.reqs[id].conn /\ mm.reqs[x].uprid \in DOMAIN mm.upof
                                                  /\ mm.reqs[id].uprid \in DOMAIN mm.upof /\ mm.upof[mm.reqs[x].uprid] = mm.upof[mm.reqs[id].uprid]} # {}
ExcuseNotes(N) == [i \in 1..Len(N) |-> [N[i] EXCEPT !.exc = TRUE]]
\* ... or the fabricated RESULT_ERROR of rollbackLatestCommand went to a LATER request of the same connection (the frames of a
\* connection that broke before the proxy had read its first frame are not on record)
LaterRolledBack(mm, id) == {x \in DOMAIN mm.reqs : x > id /\ mm.reqs[x].conn = mm.reqs[id].conn /\ mm.reqs[x].node = mm.reqs[id].node
                                                     /\ mm.reqs[x].st = "done" /\ mm.reqs[x].rres = ERROR} # {}
Break(mm, n) == [mm EXCEPT !.reqs = [id \in DOMAIN @ |-> IF @[id].node = n /\ @[id].st = "open" THEN [@[id] EXCEPT !.broken = TRUE] ELSE @[id]],
                           !.notes = [x \in DOMAIN @ |-> IF x \in DOMAIN mm.upnode /\ mm.upnode[x] = n THEN ExcuseNotes(@[x]) ELSE @[x]]]

StepUpReq(mm, e) == [mm EXCEPT !.upseen = @ \cup {e.rid}, !.upof = SetFn(@, e.rid, e.up), !.upnode = SetFn(@, e.rid, e.node)]
\* one upstream connection of node n broke: the open requests IT carried
BreakUp(mm, n, u) == [mm EXCEPT !.reqs = [id \in DOMAIN @ |-> IF @[id].node = n /\ @[id].st = "open" /\ @[id].uprid \in DOMAIN mm.upof /\ mm.upof[@[id].uprid] = u
                                                              THEN [@[id] EXCEPT !.broken = TRUE] ELSE @[id]],
                                !.notes = [x \in DOMAIN @ |-> IF x \in DOMAIN mm.upof /\ mm.upof[x] = u /\ x \in DOMAIN mm.upnode /\ mm.upnode[x] = n
                                                               THEN ExcuseNotes(@[x]) ELSE @[x]]]
\* (a grant seen on the wire also tells how full the key has been, whether or not the client ever hears of it)
\* The FIRST frame the leader sends with a request id is its reply to that request.  A further frame with the same id is
\* unsolicited (the EXPRIED notice of the hold that request was granted into): it is kept apart - it is not the answer of any
\* request - and the expired hold leaves the picture of the deciding engine.
ReqOfUp(mm, rid) == {id \in DOMAIN mm.reqs : mm.reqs[id].uprid = rid}
StepUpReply(mm, e) ==
    LET fr == [res |-> e.res, lid |-> e.lid, key |-> e.key, lc |-> e.lc, cnt |-> e.cnt, lrc |-> e.lrc, rc |-> e.rc, datap |-> e.datap,
               dkind |-> e.dkind, dvb |-> e.dvb, dnum |-> e.dnum, dlen |-> e.dlen, dempty |-> e.dempty] IN
    IF e.rid \notin DOMAIN mm.ups
    THEN [mm EXCEPT !.ups = SetFn(@, e.rid, fr),
                    !.maxd = IF e.ct = 1 /\ e.res = SUCCED THEN SetFn(@, e.key, Max({e.lc, IF e.key \in DOMAIN @ THEN @[e.key] ELSE 0})) ELSE @]
    ELSE LET old == IF e.rid \in DOMAIN mm.notes THEN mm.notes[e.rid] ELSE <<>>
             m1  == [mm EXCEPT !.notes = SetFn(@, e.rid, Append(old, [fr |-> fr, dlv |-> FALSE, exc |-> FALSE]))]
             Q   == ReqOfUp(mm, e.rid)
         IN IF e.res = EXPRIED /\ Q # {}
            THEN LET q == mm.reqs[CHOOSE id \in Q : TRUE] IN ExpireHold(m1, q.dom, q.key, q.id)
            ELSE m1

-----------------------------------------------------------------------------
\* engine effects of a reply that was decided by an engine (domain d)

\* A clause of (b).  `excuse`: another open request on the key could explain the reply (replies of requests that are
\* in flight together are recorded in the order the driver read them, not in the order the engine decided them).  A reply
\* that contradicts the monitor's picture while excused shows that the recorded order is not the engine's: the key is not
\* judged any further (taint) instead of being reported.
Judge(mm, cond, excuse, d, k, code, detail) ==
    IF cond \/ Tainted(mm, d, k) THEN mm
    ELSE IF excuse THEN [mm EXCEPT !.taint = @ \cup {<<d, k>>}]
    ELSE Report(mm, "C10", code, detail)

LockReply(mm, e, r, d, k) ==
    LET H   == HoldsOf(mm, d, k)
        lid == IF r.lid = 0 THEN e.lid ELSE r.lid
        i   == IdxOfLid(H, lid)
        mx  == MayExp(H, e.ts)
        ou  == OpenUnlocks(mm, d, k, r.id) # {} \/ mx
        ol  == OpenLocks(mm, d, k, r.id) # {} \/ mx
    IN
    IF e.res = SUCCED
    THEN IF r.ex = 0 THEN mm
         ELSE IF i = 0
         THEN LET m1 == Judge(mm, AdmissibleStmt(H, r.cnt), ou, d, k, "grant-exceeds-count",
                              [rid |-> r.id, node |-> r.node, key |-> k, lid |-> lid, cnt |-> r.cnt, outstanding |-> DepthSum(H)])
                  H2 == Append(H, [lid |-> lid, depth |-> 1, cnt |-> r.cnt, rc |-> r.rc, aof |-> Bit(r.ef, ZERO_AOF),
                                   dlo |-> r.ts + r.exlo - 2, dhi |-> e.ts + r.exhi + 2, grids |-> {r.id}])
                  m2 == Judge(m1, e.lc = DepthSum(H2) /\ e.lrc = 1, ou \/ ol, d, k, "reply-count-wrong",
                              [rid |-> r.id, node |-> r.node, lc |-> e.lc, lrc |-> e.lrc, truth |-> DepthSum(H2)])
              IN [m2 EXCEPT !.holds = SetFn(@, <<d, k>>, H2), !.maxd = SetFn(@, k, Max({DepthSum(H2), IF k \in DOMAIN @ THEN @[k] ELSE 0}))]
         ELSE LET h  == H[i]
                  \* (a request that may have been QUEUED and is granted while its LockId already holds is finding A12, a C02
                  \*  matter: not judged here - the excuse makes the key unjudged from here on)
                  m1 == Judge(mm, h.depth <= r.rc, ou \/ ol \/ r.to > 0, d, k, "relock-beyond-rcount", [rid |-> r.id, node |-> r.node, lid |-> lid, depth |-> h.depth, rc |-> r.rc])
                  H2 == [H EXCEPT ![i] = [h EXCEPT !.depth = @ + 1, !.cnt = r.cnt, !.rc = r.rc, !.aof = @,      \* (a re-lock does not log an unlogged hold at once: UpdateLockedLock only sets aofTime)
                                                  !.dlo = r.ts + r.exlo - 2, !.dhi = e.ts + r.exhi + 2, !.grids = @ \cup {r.id}]]
                  m2 == Judge(m1, e.lc = DepthSum(H2) /\ e.lrc = h.depth + 1, ou \/ ol, d, k, "reply-count-wrong",
                              [rid |-> r.id, node |-> r.node, lc |-> e.lc, lrc |-> e.lrc, truth |-> DepthSum(H2)])
              IN [m2 EXCEPT !.holds = SetFn(@, <<d, k>>, H2), !.maxd = SetFn(@, k, Max({DepthSum(H2), IF k \in DOMAIN @ THEN @[k] ELSE 0}))]
    ELSE IF e.res = LOCKED_ERROR /\ Bit(r.flag, F_UPDATE) /\ IdxOfLid(H, e.lid) # 0
    THEN \* update-when-locked answered LOCKED_ERROR while the LockId named in the reply holds: its terms are those of this request
         \* now (an expiry change of at most 2 s may have been ignored: the deadline window then covers both)
         LET j  == IdxOfLid(H, e.lid)
             h  == H[j]
             nlo == r.ts + r.exlo - 2
             nhi == e.ts + r.exhi + 2
             near == (nlo <= h.dhi + 2) /\ (h.dlo <= nhi + 2)
             certain == e.lid = r.lid /\ ~ou /\ ~ol
             \* (UpdateLockedLock makes THIS request the hold's command: its id travels in the expiry notice)
             H2 == [H EXCEPT ![j] = [h EXCEPT !.cnt = r.cnt, !.rc = r.rc, !.grids = @ \cup {r.id},
                                              !.dlo = IF ~certain THEN 0 ELSE IF near THEN Min({@, nlo}) ELSE nlo,
                                              !.dhi = IF ~certain THEN 2000000000 ELSE IF near THEN Max({@, nhi}) ELSE nhi]]
         IN [mm EXCEPT !.holds = SetFn(@, <<d, k>>, H2)]
    ELSE IF e.res \in {LOCKED_ERROR, TIMEOUT} /\ r.to = 0 /\ r.flag = 0
    THEN \* an immediate refusal by the deciding engine: the request was not admissible
         Judge(mm, i # 0 \/ ~AdmissibleStmt(H, r.cnt), ol \/ ou, d, k, "lock-refused-although-admissible",
               [rid |-> r.id, node |-> r.node, key |-> k, lid |-> lid, res |-> e.res, outstanding |-> DepthSum(H)])
    ELSE mm

UnlockReply(mm, e, r, d, k) ==
    LET H   == HoldsOf(mm, d, k)
        \* (unlock-first releases the OLDEST hold when the requester holds nothing: the reply names it)
        lid == IF r.lid = 0 \/ Bit(r.flag, UF_FIRST) THEN e.lid ELSE r.lid
        i   == IdxOfLid(H, lid)
        others == OpenOn(mm, d, k, r.id) # {} \/ MayExp(H, e.ts)
    IN
    IF e.res = SUCCED
    THEN IF i = 0
         THEN Judge(mm, FALSE, others, d, k, "unlock-accepted-without-hold", [rid |-> r.id, node |-> r.node, key |-> k, lid |-> lid])
         ELSE LET H2 == IF e.lrc > 0 /\ e.lrc < H[i].depth THEN [H EXCEPT ![i].depth = e.lrc] ELSE RemoveIdx(H, i)
                  m1 == Judge(mm, e.lc = DepthSum(H2), others, d, k, "reply-count-wrong",
                              [rid |-> r.id, node |-> r.node, lc |-> e.lc, lrc |-> e.lrc, truth |-> DepthSum(H2)])
              IN [m1 EXCEPT !.holds = SetFn(@, <<d, k>>, H2)]
    ELSE IF e.res \in {UNLOCK_ERROR, UNOWN_ERROR} /\ r.lid # 0 /\ r.flag = 0
    THEN Judge(mm, i = 0, others, d, k, "unlock-of-outstanding-hold-refused",
               [rid |-> r.id, node |-> r.node, key |-> k, lid |-> lid, res |-> e.res])
    ELSE mm

\* ---- values: the sequential key-value store of RedisCmds applied to what the LEADER accepted
KvOf(mm, k) == IF k \in DOMAIN mm.kv THEN mm.kv[k] ELSE [known |-> TRUE, v |-> RC!Absent]       \* (every history has keys of its own)
NowMs(mm) == (mm.tnow - mm.t0) * 1000
Sure(v, now) == ~v.p \/ RC!SureAlive(v.ttl, now)
KvCmd(r) == [c |-> r.kc, k |-> r.key, v |-> r.valb, d |-> r.kd]
ReplyRec(x) == [t |-> x.rk, s |-> IF x.rk = "bulk" THEN x.rsb ELSE <<>>, n |-> IF x.rk = "int" THEN x.ri ELSE 0]
Unconditional == {"SET", "SET_EX", "SET_PX", "SETEX", "PSETEX", "GETSET"}
\* did the leader accept the command?  own: only its rendered answer is seen; through a non-leader: its result code
AcceptedByAnswer(r, e) ==
    CASE r.kc \in {"SET", "SET_EX", "SET_PX", "SETEX", "PSETEX"} -> e.rk = "ok"
      [] r.kc = "SETNX" -> e.rk = "int" /\ e.ri = 1
      [] r.kc = "GETSET" -> e.rk \in {"bulk", "int", "nil"}
      [] r.kc \in {"INCR", "INCRBY", "DECR", "DECRBY", "APPEND"} -> e.rk \in {"int", "bigint"}
      [] r.kc \in {"EXPIRE", "PEXPIRE", "EXPIREAT", "PEXPIREAT", "PERSIST"} -> e.rk = "int" /\ e.ri = 1
      [] r.kc = "DEL" -> e.rk = "int"
      [] OTHER -> FALSE
ValueReply(mm, e, r, decided, viaFrame, u) ==
    LET st  == KvOf(mm, r.key)
        now == NowMs(mm)
        Put(x) == [mm EXCEPT !.kv = SetFn(@, r.key, x)]
        unknown == Put([known |-> FALSE, v |-> RC!Absent])
    IN
    IF IsRead(r)
    THEN \* a read answered by the leader from its own state: a reply of the store
         IF r.role = "leader" /\ r.node = mm.ldr /\ r.kc # "" /\ st.known /\ Sure(st.v, now)
         THEN LET ex == RC!Exec([x \in {r.key} |-> st.v], KvCmd(r), now)
              IN Check(mm, ex.open \/ ReplyRec(e) \in ex.replies, "C10", "get-differs-from-last-acknowledged-set",
                       [rid |-> r.id, key |-> r.key, cmd |-> r.kc, got |-> ReplyRec(e), expected |-> ex.replies])
         ELSE mm
    ELSE IF ~IsValueWrite(r) THEN mm
    ELSE IF ~decided
    THEN \* not the leader's answer: forwarded and lost -> the value is not known; never forwarded -> nothing happened
         IF r.uprid # 0 /\ ~(r.cmd = "D" /\ e.res = UNLOCK_ERROR) THEN unknown ELSE mm
    ELSE IF r.kc = "" \/ r.dom # mm.ldr THEN unknown
    ELSE
    LET acc == IF viaFrame THEN (IF r.kc = "DEL" THEN TRUE ELSE u.res \in {SUCCED, LOCKED_ERROR}) ELSE AcceptedByAnswer(r, e)
        \* (the answer of GETSET does not say whether the leader accepted it: on a key it refuses writes for, nothing is known)
        blind == ~viaFrame /\ r.kc = "GETSET" /\ st.known /\ st.v.p /\ st.v.nx
        base == IF st.known /\ Sure(st.v, now) THEN st.v ELSE RC!Absent
        ex  == RC!Exec([x \in {r.key} |-> base], KvCmd(r), now)
    IN IF blind \/ ex.open THEN unknown                  \* (the store leaves the case open - INCR on a string, a millisecond term ...)
       ELSE IF ~acc THEN mm                              \* refused by the leader: its value stays
       ELSE IF st.known /\ Sure(st.v, now) THEN Put([known |-> TRUE, v |-> ex.kv[r.key]])
       ELSE IF r.kc \in Unconditional \/ r.kc = "DEL" THEN Put([known |-> TRUE, v |-> ex.kv[r.key]])
       ELSE unknown

Refusal(e) == e.res \in {STATE_ERROR, ERROR, TEXTERR}
FirstShort(r) == r.first /\ r.len > 0 /\ r.len <= 64 /\ r.role = "follower"
\* LockDB.CheckProbableLock, exactly: LOCK with the concurrent-check flag AND Timeout = 0, answered TIMEOUT when the replica
\* shows more holds than the request's Count (the replica may lag: "the key had that many holds at some time in this
\* history"), or - with the wait-when-unlocked flag - when the replica shows none
FastPath(mm, r, e) == /\ r.cmd = "L" /\ e.res = TIMEOUT /\ Bit(r.flag, F_CONC) /\ r.to = 0
                      /\ \/ (r.key \in DOMAIN mm.maxd /\ mm.maxd[r.key] > r.cnt)
                         \/ Bit(r.tf, TF_WAITUNLOCK)
                         \/ Tainted(mm, r.dom, r.key)

\* ---- the answer of a text write command is the leader's frame as the command's reply writer renders it
\* (protocol/textcommand.go WriteText..CommandResult); t = "open": a value shape that is not generated, not judged
RErr(n) == [t |-> "err", s |-> <<>>, n |-> n]
ROpen   == [t |-> "open", s |-> <<>>, n |-> 0]
Rendered(r, u) ==
    LET ok5 == u.res \in {SUCCED, LOCKED_ERROR}
        d   == IF r.kc = "INCR" THEN 1 ELSE IF r.kc = "DECR" THEN 0 - 1 ELSE IF r.kc = "INCRBY" THEN r.kd ELSE 0 - r.kd
    IN
    CASE r.kc \in {"SET", "SET_EX", "SET_PX", "SETEX", "PSETEX"} -> IF ok5 THEN RC!ROk ELSE IF u.res = TIMEOUT THEN RC!RNil ELSE RErr(u.res)
      [] r.kc = "SETNX" -> IF ok5 THEN RC!RInt(1) ELSE IF u.res = TIMEOUT THEN RC!RInt(0) ELSE RErr(u.res)
      [] r.kc = "GETSET" -> IF u.res \in {LOCKED_ERROR, UNOWN_ERROR} /\ u.dkind # "none"
                            THEN (IF u.dkind = "num" THEN RC!RInt(u.dnum) ELSE IF u.dkind = "big" THEN ROpen
                                  ELSE IF u.dempty THEN RC!RNil ELSE RC!RBulk(u.dvb))
                            ELSE RC!RNil
      [] r.kc = "APPEND" -> IF ok5 THEN RC!RInt((IF u.dkind = "none" THEN 0 ELSE u.dlen) + Len(r.valb))
                            ELSE IF u.res = TIMEOUT THEN RC!RNil ELSE RErr(u.res)
      [] r.kc \in {"INCR", "INCRBY", "DECR", "DECRBY"} -> IF ~ok5 THEN RErr(u.res) ELSE IF u.dkind = "big" THEN ROpen
                                                           ELSE RC!RInt((IF u.dkind = "none" THEN 0 ELSE u.dnum) + d)
      [] r.kc \in {"EXPIRE", "PEXPIRE", "EXPIREAT", "PEXPIREAT", "PERSIST"} -> IF ok5 THEN RC!RInt(1) ELSE IF u.res = TIMEOUT THEN RC!RInt(0) ELSE RErr(u.res)
      [] r.kc = "DEL" -> IF u.res = SUCCED THEN RC!RInt(1) ELSE RC!RInt(0)
      [] OTHER -> ROpen
SameRendered(e, r, u) ==
    LET x == Rendered(r, u) IN
    x.t = "open" \/ e.rk = "bigint" \/ (e.rk = x.t /\ (x.t \in {"int", "err"} => e.ri = x.n) /\ (x.t = "bulk" => e.rsb = x.s))

\* does the reply the client got equal the leader's reply for the same request?
SameAsLeader(e, r, u) ==
    IF r.cmd \in {"L", "U"}
    THEN /\ e.res = u.res /\ e.lid = u.lid /\ e.lc = u.lc /\ e.cnt = u.cnt /\ e.lrc = u.lrc /\ e.rc = u.rc /\ e.datap = u.datap
         /\ (r.proto = "text" \/ e.key = u.key)
    ELSE IF r.cmd = "S" THEN (e.res = SUCCED) = (u.res \in {SUCCED, LOCKED_ERROR})
    ELSE IF r.cmd = "D" THEN (e.res = SUCCED) = (u.res = SUCCED)
    ELSE IF r.cmd = "V" /\ r.name \in WriteNames THEN SameRendered(e, r, u)
    ELSE TRUE

\* all fields of what a client received equal to a leader frame u (a text reply does not show the key)
FrameEq(e, r, u) == /\ e.res = u.res /\ e.lid = u.lid /\ e.lc = u.lc /\ e.cnt = u.cnt /\ e.lrc = u.lrc /\ e.rc = u.rc /\ e.datap = u.datap
                    /\ (r.proto = "text" \/ e.key = u.key)
\* leader frames of OTHER requests that crossed an upstream link of the same node and equal what the client was told for request r:
\* unsolicited ones (notices) and replies.  A SET / DEL style text reply shows the result code only: matched against notices.
ForeignNotes(mm, e, r) == {x \in DOMAIN mm.notes : x # r.uprid /\ x \in DOMAIN mm.upnode /\ mm.upnode[x] = r.node
                                                   /\ \E i \in 1..Len(mm.notes[x]) :
                                                         IF r.cmd \in {"L", "U"} THEN FrameEq(e, r, mm.notes[x][i].fr)
                                                         ELSE e.res = EXPRIED /\ mm.notes[x][i].fr.res = EXPRIED}
ForeignReplies(mm, e, r) == {x \in DOMAIN mm.ups : x # r.uprid /\ x \in DOMAIN mm.upnode /\ mm.upnode[x] = r.node
                                                   /\ r.cmd \in {"L", "U"} /\ FrameEq(e, r, mm.ups[x])}

\* a further frame for a request that is already answered
StepSecond(mm, m1, e, r, d, k) ==
    LET m2  == Check(m1, e.res = EXPRIED, "C10", "second-reply", [rid |-> e.rid, res |-> e.res])
        fwd == r.tap /\ r.role # "leader" /\ r.uprid # 0        \* the request was answered by forwarding
        N   == IF r.uprid \in DOMAIN mm.notes THEN mm.notes[r.uprid] ELSE <<>>
        I   == {i \in 1..Len(N) : ~N[i].dlv}
        J   == {i \in I : FrameEq(e, r, N[i].fr)}
        got == [res |-> e.res, lid |-> e.lid, key |-> e.key, lc |-> e.lc, cnt |-> e.cnt, lrc |-> e.lrc, rc |-> e.rc, datap |-> e.datap]
        Mark(mx, i) == [mx EXCEPT !.notes = SetFn(@, r.uprid, [N EXCEPT ![i].dlv = TRUE])]
    IN IF e.res # EXPRIED THEN m2        \* (not an expiry notice: a second reply, reported above)
       ELSE IF ~fwd
       THEN \* decided by the node it was sent to: an EXPRIED notice of a granted lock is legitimate and ends the hold
            ExpireHold(m2, d, k, r.id)
       ELSE \* through a non-leader: the further frame must be a notice the LEADER sent for that very request, all fields equal
            IF J # {} THEN ExpireHold(Mark(m2, Min(J)), d, k, r.id)
            ELSE IF I # {} THEN Mark(Report(m2, "C10", "relayed-notice-differs", [rid |-> r.id, node |-> r.node, conn |-> r.conn, got |-> got, leader |-> N[Min(I)].fr]), Min(I))
            ELSE Report(m2, "C10", "notice-not-from-leader", [rid |-> r.id, node |-> r.node, conn |-> r.conn, got |-> got, leader_frames_for_this_request |-> Len(N) + 1])

StepReply(mm, e) ==
    IF e.rid \notin DOMAIN mm.reqs
    THEN Report(mm, "C10", "reply-with-unknown-request-id", [conn |-> e.conn, rid |-> e.rid, res |-> e.res])
    ELSE
    LET r  == mm.reqs[e.rid]
        \* (members of a replica set are not tapped and change roles while a request waits for a leader: the engine that
        \*  decided is the one leading when the reply comes)
        d  == IF r.tap THEN r.dom ELSE DomOf(mm, r.node)
        k  == r.key
        m1 == Check(mm, r.conn = e.conn, "C10", "reply-on-wrong-connection", [rid |-> e.rid, sent_on |-> r.conn, delivered_to |-> e.conn])
    IN
    IF r.st = "done"
    THEN \* an EXPRIED notice for a granted lock is legitimate; anything else is a second reply
         StepSecond(mm, m1, e, r, d, k)
    ELSE
    LET m2 == [m1 EXCEPT !.reqs[e.rid].st = "done", !.reqs[e.rid].rres = e.res]
        own   == r.role = "leader" \/ (~r.tap /\ RoleOf(mm, r.node) = "leader")     \* decided by the node it was sent to
        hasUp == r.uprid # 0 /\ r.uprid \in DOMAIN mm.ups
        u     == IF hasUp THEN mm.ups[r.uprid] ELSE [res |-> 0 - 9, lid |-> 0, key |-> 0, lc |-> 0, cnt |-> 0, lrc |-> 0, rc |-> 0, datap |-> "",
                                                      dkind |-> "none", dvb |-> <<>>, dnum |-> 0, dlen |-> 0, dempty |-> TRUE]
        same  == hasUp /\ SameAsLeader(e, r, u)
        decided == own \/ same \/ (~r.tap /\ ~Refusal(e))
        \* (c) what a non-leader says
        m3 == IF own \/ IsRead(r) \/ ~r.tap THEN m2              \* (a read-class command may be answered from the replica)
              ELSE IF r.cmd = "P"
              THEN \* PUSH: executed without an answer of its own (the handler says OK once the command is on its way): the OK of a
                   \* non-leader must stand for a command it did put on its way to the leader
                   Check(m2, e.res # SUCCED \/ r.uprid # 0, "C10", "non-leader-answered-on-its-own",
                         [rid |-> r.id, node |-> r.node, conn |-> r.conn, proto |-> r.proto, cmd |-> r.cmd, name |-> "PUSH", key |-> k,
                          flag |-> r.flag, timeout |-> r.to, rcount |-> r.rc, res |-> e.res, lc |-> e.lc, forwarded |-> FALSE])
              ELSE IF same
              THEN Check(Check(m2, ~r.nolead \/ e.res # SUCCED, "C10", "no-leader-request-answered-succed", [rid |-> r.id, node |-> r.node, res |-> e.res]),
                         ~(r.infreeze /\ mm.frozen), "C10", "reply-while-leader-frozen", [rid |-> r.id, node |-> r.node, res |-> e.res])
              ELSE IF r.cmd = "V" /\ r.uprid = 0 /\ ~Refusal(e) /\ ~FirstShort(r)
              THEN \* a write-class key command answered - value, number, OK, nil - with no request to the leader for it
                   Report(m2, "C10", "non-leader-answered-on-its-own", [rid |-> r.id, node |-> r.node, conn |-> r.conn, proto |-> r.proto, cmd |-> r.cmd, name |-> r.name, key |-> k,
                                                                       flag |-> r.flag, timeout |-> r.to, rcount |-> r.rc, res |-> e.res, lc |-> e.lc, forwarded |-> FALSE])
              ELSE IF e.res = SUCCED
              THEN Report(m2, "C10", IF hasUp THEN "relayed-reply-differs" ELSE "fabricated-success",
                          [rid |-> r.id, node |-> r.node, conn |-> r.conn, proto |-> r.proto, cmd |-> r.cmd, key |-> k, forwarded |-> (r.uprid # 0),
                           got |-> [res |-> e.res, lid |-> e.lid, lc |-> e.lc, lrc |-> e.lrc], leader |-> u])
              ELSE IF hasUp /\ Refusal(e) /\ ~r.broken
              THEN \* the leader answered, the upstream was intact, yet the client was told an error of the node's own
                   Report(m2, "C10", "leader-reply-replaced-by-local-error", [rid |-> r.id, node |-> r.node, got |-> e.res, leader |-> u.res])
              ELSE IF Refusal(e)
              THEN \* a refusal of the node's own (STATE_ERROR, ERROR, an -ERR line): allowed.  Recorded (not judged): the first
                   \* command of a text connection that fitted the first read was refused by the node itself although a leader
                   \* was reachable
                   IF FirstShort(r) /\ ~r.nolead /\ ~hasUp
                   THEN Report(m2, "OBS", "first-text-command-answered-by-inner-protocol", [rid |-> r.id, node |-> r.node, cmd |-> r.cmd, res |-> e.res, err |-> e.err])
                   ELSE m2
              ELSE IF hasUp
              THEN Report(m2, "C10", "relayed-reply-differs", [rid |-> r.id, node |-> r.node, proto |-> r.proto, cmd |-> r.cmd, name |-> r.name,
                                                               answer |-> ReplyRec(e), leader_answer |-> IF r.cmd = "V" THEN Rendered(r, u) ELSE ROpen,
                                                               got |-> [res |-> e.res, lid |-> e.lid, lc |-> e.lc, cnt |-> e.cnt, lrc |-> e.lrc, rc |-> e.rc, datap |-> e.datap], leader |-> u])
              ELSE IF FastPath(mm, r, e)
              THEN m2          \* the documented follower fast path: concurrent-check flag AND no wait AND the key full in the replica
              ELSE IF FirstShort(r)
              THEN \* the first-text-command deviation again, answered with a lock-engine code of the node's own engine
                   \* (UNLOCK_ERROR for a key its replica does not have, DEL -> :0): recorded, not judged
                   Report(m2, "OBS", "first-text-command-answered-by-inner-protocol", [rid |-> r.id, node |-> r.node, cmd |-> r.cmd, res |-> e.res, err |-> e.err])
              ELSE \* neither the leader's reply nor a refusal nor the fast path: the node answered from its own state
                   Report(m2, "C10", "non-leader-answered-on-its-own", [rid |-> r.id, node |-> r.node, conn |-> r.conn, proto |-> r.proto, cmd |-> r.cmd, name |-> r.name, key |-> k,
                                                                       flag |-> r.flag, timeout |-> r.to, rcount |-> r.rc, res |-> e.res, lc |-> e.lc, forwarded |-> (r.uprid # 0)])
        \* (e) the answer of a request is the leader's frame for THAT VERY request: when what the client was told is none of
        \* refusal / the leader's reply / the fast path (one of the reports above) AND equals a frame the leader sent for
        \* ANOTHER request over this node, the node handed out the frame of another request (first of all: an unsolicited notice)
        bad == ~own /\ ~IsRead(r) /\ r.cmd # "P" /\ r.tap /\ ~same /\ ~Refusal(e) /\ (e.res = SUCCED \/ hasUp \/ (~FastPath(mm, r, e) /\ ~FirstShort(r)))
        FN  == ForeignNotes(mm, e, r)
        FR  == ForeignReplies(mm, e, r)
        m3b == IF bad /\ (FN \cup FR) # {}
               THEN LET x == IF FN # {} THEN Min(FN) ELSE Min(FR)
                        Q == ReqOfUp(mm, x)
                    IN Report(m3, "C10", "reply-of-another-request",
                              [rid |-> r.id, node |-> r.node, conn |-> r.conn, proto |-> r.proto, cmd |-> r.cmd, key |-> k,
                               got |-> [res |-> e.res, lid |-> e.lid, lc |-> e.lc, lrc |-> e.lrc],
                               is_the_leaders_frame_for_request |-> IF Q = {} THEN 0 ELSE Min(Q), upstream_request_id |-> x,
                               unsolicited_notice |-> (FN # {}),
                               leader_reply_for_this_request |-> IF hasUp THEN u.res ELSE 0 - 9])
               ELSE m3
        \* requests whose fate at the leader is unknown: stop judging the key
        unknownFate == ~decided /\ r.uprid # 0 /\ r.cmd \in {"L", "U"}
        m4a == IF unknownFate THEN [m3b EXCEPT !.taint = @ \cup {<<d, k>>}] ELSE m3b
        \* (the hold a PUSH takes is never announced to anybody: its key is not judged)
        m4 == IF r.cmd = "P" THEN [m4a EXCEPT !.taint = @ \cup {<<d, k>>}, !.tnow = e.ts] ELSE [m4a EXCEPT !.tnow = e.ts]
        \* (b) engine effects of decided replies
        m5 == IF r.cmd = "P" THEN m4
              ELSE IF ~decided THEN ValueReply(m4, e, r, FALSE, FALSE, u)
              ELSE IF r.cmd = "L" THEN LockReply(m4, e, r, d, k)
              ELSE IF r.cmd = "U" THEN UnlockReply(m4, e, r, d, k)
              ELSE ValueReply(m4, e, r, TRUE, ~own /\ same, u)
    IN m5

\* the driver gave up waiting for a reply
StepUnanswered(mm, e) ==
    IF e.rid \notin DOMAIN mm.reqs THEN mm ELSE
    LET r == mm.reqs[e.rid]
        hasUp == r.uprid # 0 /\ r.uprid \in DOMAIN mm.ups
        m1 == [mm EXCEPT !.reqs[e.rid].st = "done", !.taint = IF r.cmd \in {"L", "U"} THEN @ \cup {<<r.dom, r.key>>} ELSE @]
    IN IF r.broken
       THEN \* forwarded, its upstream connection broke, and the node told the client nothing: neither refused nor relayed
            \* (rollbackLatestCommand answers only the latest request written to the upstream)
            Report(m1, "C10", "request-via-follower-never-answered",
                   [cause |-> IF LaterForwarded(mm, r.id) \/ LaterRolledBack(mm, r.id) THEN "upstream-broke-request-was-not-the-latest-forwarded" ELSE "upstream-broke",
                    rid |-> r.id, node |-> r.node, conn |-> r.conn, proto |-> r.proto, leader_answered |-> hasUp])
       ELSE IF hasUp THEN Report(m1, "C10", "leader-reply-not-relayed", [rid |-> r.id, node |-> r.node, conn |-> r.conn, leader |-> mm.ups[r.uprid].res])
       ELSE Report(m1, "C10", "request-never-answered", [rid |-> r.id, node |-> r.node, conn |-> r.conn, forwarded |-> (r.uprid # 0)])

StepAbandoned(mm, e) ==
    IF e.rid \notin DOMAIN mm.reqs THEN mm ELSE
    LET r == mm.reqs[e.rid] IN [mm EXCEPT !.reqs[e.rid].st = "done", !.taint = IF r.cmd \in {"L", "U"} THEN @ \cup {<<r.dom, r.key>>} ELSE @]
\* a client connection was closed by the driver: notices of its requests have nobody to go to
StepClosed(mm, e) ==
    LET X == {x \in DOMAIN mm.notes : \E id \in ReqOfUp(mm, x) : mm.reqs[id].conn = e.conn} IN
    [mm EXCEPT !.notes = [x \in DOMAIN @ |-> IF x \in X THEN ExcuseNotes(@[x]) ELSE @[x]],
               !.closed = @ \cup {e.conn}]

-----------------------------------------------------------------------------
\* promotion: the node's engine starts from its replica = the leader's logged holds (the driver promotes a node in sync)
StepRole(mm, e) ==
    LET m1 == Break(mm, e.node) IN
    IF e.role # "leader" THEN [m1 EXCEPT !.roles = SetFn(@, e.node, e.role)]
    ELSE
    LET src == m1.ldr
        LK == {x \in DOMAIN m1.holds : x[1] = src}
        copied == [x \in (DOMAIN m1.holds) \cup {<<e.node, y[2]>> : y \in LK} |->
                      IF x[1] = e.node THEN (IF <<src, x[2]>> \in DOMAIN m1.holds THEN m1.holds[<<src, x[2]>>] ELSE <<>>) ELSE m1.holds[x]]
        \* holds the leader had not logged yet are not in the replica: those keys are not judged on the new leader
        notLogged == {<<e.node, y[2]>> : y \in {x \in LK : \E i \in 1..Len(m1.holds[x]) : ~m1.holds[x][i].aof}}
    IN [m1 EXCEPT !.roles = SetFn(@, e.node, e.role), !.holds = copied,
                  !.taint = @ \cup {<<e.node, y[2]>> : y \in {x \in @ : x[1] = src}} \cup notLogged,
                  \* take-over (replica set): the whole set follows the new leader; SLAVEOF NO ONE only splits the node off
                  !.ldr = IF e.takeover THEN e.node ELSE @]

-----------------------------------------------------------------------------
\* snapshots
SnapLids(ks) == {ks.holds[i].lid : i \in 1..Len(ks.holds)}
SnapAofLids(ks) == {ks.holds[i].lid : i \in {j \in 1..Len(ks.holds) : ks.holds[j].aof = 1}}
SnapPairs(ks) == {<<ks.holds[i].lid, ks.holds[i].depth>> : i \in 1..Len(ks.holds)}
MonPairs(H) == {<<H[i].lid, H[i].depth>> : i \in 1..Len(H)}

StepSnap(mm, e) ==
    LET K == {i \in 1..Len(e.keys) : e.keys[i].key \notin mm.vkeys} IN
    IF e.lead
    THEN \* a leading node: its holds are exactly what the history of ITS decisions implies
         LET d == e.node
             Bad == {i \in K : ~Tainted(mm, d, e.keys[i].key) /\ OpenOn(mm, d, e.keys[i].key, 0) = {}
                               /\ ~MayExp(HoldsOf(mm, d, e.keys[i].key), e.ts)
                               /\ SnapPairs(e.keys[i]) # MonPairs(HoldsOf(mm, d, e.keys[i].key))}
             m1 == Check(mm, Bad = {}, "C10", IF d = mm.ldr THEN "leader-snapshot-differs-from-history" ELSE "promoted-node-snapshot-differs-from-history",
                         [node |-> d, keys |-> SetToSeq({[key |-> e.keys[i].key, snapshot |-> e.keys[i].holds, history |-> HoldsOf(mm, d, e.keys[i].key)] : i \in Bad})])
             \* expiry deadlines on the stand-alone leader: what the last lock / re-lock / update of each hold implies
             BadDl == IF d # "L" THEN {} ELSE
                      {i \in K : ~Tainted(mm, d, e.keys[i].key) /\ OpenOn(mm, d, e.keys[i].key, 0) = {}
                                  /\ \E j \in 1..Len(e.keys[i].holds) :
                                        LET sh == e.keys[i].holds[j]
                                            ix == IdxOfLid(HoldsOf(mm, d, e.keys[i].key), sh.lid)
                                        IN ix # 0 /\ ~(HoldsOf(mm, d, e.keys[i].key)[ix].dlo <= sh.exp /\ sh.exp <= HoldsOf(mm, d, e.keys[i].key)[ix].dhi)}
             m2 == Check(m1, BadDl = {}, "C10", "leader-deadline-differs-from-history",
                         [node |-> d, keys |-> SetToSeq({[key |-> e.keys[i].key, snapshot |-> e.keys[i].holds, history |-> HoldsOf(mm, d, e.keys[i].key)] : i \in BadDl})])
         IN IF d = mm.ldr THEN [m2 EXCEPT !.lsnap = e.keys] ELSE m2
    ELSE IF "alone" \in DOMAIN e /\ e.alone
    THEN \* the leader is dead: the follower holds nothing the leader's history does not explain
         LET Bad == {i \in K : ~Tainted(mm, mm.ldr, e.keys[i].key) /\ OpenOn(mm, mm.ldr, e.keys[i].key, 0) = {}
                               /\ ~MayExp(HoldsOf(mm, mm.ldr, e.keys[i].key), e.ts)
                               /\ ~(SnapLids(e.keys[i]) \subseteq {x[1] : x \in MonPairs(HoldsOf(mm, mm.ldr, e.keys[i].key))})}
         IN Check(mm, Bad = {}, "C10", "follower-hold-not-on-leader",
                  [node |-> e.node, keys |-> SetToSeq({[key |-> e.keys[i].key, follower |-> e.keys[i].holds, history |-> HoldsOf(mm, mm.ldr, e.keys[i].key)] : i \in Bad})])
    ELSE \* a follower: subset of the leader's holds, and - once it reports the leader's position - every logged hold
         LET LOf(k) == LET J == {j \in 1..Len(mm.lsnap) : mm.lsnap[j].key = k} IN IF J = {} THEN [key |-> k, holds |-> <<>>] ELSE mm.lsnap[CHOOSE j \in J : TRUE]
             Extra == {i \in K : ~(SnapLids(e.keys[i]) \subseteq SnapLids(LOf(e.keys[i].key)))}
             Missing == {i \in K : e.caught /\ ~(SnapAofLids(LOf(e.keys[i].key)) \subseteq SnapLids(e.keys[i]))}
             m1 == Check(mm, Extra = {}, "C10", "follower-hold-not-on-leader",
                         [node |-> e.node, keys |-> SetToSeq({[key |-> e.keys[i].key, follower |-> e.keys[i].holds, leader |-> LOf(e.keys[i].key).holds] : i \in Extra})])
         IN Check(m1, Missing = {}, "C10", "replicated-hold-missing-on-follower",
                  [node |-> e.node, keys |-> SetToSeq({[key |-> e.keys[i].key, follower |-> e.keys[i].holds, leader |-> LOf(e.keys[i].key).holds] : i \in Missing})])

StepVals(mm, e) ==
    IF e.lead
    THEN \* the values of the leader at the end: replies of the store after the commands the leader accepted
         LET now == NowMs(mm)
             Bad == {i \in 1..Len(e.vals) : LET st == KvOf(mm, e.vals[i].key) IN
                                            st.known /\ Sure(st.v, now) /\ ReplyRec(e.vals[i]) \notin RC!ReadReply(st.v)}
             m1 == Check(mm, Bad = {}, "C10", "leader-value-differs-from-last-acknowledged-set",
                         [vals |-> SetToSeq({[key |-> e.vals[i].key, got |-> ReplyRec(e.vals[i]), expected |-> RC!ReadReply(KvOf(mm, e.vals[i].key).v)] : i \in Bad})])
         IN [m1 EXCEPT !.lvals = e.vals]
    ELSE LET Bad == {i \in 1..Len(e.vals) : e.caught /\ i <= Len(mm.lvals) /\ (e.vals[i].nil # mm.lvals[i].nil \/ e.vals[i].val # mm.lvals[i].val)}
         IN Check(mm, Bad = {}, "C10", "follower-value-differs-from-leader",
                  [node |-> e.node, vals |-> SetToSeq({[key |-> e.vals[i].key, follower |-> e.vals[i].val, leader |-> mm.lvals[i].val] : i \in Bad})])

\* end of one history: how much of it was judged (printed for the coverage record, not a verdict)
StepEnd(mm, e) ==
    LET U == {id \in DOMAIN mm.reqs : mm.reqs[id].st = "open"}
        keys == {<<mm.reqs[id].dom, mm.reqs[id].key>> : id \in {x \in DOMAIN mm.reqs : mm.reqs[x].cmd \in {"L", "U"}}}
        m0 == Check(mm, U = {}, "C10", "trace-ends-with-open-requests", [ids |-> SetToSeq(U)])
        \* (e) an expiry notice the leader sent down an intact upstream link for a request of a BINARY client that is still
        \* connected was never handed to that client
        Lost == {x \in DOMAIN mm.notes : /\ \E i \in 1..Len(mm.notes[x]) : ~mm.notes[x][i].dlv /\ ~mm.notes[x][i].exc /\ mm.notes[x][i].fr.res = EXPRIED
                                           /\ \E id \in ReqOfUp(mm, x) : /\ mm.reqs[id].proto = "bin" /\ mm.reqs[id].tap /\ mm.reqs[id].role # "leader"
                                                                          /\ mm.reqs[id].st = "done" /\ mm.reqs[id].conn \notin mm.closed}
        m1 == Check(m0, Lost = {}, "C10", "notice-not-relayed",
                    [notices |-> SetToSeq({[upstream_request_id |-> x, rid |-> Min(ReqOfUp(mm, x)), node |-> IF x \in DOMAIN mm.upnode THEN mm.upnode[x] ELSE "", leader |-> mm.notes[x][1].fr] : x \in Lost})])
    IN IF PrintT("FSTAT " \o ToJson([name |-> mm.name, keys |-> Cardinality(keys), tainted |-> Cardinality(keys \cap mm.taint), reqs |-> Cardinality(DOMAIN mm.reqs)]))
       THEN m1 ELSE m1

Step(mm, e) ==
    CASE e.e = "begin"      -> StepBegin(mm, e)
      [] e.e = "req"        -> StepReq(mm, e)
      [] e.e = "reply"      -> StepReply(mm, e)
      [] e.e = "up_req"     -> StepUpReq(mm, e)
      [] e.e = "up_reply"   -> StepUpReply(mm, e)
      [] e.e = "unanswered" -> StepUnanswered(mm, e)
      [] e.e = "abandoned"  -> StepAbandoned(mm, e)
      [] e.e = "sendfail"   -> StepAbandoned(mm, e)
      [] e.e = "closed"     -> StepClosed(mm, e)
      [] e.e \in {"cut", "up_closed"} -> BreakUp(mm, e.node, e.up)
      [] e.e = "gone"       -> [Break(mm, e.node) EXCEPT !.gone = @ \cup {e.node}]
      [] e.e = "back"       -> [mm EXCEPT !.gone = @ \ {e.node}]
      [] e.e = "frozen"     -> [mm EXCEPT !.frozen = TRUE]
      [] e.e = "thawed"     -> [mm EXCEPT !.frozen = FALSE]
      [] e.e = "role"       -> StepRole(mm, e)
      [] e.e = "snap"       -> StepSnap(mm, e)
      [] e.e = "vals"       -> StepVals(mm, e)
      [] e.e = "end"        -> StepEnd(mm, e)
      [] OTHER              -> mm

Init == l = 1 /\ m = M0
Next == /\ l <= Len(Trace)
        /\ m' = Step(m, Trace[l])
        /\ l' = l + 1
Spec == Init /\ [][Next]_vars

NoViolation == m.nv = 0
TraceConsumed == TLCGet("stats").diameter - 1 = Len(Trace)
=============================================================================

------------------------------- MODULE MonValue -------------------------------
(***************************************************************************)
(* C15 trace specification: the value of a key is an atomic register.      *)
(*                                                                         *)
(* TLC reads the ndjson trace recorded by the in-package driver            *)
(* TestVerifValue from the REAL LockDB.Lock / UnLock (one line per step:   *)
(* the request and its value-operation frame, the stored value before and  *)
(* after the step, every reply delivered during the step in order, the     *)
(* answer of an external show query) and folds the sequential interpreter  *)
(* ValueReg!Apply over it.  The monitor keeps ONE thing: the set `cands`   *)
(* of values the register may hold according to the property statement     *)
(* (a singleton except after a case the statement leaves open).            *)
(*                                                                         *)
(* Clauses (property C15):                                                 *)
(*  R1 every reply carries the value from immediately before the           *)
(*     operation of its request        -> reply-not-value-before-operation *)
(*  R2 a successful lock / unlock (and an update by the holder, which the  *)
(*     code answers LOCKED_ERROR) that carries a value operation leaves    *)
(*     exactly Apply(before, op)       -> stored-value-differs-from-interpreter *)
(*  R3 a refused request leaves the value unchanged                        *)
(*                                     -> value-changed-by-refused-request *)
(*  R4 nothing but an operation changes the value while the key is held    *)
(*                                     -> value-changed-between-operations *)
(*  R5 the interpreter is total: the real code must not panic on a value   *)
(*     operation                       -> value-op-panic                   *)
(*  R7 even in an open case the stored frame stays well-formed            *)
(*                                     -> stored-value-malformed           *)
(*  R6 the external show query reads the stored value                      *)
(*                                     -> show-query-differs-from-stored-value *)
(*                                                                         *)
(* Which requests executed their operation is READ from the result codes   *)
(* the real code reported (no copy of the engine's admission logic).       *)
(* Open cases, adopted not judged: a key nobody holds (the value may       *)
(* linger or be dropped with the key record), a re-lock with Expried = 0   *)
(* by a holder (answered SUCCED without running the operation), INCR with  *)
(* an operand that is not 8 bytes, POP on an array whose item lengths run  *)
(* past the payload (the value is open, a panic is not).                   *)
(***************************************************************************)
EXTENDS ValueReg, Json

CONSTANTS TraceFile, Props

Trace == ndJsonDeserialize(TraceFile)

VARIABLES l, m
vars == <<l, m>>

SUCCED == 0  LOCKED_ERROR == 5  UNLOCK_ERROR == 6  UNOWN_ERROR == 7  TIMEOUT == 8  EXPRIED == 9
F_UPDATE == 2

EmptyFn == [x \in {} |-> 0]
SetFn(f, k, v) == [x \in (DOMAIN f) \cup {k} |-> IF x = k THEN v ELSE f[x]]
DelFn(f, k) == [x \in (DOMAIN f) \ {k} |-> f[x]]

M0 == [cands |-> {<<>>},      \* values the register may hold
       coded |-> <<>>,        \* the value under the pipeline reading of the code as written (classification only)
       pend |-> EmptyFn,      \* request id -> [kind, op, flag, ex]
       nv |-> 0, name |-> "", tr |-> 0, dead |-> FALSE,
       nops |-> 0, nagn |-> 0, nrep |-> 0]

Report(mm, code, e, detail) ==
    IF "C15" \in Props
    THEN IF PrintT("VIOL " \o ToJson([prop |-> "C15", code |-> code, line |-> l, name |-> mm.name, step |-> e.i, detail |-> detail]))
         THEN [mm EXCEPT !.nv = @ + 1] ELSE mm
    ELSE mm
Check(mm, cond, code, e, detail) == IF cond THEN mm ELSE Report(mm, code, e, detail)

OpName(f) == IF f = <<>> THEN "none"
             ELSE LET t == f[5] % 64 IN
                  CASE t = T_SET -> "set" [] t = T_UNSET -> "unset" [] t = T_INCR -> "incr" [] t = T_APPEND -> "append"
                    [] t = T_SHIFT -> "shift" [] t = T_PIPELINE -> "pipeline" [] t = T_PUSH -> "push" [] t = T_POP -> "pop"
                    [] OTHER -> "other"

-----------------------------------------------------------------------------
\* one reply of a step.  st = [mm, applied (number of operations executed so far in this step), agn]

\* did the request of this reply execute its operation?  (read from the reported result)
Executed(rq, r) ==
    \/ rq.kind = "L" /\ r.res = SUCCED
    \/ rq.kind = "L" /\ r.res = LOCKED_ERROR /\ Bit(rq.flag, F_UPDATE)
    \/ rq.kind = "U" /\ r.res = SUCCED
\* the open case: a holder re-locks with Expried = 0 and is answered SUCCED (LRCount >= 1) - db.go:2122-2128
OpenRelock(rq, r) == rq.kind = "L" /\ r.res = SUCCED /\ rq.ex = 0 /\ r.lrc >= 1 /\ ~Bit(rq.flag, F_UPDATE)
Edge(rq, r, e) == IF rq.kind = "L" THEN r.lc = 1 ELSE (r.lc = 0 /\ ~e.pre.waited)

StepReply(st, r, e) ==
    LET mm == st.mm IN
    IF r.rid \notin DOMAIN mm.pend THEN st
    ELSE
    LET rq == mm.pend[r.rid]
        lenient == e.kind = "T"        \* timer replies are sent after the key record may have been dropped
        \* st.agn: an earlier operation of this step was an open case (its result is adopted, not computed): the value
        \* a later reply of the same step shows is then whatever that operation left - adopted as well
        okBefore == r.val \in mm.cands \/ (lenient /\ r.val = <<>>) \/ st.agn
        \* a reply that shows the value the PREVIOUS operation of this step left (a waiter woken by an unlock):
        \* if it is the pipeline reading of the code as written, the deviation belongs to that operation (R2)
        prevPipe == st.applied > 0 /\ OpName(st.lastop) = "pipeline" /\ r.val = mm.coded
        m1 == IF okBefore THEN mm
              ELSE IF prevPipe
              THEN Report(mm, "stored-value-differs-from-interpreter", e,
                          [cls |-> "pipeline-subops-each-applied-to-value-before-pipeline", op |-> "pipeline", stored |-> r.val,
                           expected |-> SetToSeq(mm.cands), opframe |-> st.lastop, before |-> e.pre.val, seen_by |-> "next reply of the step"])
              ELSE Report(mm, "reply-not-value-before-operation", e,
                          [rid |-> r.rid, res |-> r.res, reply_value |-> r.val, register |-> SetToSeq(mm.cands), op |-> OpName(rq.op)])
        \* the observed reply narrows the candidates (and resynchronises after a report)
        before == IF r.val \in mm.cands \/ ~lenient THEN {r.val} ELSE mm.cands
        exec == Executed(rq, r) /\ rq.op # <<>>
        open == OpenRelock(rq, r)
        \* open: the operation is one of the open cases, or it meets a stored frame that is already malformed
        \* (left by an earlier open case - nothing is defined on it until a SET / UNSET replaces it)
        agn == exec /\ \E v \in before : (~WellFormedValue(v) \/ Agnostic(Dec(v), DecOp(rq.op)))
        edge == Edge(rq, r, e)
        \* (nothing is defined on a stored frame that is already malformed - `agn` above; the interpreter is not run on it)
        Ap(v) == IF WellFormedValue(v) THEN ApplyFrame(v, rq.op, edge) ELSE v
        after == IF ~exec THEN before
                 ELSE IF open THEN before \cup {Ap(v) : v \in before}
                 ELSE {Ap(v) : v \in before}
        coded == IF ~exec \/ open \/ ~WellFormedValue(r.val) THEN r.val ELSE ApplyFrameCoded(r.val, rq.op, edge)
        m2 == [m1 EXCEPT !.cands = after, !.coded = coded, !.pend = DelFn(@, r.rid), !.nrep = @ + 1,
                         !.nops = @ + (IF exec /\ ~open THEN 1 ELSE 0)]
    IN [mm |-> m2, applied |-> st.applied + (IF exec THEN 1 ELSE 0), agn |-> st.agn \/ agn,
        lastop |-> IF exec THEN rq.op ELSE st.lastop]

-----------------------------------------------------------------------------
StepV(mm, e) ==
    IF mm.dead THEN mm
    ELSE
    LET held0 == e.pre.locked > 0
        \* R4: between two steps nothing happened but (at most) the clock
        m1 == IF held0
              THEN Check(mm, e.pre.val \in mm.cands, "value-changed-between-operations", e,
                         [stored |-> e.pre.val, register |-> SetToSeq(mm.cands)])
              ELSE Check(mm, e.pre.val \in mm.cands \cup {<<>>}, "value-changed-between-operations", e,
                         [stored |-> e.pre.val, register |-> SetToSeq(mm.cands), held |-> FALSE])
        m2 == [m1 EXCEPT !.cands = {e.pre.val}, !.coded = e.pre.val]
        m3 == IF e.kind \in {"L", "U"}
              THEN [m2 EXCEPT !.pend = SetFn(@, e.rid, [kind |-> e.kind, op |-> e.op, flag |-> e.flag, ex |-> e.ex])]
              ELSE m2
    IN
    IF e.hang
    THEN \* a call of the real code that did not return in wall-clock time: not judged here (the check re-runs the
         \* history to tell a reproducible hang from a scheduling accident of the machine)
         IF PrintT("HUNG " \o ToJson([name |-> mm.name, step |-> e.i, where |-> e.panic])) THEN [m3 EXCEPT !.dead = TRUE] ELSE m3
    ELSE IF e.panic # ""
    THEN \* R5.  The replies delivered before the panic are folded first; the panicking operation is the
         \* request's own (if it was not answered yet) or that of a queued request being woken.
         LET st0 == FoldLeft(LAMBDA s, r : StepReply(s, r, e), [mm |-> m3, applied |-> 0, agn |-> FALSE, lastop |-> <<>>], e.replies)
             m4 == st0.mm
             vals == m4.cands \cup {m4.coded}
             \* the request's own reply precedes the wake pass: unanswered => its own operation panicked
             ops == (IF e.rid \in DOMAIN m4.pend THEN {m4.pend[e.rid].op} ELSE {m4.pend[id].op : id \in DOMAIN m4.pend}) \ {<<>>}
             classes == {PanicClass(Dec(v), DecOp(o)) : v \in vals, o \in ops} \ {"other"}
             cls == IF classes = {} THEN "other" ELSE CHOOSE c \in classes : TRUE
             m5 == Report(m4, "value-op-panic", e, [cls |-> cls, stored |-> SetToSeq(vals), opframes |-> SetToSeq(ops), panic |-> e.panic])
         IN [m5 EXCEPT !.dead = TRUE]
    ELSE
    LET st == FoldLeft(LAMBDA s, r : StepReply(s, r, e), [mm |-> m3, applied |-> 0, agn |-> FALSE, lastop |-> <<>>], e.replies)
        m5 == st.mm
        held1 == e.post.locked > 0
        okPost == \/ e.post.val \in m5.cands
                  \/ (~held1 /\ e.post.val = <<>>)        \* nobody holds the key: the value may have gone with the key record
        cls == IF e.post.val = m5.coded /\ OpName(st.lastop) = "pipeline"
               THEN "pipeline-subops-each-applied-to-value-before-pipeline" ELSE "other"
        \* an open case still must not leave a frame whose length prefix / property header is inconsistent
        shortIncr == st.lastop # <<>> /\ HasShortIncr(st.lastop)
        mAgn == IF WellFormedValue(e.pre.val) /\ ~WellFormedValue(e.post.val)
                THEN Report(m5, "stored-value-malformed", e,
                            [cls |-> IF shortIncr THEN "incr-short-operand-leaves-length-prefix-0" ELSE "other", op |-> OpName(st.lastop),
                             stored |-> e.post.val, before |-> e.pre.val, opframe |-> st.lastop])
                ELSE m5
        m6 == IF st.agn THEN [mAgn EXCEPT !.nagn = @ + 1]
              ELSE IF st.applied = 0
              THEN Check(m5, okPost, "value-changed-by-refused-request", e,
                         [stored |-> e.post.val, register |-> SetToSeq(m5.cands), kind |-> e.kind])
              ELSE Check(m5, okPost, "stored-value-differs-from-interpreter", e,
                         [cls |-> cls, op |-> OpName(st.lastop), stored |-> e.post.val, expected |-> SetToSeq(m5.cands), opframe |-> st.lastop,
                          before |-> e.pre.val])
        \* R6
        m7 == IF e.probe.done
              THEN Check(m6, e.probe.val = e.post.val, "show-query-differs-from-stored-value", e,
                         [stored |-> e.post.val, shown |-> e.probe.val, res |-> e.probe.res])
              ELSE m6
    IN [m7 EXCEPT !.cands = {e.post.val}, !.coded = e.post.val]

Step(mm, e) ==
    CASE e.e = "begin" -> [M0 EXCEPT !.nv = mm.nv, !.name = e.name, !.tr = e.idx, !.nops = mm.nops, !.nagn = mm.nagn, !.nrep = mm.nrep]
      [] e.e = "vstep" -> StepV(mm, e)
      [] e.e = "end"   -> IF l = Len(Trace) /\ PrintT("MONSTAT " \o ToJson([ops |-> mm.nops, agnostic |-> mm.nagn, replies |-> mm.nrep, viol |-> mm.nv]))
                          THEN mm ELSE mm
      [] OTHER -> mm

Init == l = 1 /\ m = M0
Next == /\ l <= Len(Trace)
        /\ m' = Step(m, Trace[l])
        /\ l' = l + 1
Spec == Init /\ [][Next]_vars

NoViolation == m.nv = 0
TraceConsumed == TLCGet("stats").diameter - 1 = Len(Trace)
=============================================================================

------------------------------- MODULE MonPrim -------------------------------
(***************************************************************************)
(* Property monitor / trace spec for C19: histories recorded by the Go     *)
(* driver (harness/inpkg/client/zz_verif_prim_test.go) from the REAL       *)
(* client library talking to a REAL slock server over TCP are validated    *)
(* against the textbook rules of module Primitives.                        *)
(*                                                                         *)
(* Events are consumed in stamp order (one shared atomic counter):         *)
(*   acq_ret(g)   logged AFTER g's acquire returned success                *)
(*   rel_call(g)  logged BEFORE g calls release                            *)
(* Between the two the hold is DEFINITELY outstanding, so the monitor's    *)
(* holder table is a SUBSET of the real holders at every instant and       *)
(*   acq_ret(g) while  ~PrimAdmissible(kind, n, g, role, holders)          *)
(* is a real overlap - never an artefact of event ordering.                *)
(*                                                                         *)
(* The monitor holds no copy of the engine's logic; it is agnostic where   *)
(* the statement is silent (fairness between readers and writers, who wins *)
(* among equal priorities, what a refused call returns).  Sessions the     *)
(* driver marked `void` (older than half the hold's expiry: the server may *)
(* legitimately have expired it) are not judged.                           *)
(*                                                                         *)
(* Each violated clause prints  "VIOL {json}"  (collected by the check).   *)
(***************************************************************************)
EXTENDS Primitives, TLC, Json, SequencesExt

CONSTANTS TraceFile, Props

Trace == ndJsonDeserialize(TraceFile)

VARIABLES l, m
vars == <<l, m>>

LOCKED_ERROR == 5   TIMEOUT == 8

SetFn(f, k, v) == [x \in (DOMAIN f) \cup {k} |-> IF x = k THEN v ELSE f[x]]
DelFn(f, k) == [x \in (DOMAIN f) \ {k} |-> f[x]]
EmptyFn == [x \in {} |-> 0]
SeqToSet(s) == {s[i] : i \in 1..Len(s)}

Report(mm, code, detail) ==
    IF "C19" \in Props
    THEN IF PrintT("VIOL " \o ToJson([prop |-> "C19", code |-> code, line |-> l, trace |-> mm.tr, name |-> mm.name,
                                      kind |-> mm.kind, mode |-> mm.mode, detail |-> detail]))
         THEN [mm EXCEPT !.nv = @ + 1] ELSE mm
    ELSE mm
Check(mm, cond, code, detail) == IF cond THEN mm ELSE Report(mm, code, detail)

M0 == [ nv |-> 0, tr |-> 0, name |-> "", kind |-> "", mode |-> "", n |-> 0,
        H |-> PrimEmpty,        \* definite holders  g -> [rl, depth]
        relp |-> {},            \* goroutines with a release of a definite hold in flight (RLock: its refusal is judged)
        obs |-> EmptyFn,        \* PriorityLock: holder g -> set of priorities it saw waiting (LIST_WAIT) during its hold
        armed |-> FALSE, armedPrios |-> {},   \* ... armed by that holder's rel_call, judged at the next acq_ret
        call |-> EmptyFn,       \* seq mode: g -> [rl, prio] of its call in flight
        queued |-> {},          \* seq mode: calls confirmed queued at the last quiescent point and not returned since
        maxUnits |-> 0, maxReaders |-> 0,     \* coverage only
        \* Event
        inflight |-> 0, setCalls |-> 0, clrMark |-> EmptyFn, clearSince |-> -1, waitMark |-> EmptyFn,
        wp |-> FALSE ]          \* a Clear call or a Wait with a millisecond timeout has been issued (see StepWaitRet)

ViolCode(kind) ==
    CASE kind = "lock"  -> "lock-not-exclusive"
      [] kind = "rlock" -> "rlock-held-by-two"
      [] kind = "sem"   -> "semaphore-over-capacity"
      [] kind = "flow"  -> "flow-over-capacity"
      [] kind = "rw"    -> "rwlock-writer-overlaps"
      [] kind = "prio"  -> "prioritylock-not-exclusive"
      [] OTHER          -> "admission-rule-violated"

HoldersJson(HT) == SetToSeq({[g |-> hh, rl |-> HT[hh].rl, depth |-> HT[hh].depth] : hh \in DOMAIN HT})

-----------------------------------------------------------------------------
StepBegin(mm, e) ==
    [M0 EXCEPT !.nv = mm.nv, !.tr = e.idx, !.name = e.name, !.kind = e.kind, !.mode = e.mode, !.n = e.n,
               !.clearSince = IF e.kind = "event_clear" THEN 0 ELSE -1]     \* a default-clear event starts clear

StepAcqCall(mm, e) == [mm EXCEPT !.call = SetFn(@, e.g, [rl |-> e.role, prio |-> e.prio])]

StepAcqRet(mm, e) ==
    IF e.void THEN [mm EXCEPT !.armed = FALSE] ELSE
    LET \* the admission rule against the DEFINITE holders
        m1 == Check(mm, PrimAdmissible(mm.kind, mm.n, e.g, e.role, mm.H), ViolCode(mm.kind),
                    [g |-> e.g, role |-> e.role, s |-> e.s, n |-> mm.n, holders |-> HoldersJson(mm.H)])
        \* PriorityLock hand-over (free mode): the previous holder saw these priorities waiting before it released
        \* (judged only when the grantee itself was among the waiting requests: a newcomer that found the lock free
        \* between the release and the wake pass is not a hand-over)
        m2 == IF mm.kind = "prio" /\ mm.armed /\ e.prio \in mm.armedPrios
              THEN Check(m1, PrimHandOverOK(e.prio, mm.armedPrios), "handover-not-highest-priority",
                         [g |-> e.g, prio |-> e.prio, s |-> e.s, waiting |-> SetToSeq(mm.armedPrios)])
              ELSE m1
        \* PriorityLock hand-over (seq mode): exact wait set at the last quiescent point
        others == {mm.call[q].prio : q \in (mm.queued \ {e.g}) \cap DOMAIN mm.call}
        m3 == IF mm.kind = "prio" /\ mm.mode = "seq" /\ e.g \in mm.queued
              THEN Check(m2, PrimHandOverOK(e.prio, others), "handover-not-highest-priority",
                         [g |-> e.g, prio |-> e.prio, s |-> e.s, waiting |-> SetToSeq(others)])
              ELSE m2
        H2 == PrimAdd(mm.H, e.g, e.role)
        readers == Cardinality({hh \in DOMAIN H2 : H2[hh].rl = "r"})
    IN [m3 EXCEPT !.H = H2, !.armed = FALSE, !.armedPrios = {}, !.call = DelFn(@, e.g), !.queued = @ \ {e.g},
                  !.maxUnits = IF PrimUnits(H2) > @ THEN PrimUnits(H2) ELSE @,
                  !.maxReaders = IF readers > @ THEN readers ELSE @]

\* a definite refusal of an acquire: judged only where the statement is explicit - "re-entrant for its holder"
StepAcqFail(mm, e) ==
    LET m1 == IF mm.kind = "rlock" /\ ~e.void /\ e.g \in DOMAIN mm.H /\ mm.H[e.g].depth < 255
              THEN Report(mm, "rlock-reentry-refused", [g |-> e.g, res |-> e.res, s |-> e.s, depth |-> mm.H[e.g].depth])
              ELSE mm
    IN [m1 EXCEPT !.call = DelFn(@, e.g), !.queued = @ \ {e.g}]

StepRelCall(mm, e) ==
    IF e.void \/ e.g \notin DOMAIN mm.H THEN mm ELSE
    LET H2 == PrimSub(mm.H, e.g)
        gone == e.g \notin DOMAIN H2
        arm == mm.kind = "prio" /\ gone /\ e.g \in DOMAIN mm.obs
    IN [mm EXCEPT !.H = H2, !.relp = @ \cup {e.g},
                  !.armed = IF arm THEN TRUE ELSE IF gone THEN FALSE ELSE @,
                  !.armedPrios = IF arm THEN mm.obs[e.g] ELSE IF gone THEN {} ELSE @,
                  !.obs = IF gone THEN DelFn(@, e.g) ELSE @]

\* "needs as many unlocks as locks": an unlock that belongs to a definite hold is not refused
StepRelRet(mm, e) ==
    LET m1 == IF mm.kind = "rlock" /\ ~e.ok /\ ~e.void /\ e.g \in mm.relp
              THEN Report(mm, "rlock-unlock-refused", [g |-> e.g, res |-> e.res, s |-> e.s])
              ELSE mm
    IN [m1 EXCEPT !.relp = @ \ {e.g}]

StepAbandon(mm, e) == [mm EXCEPT !.H = PrimDrop(@, e.g), !.relp = @ \ {e.g}, !.obs = DelFn(@, e.g),
                                 !.call = DelFn(@, e.g), !.queued = @ \ {e.g}]

StepObs(mm, e) ==
    IF e.void \/ e.g \notin DOMAIN mm.H THEN mm
    ELSE [mm EXCEPT !.obs = SetFn(@, e.g, SeqToSet(e.prios))]

\* every release was acknowledged: the primitive is free again (as many unlocks as locks - not more)
StepProbe(mm, e) ==
    IF e.void THEN mm
    ELSE Check(mm, e.ok \/ DOMAIN mm.H # {}, "not-free-after-all-released", [res |-> e.res, s |-> e.s])

\* seq mode: quiescent point; e.prios lists the processes whose call is queued at the server
StepQuiet(mm, e) ==
    LET Q == SeqToSet(e.prios) \cap DOMAIN mm.call
        bad == {q \in Q : PrimMustAdmit(mm.kind, q, mm.call[q].rl, mm.H, \E w \in Q \ {q} : mm.call[w].rl = "w")}
        m1 == IF mm.kind \in PrimLockKinds
              THEN Check(mm, bad = {}, "blocked-although-admissible",
                         [procs |-> SetToSeq(bad), s |-> e.s, holders |-> HoldersJson(mm.H)])
              ELSE mm
    IN [m1 EXCEPT !.queued = Q]

-----------------------------------------------------------------------------
\* Event.  clearSince >= 0: the event has DEFINITELY been clear since that stamp (a Clear returned success,
\* no Set call overlapped it, and no Set has been called since).

StepSetCall(mm, e)   == [mm EXCEPT !.inflight = @ + 1, !.setCalls = @ + 1, !.clearSince = -1]
StepSetRet(mm, e)    == [mm EXCEPT !.inflight = IF @ > 0 THEN @ - 1 ELSE 0]
StepClearCall(mm, e) == [mm EXCEPT !.clrMark = SetFn(@, e.g, IF mm.inflight = 0 THEN mm.setCalls ELSE -1), !.wp = TRUE]
StepClearRet(mm, e)  ==
    IF e.ok /\ ~e.void /\ e.g \in DOMAIN mm.clrMark /\ mm.clrMark[e.g] = mm.setCalls /\ mm.inflight = 0 /\ mm.clearSince < 0
    THEN [mm EXCEPT !.clearSince = e.s] ELSE mm
\* (e.prio of a wait_call is its millisecond timeout, 0 for the long one.)  `trigger` only DESCRIBES a violation, it
\* plays no part in the verdict: a wake pass on the UNLOCKED key (finding A24, fixed by 23dcb06) is possible only after
\* some Clear call (= unlock in default-clear mode) or some Wait carrying a millisecond timeout was issued.
StepWaitCall(mm, e)  == [mm EXCEPT !.waitMark = SetFn(@, e.g, e.s), !.wp = @ \/ e.prio > 0]
StepWaitRet(mm, e)   ==
    LET m1 == IF e.ok /\ e.g \in DOMAIN mm.waitMark
              THEN Check(mm, ~(mm.clearSince >= 0 /\ mm.clearSince < mm.waitMark[e.g]), "wait-returned-while-clear",
                         [g |-> e.g, s |-> e.s, called |-> mm.waitMark[e.g], clearSince |-> mm.clearSince,
                          trigger |-> IF mm.wp THEN "wake-pass-while-unlocked-possible" ELSE "none"])
              ELSE mm
    IN [m1 EXCEPT !.waitMark = DelFn(@, e.g)]

Step(mm, e) ==
    CASE e.e = "begin"      -> StepBegin(mm, e)
      [] e.e = "acq_call"   -> StepAcqCall(mm, e)
      [] e.e = "acq_ret"    -> StepAcqRet(mm, e)
      [] e.e = "acq_fail"   -> StepAcqFail(mm, e)
      [] e.e = "acq_err"    -> [mm EXCEPT !.call = DelFn(@, e.g), !.queued = @ \ {e.g}]
      [] e.e = "rel_call"   -> StepRelCall(mm, e)
      [] e.e = "rel_ret"    -> StepRelRet(mm, e)
      [] e.e = "abandon"    -> StepAbandon(mm, e)
      [] e.e = "obs"        -> StepObs(mm, e)
      [] e.e = "probe"      -> StepProbe(mm, e)
      [] e.e = "quiet"      -> StepQuiet(mm, e)
      [] e.e = "set_call"   -> StepSetCall(mm, e)
      [] e.e = "set_ret"    -> StepSetRet(mm, e)
      [] e.e = "clear_call" -> StepClearCall(mm, e)
      [] e.e = "clear_ret"  -> StepClearRet(mm, e)
      [] e.e = "wait_call"  -> StepWaitCall(mm, e)
      [] e.e = "wait_ret"   -> StepWaitRet(mm, e)
      [] OTHER              -> mm

Init == l = 1 /\ m = M0

Next == /\ l <= Len(Trace)
        /\ m' = Step(m, Trace[l])
        /\ l' = l + 1

Spec == Init /\ [][Next]_vars

NoViolation == m.nv = 0

TraceConsumed == TLCGet("stats").diameter - 1 = Len(Trace)

=============================================================================

------------------------------- MODULE MonPrim -------------------------------
(***************************************************************************)
(* Property monitor / trace spec for C19: histories recorded by the Go     *)
(* driver (harness/inpkg/client/zz_verif_prim_test.go) from the REAL       *)
(* client library talking to a REAL slock server over TCP are validated    *)
(* against the textbook rules of module Primitives.                        *)
(*                                                                         *)
(* Events are consumed in stamp order (one shared atomic counter):         *)
(*   acq_ret(g)   logged AFTER g's acquire returned success                *)
(*   rel_call(g)  logged BEFORE g calls release                            *)
(* Between the two the hold is DEFINITELY outstanding, so the monitor's    *)
(* holder table is a SUBSET of the real holders at every instant and       *)
(*   acq_ret(g) while  ~PrimAdmissible(kind, n, g, role, holders)          *)
(* is a real overlap - never an artefact of event ordering.                *)
(*                                                                         *)
(* The monitor holds no copy of the engine's logic; it is agnostic where   *)
(* the statement is silent (fairness between readers and writers, who wins *)
(* among equal priorities, what a refused call returns).  Sessions the     *)
(* driver marked `void` (older than half the hold's expiry: the server may *)
(* legitimately have expired it) are not judged.                           *)
(*                                                                         *)
(*                                                                         *)
(* Mode "vt" (virtual time; driver harness/inpkg/server/                   *)
(* zz_verif_primv_test.go): the calls are issued one at a time against a   *)
(* server whose clock the driver advances, every event carries the second  *)
(* `t`, the history its `to` / `ex` (timeout of a blocking call, expiry of *)
(* a hold).  The monitor then keeps TWO holder tables, aged by the         *)
(* textbook rule of Primitives (PrimLive / PrimGone):                      *)
(*   H   holds that are DEFINITELY outstanding (subset of the real ones)   *)
(*   MH  holds that MAY still exist (superset of the real ones)            *)
(* and judges, besides the admission rule, what the textbook object does   *)
(* across time: a release of a definitely outstanding hold is not refused  *)
(* and gives the unit back, a lapsed hold gives its unit back, nobody      *)
(* stays blocked while the object is free for all blocked requests,        *)
(* Event.Wait blocks while clear / returns while set with the Event hold's *)
(* expiry taken into account.                                              *)
(*                                                                         *)
(* Each violated clause prints  "VIOL {json}"  (collected by the check).   *)
(***************************************************************************)
EXTENDS Primitives, TLC, Json, SequencesExt

CONSTANTS TraceFile, Props

Trace == ndJsonDeserialize(TraceFile)

VARIABLES l, m
vars == <<l, m>>

LOCKED_ERROR == 5   TIMEOUT == 8

SetFn(f, k, v) == [x \in (DOMAIN f) \cup {k} |-> IF x = k THEN v ELSE f[x]]
DelFn(f, k) == [x \in (DOMAIN f) \ {k} |-> f[x]]
EmptyFn == [x \in {} |-> 0]
SeqToSet(s) == {s[i] : i \in 1..Len(s)}

Report(mm, code, detail) ==
    IF "C19" \in Props
    THEN IF PrintT("VIOL " \o ToJson([prop |-> "C19", code |-> code, line |-> l, trace |-> mm.tr, name |-> mm.name,
                                      kind |-> mm.kind, mode |-> mm.mode, detail |-> detail]))
         THEN [mm EXCEPT !.nv = @ + 1] ELSE mm
    ELSE mm
Check(mm, cond, code, detail) == IF cond THEN mm ELSE Report(mm, code, detail)

M0 == [ nv |-> 0, tr |-> 0, name |-> "", kind |-> "", mode |-> "", n |-> 0,
        H |-> PrimEmpty,        \* definite holders  g -> [rl, depth]
        relp |-> {},            \* goroutines with a release of a definite hold in flight (RLock: its refusal is judged)
        obs |-> EmptyFn,        \* PriorityLock: holder g -> set of priorities it saw waiting (LIST_WAIT) during its hold
        armed |-> FALSE, armedPrios |-> {},   \* ... armed by that holder's rel_call, judged at the next acq_ret
        call |-> EmptyFn,       \* seq mode: g -> [rl, prio] of its call in flight
        queued |-> {},          \* seq mode: calls confirmed queued at the last quiescent point and not returned since
        maxUnits |-> 0, maxReaders |-> 0,     \* coverage only
        \* Event
        inflight |-> 0, setCalls |-> 0, clrMark |-> EmptyFn, clearSince |-> -1, waitMark |-> EmptyFn,
        wp |-> FALSE,           \* a Clear call or a Wait with a millisecond timeout has been issued (see StepWaitRet)
        \* mode "vt" only
        to |-> 0, ex |-> 0,     \* timeout of the blocking calls / expiry of the holds of this history (seconds)
        ht |-> EmptyFn,         \* g -> second of its last acquisition, for the holders in H
        MH |-> PrimEmpty,       \* every hold that MAY still exist (released with success or PrimGone: removed)
        mt |-> EmptyFn,         \* g -> second of its last acquisition, for the holders in MH
        evLast |-> "none", evT |-> 0,     \* Event: the last Set / Clear call that returned ("unknown": it failed) and its second
        waitSnap |-> EmptyFn,   \* Event: g -> [last, t, tc] the event calls seen when its Wait was called at second tc
        ng |-> 0,               \* ghost ids handed out (see StepAcqRet)
        stale |-> {} ]          \* RWLock: processes one of whose READER holds may have lapsed without RUnlock (see Age)

ViolCode(kind) ==
    CASE kind = "lock"  -> "lock-not-exclusive"
      [] kind = "rlock" -> "rlock-held-by-two"
      [] kind = "sem"   -> "semaphore-over-capacity"
      [] kind = "flow"  -> "flow-over-capacity"
      [] kind = "rw"    -> "rwlock-writer-overlaps"
      [] kind = "prio"  -> "prioritylock-not-exclusive"
      [] OTHER          -> "admission-rule-violated"

HoldersJson(HT) == SetToSeq({[g |-> hh, rl |-> HT[hh].rl, depth |-> HT[hh].depth] : hh \in DOMAIN HT})

-----------------------------------------------------------------------------
StepBegin(mm, e) ==
    [M0 EXCEPT !.nv = mm.nv, !.tr = e.idx, !.name = e.name, !.kind = e.kind, !.mode = e.mode, !.n = e.n,
               !.clearSince = IF e.kind = "event_clear" THEN 0 ELSE -1,     \* a default-clear event starts clear
               !.to = IF e.mode = "vt" THEN e.to ELSE 0, !.ex = IF e.mode = "vt" THEN e.ex ELSE 0]

\* ---- mode "vt": the two holder tables across time
IsVT(mm) == mm.mode = "vt"

\* ageing by the textbook rule: a hold is no longer DEFINITE once it is not PrimLive, and cannot exist once PrimGone
Age(mm, t) ==
    LET liveG == {gg \in DOMAIN mm.H : PrimLive(mm.ht[gg], mm.ex, t)}
        mayG  == {gg \in DOMAIN mm.MH : ~PrimGone(mm.mt[gg], mm.ex, t)}
        \* client/rwlock.go remembers the reader LockIds of one RWLock object in a FIFO that expiry does not prune; RUnlock
        \* names the oldest remembered id.  Once a reader hold of g may have lapsed un-released, what g's RUnlock calls
        \* answer has no textbook counterpart: not judged (PrimEnc: RWStaleReader)
        st2   == IF mm.kind = "rw" THEN mm.stale \cup {gg \in (DOMAIN mm.H) \ liveG : mm.H[gg].rl = "r"} ELSE mm.stale
    IN [mm EXCEPT !.H = Restrict(@, liveG), !.ht = Restrict(@, liveG), !.MH = Restrict(@, mayG), !.mt = Restrict(@, mayG),
                  !.stale = st2]

\* Semaphore units are anonymous (Release gives back "a" unit - the server takes the oldest): when gg's unit leaves a
\* table, the ages that stay must bound the real ones from the right side whatever unit the server took:
\*   H  (definite holds)  keeps the OLDEST ages (they lapse first),  MH (possible holds) keeps the NEWEST ages
Oldest(f) == CHOOSE x \in DOMAIN f : \A y \in DOMAIN f : f[x] <= f[y]
Newest(f) == CHOOSE x \in DOMAIN f : \A y \in DOMAIN f : f[x] >= f[y]
DropAge(kind, f, gg, keepOldest) ==
    IF gg \notin DOMAIN f THEN f
    ELSE IF kind # "sem" THEN Restrict(f, (DOMAIN f) \ {gg})
    ELSE LET o == IF keepOldest THEN Newest(f) ELSE Oldest(f)
         IN [x \in (DOMAIN f) \ {gg} |-> IF x = o THEN f[gg] ELSE f[x]]

StepAcqCall(mm, e) == [mm EXCEPT !.call = SetFn(@, e.g, [rl |-> e.role, prio |-> e.prio])]

StepAcqRet(mm, e) ==
    IF e.void THEN [mm EXCEPT !.armed = FALSE] ELSE
    LET \* the admission rule against the DEFINITE holders
        m1 == Check(mm, PrimAdmissible(mm.kind, mm.n, e.g, e.role, mm.H), ViolCode(mm.kind),
                    [g |-> e.g, role |-> e.role, s |-> e.s, n |-> mm.n, holders |-> HoldersJson(mm.H)])
        \* PriorityLock hand-over (free mode): the previous holder saw these priorities waiting before it released
        \* (judged only when the grantee itself was among the waiting requests: a newcomer that found the lock free
        \* between the release and the wake pass is not a hand-over)
        m2 == IF mm.kind = "prio" /\ mm.armed /\ e.prio \in mm.armedPrios
              THEN Check(m1, PrimHandOverOK(e.prio, mm.armedPrios), "handover-not-highest-priority",
                         [g |-> e.g, prio |-> e.prio, s |-> e.s, waiting |-> SetToSeq(mm.armedPrios)])
              ELSE m1
        \* PriorityLock hand-over (seq mode): exact wait set at the last quiescent point
        others == {mm.call[q].prio : q \in (mm.queued \ {e.g}) \cap DOMAIN mm.call}
        m3 == IF mm.kind = "prio" /\ mm.mode \in {"seq", "vt"} /\ e.g \in mm.queued
              THEN Check(m2, PrimHandOverOK(e.prio, others), "handover-not-highest-priority",
                         [g |-> e.g, prio |-> e.prio, s |-> e.s, waiting |-> SetToSeq(others)])
              ELSE m2
        H2 == PrimAdd(mm.H, e.g, e.role)
        readers == Cardinality({hh \in DOMAIN H2 : H2[hh].rl = "r"})
        m4 == [m3 EXCEPT !.H = H2, !.armed = FALSE, !.armedPrios = {}, !.call = DelFn(@, e.g), !.queued = @ \ {e.g},
                         !.maxUnits = IF PrimUnits(H2) > @ THEN PrimUnits(H2) ELSE @,
                         !.maxReaders = IF readers > @ THEN readers ELSE @]
        \* vt: an earlier hold of the same process that may still exist (it is in the second or two in which the server's
        \* sweep ends it) stays in MH under a ghost id - except for RLock (re-entry) it is ANOTHER hold, possibly in
        \* another role (RWLock), next to the one granted now
        ghost == mm.kind # "rlock" /\ e.g \in DOMAIN mm.MH
        gid   == 1000 + mm.ng
        MH1   == IF ghost THEN SetFn(PrimDrop(mm.MH, e.g), gid, mm.MH[e.g]) ELSE mm.MH
        mt1   == IF ghost THEN SetFn(mm.mt, gid, mm.mt[e.g]) ELSE mm.mt
    IN IF IsVT(mm) THEN [m4 EXCEPT !.ht = SetFn(@, e.g, e.t), !.MH = PrimAdd(MH1, e.g, e.role), !.mt = SetFn(mt1, e.g, e.t),
                                   !.ng = IF ghost THEN @ + 1 ELSE @]
       ELSE m4

\* a definite refusal of an acquire: judged only where the statement is explicit - "re-entrant for its holder"
StepAcqFail(mm, e) ==
    LET m1 == IF mm.kind = "rlock" /\ ~e.void /\ e.g \in DOMAIN mm.H /\ mm.H[e.g].depth < 255
              THEN Report(mm, "rlock-reentry-refused", [g |-> e.g, res |-> e.res, s |-> e.s, depth |-> mm.H[e.g].depth])
              ELSE mm
    IN [m1 EXCEPT !.call = DelFn(@, e.g), !.queued = @ \ {e.g}]

StepRelCall(mm, e) ==
    IF e.void \/ e.g \notin DOMAIN mm.H
    THEN \* (vt, Semaphore: a Release by somebody whose own unit is not definite any more may take ANY unit)
         IF IsVT(mm) /\ mm.kind = "sem" /\ DOMAIN mm.H # {}
         THEN LET o == Newest(mm.ht) IN [mm EXCEPT !.H = PrimDrop(@, o), !.ht = Restrict(@, (DOMAIN @) \ {o})]
         ELSE mm
    ELSE
    LET H2 == PrimSub(mm.H, e.g)
        gone == e.g \notin DOMAIN H2
        arm == mm.kind = "prio" /\ gone /\ e.g \in DOMAIN mm.obs
        m1 == [mm EXCEPT !.H = H2, !.relp = @ \cup {e.g},
                         !.armed = IF arm THEN TRUE ELSE IF gone THEN FALSE ELSE @,
                         !.armedPrios = IF arm THEN mm.obs[e.g] ELSE IF gone THEN {} ELSE @,
                         !.obs = IF gone THEN DelFn(@, e.g) ELSE @]
    IN IF IsVT(mm) /\ gone THEN [m1 EXCEPT !.ht = DropAge(mm.kind, mm.ht, e.g, TRUE)] ELSE m1

\* "needs as many unlocks as locks": an unlock that belongs to a definite hold is not refused
\* mode "vt": the textbook object never refuses the release of a hold that is definitely outstanding (every kind),
\* and an acknowledged release takes the unit out of the holds that may exist
StepRelRet(mm, e) ==
    LET m1 == IF mm.kind = "rlock" /\ ~e.ok /\ ~e.void /\ e.g \in mm.relp
              THEN Report(mm, "rlock-unlock-refused", [g |-> e.g, res |-> e.res, s |-> e.s])
              ELSE mm
        m2 == IF IsVT(mm) /\ ~e.ok /\ e.g \in mm.relp /\ e.g \notin mm.stale
              THEN Report(m1, "release-refused-while-held", [g |-> e.g, res |-> e.res, s |-> e.s, t |-> e.t, ex |-> mm.ex])
              ELSE m1
        m3 == IF IsVT(mm) /\ e.ok /\ e.g \in DOMAIN mm.MH
              THEN LET M2 == PrimSub(mm.MH, e.g) IN
                   [m2 EXCEPT !.MH = M2, !.mt = IF e.g \in DOMAIN M2 THEN @ ELSE DropAge(mm.kind, mm.mt, e.g, FALSE)]
              ELSE m2
    IN [m3 EXCEPT !.relp = @ \ {e.g}]

StepAbandon(mm, e) == [mm EXCEPT !.H = PrimDrop(@, e.g), !.relp = @ \ {e.g}, !.obs = DelFn(@, e.g),
                                 !.call = DelFn(@, e.g), !.queued = @ \ {e.g},
                                 !.ht = Restrict(@, (DOMAIN @) \ {e.g})]

StepObs(mm, e) ==
    IF e.void \/ e.g \notin DOMAIN mm.H THEN mm
    ELSE [mm EXCEPT !.obs = SetFn(@, e.g, SeqToSet(e.prios))]

\* every release was acknowledged: the primitive is free again (as many unlocks as locks - not more)
StepProbe(mm, e) ==
    IF e.void THEN mm
    ELSE IF IsVT(mm)      \* ... or lapsed: judged against every hold that may still exist
    THEN Check(mm, e.ok \/ DOMAIN mm.MH # {}, "not-free-after-all-released", [res |-> e.res, s |-> e.s, t |-> e.t])
    ELSE Check(mm, e.ok \/ DOMAIN mm.H # {}, "not-free-after-all-released", [res |-> e.res, s |-> e.s])

\* seq mode: quiescent point; e.prios lists the processes whose call is queued at the server
\* mode "vt": the permissive halves are judged only while the holder set is known exactly (no hold in the second or
\* two in which the server's sweep ends it); nobody stays blocked while the object is free for ALL blocked requests
\* with respect to every hold that may still exist; a Wait is not blocked while the event is definitely set.
StepQuiet(mm, e) ==
    LET Q == SeqToSet(e.prios) \cap DOMAIN mm.call
        bad == {q \in Q : PrimMustAdmit(mm.kind, q, mm.call[q].rl, mm.H, \E w \in Q \ {q} : mm.call[w].rl = "w")}
        m1 == IF mm.kind \in PrimLockKinds /\ (IsVT(mm) => mm.MH = mm.H)
              THEN Check(mm, bad = {}, "blocked-although-admissible",
                         [procs |-> SetToSeq(bad), s |-> e.s, holders |-> HoldersJson(mm.H)])
              ELSE mm
        m2 == IF IsVT(mm) /\ mm.kind \in PrimLockKinds
              THEN Check(m1, ~PrimSomeoneMustBeAdmitted(mm.kind, mm.n, {[g |-> q, rl |-> mm.call[q].rl] : q \in Q}, mm.MH),
                         "blocked-although-free",
                         [procs |-> SetToSeq(Q), s |-> e.s, t |-> e.t, ex |-> mm.ex, mayhold |-> HoldersJson(mm.MH)])
              ELSE m1
        W  == SeqToSet(e.prios) \cap DOMAIN mm.waitSnap
        m3 == IF IsVT(mm) /\ mm.kind \notin PrimLockKinds
              THEN Check(m2, ~(W # {} /\ PrimEvDefSet(mm.kind, mm.evLast, mm.evT, mm.ex, e.t)), "wait-blocked-while-set",
                         [procs |-> SetToSeq(W), s |-> e.s, t |-> e.t, ex |-> mm.ex, last |-> mm.evLast, lastT |-> mm.evT])
              ELSE m2
    IN [m3 EXCEPT !.queued = Q]

-----------------------------------------------------------------------------
\* Event.  clearSince >= 0: the event has DEFINITELY been clear since that stamp (a Clear returned success,
\* no Set call overlapped it, and no Set has been called since).

\* mode "vt" (calls one at a time): the event state is what the last returned Set / Clear established, with the expiry
\* of the hold behind it (Primitives!PrimEvDefSet / PrimEvDefClear); a failed call leaves it unknown
EvRet(mm, e, which) == IF IsVT(mm) THEN [mm EXCEPT !.evLast = IF e.ok THEN which ELSE "unknown", !.evT = e.t] ELSE mm

StepSetCall(mm, e)   == [mm EXCEPT !.inflight = @ + 1, !.setCalls = @ + 1, !.clearSince = -1]
StepSetRet(mm, e)    == EvRet([mm EXCEPT !.inflight = IF @ > 0 THEN @ - 1 ELSE 0], e, "set")
StepClearCall(mm, e) == [mm EXCEPT !.clrMark = SetFn(@, e.g, IF mm.inflight = 0 THEN mm.setCalls ELSE -1), !.wp = TRUE]
StepClearRet(mm, e)  ==
    EvRet(IF e.ok /\ ~e.void /\ e.g \in DOMAIN mm.clrMark /\ mm.clrMark[e.g] = mm.setCalls /\ mm.inflight = 0 /\ mm.clearSince < 0
          THEN [mm EXCEPT !.clearSince = e.s] ELSE mm, e, "clear")
\* (e.prio of a wait_call is its millisecond timeout, 0 for the long one.)  `trigger` only DESCRIBES a violation, it
\* plays no part in the verdict: a wake pass on the UNLOCKED key (finding A24, fixed by 23dcb06) is possible only after
\* some Clear call (= unlock in default-clear mode) or some Wait carrying a millisecond timeout was issued.
StepWaitCall(mm, e)  ==
    LET m1 == [mm EXCEPT !.waitMark = SetFn(@, e.g, e.s), !.wp = @ \/ e.prio > 0]
    IN IF IsVT(mm) THEN [m1 EXCEPT !.waitSnap = SetFn(@, e.g, [last |-> mm.evLast, t |-> mm.evT, tc |-> e.t])] ELSE m1
\* mode "vt": the clear state of a default-set event is a hold that lapses - a Wait that returned is judged only when
\* no Set / Clear was called since the Wait was called and the event was definitely clear from the call to the return
StepWaitRet(mm, e)   ==
    LET m1 == IF IsVT(mm)
              THEN IF e.ok /\ e.g \in DOMAIN mm.waitSnap
                   THEN LET sn == mm.waitSnap[e.g] IN
                        Check(mm, ~(sn.last = mm.evLast /\ sn.t = mm.evT
                                    /\ PrimEvDefClear(mm.kind, mm.evLast, mm.evT, mm.ex, sn.tc)
                                    /\ PrimEvDefClear(mm.kind, mm.evLast, mm.evT, mm.ex, e.t)), "wait-returned-while-clear",
                              [g |-> e.g, s |-> e.s, t |-> e.t, called |-> sn.tc, last |-> mm.evLast, lastT |-> mm.evT, ex |-> mm.ex,
                               trigger |-> "none"])
                   ELSE mm
              ELSE IF e.ok /\ e.g \in DOMAIN mm.waitMark
              THEN Check(mm, ~(mm.clearSince >= 0 /\ mm.clearSince < mm.waitMark[e.g]), "wait-returned-while-clear",
                         [g |-> e.g, s |-> e.s, called |-> mm.waitMark[e.g], clearSince |-> mm.clearSince,
                          trigger |-> IF mm.wp THEN "wake-pass-while-unlocked-possible" ELSE "none"])
              ELSE mm
    IN [m1 EXCEPT !.waitMark = DelFn(@, e.g), !.waitSnap = IF IsVT(mm) THEN DelFn(@, e.g) ELSE @]

Step1(mm, e) ==
    CASE e.e = "begin"      -> StepBegin(mm, e)
      [] e.e = "acq_call"   -> StepAcqCall(mm, e)
      [] e.e = "acq_ret"    -> StepAcqRet(mm, e)
      [] e.e = "acq_fail"   -> StepAcqFail(mm, e)
      [] e.e = "acq_err"    -> [mm EXCEPT !.call = DelFn(@, e.g), !.queued = @ \ {e.g}]
      [] e.e = "rel_call"   -> StepRelCall(mm, e)
      [] e.e = "rel_ret"    -> StepRelRet(mm, e)
      [] e.e = "abandon"    -> StepAbandon(mm, e)
      [] e.e = "obs"        -> StepObs(mm, e)
      [] e.e = "probe"      -> StepProbe(mm, e)
      [] e.e = "quiet"      -> StepQuiet(mm, e)
      [] e.e = "set_call"   -> StepSetCall(mm, e)
      [] e.e = "set_ret"    -> StepSetRet(mm, e)
      [] e.e = "clear_call" -> StepClearCall(mm, e)
      [] e.e = "clear_ret"  -> StepClearRet(mm, e)
      [] e.e = "wait_call"  -> StepWaitCall(mm, e)
      [] e.e = "wait_ret"   -> StepWaitRet(mm, e)
      [] OTHER              -> mm

\* mode "vt": the holder tables are aged to the second of the event before it is judged
Step(mm, e) == IF IsVT(mm) /\ e.e \notin {"begin", "end"} THEN Step1(Age(mm, e.t), e) ELSE Step1(mm, e)

Init == l = 1 /\ m = M0

Next == /\ l <= Len(Trace)
        /\ m' = Step(m, Trace[l])
        /\ l' = l + 1

Spec == Init /\ [][Next]_vars

NoViolation == m.nv = 0

TraceConsumed == TLCGet("stats").diameter - 1 = Len(Trace)

=============================================================================

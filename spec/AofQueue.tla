------------------------------ MODULE AofQueue ------------------------------
(***************************************************************************)
(* The hand-over of value frames from the lock engine to the log writer    *)
(* (server/lock.go LockManager.AofLockData / ProcessLockData,              *)
(* server/aof.go AofChannel.Push / Run / HandleLock, AofFile.WriteLockData)*)
(* as the code is built:                                                   *)
(*                                                                         *)
(*   - the value of a key is a SLICE (buffer, length) into a byte buffer   *)
(*     with a capacity; a stored frame is  <<length>> \o payload           *)
(*   - a value operation (SET, APPEND, ...) builds the new value; the      *)
(*     record of the request is pushed to the channel queue with a         *)
(*     REFERENCE to that slice (no copy)                                   *)
(*   - the channel goroutine runs later (Drain): it copies what the slice  *)
(*     shows THEN into the value file, record after record                 *)
(*   - further requests on the same key may run in between (a pipelining   *)
(*     client, a log writer busy in a flush)                               *)
(*                                                                         *)
(* The record a request persists describes the value ITS operation left.   *)
(* TLC checks                                                              *)
(*   FramesAreRecords  every frame in the value file is the value of its   *)
(*                     record as it was when the record was handed over    *)
(*   CrashPrefix       the value file cut at any position parses (length   *)
(*                     prefix, then that many bytes; a short tail ends the *)
(*                     load) into a prefix of the record values - no frame *)
(*                     is assembled from bytes of two writes               *)
(* Switch (TRUE = as the code is):                                         *)
(*   FreshFrame  every value operation allocates a new buffer (lock.go:    *)
(*               make + copy).  FALSE = APPEND extends the current buffer  *)
(*               in place when its capacity allows (Go append() on the     *)
(*               live slice) and rewrites the length prefix: every queued  *)
(*               record that still references the buffer changes under the *)
(*               log writer.  TLC must refute both invariants; the         *)
(*               counterexample is replayed on the real code as a burst.   *)
(* Engine F can hold the channel goroutines of the real code only as a     *)
(* whole (the wake-up token of the queue is withheld), so the model's log  *)
(* writer step is Drain = "every queued record is written"; a behaviour is *)
(* a sequence of bursts.                                                   *)
(***************************************************************************)
EXTENDS Integers, Sequences, FiniteSets, TLC, Json, SequencesExt

CONSTANTS
    Keys,          \* small ints
    Syms,          \* payload symbols (ints >= 10, so that they differ from every length prefix)
    MaxOps,        \* requests per behaviour
    MaxQueue,      \* records that may wait in the queue
    FreshFrame,
    Turns          \* {"any"} for exhaustive checking; class tokens for AofQueueSim

VARIABLES
    heap,          \* buffer id -> [cells (Seq), cap]
    cur,           \* key -> [buf, n] (0, 0 = no value)
    queue,         \* Seq of [key, buf, n, want]   want = the frame at hand-over time (ghost)
    file,          \* the value file: Seq of cells
    wants,         \* the frames of the written records, in order (ghost)
    nops, hist, turn

vars == <<heap, cur, queue, file, wants, nops, hist, turn>>
view == <<heap, cur, queue, file, wants, nops>>

View(b, n) == SubSeq(heap[b].cells, 1, n)          \* what a slice shows now
NoVal == [buf |-> 0, n |-> 0]
NewBuf == Len(heap) + 1

Push(k, b, n, cells) == queue' = Append(queue, [key |-> k, buf |-> b, n |-> n, want |-> SubSeq(cells, 1, n)])

\* SET: the request's own frame becomes the value (exact capacity)
Set(k, x) ==
    /\ nops < MaxOps /\ Len(queue) < MaxQueue
    /\ LET cells == <<1, x>> IN
       /\ heap' = Append(heap, [cells |-> cells, cap |-> 2])
       /\ cur' = [cur EXCEPT ![k] = [buf |-> NewBuf, n |-> 2]]
       /\ Push(k, NewBuf, 2, cells)
    /\ nops' = nops + 1
    /\ hist' = Append(hist, [op |-> "set", key |-> k, sym |-> x])
    /\ UNCHANGED <<file, wants>>

\* APPEND on a key with a value
AppendOp(k, x) ==
    /\ nops < MaxOps /\ Len(queue) < MaxQueue
    /\ cur[k].buf # 0
    /\ LET b == cur[k].buf
           n == cur[k].n
           old == View(b, n)
           inplace == ~FreshFrame /\ n + 1 <= heap[b].cap
       IN IF inplace
          THEN \* append() extends the live buffer; the length prefix (cell 1) is rewritten in the SHARED array
               LET cells == [i \in 1..Len(heap[b].cells) |-> heap[b].cells[i]]
                   c1 == IF Len(cells) >= n + 1 THEN [cells EXCEPT ![n + 1] = x] ELSE Append(cells, x)
                   c2 == [c1 EXCEPT ![1] = n]
               IN /\ heap' = [heap EXCEPT ![b].cells = c2]
                  /\ cur' = [cur EXCEPT ![k] = [buf |-> b, n |-> n + 1]]
                  /\ Push(k, b, n + 1, c2)
          ELSE \* a new buffer: make(len) as the code does (FreshFrame), or the re-allocation of append() with Go's
               \* growth policy (spare capacity: the NEXT append works in place)
               LET cells == <<n>> \o SubSeq(old, 2, n) \o <<x>>
                   cap == IF FreshFrame THEN n + 1 ELSE 2 * (n + 1)
               IN /\ heap' = Append(heap, [cells |-> cells, cap |-> cap])
                  /\ cur' = [cur EXCEPT ![k] = [buf |-> NewBuf, n |-> n + 1]]
                  /\ Push(k, NewBuf, n + 1, cells)
    /\ nops' = nops + 1
    /\ hist' = Append(hist, [op |-> "append", key |-> k, sym |-> x])
    /\ UNCHANGED <<file, wants>>

\* the channel goroutine runs: every queued record is copied into the value file as its slice shows NOW
Drain ==
    /\ queue # <<>>
    /\ file' = file \o FoldLeft(LAMBDA acc, r : acc \o View(r.buf, r.n), <<>>, queue)
    /\ wants' = wants \o [i \in 1..Len(queue) |-> queue[i].want]
    /\ queue' = <<>>
    /\ hist' = Append(hist, [op |-> "drain"])
    /\ UNCHANGED <<heap, cur, nops>>

Init ==
    /\ heap = <<>> /\ cur = [k \in Keys |-> NoVal] /\ queue = <<>> /\ file = <<>> /\ wants = <<>>
    /\ nops = 0 /\ hist = <<>> /\ turn = "any"

Ops == \/ \E k \in Keys, x \in Syms : Set(k, x)
       \/ \E k \in Keys, x \in Syms : AppendOp(k, x)
       \/ Drain

Next == Ops /\ turn' = turn
Spec == Init /\ [][Next]_vars

-----------------------------------------------------------------------------
\* the reader of the value file (AofFile.ReadLockData): length prefix, then that many cells; a short tail ends the load
RECURSIVE Parse(_)
Parse(s) == IF s = <<>> THEN <<>>
            ELSE LET n == s[1] IN
                 IF n + 1 > Len(s) THEN <<>>
                 ELSE <<SubSeq(s, 1, n + 1)>> \o Parse(SubSeq(s, n + 2, Len(s)))

PrefixOf(a, b) == Len(a) <= Len(b) /\ SubSeq(b, 1, Len(a)) = a

FramesAreRecords == file = FoldLeft(LAMBDA acc, w : acc \o w, <<>>, wants)
CrashPrefix == \A c \in 0..Len(file) : PrefixOf(Parse(SubSeq(file, 1, c)), wants)

CEX(name, cond) == cond \/ ~PrintT("CEX " \o ToJson([inv |-> name, hist |-> hist]))
Inv_FramesAreRecords == CEX("FramesAreRecords", FramesAreRecords)
Inv_CrashPrefix      == CEX("CrashPrefix", CrashPrefix)
TypeOK == nops \in 0..MaxOps /\ Len(queue) <= MaxQueue
=============================================================================

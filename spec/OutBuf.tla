------------------------------- MODULE OutBuf -------------------------------
(***************************************************************************)
(* The OUTPUT path of one binary client connection of slock, as coded.     *)
(*                                                                         *)
(* Code anchors (server/protocol.go, server/stream.go):                    *)
(*   Stream.EnsureWriterBuffer            a 4096-byte StreamWriterBuffer   *)
(*                                        (buf, index) per connection      *)
(*   BinaryServerProtocol.Process         reads 64 bytes; when at least    *)
(*                                        one more whole frame is already  *)
(*                                        in the 4096-byte reader buffer   *)
(*                                        the batch runs BUFFERED:         *)
(*                                        CAS(buffered,0,1) ... frames ... *)
(*                                        ProcessFlush                     *)
(*   ProcessLockResultCommand             reply of LOCK / UNLOCK, under    *)
(*                                        the connection mutex:            *)
(*       buffered > 0 and (no data or len(data)+128 < 4096):               *)
(*           buffered := 2                                                 *)
(*           data:  if index+64+len(data) > 4096: WriteToConn              *)
(*                  copy header, index += 64, copy data, index += len      *)
(*           bare:  copy header, index += 64                               *)
(*           if index+64 > 4096: WriteToConn      <- keeps 64 bytes free   *)
(*       otherwise: conn.Write(header) ; conn.Write(data)                  *)
(*   BinaryServerProtocol.Write           every other reply (PING, INIT,   *)
(*                                        STATE, CALL ...): straight to    *)
(*                                        the connection, past the buffer  *)
(*   ProcessFlush                         CAS(buffered,1,0), else under    *)
(*                                        the mutex CAS(buffered,2,0) and  *)
(*                                        WriteToConn when index > 0       *)
(*   StreamWriterBuffer.WriteToConn       conn.Write(buf[:index]); index=0 *)
(*   Go semantics that matter: copy(buf[index:], src) panics when          *)
(*   index > len(buf) and otherwise copies silently only what fits;        *)
(*   buf[:index] panics when index > len(buf).                             *)
(*                                                                         *)
(* `data` is the value frame of the key as stored: 4-byte length, 2-byte   *)
(* header, value bytes; D below is len(data) (0 = reply without data).     *)
(*                                                                         *)
(* This module holds the operators; OutBufMC checks them exhaustively at   *)
(* small constants (every size, an asynchronous replier), OutBufGen        *)
(* enumerates the reply-size patterns (positions relative to the buffer    *)
(* boundary) at the real constants, spec/mon/MonOutBuf replays recorded    *)
(* reply streams of the real server against the same operators.            *)
(*                                                                         *)
(* Variant names the line of the code that is changed ("coded" = as in the *)
(* repository); the others exist to show that the invariants have teeth    *)
(* and name the mutations the check was tried against.                     *)
(***************************************************************************)
EXTENDS Integers, Sequences, FiniteSets, TLC, Json

CONSTANTS Cap,       \* capacity of the writer buffer (4096)
          H,         \* size of a reply header = of a request frame (64)
          Variant    \* "coded" | "trailInBare" | "preNoHeader" | "trailOffByOne" | "preGE" | "bypassLate"

Min(a, b) == IF a < b THEN a ELSE b

-----------------------------------------------------------------------------
\* the output side of a connection
\*   idx, segs   StreamWriterBuffer.index and what the buffer holds: segments [id, from, n, dir] = bytes from..from+n-1 of reply id (dir: written directly)
\*   wire        what went to the connection: one entry per conn.Write, each a sequence of segments
\*   bst         BinaryServerProtocol.buffered: 0 direct, 1 batch open, 2 batch open and something in the buffer
\*   crashed     an index expression was out of range: the connection goroutine panics, the process dies
\*   trunc       a copy() silently dropped bytes

Out0 == [idx |-> 0, segs |-> <<>>, wire |-> <<>>, bst |-> 0, crashed |-> FALSE, trunc |-> FALSE]

Seg(id, from, n, dir) == [id |-> id, from |-> from, n |-> n, dir |-> dir]

CopyIn(o, id, from, n) ==
    IF o.crashed THEN o
    ELSE IF o.idx > Cap THEN [o EXCEPT !.crashed = TRUE]
    ELSE LET m == Min(n, Cap - o.idx)
         IN [o EXCEPT !.segs = IF m > 0 THEN Append(@, Seg(id, from, m, FALSE)) ELSE @,
                      !.trunc = @ \/ (m < n)]

Advance(o, n) == IF o.crashed THEN o ELSE [o EXCEPT !.idx = @ + n]

WriteToConn(o) ==
    IF o.crashed THEN o
    ELSE IF o.idx > Cap THEN [o EXCEPT !.crashed = TRUE]
    ELSE [o EXCEPT !.wire = Append(@, o.segs), !.segs = <<>>, !.idx = 0]

Direct(o, id, from, n) == IF o.crashed THEN o ELSE [o EXCEPT !.wire = Append(@, <<Seg(id, from, n, TRUE)>>)]

\* does a reply with a data frame of D bytes go through the buffer at all?
Buffers(D) == D = 0 \/ (IF Variant = "bypassLate" THEN D + H <= Cap ELSE D + 2 * H < Cap)

\* ProcessLockResultCommand, the part after the header was built; lb = the value of `buffered` the function loaded
LockReplyLoaded(o, id, D, lb) ==
    IF Buffers(D) /\ lb > 0 /\ (lb = 2 \/ o.bst = 1)          \* buffered == 2 || CAS(buffered, 1, 2)
    THEN LET o0 == [o EXCEPT !.bst = 2]
             pre == IF Variant = "preNoHeader" THEN o0.idx + D > Cap
                    ELSE IF Variant = "preGE" THEN o0.idx + H + D >= Cap
                    ELSE o0.idx + H + D > Cap
             o1 == IF D > 0 /\ pre THEN WriteToConn(o0) ELSE o0
             o2 == Advance(CopyIn(o1, id, 0, H), H)
             o3 == IF D > 0 THEN Advance(CopyIn(o2, id, H, D), D) ELSE o2
             trail == IF Variant = "trailOffByOne" THEN o3.idx + H > Cap + 1 ELSE o3.idx + H > Cap
             checked == IF Variant = "trailInBare" THEN D = 0 ELSE TRUE
         IN IF o3.crashed THEN o3 ELSE IF checked /\ trail THEN WriteToConn(o3) ELSE o3
    ELSE LET o1 == Direct(o, id, 0, H) IN IF D > 0 THEN Direct(o1, id, H, D) ELSE o1

\* the same when load and use are one step (the connection's own goroutine: nothing else changes `buffered` upwards)
LockReply(o, id, D) == LockReplyLoaded(o, id, D, o.bst)

\* BinaryServerProtocol.Write: replies of the non-lock commands
OtherReply(o, id) == Direct(o, id, 0, H)

\* Process(): nframes whole frames are in the reader buffer when the first one is taken
BeginBatch(o, nframes) == IF nframes >= 2 /\ o.bst = 0 THEN [o EXCEPT !.bst = 1] ELSE o

\* ProcessFlush, both halves (the second one runs under the connection mutex)
EndBatch(o) ==
    IF o.bst = 1 THEN [o EXCEPT !.bst = 0]
    ELSE IF o.bst = 2 THEN [(IF o.idx > 0 THEN WriteToConn(o) ELSE o) EXCEPT !.bst = 0]
    ELSE o

-----------------------------------------------------------------------------
\* the input side, as far as it decides the batches (server/stream.go: StreamReaderBuffer of RCap = 4096 bytes, fields
\* index / len; Stream.ReadBytesSize(64) -> ReadFromConn): the client's writes arrive one per conn.Read as far as the free
\* space behind `len` allows (net.Pipe; TCP may merge them), the rest of a write stays with the client until the next
\* read; the server reads only when fewer than H bytes are left, resets index / len when nothing is left and moves a
\* leftover to the front only when the missing bytes would not fit behind it.  All request frames here are bare H-byte
\* frames.  Batches(writes) = number of frames of every batch, in order.
RCap == Cap
RECURSIVE BatchesFrom(_, _, _, _, _)
BatchesFrom(writes, i, pend, ridx, rlen) ==
    LET avail == rlen - ridx IN
    IF avail >= H THEN <<avail \div H>> \o BatchesFrom(writes, i, pend, ridx + H * (avail \div H), rlen)
    ELSE IF pend = 0 THEN (IF i > Len(writes) THEN <<>> ELSE BatchesFrom(writes, i + 1, writes[i], ridx, rlen))
    ELSE LET compact == avail > 0 /\ RCap - rlen < H - avail /\ ridx > 0
             i1 == IF avail <= 0 \/ compact THEN 0 ELSE ridx
             l1 == IF avail <= 0 THEN 0 ELSE IF compact THEN avail ELSE rlen
             got == Min(pend, RCap - l1)
         IN BatchesFrom(writes, i, pend - got, i1, l1 + got)
Batches(writes) == BatchesFrom(writes, 1, 0, 0, 0)

-----------------------------------------------------------------------------
\* a reply as the generator and the monitor name it: k = "lock" (LOCK / UNLOCK result with a data frame of d bytes,
\* d = 0: none) or "other" (PING ...)
RunReply(o, id, r) == IF r.k = "other" THEN OtherReply(o, id) ELSE LockReply(o, id, r.d)

RECURSIVE RunFrames(_, _, _, _)
RunFrames(o, replies, from, n) == IF n = 0 THEN o ELSE RunFrames(RunReply(o, from, replies[from]), replies, from + 1, n - 1)

RECURSIVE RunBatches(_, _, _, _)
RunBatches(o, replies, bs, from) ==
    IF bs = <<>> \/ from > Len(replies) THEN o
    ELSE LET n == Min(Head(bs), Len(replies) - from + 1)
         IN RunBatches(EndBatch(RunFrames(BeginBatch(o, Head(bs)), replies, from, n)), replies, Tail(bs), from + n)

\* everything one step of a delivery produces: the requests answered by `replies` arrive in `writes`
RunStep(replies, writes) == RunBatches(Out0, replies, Batches(writes), 1)

RECURSIVE SumN(_)
SumN(segs) == IF segs = <<>> THEN 0 ELSE Head(segs).n + SumN(Tail(segs))
ChunkSizes(o) == [i \in 1..Len(o.wire) |-> SumN(o.wire[i])]

RECURSIVE Flat(_)
Flat(w) == IF w = <<>> THEN <<>> ELSE Head(w) \o Flat(Tail(w))
\* order in which the replies start on the wire
WireOrder(o) == LET f == Flat(o.wire) IN [i \in 1..Len(SelectSeq(f, LAMBDA s : s.from = 0)) |-> SelectSeq(f, LAMBDA s : s.from = 0)[i].id]

-----------------------------------------------------------------------------
\* position of a reply relative to the buffer boundary: the alphabet of the pattern generator.
\*   b = index before, D = data length, buffered = the batch is buffered
Kind(r) == IF r.k = "other" THEN "other"
           ELSE IF r.d = 0 THEN "bare"
           ELSE IF ~Buffers(r.d) THEN (IF r.d + 2 * H = Cap THEN "bigMin" ELSE "big")
           ELSE IF r.d + 2 * H = Cap - 1 THEN "dataMax" ELSE "data"

EndClass(e) == IF e < Cap - H THEN "room"
               ELSE IF e = Cap - H THEN "roomEdge"          \* exactly one header still fits: no flush
               ELSE IF e = Cap - H + 1 THEN "tightLo"       \* fewer than H bytes free: the trailing flush is due
               ELSE IF e = Cap - 1 THEN "tightHi"
               ELSE IF e < Cap THEN "tightMid"
               ELSE IF e = Cap THEN "exact"
               ELSE "beyond"                                 \* never as coded

PosClass(b, r, buffered) ==
    IF ~buffered THEN "direct"
    ELSE IF r.k = "other" THEN (IF b = 0 THEN "pastEmpty" ELSE "pastFilled")     \* overtakes what the buffer holds
    ELSE IF ~Buffers(r.d) THEN (IF b = 0 THEN "pastEmpty" ELSE "pastFilled")
    ELSE LET s == H + r.d
             over == r.d > 0 /\ b + s > Cap
         IN IF over THEN (IF b + s = Cap + 1 THEN "over1." ELSE "overN.") \o EndClass(s)
            ELSE EndClass(b + s)

Label(b, r, buffered) == Kind(r) \o ":" \o PosClass(b, r, buffered)

\* class sequence of one step (one label per reply) - what MonOutBuf recomputes from a recorded delivery
RECURSIVE LabelsFrames(_, _, _, _)
LabelsFrames(o, replies, from, n) ==
    IF n = 0 THEN <<>>
    ELSE <<Label(o.idx, replies[from], o.bst > 0)>> \o LabelsFrames(RunReply(o, from, replies[from]), replies, from + 1, n - 1)
RECURSIVE LabelsBatches(_, _, _, _)
LabelsBatches(o, replies, bs, from) ==
    IF bs = <<>> \/ from > Len(replies) THEN <<>>
    ELSE LET n == Min(Head(bs), Len(replies) - from + 1)
             o1 == BeginBatch(o, Head(bs))
         IN LabelsFrames(o1, replies, from, n) \o LabelsBatches(EndBatch(RunFrames(o1, replies, from, n)), replies, Tail(bs), from + n)
StepLabels(replies, writes) == LabelsBatches(Out0, replies, Batches(writes), 1)

\* where the end of each reply WOULD lie in the buffer (index before + size, before any flush): the coverage measure
\* "residues relative to the boundary" is read off these; -1 for replies that do not go through the buffer
RECURSIVE EndsFrames(_, _, _, _)
EndsFrames(o, replies, from, n) ==
    IF n = 0 THEN <<>>
    ELSE LET r == replies[from]
             e == IF o.bst > 0 /\ r.k = "lock" /\ Buffers(r.d) THEN o.idx + H + r.d ELSE -1
         IN <<e>> \o EndsFrames(RunReply(o, from, r), replies, from + 1, n - 1)
RECURSIVE EndsBatches(_, _, _, _)
EndsBatches(o, replies, bs, from) ==
    IF bs = <<>> \/ from > Len(replies) THEN <<>>
    ELSE LET n == Min(Head(bs), Len(replies) - from + 1)
             o1 == BeginBatch(o, Head(bs))
         IN EndsFrames(o1, replies, from, n) \o EndsBatches(EndBatch(RunFrames(o1, replies, from, n)), replies, Tail(bs), from + n)
StepEnds(replies, writes) == EndsBatches(Out0, replies, Batches(writes), 1)

-----------------------------------------------------------------------------
\* what must hold of the output side (checked by OutBufMC; sizes: id -> total size of the reply)
\* no index expression out of range, no copy truncated
Safe(o) == ~o.crashed /\ ~o.trunc /\ o.idx <= Cap

\* bytes of every reply appear on the wire + in the buffer exactly once, from offset 0 upwards, without gaps
PrefixOK(o, size) ==
    LET f == Flat(o.wire) \o o.segs
    IN \A id \in DOMAIN size :
        LET mine == SelectSeq(f, LAMBDA s : s.id = id)
        IN /\ \A i \in 1..Len(mine) : mine[i].from = (IF i = 1 THEN 0 ELSE mine[i-1].from + mine[i-1].n)
           /\ (Len(mine) > 0 => mine[Len(mine)].from + mine[Len(mine)].n <= size[id])
\* the pieces of one reply are never interleaved with another reply's
Contiguous(o) ==
    LET f == Flat(o.wire) \o o.segs
    IN \A i \in 1..Len(f) : f[i].from > 0 => (i > 1 /\ f[i-1].id = f[i].id)
\* every issued reply is completely on the wire (at rest)
AllOut(o, size) ==
    /\ o.idx = 0 /\ o.segs = <<>>
    /\ \A id \in DOMAIN size : SumN(SelectSeq(Flat(o.wire), LAMBDA s : s.id = id)) = size[id]
=============================================================================

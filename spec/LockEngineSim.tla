---------------------------- MODULE LockEngineSim ----------------------------
(***************************************************************************)
(* Random-walk front end of LockEngine for `tlc -simulate`: the same       *)
(* actions, but the request parameters are drawn with RandomElement so a   *)
(* step has a handful of successors instead of thousands, and the action   *)
(* class is drawn from a weighted bag so clock ticks and unlocks are as    *)
(* frequent as lock requests.  Every printed `hist` is a behaviour of      *)
(* LockEngine!Spec (SimNext => Next).                                      *)
(***************************************************************************)
EXTENDS LockEngine

Pick(S) == RandomElement(S)

\* ---- guided draws: requests by CURRENT HOLDERS whose terms differ from request to request ----------------------
\* The plain classes draw key, LockId, Count and Rcount independently, so "the same LockId comes back with another
\* Count / Rcount while other holders are present" is a rare coincidence.  The classes below draw the LockId among the
\* holders of a held key and the terms afresh (seed classes C01e: an update that changes only Count / Rcount, on
\* unlimited and timed holds, by the oldest holder, followed by newcomers whose admission depends on the new Count;
\* C02e: re-locks and updates that change Count / Rcount between the requests of one LockId while other LockIds hold
\* the key, followed by unlocks and re-locks of those others).
HeldKeys == {k \in Keys : ks[k].H # <<>>}
HolderLids(k) == {ks[k].H[i].lid : i \in 1..Len(ks[k].H)}
\* the oldest holder half of the time, otherwise anyone
ReHolder(k) == IF Pick(1..2) = 1 THEN ks[k].H[1].lid ELSE Pick(HolderLids(k))
\* a holder other than the oldest when there is one
OtherHolder(k) == IF Len(ks[k].H) > 1 THEN Pick(HolderLids(k) \ {ks[k].H[1].lid}) ELSE ks[k].H[1].lid
ReFlags == (LockFlags \cap {"update", "updunl", "updkeep", "showupdate", "showupdunl", "unl"}) \cup {""}
NewFlags == (LockFlags \cap {"unl", "conc"}) \cup {""}
Strangers(k) == IF Lids \ HolderLids(k) = {} THEN Lids ELSE Lids \ HolderLids(k)

SimRelock(k) == LockReq(k, ReHolder(k), Pick(Counts), Pick(Rcounts), Pick(Timeouts), Pick(Expireds), Pick(ReFlags))
SimNewcomer(k) == LockReq(k, Pick(Strangers(k)), Pick(Counts), Pick(Rcounts), Pick(Timeouts), Pick(Expireds),
                          IF Pick(1..10) <= 5 THEN "" ELSE Pick(NewFlags))
SimHolderUnlock(k) == UnlockReq(k, OtherHolder(k), Pick(Rcounts), "")

SimStep ==
    \/ /\ turn \in {"relock", "relock2", "relock3"} /\ HeldKeys # {}
       /\ SimRelock(Pick(HeldKeys))
    \/ /\ turn \in {"newcomer", "newcomer2"}
       /\ SimNewcomer(IF HeldKeys # {} THEN Pick(HeldKeys) ELSE Pick(Keys))
    \/ /\ turn = "hunlock" /\ HeldKeys # {}
       /\ SimHolderUnlock(Pick(HeldKeys))
    \/ /\ turn \in {"lock", "lock2", "lock3"}
       /\ LockReq(Pick(Keys), Pick(Lids), Pick(Counts), Pick(Rcounts), Pick(Timeouts), Pick(Expireds),
                  IF Pick(1..10) <= 6 THEN "" ELSE Pick(LockFlags \cup {""}))
    \/ /\ turn \in {"unlock", "unlock2"}
       /\ UnlockReq(Pick(Keys), Pick(Lids), Pick(Rcounts), IF Pick(1..10) <= 6 THEN "" ELSE Pick(UnlockFlags \cup {""}))
    \/ \E k \in Keys : \E i \in DueTimeouts(k) : FireTimeout(k, i)
    \/ \E k \in Keys : \E i \in DueExpiries(k) : FireExpiry(k, i)
    \/ /\ turn \in {"tick", "tick2"} \/ Len(reqs) = MaxReq
       /\ Tick
    \/ UNCHANGED <<ks, now, reqs, out, hist, role, nrc>>      \* the drawn request was not enabled: draw again

SimNext == SimStep /\ turn' = Pick(Turns)

SimSpec == Init /\ [][SimNext]_vars

SimExport == (Len(reqs) = MaxReq /\ NothingDue /\ turn = "tick") => PrintT("BEHAVIOUR " \o ToJson(hist))
=============================================================================

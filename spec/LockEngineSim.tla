---------------------------- MODULE LockEngineSim ----------------------------
(***************************************************************************)
(* Random-walk front end of LockEngine for `tlc -simulate`: the same       *)
(* actions, but the request parameters are drawn with RandomElement so a   *)
(* step has a handful of successors instead of thousands, and the action   *)
(* class is drawn from a weighted bag so clock ticks and unlocks are as    *)
(* frequent as lock requests.  Every printed `hist` is a behaviour of      *)
(* LockEngine!Spec (SimNext => Next).                                      *)
(***************************************************************************)
EXTENDS LockEngine

Pick(S) == RandomElement(S)

SimStep ==
    \/ /\ turn \in {"lock", "lock2", "lock3"}
       /\ LockReq(Pick(Keys), Pick(Lids), Pick(Counts), Pick(Rcounts), Pick(Timeouts), Pick(Expireds),
                  IF Pick(1..10) <= 6 THEN "" ELSE Pick(LockFlags \cup {""}))
    \/ /\ turn \in {"unlock", "unlock2"}
       /\ UnlockReq(Pick(Keys), Pick(Lids), Pick(Rcounts), IF Pick(1..10) <= 6 THEN "" ELSE Pick(UnlockFlags \cup {""}))
    \/ \E k \in Keys : \E i \in DueTimeouts(k) : FireTimeout(k, i)
    \/ \E k \in Keys : \E i \in DueExpiries(k) : FireExpiry(k, i)
    \/ /\ turn \in {"tick", "tick2"} \/ Len(reqs) = MaxReq
       /\ Tick
    \/ UNCHANGED <<ks, now, reqs, out, hist, role, nrc>>      \* the drawn request was not enabled: draw again

SimNext == SimStep /\ turn' = Pick(Turns)

SimSpec == Init /\ [][SimNext]_vars

SimExport == (Len(reqs) = MaxReq /\ NothingDue /\ turn = "tick") => PrintT("BEHAVIOUR " \o ToJson(hist))
=============================================================================

------------------------------- MODULE ReplRing -------------------------------
(***************************************************************************)
(* Data-structure level part of property C09 ("followers apply the         *)
(* leader's log exactly and converge"): the leader's replication RING      *)
(* BUFFER, server/replication.go ReplicationBufferQueue.                   *)
(*                                                                         *)
(* (a) REFERENCE.  An append-only log L of records (record seq = index-1,  *)
(*     id = seq+1, data length L[seq+1]) and, per cursor, the position     *)
(*     `have` (seq of the last record handed to / claimed by the cursor)   *)
(*     and `sent` (seq of the last record the follower really has).        *)
(*     Pop(cursor) hands out exactly record have+1, or EOF when the cursor *)
(*     is at the newest record, or "out of buf" when the record it needs   *)
(*     (or the record it stands on) has been recycled - never a wrong      *)
(*     record, never a skipped one.  Search(id) positions the cursor ON    *)
(*     the record with that id (so the next Pop hands out its successor)   *)
(*     iff the record is still in the ring.  Head positions the cursor on  *)
(*     the newest record and hands that record out.  What is delivered to  *)
(*     the follower (the record the cursor carries whenever its `writed`   *)
(*     flag is false, exactly as ReplicationServer.SendProcess sends it)   *)
(*     is sent+1, sent+2, ... without gap, duplicate or reordering.        *)
(*     The reference is the operator Judge below; it is used by this       *)
(*     module for every transition of the model and by the trace spec      *)
(*     spec/mon/MonReplRing.tla for every step recorded from the real      *)
(*     ReplicationBufferQueue.                                             *)
(*                                                                         *)
(* (b) IMPLEMENTATION-SHAPED MODEL.  The record R has the fields of the Go *)
(*     struct: slots (ReplicationBufferQueueItem: nextItem, buf (its       *)
(*     record id), data (its length), pollCount, pollIndex, seq), headItem *)
(*     (newest), tailItem (oldest), freeHeadItem (where released slots are *)
(*     appended), freeTailItem (where Push takes slots), seq,              *)
(*     usedBufferSize, bufferSize, maxBufferSize, pollCount, dupCount and  *)
(*     the cursors (currentItem, seq, currentAofId, private copy of buf,   *)
(*     data, writed).  One operator per method, statement by statement:    *)
(*     InitFreeQueueItems, ResetQueueItems (with its release loop), Push   *)
(*     (growth rule), Pop, Head, Search, AddPoll, RemovePoll; plus the two *)
(*     statement groups of their callers that touch the cursor directly:   *)
(*     the "catch-up" assignment of ReplicationServer.handleInitSync       *)
(*     (currentItem = nil, seq = queue.seq - 1) and the send step of       *)
(*     SendProcess (writed = true, currentItem.pollIndex++).               *)
(*     uint32 0xffffffff (the "recycled" marker in pollCount) is the value *)
(*     FREE = -1; atomic.AddUint32 on it wraps to 0 (Inc32).               *)
(*                                                                         *)
(* Deviations / switches, named as constants:                              *)
(*   ReleaseClearsNext  TRUE = as coded: the release loop of               *)
(*       ResetQueueItems sets queueItem.nextItem = nil before the slot     *)
(*       goes to the free list.  FALSE drops that statement (used to show  *)
(*       that the invariants below are not vacuous).                       *)
(*   AddPollWrapsMarker TRUE = as coded: AddPoll increments pollCount of   *)
(*       every slot from cursor.currentItem on, also when that slot has    *)
(*       been recycled meanwhile (0xffffffff + 1 = 0: the recycled marker  *)
(*       of that slot and of every free slot linked behind it is wiped).   *)
(*       FALSE = AddPoll stops at a slot that carries the marker.          *)
(*                                                                         *)
(* TLC checks, for every reachable state and every operation of the        *)
(* production usage protocol (position by Head / Search -> AddPoll ->      *)
(* send / Pop ... -> RemovePoll, pushes anywhere in between): the result   *)
(* of the model equals what the reference allows (Judge) and the           *)
(* structural invariants hold (StructCode).  A refuted clause does not     *)
(* stop TLC: the program is printed ("CEX ..") and replayed on the real    *)
(* code by checks/ringpart.py - only a reproduction on the real code is a  *)
(* verdict.  The invariant CoverExport prints the program that first       *)
(* reached each distinct state ("T ..": state cover).                      *)
(***************************************************************************)
EXTENDS Integers, Sequences, FiniteSets, TLC, Json

CONSTANTS BufSize, MaxBufSize,   \* constructor parameters (bytes)
          NC,                    \* number of cursors (replication server channels)
          DataLens,              \* data lengths a pushed record may carry (0 = data nil: the record takes 64 bytes)
          MaxPush, MaxSync,      \* bounds: records pushed, positioning operations (Head / Search)
          SearchBack,            \* Search targets: the newest SearchBack records (and one id that was never logged)
          ReleaseClearsNext, AddPollWrapsMarker

VARIABLES R, S, ph, nsync, bad, hist
vars == <<R, S, ph, nsync, bad, hist>>

FREE == -1                       \* pollCount 0xffffffff
BIG  == 2000000000
U(x) == IF x = FREE THEN BIG ELSE x                 \* unsigned reading of a uint32
Inc32(x) == IF x = FREE THEN 0 ELSE x + 1           \* atomic.AddUint32(&x, 1)

NoRec == [seq |-> -9, id |-> -9, dl |-> -9]
UnknownSeq == 9998                \* Search target that was never logged (id 9999)

SlotInit  == [next |-> 0, id |-> 0, dl |-> 0, pc |-> FREE, pi |-> 0, seq |-> 0]   \* ReplicationBufferQueueItem.Init
SlotAlloc == [next |-> 0, id |-> 0, dl |-> 0, pc |-> 0, pi |-> 0, seq |-> 0]      \* NewReplicationBufferQueueItem
CurFresh  == [item |-> 0, seq |-> -1, id |-> 0, bid |-> 0, dl |-> 0, w |-> TRUE]  \* NewReplicationBufferQueueCursor (seq 2^64-1)

----------------------------------------------------------------------------
\* func InitFreeQueueItems(count)
RECURSIVE InitFree(_, _)
InitFree(Q, n) ==
    IF n <= 0 THEN Q
    ELSE LET k  == Len(Q.slots) + 1
             Q1 == [Q EXCEPT !.slots = Append(@, SlotInit)]
             Q2 == IF Q1.fhead = 0 THEN [Q1 EXCEPT !.ftail = k, !.fhead = k]
                   ELSE [Q1 EXCEPT !.slots[Q1.fhead].next = k, !.fhead = k]
         IN InitFree(Q2, n - 1)

\* func NewReplicationBufferQueue(manager, bufSize, maxSize)
NewRing(b, m, nc) ==
    InitFree([slots |-> <<>>, head |-> 0, tail |-> 0, fhead |-> 0, ftail |-> 0, seq |-> 0, used |-> 0,
              bsize |-> b, maxb |-> m, qpc |-> 0, dup |-> 0, cur |-> [c \in 1..nc |-> CurFresh], hung |-> FALSE],
             b \div 64)

\* func ResetQueueItems(): queueItem := tailItem; tailItem = tailItem.nextItem; (head = nil); usedBufferSize -= size
Unlink(Q) ==
    LET qi == Q.tail
        Q1 == [Q EXCEPT !.tail = Q.slots[qi].next, !.used = @ - (64 + Q.slots[qi].dl)]
    IN [Q |-> IF Q1.tail = 0 THEN [Q1 EXCEPT !.head = 0] ELSE Q1, qi |-> qi]
LoopCond(Q) == Q.used >= Q.bsize /\ Q.tail # 0 /\ U(Q.slots[Q.tail].pi) >= U(Q.slots[Q.tail].pc)
RECURSIVE ResetLoop(_, _, _)
ResetLoop(Q, qi, n) ==          \* the release loop; n counts how often its body runs
    IF ~LoopCond(Q) THEN [Q |-> Q, qi |-> qi, n |-> n]
    ELSE LET Q1 == [Q EXCEPT !.slots[qi] = [@ EXCEPT !.dl = 0, !.pc = FREE, !.pi = 0, !.seq = 0,
                                                      !.next = IF ReleaseClearsNext THEN 0 ELSE @]]
             Q2 == IF Q1.fhead = 0 THEN [Q1 EXCEPT !.ftail = qi, !.fhead = qi]
                   ELSE [Q1 EXCEPT !.slots[Q1.fhead].next = qi, !.fhead = qi]
             u  == Unlink(Q2)
         IN ResetLoop(u.Q, u.qi, n + 1)
ResetQueueItems(Q) == LET u == Unlink(Q) IN ResetLoop(u.Q, u.qi, 0)

\* func Push(buf, data) with manager = nil (no 10 ms wait for slow followers before growing); the record's id is seq+1
PushX(Q, dl) ==
    LET condA == (Q.ftail = 0 \/ Q.used >= Q.bsize) /\ Q.tail # 0
        grow  == condA /\ U(Q.slots[Q.tail].pi) < U(Q.slots[Q.tail].pc) /\ Q.bsize < Q.maxb
        a == IF ~condA THEN [Q |-> Q, qi |-> 0, n |-> -1]
             ELSE IF grow THEN [Q |-> [InitFree(Q, Q.bsize \div 64) EXCEPT !.bsize = @ * 2, !.dup = @ + 1], qi |-> 0, n |-> -1]
             ELSE ResetQueueItems(Q)
        Q1 == a.Q
        b == IF a.qi # 0 THEN [Q |-> Q1, qi |-> a.qi, how |-> "reuse"]
             ELSE IF Q1.ftail # 0
             THEN LET q  == Q1.ftail
                      Q2 == [Q1 EXCEPT !.ftail = Q1.slots[q].next]
                  IN [Q |-> IF Q2.ftail = 0 THEN [Q2 EXCEPT !.fhead = 0] ELSE Q2, qi |-> q, how |-> "free"]
             ELSE [Q |-> [Q1 EXCEPT !.slots = Append(@, SlotAlloc)], qi |-> Len(Q1.slots) + 1, how |-> "alloc"]
        Q3 == b.Q
        qi == b.qi
        Q4 == [Q3 EXCEPT !.slots[qi] = [next |-> 0, id |-> Q.seq + 1, dl |-> dl, pc |-> Q.qpc, pi |-> 0, seq |-> Q.seq]]
        Q5 == IF Q4.head = 0 THEN [Q4 EXCEPT !.head = qi, !.tail = qi]
              ELSE [[Q4 EXCEPT !.slots[Q4.head].next = qi] EXCEPT !.head = qi]
    IN [Q |-> [Q5 EXCEPT !.used = @ + 64 + dl, !.seq = @ + 1], grew |-> grow, loops |-> a.n, how |-> b.how]
Push(Q, dl) == PushX(Q, dl).Q

\* copy of the slot into the cursor (buf, data, currentAofId, seq)
Load(Q, c, x, w) == [Q EXCEPT !.cur[c] = [item |-> x, seq |-> Q.slots[x].seq, id |-> Q.slots[x].id, bid |-> Q.slots[x].id,
                                          dl |-> Q.slots[x].dl, w |-> w]]
RecOf(Q, c) == [seq |-> Q.cur[c].seq, id |-> Q.cur[c].bid, dl |-> Q.cur[c].dl]
Res(Q, r, rec) == [Q |-> Q, res |-> r, rec |-> rec]

\* func Pop(cursor)
Pop(Q, c) ==
    LET ci == Q.cur[c].item IN
    IF ci = 0 \/ Q.slots[ci].pc = FREE
    THEN LET t == Q.tail IN
         IF t = 0 THEN Res(Q, "eof", NoRec)
         ELSE IF Q.slots[t].seq - Q.cur[c].seq # 1 /\ Q.slots[t].seq # 0 THEN Res(Q, "oob", NoRec)
         ELSE LET Q1 == Load(Q, c, t, FALSE) IN Res(Q1, "ok", RecOf(Q1, c))
    ELSE IF Q.slots[ci].seq # Q.cur[c].seq THEN Res(Q, "oob", NoRec)
    ELSE LET n == Q.slots[ci].next IN
         IF n = 0 THEN Res(Q, "eof", NoRec)
         ELSE LET Q1 == Load(Q, c, n, FALSE) IN Res(Q1, "ok", RecOf(Q1, c))

\* func Head(cursor)
HeadOp(Q, c) ==
    IF Q.head = 0 THEN Res(Q, "eof", NoRec)
    ELSE LET Q1 == Load(Q, c, Q.head, FALSE) IN Res(Q1, "ok", RecOf(Q1, c))

\* func Search(aofId, cursor): first slot of the live chain whose buf carries the id; a chain that does not end is "hang"
RECURSIVE Find(_, _, _, _)
Find(Q, x, id, fuel) ==
    IF x = 0 THEN 0 ELSE IF fuel = 0 THEN -1
    ELSE IF Q.slots[x].id = id THEN x ELSE Find(Q, Q.slots[x].next, id, fuel - 1)
Search(Q, c, id) ==
    IF Q.tail = 0 THEN Res(Q, "eof", NoRec)
    ELSE LET x == Find(Q, Q.tail, id, Len(Q.slots) + 1) IN
         IF x = -1 THEN Res([Q EXCEPT !.hung = TRUE], "hang", NoRec)
         ELSE IF x = 0 THEN Res(Q, "err", NoRec)
         ELSE LET Q1 == Load(Q, c, x, TRUE) IN Res(Q1, "ok", RecOf(Q1, c))

\* func AddPoll(cursor) / RemovePoll(cursor)
RECURSIVE WalkPc(_, _, _), WalkPi(_, _, _)
WalkPc(Q, x, fuel) ==
    IF x = 0 THEN Q ELSE IF fuel = 0 THEN [Q EXCEPT !.hung = TRUE]
    ELSE IF ~AddPollWrapsMarker /\ Q.slots[x].pc = FREE THEN Q
    ELSE WalkPc([Q EXCEPT !.slots[x].pc = Inc32(@)], Q.slots[x].next, fuel - 1)
WalkPi(Q, x, fuel) ==
    IF x = 0 THEN Q ELSE IF fuel = 0 THEN [Q EXCEPT !.hung = TRUE]
    ELSE WalkPi([Q EXCEPT !.slots[x].pi = @ + 1], Q.slots[x].next, fuel - 1)
AddPoll(Q, c)    == WalkPc([Q EXCEPT !.qpc = @ + 1], Q.cur[c].item, Len(Q.slots) + 1)
RemovePoll(Q, c) == WalkPi([Q EXCEPT !.qpc = @ - 1], Q.cur[c].item, Len(Q.slots) + 1)

\* SendProcess, top of its loop: if !cursor.writed { send cursor.buf (+ data); writed = true; currentItem.pollIndex++ }
Send(Q, c) ==
    IF Q.cur[c].w THEN [Q |-> Q, dlv |-> NoRec]
    ELSE [Q |-> [Q EXCEPT !.cur[c].w = TRUE, !.slots[Q.cur[c].item].pi = @ + 1], dlv |-> RecOf(Q, c)]

\* handleInitSync: cursor.currentItem = nil; cursor.seq = queue.seq - 1   (the cursor claims everything logged so far)
CatchUp(Q, c, id) == [Q EXCEPT !.cur[c].item = 0, !.cur[c].seq = Q.seq - 1, !.cur[c].id = id, !.cur[c].w = TRUE]

----------------------------------------------------------------------------
\* An operation is <<name, cursor, argument>>:
\*   push 0 dl | head c 0 | search c seq | addpoll c 0 | pop c 0 | send c 0 | rmpoll c 0
\* "head"   = handleInitSync without a position: Head; on EOF the catch-up assignment
\* "search" = handleInitSync with a position: Search(id of record `seq`); when it fails and the id is the manager's
\*            currentAofId (the id of the newest record, 0 while nothing was logged) the catch-up assignment, else refused
\* "pop"    = one iteration of SendProcess: Send, then Pop
\* "rmpoll" = RemovePoll; the channel is gone, the next connection gets a fresh cursor
Out(Q, r, rec, dlv) == [Q |-> Q, res |-> r, rec |-> rec, dlv |-> dlv]
Apply(Q, o) ==
    LET c == o[2] IN
    CASE o[1] = "push"    -> Out(Push(Q, o[3]), "ok", NoRec, NoRec)
      [] o[1] = "head"    -> LET a == HeadOp(Q, c) IN
                             IF a.res = "eof" THEN Out(CatchUp(a.Q, c, a.Q.cur[c].id), "eof", NoRec, NoRec)
                             ELSE Out(a.Q, a.res, a.rec, NoRec)
      [] o[1] = "search"  -> LET id == o[3] + 1
                                 a  == Search(Q, c, id) IN
                             IF a.res \in {"ok", "hang"} THEN Out(a.Q, a.res, a.rec, NoRec)
                             ELSE IF id = Q.seq THEN Out(CatchUp(a.Q, c, id), "catchup", NoRec, NoRec)
                             ELSE Out(a.Q, "nf", NoRec, NoRec)
      [] o[1] = "addpoll" -> LET Q1 == AddPoll(Q, c) IN Out(Q1, IF Q1.hung THEN "hang" ELSE "ok", NoRec, NoRec)
      [] o[1] = "rmpoll"  -> LET Q1 == RemovePoll(Q, c) IN
                             Out([Q1 EXCEPT !.cur[c] = CurFresh], IF Q1.hung THEN "hang" ELSE "ok", NoRec, NoRec)
      [] o[1] = "send"    -> LET s == Send(Q, c) IN Out(s.Q, "ok", NoRec, s.dlv)
      [] o[1] = "pop"     -> LET s == Send(Q, c)
                                 a == Pop(s.Q, c) IN Out(a.Q, a.res, a.rec, s.dlv)

----------------------------------------------------------------------------
\* Structure of the ring, as functions of a PROJECTION P (taken from the model here, recorded from the real struct by
\* the driver): P.live / P.free = slot ids met walking nextItem from tailItem / freeTailItem (-1 = the walk did not end
\* within the bound), P.lseq / P.ldl = seq and data length of the live slots, P.lhead / P.fhead = the walk ends on
\* headItem / freeHeadItem, P.used, P.seq, P.cur[c] = [seq, slot, sseq, spc] (cursor seq, its slot id or 0, that
\* slot's seq and pollCount), P.reg = registered cursors.
RECURSIVE Chain(_, _, _)
Chain(Q, x, fuel) == IF x = 0 THEN <<>> ELSE IF fuel = 0 THEN <<-1>> ELSE <<x>> \o Chain(Q, Q.slots[x].next, fuel - 1)
Range(s) == {s[i] : i \in 1..Len(s)}
LastOf(s) == IF s = <<>> THEN 0 ELSE s[Len(s)]
Proj(Q, reg) ==
    LET lv == Chain(Q, Q.tail, Len(Q.slots) + 1)
        fr == Chain(Q, Q.ftail, Len(Q.slots) + 1)
        ok(s) == [i \in 1..Len(s) |-> IF s[i] = -1 THEN SlotInit ELSE Q.slots[s[i]]]
    IN [live |-> lv, free |-> fr,
        lseq |-> [i \in 1..Len(lv) |-> ok(lv)[i].seq], ldl |-> [i \in 1..Len(lv) |-> ok(lv)[i].dl],
        lpc |-> [i \in 1..Len(lv) |-> ok(lv)[i].pc], lpi |-> [i \in 1..Len(lv) |-> ok(lv)[i].pi],
        fpc |-> [i \in 1..Len(fr) |-> ok(fr)[i].pc],
        lhead |-> LastOf(lv) = Q.head, fhead |-> LastOf(fr) = Q.fhead,
        used |-> Q.used, bsize |-> Q.bsize, seq |-> Q.seq, qpc |-> Q.qpc, nslots |-> Len(Q.slots),
        cur |-> [c \in DOMAIN Q.cur |->
                   [seq |-> Q.cur[c].seq, slot |-> Q.cur[c].item, w |-> Q.cur[c].w,
                    sseq |-> IF Q.cur[c].item = 0 THEN 0 ELSE Q.slots[Q.cur[c].item].seq,
                    spc  |-> IF Q.cur[c].item = 0 THEN 0 ELSE Q.slots[Q.cur[c].item].pc]],
        reg |-> reg]

RECURSIVE SumDl(_)
SumDl(s) == IF s = <<>> THEN 0 ELSE 64 + s[1] + SumDl(Tail(s))
NoDup(s) == \A i, j \in 1..Len(s) : i # j => s[i] # s[j]

\* "" or the name of the first structural clause that does not hold
StructCode(P) ==
    IF -1 \in Range(P.live) \/ ~NoDup(P.live) THEN "live-chain-not-terminated"
    ELSE IF ~P.lhead THEN "live-chain-does-not-reach-head"
    ELSE IF -1 \in Range(P.free) \/ ~NoDup(P.free) \/ ~P.fhead THEN "free-list-not-terminated"
    ELSE IF Range(P.live) \cap Range(P.free) # {} THEN "live-slot-on-free-list"
    ELSE IF \E i \in 1..(Len(P.lseq) - 1) : P.lseq[i + 1] # P.lseq[i] + 1 THEN "live-chain-seqs-not-consecutive"
    ELSE IF P.lseq # <<>> /\ P.lseq[Len(P.lseq)] # P.seq - 1 THEN "newest-record-not-at-head"
    ELSE IF P.used # SumDl(P.ldl) THEN "used-bytes-differ-from-live-sizes"
    ELSE IF \E c \in P.reg : LET k == P.cur[c] IN
               k.slot # 0 /\ k.spc # FREE /\ k.sseq = k.seq /\ k.slot \notin Range(P.live)
         THEN "cursor-on-detached-slot"
    ELSE ""

LiveSeqs(P) == Range(P.lseq)

----------------------------------------------------------------------------
\* THE REFERENCE.  T = [L, have, sent]: the log (data length per record) and the two positions of every cursor.
Ref0(nc) == [L |-> <<>>, have |-> [c \in 1..nc |-> -1], sent |-> [c \in 1..nc |-> -1]]
Hi(T) == Len(T.L) - 1
IsRecord(T, r) == r.seq >= 0 /\ r.seq <= Hi(T) /\ r.id = r.seq + 1 /\ r.dl = T.L[r.seq + 1]

\* Judge(T, o, a, live): o the operation, a = [res, rec, dlv] what the ring answered, live = set of the seqs still in the
\* ring.  Returns the advanced reference, `code` = "" or the violated clause (these clauses are the property: what is
\* handed out / delivered is the log, in order, without gap or duplicate, unless the cursor is told "out of buf"), and
\* `strict` = "" or a clause of the tight reference that does not follow from the property statement alone (found iff in
\* the ring, "out of buf" only when the needed or the current record is recycled, Head hands out the newest record).
Judge(T, o, a, live) ==
    LET c   == o[2]
        hv  == T.have[c]
        snt == T.sent[c]
        hi  == Hi(T)
        dcode == IF a.dlv = NoRec THEN ""
                 ELSE IF ~IsRecord(T, a.dlv) THEN "delivered-record-not-in-log"
                 ELSE IF a.dlv.seq > snt + 1 THEN "delivered-stream-skips-records"
                 ELSE IF a.dlv.seq < snt + 1 THEN "delivered-duplicate-record"
                 ELSE ""
        T1 == IF a.dlv = NoRec THEN T ELSE [T EXCEPT !.sent[c] = a.dlv.seq]
        Ans(code, strict, T2) == [T |-> T2, code |-> IF dcode # "" THEN dcode ELSE code, strict |-> strict]
    IN
    CASE o[1] = "push" -> [T |-> [T EXCEPT !.L = Append(@, o[3])], code |-> "", strict |-> ""]
      [] o[1] \in {"pop", "send"} ->
            IF a.res = "ok" /\ o[1] = "pop"
            THEN Ans(IF ~IsRecord(T, a.rec) THEN "pop-returned-wrong-record"
                     ELSE IF a.rec.seq > hv + 1 THEN "pop-skipped-records"
                     ELSE IF a.rec.seq < hv + 1 THEN "pop-returned-wrong-record"
                     ELSE "", "", [T1 EXCEPT !.have[c] = a.rec.seq])
            ELSE IF a.res = "eof"
            THEN Ans(IF hv # hi THEN "pop-eof-while-records-pending" ELSE "", "", T1)
            ELSE IF a.res = "oob"
            THEN Ans("", IF hv \notin live \/ (hv + 1 <= hi /\ hv + 1 \notin live) THEN "" ELSE "out-of-buf-although-nothing-recycled", T1)
            ELSE Ans("", "", T1)
      [] o[1] = "head" ->
            IF a.res = "ok"
            THEN Ans(IF ~IsRecord(T, a.rec) THEN "head-returned-wrong-record" ELSE "",
                     IF a.rec.seq # hi THEN "head-not-the-newest-record" ELSE "",
                     [T EXCEPT !.have[c] = a.rec.seq, !.sent[c] = a.rec.seq - 1])
            ELSE Ans("", IF hi # -1 THEN "head-eof-on-nonempty-ring" ELSE "", [T EXCEPT !.have[c] = hi, !.sent[c] = hi])
      [] o[1] = "search" ->
            IF a.res = "ok"
            THEN Ans(IF ~IsRecord(T, a.rec) \/ a.rec.seq # o[3] THEN "search-positioned-on-wrong-record" ELSE "",
                     IF o[3] \notin live THEN "search-found-a-recycled-record" ELSE "",
                     [T EXCEPT !.have[c] = a.rec.seq, !.sent[c] = a.rec.seq])
            ELSE IF a.res = "catchup"
            THEN Ans("", IF o[3] \in live THEN "search-missed-a-live-record" ELSE "", [T EXCEPT !.have[c] = hi, !.sent[c] = hi])
            ELSE Ans("", IF o[3] \in live THEN "search-missed-a-live-record" ELSE "", T)
      [] o[1] = "rmpoll" -> Ans("", "", [T EXCEPT !.have[c] = -1, !.sent[c] = -1])
      [] OTHER -> Ans("", "", T)

----------------------------------------------------------------------------
\* Usage protocol of one cursor (what production does with it): new -> positioned -> registered (-> dead) -> new
PhaseAfter(p, o, res) ==
    CASE o[1] = "head"    -> "pos"
      [] o[1] = "search"  -> IF res \in {"ok", "catchup"} THEN "pos" ELSE "new"
      [] o[1] = "addpoll" -> "reg"
      [] o[1] = "rmpoll"  -> "new"
      [] o[1] = "pop"     -> IF res = "oob" THEN "dead" ELSE p
      [] OTHER            -> p

Targets(n) == {t \in (n - SearchBack)..(n - 1) : t >= 0} \cup (IF n = 0 THEN {-1} ELSE {}) \cup {UnknownSeq}

CurOps(c) ==
    CASE ph[c] = "new"  -> IF nsync < MaxSync THEN {<<"head", c, 0>>} \cup {<<"search", c, t>> : t \in Targets(Len(S.L))} ELSE {}
      [] ph[c] = "pos"  -> {<<"addpoll", c, 0>>}
      [] ph[c] = "reg"  -> {<<"pop", c, 0>>, <<"rmpoll", c, 0>>} \cup (IF ~R.cur[c].w THEN {<<"send", c, 0>>} ELSE {})
      [] ph[c] = "dead" -> {<<"rmpoll", c, 0>>}

EnabledOps == {<<"push", 0, d>> : d \in IF Len(S.L) < MaxPush THEN DataLens ELSE {}} \cup UNION {CurOps(c) : c \in 1..NC}

RegOf(p) == {c \in DOMAIN p : p[c] \in {"reg", "dead"}}

Init == /\ R = NewRing(BufSize, MaxBufSize, NC)
        /\ S = Ref0(NC)
        /\ ph = [c \in 1..NC |-> "new"]
        /\ nsync = 0 /\ bad = "" /\ hist = <<>>

Do(o) ==
    LET a   == Apply(R, o)
        ph1 == IF o[2] = 0 THEN ph ELSE [ph EXCEPT ![o[2]] = PhaseAfter(@, o, a.res)]
        P   == Proj(a.Q, RegOf(ph1))
        j   == Judge(S, o, a, LiveSeqs(P))
        sc  == StructCode(P)
    IN /\ R' = a.Q
       /\ S' = j.T
       /\ ph' = ph1
       /\ nsync' = IF o[1] \in {"head", "search"} THEN nsync + 1 ELSE nsync
       /\ bad' = IF a.Q.hung THEN "operation-does-not-return"
                 ELSE IF j.code # "" THEN j.code ELSE IF sc # "" THEN sc ELSE j.strict
       /\ hist' = Append(hist, o)

Next == /\ bad = ""                  \* nothing is explored behind a refuted clause
        /\ \E o \in EnabledOps : Do(o)

Spec == Init /\ [][Next]_vars

\* state identity: the program that first reached a state is not part of it
view == <<R, S, ph, nsync, bad>>

\* the refinement as an invariant (named in a cfg when a refutation should stop TLC)
Refines == bad = ""
\* always-true invariant that exports refuted programs instead of stopping
CexExport == bad # "" => PrintT("CEX " \o ToJson([code |-> bad, prog |-> hist]))
\* always-true invariant that exports the program that first reached each distinct state (state cover; the check replays
\* the maximal ones: every prefix is observed on the way)
CoverExport == PrintT("T " \o ToJson(hist))

\* the model itself keeps its books: what the cursor carries is what the reference says it has
BooksOK == bad = "" => \A c \in 1..NC : ph[c] \in {"pos", "reg"} => (R.cur[c].seq = S.have[c] /\ (R.cur[c].w <=> S.sent[c] = S.have[c]))
=============================================================================

------------------------------- MODULE WireMC -------------------------------
(***************************************************************************)
(* Design check of the binary layouts of spec/Wire.tla and generator of    *)
(* the boundary valuations that are replayed on the real codecs.           *)
(*                                                                         *)
(* A state is a valuation of one frame type: one field (`fld`) holds a     *)
(* boundary value (`bv`: all zero, one, 0x7f.., 0x80.., all 0xff, a        *)
(* strictly increasing byte pattern so that swapped bytes show; for        *)
(* strings the lengths 0, 1, width-1, width), every other field holds a    *)
(* distinct-byte fill pattern (`fill`).  A step re-fills the UNDEFINED     *)
(* bytes of the encoded frame with a non-zero pattern (`pad`), which is    *)
(* what a peer may legally send.                                           *)
(*                                                                         *)
(* Invariants (all evaluated by TLC on every state):                       *)
(*   LayoutsWellFormed  fields disjoint, inside 64 bytes, common header    *)
(*   ReadmeOffsets      LOCK / result offsets as in the README tables      *)
(* (the state invariants are conjoined in AllOK)                           *)
(*   ValueOK            the generated valuation is a legal value           *)
(*   DecodeEncode       Decode(Encode(v)) = v, also with padding re-filled *)
(*   EncodeDecode       Encode(Decode(b)) agrees with b on every defined   *)
(*                      byte and zeroes the undefined ones                 *)
(*   Export             (always true) prints the valuation + frame as JSON *)
(***************************************************************************)
EXTENDS Wire, Json

VARIABLES ty, fld, bv, fill, pad
vars == <<ty, fld, bv, fill, pad>>

BVs == 1..6
Fills == 1..2
Pads == 0..2

\* byte j (1-based) of the fill pattern of the field at offset off: distinct, non-zero
FillByte(off, j, fl) == 1 + ((off * 7 + j * 13 + fl * 101) % 255)

BoundaryNum(w, b) ==
    CASE b = 1 -> Zeros(w)
      [] b = 2 -> [i \in 1..w |-> IF i = w THEN 1 ELSE 0]
      [] b = 3 -> [i \in 1..w |-> IF i = 1 THEN 127 ELSE 255]
      [] b = 4 -> [i \in 1..w |-> IF i = 1 THEN 128 ELSE 0]
      [] b = 5 -> [i \in 1..w |-> 255]
      [] b = 6 -> [i \in 1..w |-> (17 * i) % 256]

BoundaryStr(w, b) ==
    LET n == CASE b = 1 -> 0 [] b = 2 -> 1 [] b = 3 -> w - 1 [] b = 4 -> w [] b = 5 -> w \div 2 [] b = 6 -> 2
    IN [i \in 1..n |-> IF b = 5 THEN 255 ELSE 64 + i]

FieldValue(tt, f, isB, b, fl) ==
    IF isB THEN (IF f.kind = "str" THEN BoundaryStr(f.w, b) ELSE BoundaryNum(f.w, b))
    ELSE IF f.kind = "str" THEN [j \in 1..(f.w - 3) |-> FillByte(f.off, j, fl)]
    ELSE [j \in 1..f.w |-> FillByte(f.off, j, fl)]

V0(tt, i, b, fl) == [n \in FieldNames(tt) |-> LET f == FieldByName(tt, n) IN FieldValue(tt, f, f = Layout[tt][i], b, fl)]

\* r_leader: HostLen counts the Host bytes (the only dependent field)
V(tt, i, b, fl) ==
    LET v == V0(tt, i, b, fl) IN
    IF tt = "r_leader" THEN [v EXCEPT !.HostLen = <<Len(v.Host)>>] ELSE v

Val == V(ty, fld, bv, fill)

PadByte(i, p) == IF p = 0 THEN 0 ELSE 1 + ((i * 29 + p * 53) % 255)

Frame == LET b == Encode(ty, Val)
             D == Defined(ty)
         IN [i \in 1..FRAME |-> IF i \in D THEN b[i] ELSE PadByte(i, pad)]

Init == /\ ty \in Types
        /\ fld \in 1..Len(Layout[ty])
        /\ bv \in BVs /\ fill \in Fills
        /\ pad = 0

Repad == /\ pad = 0
         /\ pad' \in Pads \ {0}
         /\ UNCHANGED <<ty, fld, bv, fill>>

Next == Repad
Spec == Init /\ [][Next]_vars

ASSUME LayoutsWellFormed == \A tt \in Types : WellFormed(tt)
ASSUME ReadmeOK == ReadmeOffsets
\* all clauses in one invariant so that the valuation and its frame are computed once per state
AllOK ==
    LET v == Val
        fr == Frame
        D == Defined(ty)
        d == Decode(ty, fr)
        b2 == Encode(ty, d)
    IN /\ ValidValue(ty, v) /\ InDomain(ty, fr)                              \* ValueOK
       /\ d = v                                                             \* DecodeEncode
       /\ DiffAt(b2, fr, D) = {} /\ \A i \in (1..FRAME) \ D : b2[i] = 0      \* EncodeDecode
       /\ PrintT("VAL " \o ToJson([ty |-> ty, fld |-> Layout[ty][fld].name, bv |-> bv, fill |-> fill, pad |-> pad, v |-> v, b |-> fr]))
=============================================================================

---------------------------- MODULE AckQuorumSim ----------------------------
(***************************************************************************)
(* Random-walk front end of AckQuorum for `tlc -simulate`: the same        *)
(* actions, the request parameters drawn with RandomElement and the action *)
(* class drawn from a weighted bag, so client requests, follower acks,     *)
(* flushes, faults and clock ticks interleave instead of all requests      *)
(* coming first.  Every printed behaviour is a behaviour of AckQuorum!Spec *)
(* (SimNext => Next \/ UNCHANGED vars).                                    *)
(***************************************************************************)
EXTENDS AckQuorum

CONSTANT Turns
VARIABLE turn

Pick(S) == RandomElement(S)

PendLids == {s.H[i].lid : i \in {j \in 1..Len(s.H) : s.H[j].ackc # NOACK}}
HoldLids == {s.H[i].lid : i \in 1..Len(s.H)}

SimStep ==
    \/ /\ s.fl = "mid"
       /\ \/ ChanStep
          \/ \E ok \in BOOLEAN : FlushValues(ok)
    \/ /\ s.fl = "idle"
       /\ \/ /\ turn \in {"ack", "ack2", "ack3"}
             /\ LockReq(Pick(Lids), TRUE, Pick(Vals), Pick(AckTimeouts))
          \/ /\ turn = "plain"
             /\ LockReq(Pick(Lids), FALSE, Pick(PlainVals), Pick(Timeouts))
          \/ /\ turn = "unlock" /\ HoldLids # {}
             /\ UnlockReq(Pick(HoldLids))
          \/ /\ turn = "same" /\ PendLids # {}
             /\ \/ UnlockReq(Pick(PendLids))
                \/ LockReq(Pick(PendLids), Pick(BOOLEAN), 0, Pick(Timeouts))
          \/ ChanStep
          \/ /\ ~Busy
             /\ \/ /\ turn \in {"flush", "flush2"}
                   /\ \E ok \in BOOLEAN : FlushRecords(ok)
                \/ /\ turn \in {"fack", "fack2", "fack3", "fack4"}
                   /\ \E f \in Followers, rid \in 1..MaxReq, b \in BOOLEAN : FollowerBoth(f, rid, b)
                \/ /\ turn = "cut"
                   /\ \E f \in Followers : Cut(f)
                \/ \E rid \in 1..MaxReq : FireTimeout(rid)
                \/ /\ turn \in {"tick", "tick2"}
                   /\ Tick
                \/ /\ turn = "demote"
                   /\ Demote1
                \/ Demote2 \/ Demote3
    \/ UNCHANGED <<s, hist>>

SimNext == SimStep /\ turn' = Pick(Turns)
SimInit == Init /\ turn = "ack"
SimSpec == SimInit /\ [][SimNext]_<<s, hist, turn>>

SimExport == (Len(s.reqs) >= 3 /\ Quiet /\ Len(hist) >= 8 /\ turn = "tick") => PrintT("BEHAVIOUR " \o Export)
=============================================================================

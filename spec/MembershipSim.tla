--------------------------- MODULE MembershipSim ---------------------------
(* Behaviour generator of spec Membership (-simulate): the history of every behaviour that reaches SimLen logged steps   *)
(* is printed as JSON; the steps are the schedule of engine Mb (cmd / ann / brk / up / vote / poll / crash / restart).    *)
EXTENDS Membership
CONSTANT SimLen
SimExport == (Len(hist) = SimLen) => PrintT("BEHAVIOUR " \o ToJson(hist))
=============================================================================

----------------------------- MODULE Membership -----------------------------
(***************************************************************************)
(* MEMBERSHIP of the slock replica set: everything in server/arbiter.go    *)
(* that is not the vote / proposal / commit election itself (spec          *)
(* Election, property C12).  Growth check `bin/extra member`.              *)
(*                                                                         *)
(* WHAT THE SUBSYSTEM PROMISES (and where the promise comes from)          *)
(*                                                                         *)
(* README "Replset":                                                       *)
(*  R1 "configuration management can be done at any node in the cluster":  *)
(*     replset add / set / remove are accepted by every configured member  *)
(*     (admin.go commandHandleReplset*: no leader test) and an             *)
(*     acknowledged (+OK) command takes effect in the cluster.             *)
(*  R2 "after the start of the cluster any node can normally accept client *)
(*     connections, the nodes are completely consistent", followers        *)
(*     "automatically track the master node changes": once the links are   *)
(*     up and the announcements have been delivered all members hold ONE   *)
(*     member list (hosts, weight, arbiter), agree on ONE leader, and      *)
(*     every data-bearing non-leader member replicates from that leader.   *)
(*  R3 "When a node goes down, the cluster can be restored in seconds":    *)
(*     while a majority of the member list is up and connected and one of  *)
(*     them is eligible, a leader emerges (no stuck state).                *)
(*  R4 weight: "weight is 0 will never be selected as the leader node";    *)
(*     arbiter: "non-zero that is only voting node": the leader is always  *)
(*     a member with weight > 0 and arbiter = 0 - also after `replset set` *)
(*     (UpdateMember / the announcement handler demote a weight-0 leader). *)
(*  R5 `replset remove <host>`: the host leaves the set: it is in nobody's *)
(*     list, does not take part in elections and cannot win; the removed   *)
(*     node itself drops its configuration (QuitMember: list emptied,      *)
(*     meta.pb destroyed) when it hears of it.                             *)
(* Code (arbiter.go):                                                      *)
(*  K1 the member list carries (version, vertime); a receiver refuses an   *)
(*     announcement that is older than what it has (ERR_VERSION, handler   *)
(*     line 2356), so a member's version never decreases - also across a   *)
(*     restart (ArbiterStore.Load restores version / vertime) - except by  *)
(*     leaving the set (QuitMember resets to 1).                           *)
(*  K2 every change of the list is followed by ArbiterStore.Save: at rest  *)
(*     meta.pb holds exactly the list, version and vertime in memory.      *)
(*  K3 the quorum of an election (StartVote loop guard, DoVote, DoProposal,*)
(*     DoCommit) and of the leader's self-demotion (memberStatusUpdated)   *)
(*     is len(members)/2+1 of the CURRENT list of the acting member.       *)
(*  K4 a member that announces a leader is only believed while the         *)
(*     receiver does not see another leader online (ERR_LEADER) - unless   *)
(*     the receiver has just committed exactly this election               *)
(*     (commitId equal and proposalHost pending).                          *)
(*  K5 a membership request never takes the process down.                  *)
(*                                                                         *)
(* THE MODEL is implementation-shaped at the grain of the conformance      *)
(* engine Mb (harness/inpkg/server/zz_verif_member_test.go): one action    *)
(* per admin command handler (Config / Add / Remove / Set / QuitLeaderCmd),*)
(* one per REPL_ANNOUNCEMENT request put on a link by the announcement     *)
(* goroutine (Send), one per delivered announcement (Deliver: the whole    *)
(* handler incl. its reply to the sender), one per lost one (Lose = the    *)
(* connection breaks), link admitted / cut (LinkUp incl. the REPL_CONNECT  *)
(* handshake and the ERR_NOT_MEMBER reaction, LinkDown), the 2-second      *)
(* status poll (Poll), the reactions of memberStatusUpdated (PendClear,    *)
(* LeaderCheck), Crash, Restart (= Load of what Save wrote) and ONE atomic *)
(* action for a complete successful election round of the real StartVote   *)
(* loop (Elect; its inside is spec Election).                              *)
(*                                                                         *)
(* DEVIATIONS of the code, named as constants (FALSE = the code as it is): *)
(*  D1Fixed  the handler skips the version test when it has a pending      *)
(*           commit with the announcer's commitId and then ASSIGNS the     *)
(*           announced version: an older list replaces a newer one, the    *)
(*           version decreases (K1).                                       *)
(*  D2Fixed  a command on a non-leader member is applied and saved locally *)
(*           before the leader has seen it; when the leader refuses it (or *)
(*           is not reachable) the member stays ahead of the leader and    *)
(*           refuses the leader's announcements until the leader's version *)
(*           overtakes it (R2); two commands on two members with the same  *)
(*           next version: the one with the older vertime is lost although *)
(*           acknowledged (R1).  Fixed = commands only on the leader.      *)
(*  D3Fixed  `set <leader> arbiter 1` keeps the arbiter as leader (only    *)
(*           weight = 0 is tested) (R4).                                   *)
(*  D4Fixed  a freshly added member that connects to a member which has    *)
(*           not yet heard of it is told ERR_NOT_MEMBER and drops its      *)
(*           whole configuration (R1/R2 heal later through the leader's    *)
(*           re-announcement; on the real code the handler's own goroutine *)
(*           then dereferences ownMember = nil: K5, finding XM1).          *)
(*  D5Fixed  ERR_LEADER is answered after the handler has already written  *)
(*           weight / arbiter / role into its existing member objects: a   *)
(*           REFUSED announcement changes the receiver's list (not its     *)
(*           version, not meta.pb) (K2).                                   *)
(***************************************************************************)
EXTENDS Integers, Sequences, FiniteSets, TLC, Json

CONSTANTS Nodes,          \* 1..N
          Formed,         \* nodes that form a running set in the initial state (leader = the smallest); {} = nothing configured
          MaxCmd, MaxFlap, MaxCrash, MaxPoll, MaxElect, MaxLose,
          Weights, Arbs,  \* parameter ranges of add / set
          Kinds,          \* subset of {"config","add","remove","set","quit"}
          D1Fixed, D2Fixed, D3Fixed, D4Fixed, D5Fixed

VARIABLES nd, disk, on, msgs, todo, clock, pidc, bud, ghost, hist

vars == <<nd, disk, on, msgs, todo, clock, pidc, bud, ghost, hist>>
view_ == <<nd, disk, on, msgs, todo, bud, ghost>>   \* clock / pidc only order stamps; hist is the exported behaviour

NoMem == [in |-> FALSE, w |-> 0, a |-> 0, r |-> "u"]
Fresh == [up |-> TRUE, cfg |-> FALSE, mem |-> [m \in Nodes |-> NoMem], ver |-> 1, vt |-> 0, ldr |-> 0, ph |-> 0, cid |-> 0, abst |-> FALSE]
NoDisk == [cfg |-> FALSE, mem |-> [m \in Nodes |-> NoMem], ver |-> 1, vt |-> 0]

Members(x) == {m \in Nodes : x.mem[m].in}
Quorum(k) == (k \div 2) + 1
DiskOf(x) == IF x.cfg THEN [cfg |-> TRUE, mem |-> x.mem, ver |-> x.ver, vt |-> x.vt] ELSE NoDisk
IsLeader(x, n) == x.cfg /\ x.mem[n].in /\ x.mem[n].r = "l"
RoleOf(mr) == IF mr.a # 0 THEN "a" ELSE "f"
Max(S) == CHOOSE x \in S : \A y \in S : y <= x

Log(e) == hist' = Append(hist, e)

FormedMem == [m \in Nodes |-> IF m \in Formed THEN [in |-> TRUE, w |-> 1, a |-> 0, r |-> IF m = Max({-k : k \in Formed}) * (-1) THEN "l" ELSE "f"] ELSE NoMem]
Lead0 == IF Formed = {} THEN 0 ELSE Max({-k : k \in Formed}) * (-1)

Init ==
    /\ nd = [n \in Nodes |-> IF n \in Formed
                             THEN [up |-> TRUE, cfg |-> TRUE, mem |-> FormedMem, ver |-> 5, vt |-> 1, ldr |-> Lead0, ph |-> 0, cid |-> 3, abst |-> FALSE]
                             ELSE Fresh]
    /\ disk = [n \in Nodes |-> DiskOf(nd[n])]
    /\ on = [i \in Nodes |-> [j \in Nodes |-> i # j /\ i \in Formed /\ j \in Formed]]
    /\ msgs = {}
    /\ todo = [n \in Nodes |-> {}]
    /\ clock = 1
    /\ pidc = 3
    /\ bud = [cmd |-> 0, flap |-> 0, crash |-> 0, poll |-> 0, elect |-> 0, lose |-> 0]
    /\ ghost = [regress |-> FALSE, dirty |-> FALSE, acked |-> {}]
    /\ hist = <<>>

Others(x, n) == Members(x) \ {n}

\* write node n (memory + meta.pb), optionally start the announcement goroutine
Put(n, x, announce) ==
    /\ nd' = [nd EXCEPT ![n] = x]
    /\ disk' = [disk EXCEPT ![n] = DiskOf(x)]
    /\ todo' = [todo EXCEPT ![n] = IF announce THEN @ \cup Others(x, n) ELSE @]

Stamp(x) == [x EXCEPT !.ver = @ + 1, !.vt = clock + 1]
Tick == clock' = clock + 1

-----------------------------------------------------------------------------
\* admin commands (admin.go commandHandleReplset*, ArbiterManager.Config / AddMember / RemoveMember / UpdateMember)

CmdOK(n) == nd[n].up /\ bud.cmd < MaxCmd /\ (D2Fixed => (~nd[n].cfg \/ IsLeader(nd[n], n)))
Spend(k) == bud' = [bud EXCEPT ![k] = @ + 1]

Config(n) ==   \* Config + the single-member election it starts (DoVote..voteSucced on itself) + updateStatus -> leader
    /\ "config" \in Kinds /\ CmdOK(n) /\ ~nd[n].cfg
    /\ \A k \in Nodes : ~nd[k].cfg /\ ~disk[k].cfg       \* one set per model (a second Config would found a set of its own: other gid)
    /\ LET x == [nd[n] EXCEPT !.cfg = TRUE, !.mem[n] = [in |-> TRUE, w |-> 1, a |-> 0, r |-> "l"], !.ver = 3, !.vt = clock + 1, !.ldr = n, !.cid = pidc + 1]
       IN Put(n, x, FALSE)
    /\ pidc' = pidc + 1 /\ Tick /\ Spend("cmd")
    /\ UNCHANGED <<on, msgs, ghost>>
    /\ Log([op |-> "cmd", n |-> n, k |-> "config", x |-> n, w |-> 1, a |-> 0])

Add(n, x, w, a) ==
    /\ "add" \in Kinds /\ CmdOK(n) /\ nd[n].cfg /\ ~nd[n].mem[x].in
    /\ LET y == Stamp([nd[n] EXCEPT !.mem[x] = [in |-> TRUE, w |-> w, a |-> a, r |-> "f"]])
       IN Put(n, y, TRUE)
    /\ Tick /\ Spend("cmd")
    /\ ghost' = [ghost EXCEPT !.acked = {c \in @ : c.x # x} \cup {[k |-> "add", x |-> x, w |-> w, a |-> a]}]
    /\ UNCHANGED <<on, msgs, pidc>>
    /\ Log([op |-> "cmd", n |-> n, k |-> "add", x |-> x, w |-> w, a |-> a])

Remove(n, x) ==   \* the removed member is told directly (last announcement on its link), then its link is closed
    /\ "remove" \in Kinds /\ CmdOK(n) /\ nd[n].cfg /\ x # n /\ nd[n].mem[x].in
    /\ LET y == Stamp([nd[n] EXCEPT !.mem[x] = NoMem])
       IN /\ nd' = [nd EXCEPT ![n] = y]
          /\ disk' = [disk EXCEPT ![n] = DiskOf(y)]
          /\ todo' = [todo EXCEPT ![n] = @ \cup Others(y, n) \cup (IF on[n][x] THEN {x} ELSE {})]
    /\ Tick /\ Spend("cmd")
    /\ ghost' = [ghost EXCEPT !.acked = {c \in @ : c.x # x} \cup {[k |-> "remove", x |-> x, w |-> 0, a |-> 0]}]
    /\ UNCHANGED <<on, msgs, pidc>>
    /\ Log([op |-> "cmd", n |-> n, k |-> "remove", x |-> x, w |-> 0, a |-> 0])

\* QuitLeader as called from UpdateMember / the handler / memberStatusUpdated / the admin command
QuitL(x, n) == Stamp([x EXCEPT !.mem[n].r = "f", !.ldr = 0])

Set(n, x, w, a) ==
    /\ "set" \in Kinds /\ CmdOK(n) /\ nd[n].cfg /\ nd[n].mem[x].in
    /\ LET y == Stamp([nd[n] EXCEPT !.mem[x].w = w, !.mem[x].a = a])
           demote == IsLeader(y, n) /\ (y.mem[n].w = 0 \/ (D3Fixed /\ y.mem[n].a # 0))
       IN Put(n, IF demote THEN QuitL(y, n) ELSE y, TRUE)
    /\ Tick /\ Spend("cmd")
    /\ ghost' = [ghost EXCEPT !.acked = {c \in @ : c.x # x \/ c.k = "remove"} \cup {[k |-> "set", x |-> x, w |-> w, a |-> a]}]
    /\ UNCHANGED <<on, msgs, pidc>>
    /\ Log([op |-> "cmd", n |-> n, k |-> "set", x |-> x, w |-> w, a |-> a])

QuitLeaderCmd(n) ==
    /\ "quit" \in Kinds /\ nd[n].up /\ bud.cmd < MaxCmd /\ IsLeader(nd[n], n) /\ Cardinality(Members(nd[n])) > 1
    /\ Put(n, [QuitL(nd[n], n) EXCEPT !.abst = TRUE], TRUE)
    /\ Tick /\ Spend("cmd")
    /\ UNCHANGED <<on, msgs, pidc, ghost>>
    /\ Log([op |-> "cmd", n |-> n, k |-> "quit", x |-> 0, w |-> 0, a |-> 0])

-----------------------------------------------------------------------------
\* the announcement goroutine (ArbiterVoter.DoAnnouncement): members it holds for leader first - a failure there ends the round

LeadersIn(n) == {t \in todo[n] : nd[n].mem[t].in /\ nd[n].mem[t].r = "l"}
NextOK(n, t) == t \in todo[n] /\ (LeadersIn(n) # {} => t \in LeadersIn(n))

Msg(n, t) == [from |-> n, to |-> t, ver |-> nd[n].ver, vt |-> nd[n].vt, cid |-> nd[n].cid, mem |-> nd[n].mem]

Send(n, t) ==   \* no step of the driver: the real goroutine writes the request by itself
    /\ nd[n].up /\ nd[n].cfg /\ NextOK(n, t)
    /\ ~\E m \in msgs : m.from = n /\ m.to = t
    /\ IF on[n][t]
       THEN /\ msgs' = msgs \cup {Msg(n, t)}
            /\ todo' = [todo EXCEPT ![n] = @ \ {t}]
       ELSE /\ msgs' = msgs      \* "not online": skipped; the leader not online: round over
            /\ todo' = [todo EXCEPT ![n] = IF t \in LeadersIn(n) THEN {} ELSE @ \ {t}]
    /\ UNCHANGED <<nd, disk, on, clock, pidc, bud, ghost, hist>>

Failed(m) == \* the sender's side of a refused / lost announcement
    [todo EXCEPT ![m.from] = IF nd[m.from].cfg /\ nd[m.from].mem[m.to].in /\ nd[m.from].mem[m.to].r = "l" THEN {} ELSE @]

\* QuitMember: everything forgotten, meta.pb destroyed, every link of the node closed
QuitMemberAt(n) ==
    /\ nd' = [nd EXCEPT ![n] = Fresh]
    /\ disk' = [disk EXCEPT ![n] = NoDisk]
    /\ on' = [i \in Nodes |-> [j \in Nodes |-> IF i = n \/ j = n THEN FALSE ELSE on[i][j]]]

Merged(r, m) ==   \* the handler's loop over request.Replset.Members
    [k \in Nodes |-> IF ~m.mem[k].in THEN NoMem
                     ELSE IF nd[r].mem[k].in
                          THEN [in |-> TRUE, w |-> m.mem[k].w, a |-> m.mem[k].a, r |-> IF m.mem[k].r # "u" THEN m.mem[k].r ELSE nd[r].mem[k].r]
                          ELSE m.mem[k]]
LeaderOf(mem) == IF \E k \in Nodes : mem[k].in /\ mem[k].r = "l" THEN Max({k \in Nodes : mem[k].in /\ mem[k].r = "l"}) ELSE 0
Sees(r, k) == IF k = r THEN TRUE ELSE IF k \in Nodes THEN on[r][k] ELSE FALSE

Deliver(m) ==
    /\ m \in msgs
    /\ LET r == m.to
           x == nd[r]
           pendmatch == m.cid = x.cid /\ x.ph # 0
           older == m.ver < x.ver \/ (m.ver = x.ver /\ m.vt < x.vt)
           refuseV == older /\ (D1Fixed \/ ~pendmatch)
           mg == Merged(r, m)
           ml == LeaderOf(mg)
           refuseL == /\ ml # 0 /\ ~pendmatch
                      /\ \/ mg[r].r = "l" /\ ml # r
                         \/ x.ldr # 0 /\ Sees(r, x.ldr) /\ ml # x.ldr
           clearph == ml # 0 /\ m.cid >= x.cid /\ x.ph # 0
           y0 == [x EXCEPT !.cfg = TRUE, !.mem = mg, !.ldr = ml, !.ver = m.ver, !.vt = m.vt,
                           !.ph = IF clearph THEN 0 ELSE @, !.abst = IF ml # 0 THEN FALSE ELSE @]
           demote == IsLeader(y0, r) /\ (y0.mem[r].w = 0 \/ (D3Fixed /\ y0.mem[r].a # 0))
           y == IF demote THEN [QuitL(y0, r) EXCEPT !.vt = clock + 1] ELSE y0
       IN /\ nd[r].up
          /\ msgs' = msgs \ {m}
          /\ IF refuseV
             THEN /\ todo' = Failed(m) /\ UNCHANGED <<nd, disk, on, ghost>>
                  /\ Log([op |-> "ann", i |-> m.from, j |-> r, result |-> "ERR_VERSION"])
             ELSE IF ~m.mem[r].in
             THEN /\ QuitMemberAt(r) /\ todo' = [todo EXCEPT ![r] = {}] /\ UNCHANGED ghost
                  /\ Log([op |-> "ann", i |-> m.from, j |-> r, result |-> "quit"])
             ELSE IF refuseL
             THEN /\ todo' = Failed(m) /\ UNCHANGED <<disk, on>>
                  /\ nd' = [nd EXCEPT ![r] = IF D5Fixed THEN x ELSE [x EXCEPT !.mem = [k \in Nodes |-> IF x.mem[k].in /\ m.mem[k].in THEN mg[k] ELSE x.mem[k]]]]
                  /\ ghost' = [ghost EXCEPT !.dirty = @ \/ (nd'[r] # x)]
                  /\ Log([op |-> "ann", i |-> m.from, j |-> r, result |-> "ERR_LEADER"])
             ELSE /\ nd' = [nd EXCEPT ![r] = y]
                  /\ disk' = [disk EXCEPT ![r] = DiskOf(y)]
                  /\ on' = [on EXCEPT ![r] = [j \in Nodes |-> IF y.mem[j].in /\ x.mem[j].in THEN on[r][j] ELSE FALSE]]
                  /\ todo' = [todo EXCEPT ![r] = IF demote \/ (IsLeader(y, r) /\ ~IsLeader(x, r)) THEN Others(y, r) ELSE @ \cap Members(y)]
                  /\ ghost' = [ghost EXCEPT !.regress = @ \/ (x.cfg /\ y.ver < x.ver)]
                  /\ Log([op |-> "ann", i |-> m.from, j |-> r, result |-> ""])
    /\ clock' = clock + 1 /\ UNCHANGED <<pidc, bud>>

Lose(m) ==   \* the connection carrying the request breaks
    /\ m \in msgs /\ bud.lose < MaxLose
    /\ msgs' = msgs \ {m}
    /\ on' = [on EXCEPT ![m.from][m.to] = FALSE]
    /\ todo' = Failed(m)
    /\ Spend("lose")
    /\ UNCHANGED <<nd, disk, clock, pidc, ghost>>
    /\ Log([op |-> "brk", i |-> m.from, j |-> m.to])

-----------------------------------------------------------------------------
\* links: ArbiterClient.Run / Open / handleInit on i, commandHandleConnectCommand on j

LinkUp(i, j) ==
    /\ i # j /\ nd[i].up /\ nd[j].up /\ nd[i].cfg /\ nd[i].mem[j].in /\ ~on[i][j]
    /\ IF nd[j].cfg /\ ~nd[j].mem[i].in /\ ~D4Fixed
       THEN /\ QuitMemberAt(i) /\ todo' = [todo EXCEPT ![i] = {}]       \* ERR_NOT_MEMBER
            /\ msgs' = {m \in msgs : m.from # i}
       ELSE /\ nd[j].cfg => nd[j].mem[i].in
            /\ on' = [on EXCEPT ![i][j] = TRUE]
            /\ todo' = [todo EXCEPT ![i] = IF IsLeader(nd[i], i) THEN Others(nd[i], i) ELSE @]   \* memberStatusUpdated: leader re-announces
            /\ UNCHANGED <<nd, disk, msgs>>
    /\ UNCHANGED <<clock, pidc, bud, ghost>>
    /\ Log([op |-> "up", i |-> i, j |-> j])

LinkDown(i, j) ==
    /\ i # j /\ on[i][j] /\ bud.flap < MaxFlap
    /\ ~\E m \in msgs : m.from = i /\ m.to = j
    /\ on' = [on EXCEPT ![i][j] = FALSE]
    /\ Spend("flap")
    /\ UNCHANGED <<nd, disk, msgs, todo, clock, pidc, ghost>>
    /\ Log([op |-> "brk", i |-> i, j |-> j])

\* memberStatusUpdated, offline side (no step of the driver)
PendClearG(i) == nd[i].up /\ nd[i].ph # 0 /\ nd[i].ph # i /\ (IF nd[i].ph \in Nodes THEN ~on[i][nd[i].ph] ELSE FALSE)
PendClear(i) ==
    /\ PendClearG(i)
    /\ nd' = [nd EXCEPT ![i].ph = 0]
    /\ UNCHANGED <<disk, on, msgs, todo, clock, pidc, bud, ghost, hist>>

Online(i) == {i} \cup {k \in Others(nd[i], i) : on[i][k]}

LeaderCheckG(i) == nd[i].up /\ IsLeader(nd[i], i) /\ Cardinality(Online(i)) < Quorum(Cardinality(Members(nd[i])))
LeaderCheck(i) ==   \* the leader no longer sees a majority of ITS list: QuitLeader
    /\ LeaderCheckG(i)
    /\ Put(i, QuitL(nd[i], i), TRUE)
    /\ Tick
    /\ UNCHANGED <<on, msgs, pidc, bud, ghost, hist>>

Poll(i, j) ==   \* ArbiterMember.UpdateStatus: the role a member reports of itself replaces the role in i's list
    /\ i # j /\ bud.poll < MaxPoll /\ nd[i].up /\ nd[j].up /\ on[i][j] /\ nd[j].cfg /\ nd[i].mem[j].in /\ nd[j].mem[j].in
    /\ nd[i].mem[j].r # nd[j].mem[j].r
    /\ nd' = [nd EXCEPT ![i].mem[j].r = nd[j].mem[j].r]
    /\ Spend("poll")
    /\ UNCHANGED <<disk, on, msgs, todo, clock, pidc, ghost>>
    /\ Log([op |-> "poll", i |-> i, j |-> j])

-----------------------------------------------------------------------------
\* one complete successful round of the real StartVote loop of candidate c (inside: spec Election)

OnS(i, k) == IF k \in Nodes THEN on[i][k] ELSE FALSE
VoteGuard(c) ==
    /\ nd[c].up /\ nd[c].cfg
    /\ IF nd[c].ldr = 0 THEN TRUE ELSE (nd[c].ldr # c /\ ~OnS(c, nd[c].ldr))
    /\ ~(nd[c].ph # 0 /\ nd[c].ph # c /\ OnS(c, nd[c].ph))

Accepts(q, c, w) ==   \* REPL_VOTE / REPL_PROPOSAL / REPL_COMMIT handlers of q (q = c: DoVote / DoSelfProposal / DoSelfCommit)
    /\ nd[q].up /\ nd[q].cfg /\ ~nd[q].abst
    /\ q # c => (on[c][q] /\ nd[q].mem[c].in)
    /\ nd[q].mem[q].r # "l"
    /\ \A k \in Members(nd[q]) : ~(nd[q].mem[k].r = "l" /\ Sees(q, k))
    /\ nd[q].mem[w].in /\ Sees(q, w)
    /\ nd[q].ph = 0

Eligible(q) == nd[q].mem[q].w > 0 /\ nd[q].mem[q].a = 0     \* what q answers about ITSELF to REPL_VOTE
Better(p, q) == nd[p].mem[p].w > nd[q].mem[q].w \/ (nd[p].mem[p].w = nd[q].mem[q].w /\ p >= q)

Elect(c, Q, w) ==
    /\ bud.elect < MaxElect /\ VoteGuard(c)
    /\ Q \subseteq Members(nd[c]) /\ w \in Q /\ Eligible(w)
    /\ \A q \in Q : Accepts(q, c, w)
    /\ \A q \in Q : Eligible(q) => Better(w, q)
    /\ Cardinality(Q) >= Quorum(Cardinality(Members(nd[c])))       \* K3: the candidate's CURRENT list
    /\ LET id == pidc + 1
           x == nd[c]
           roles == [k \in Nodes |-> IF ~x.mem[k].in THEN NoMem ELSE [x.mem[k] EXCEPT !.r = IF k = w THEN "l" ELSE RoleOf(x.mem[k])]]
           y == Stamp([x EXCEPT !.mem = roles, !.ldr = w, !.cid = id, !.ph = IF w = c THEN 0 ELSE w])
       IN /\ nd' = [q \in Nodes |-> IF q = c THEN y ELSE IF q \in Q THEN [nd[q] EXCEPT !.ph = w, !.cid = id] ELSE nd[q]]
          /\ disk' = [disk EXCEPT ![c] = DiskOf(y)]
          /\ todo' = [todo EXCEPT ![c] = Others(y, c)]
          /\ pidc' = id
    /\ Tick /\ Spend("elect")
    /\ UNCHANGED <<on, msgs, ghost>>
    /\ Log([op |-> "vote", c |-> c, w |-> w])

-----------------------------------------------------------------------------
Crash(n) ==
    /\ nd[n].up /\ bud.crash < MaxCrash
    /\ nd' = [nd EXCEPT ![n].up = FALSE]
    /\ on' = [i \in Nodes |-> [j \in Nodes |-> IF i = n \/ j = n THEN FALSE ELSE on[i][j]]]
    /\ msgs' = {m \in msgs : m.from # n /\ m.to # n}
    /\ todo' = [todo EXCEPT ![n] = {}]
    /\ Spend("crash")
    /\ UNCHANGED <<disk, clock, pidc, ghost>>
    /\ Log([op |-> "crash", n |-> n])

Restart(n) ==   \* ArbiterStore.Load: hosts, weight, arbiter, version, vertime - roles are not restored
    /\ ~nd[n].up
    /\ nd' = [nd EXCEPT ![n] = IF disk[n].cfg
                               THEN [Fresh EXCEPT !.cfg = TRUE, !.ver = disk[n].ver, !.vt = disk[n].vt, !.cid = nd[n].cid,
                                                  !.mem = [k \in Nodes |-> IF disk[n].mem[k].in THEN [disk[n].mem[k] EXCEPT !.r = "u"] ELSE NoMem]]
                               ELSE Fresh]
    /\ UNCHANGED <<disk, on, msgs, todo, clock, pidc, bud, ghost>>
    /\ Log([op |-> "restart", n |-> n])

-----------------------------------------------------------------------------
Next ==
    \/ \E n \in Nodes : Config(n) \/ QuitLeaderCmd(n) \/ PendClear(n) \/ LeaderCheck(n) \/ Crash(n) \/ Restart(n)
    \/ \E n, x \in Nodes : Remove(n, x) \/ LinkUp(n, x) \/ LinkDown(n, x) \/ Poll(n, x) \/ Send(n, x)
    \/ \E n, x \in Nodes, w \in Weights, a \in Arbs : Add(n, x, w, a) \/ Set(n, x, w, a)
    \/ \E m \in msgs : Deliver(m) \/ Lose(m)
    \/ \E c \in Nodes, Q \in SUBSET Nodes, w \in Nodes : Elect(c, Q, w)

Spec == Init /\ [][Next]_vars

-----------------------------------------------------------------------------
\* properties

TypeOK == /\ \A n \in Nodes : nd[n].ver >= 1 /\ nd[n].ldr \in Nodes \cup {0} /\ nd[n].ph \in Nodes \cup {0}
          /\ \A m \in msgs : m.from # m.to

\* K1 (action property): a member's version only decreases by leaving the set
VersionMonotone == [][\A n \in Nodes : (nd[n].cfg /\ nd'[n].cfg) => nd'[n].ver >= nd[n].ver]_vars
NoRegress == ~ghost.regress

\* K2: meta.pb = memory (hosts, weight, arbiter, version, vertime) whenever the node is up and configured
SameList(a, b) == \A k \in Nodes : a[k].in = b[k].in /\ a[k].w = b[k].w /\ a[k].a = b[k].a
DiskMatches == \A n \in Nodes : (nd[n].up /\ nd[n].cfg) => (disk[n].cfg /\ disk[n].ver = nd[n].ver /\ disk[n].vt = nd[n].vt /\ SameList(disk[n].mem, nd[n].mem))
NoDirtyRefuse == ~ghost.dirty

\* R4: a member that leads is eligible in its own list
LeaderEligible == \A n \in Nodes : (nd[n].up /\ IsLeader(nd[n], n)) => (nd[n].mem[n].w > 0 /\ nd[n].mem[n].a = 0)

\* R2 at rest: nothing in flight, nothing left to send, every member link of every configured node up
Rest == /\ msgs = {} /\ \A n \in Nodes : todo[n] = {} /\ nd[n].up
        /\ \A i \in Nodes : nd[i].cfg => \A j \in Others(nd[i], i) : on[i][j]
        /\ \A i \in Nodes : ~PendClearG(i) /\ ~LeaderCheckG(i)
Leads(n) == nd[n].up /\ IsLeader(nd[n], n)
Converged == \A l \in Nodes : Leads(l) =>
                 \A k \in Members(nd[l]) : /\ nd[k].cfg /\ nd[k].ver = nd[l].ver /\ nd[k].vt = nd[l].vt
                                           /\ SameList(nd[k].mem, nd[l].mem) /\ nd[k].ldr = l
RestConverged == Rest => Converged
OneLeaderAtRest == Rest => Cardinality({n \in Nodes : Leads(n)}) <= 1

\* R1 at rest: the last acknowledged command on a host is visible in the leader's list
Reflects(mem, c) == IF c.k = "remove" THEN ~mem[c.x].in ELSE (mem[c.x].in /\ mem[c.x].w = c.w /\ mem[c.x].a = c.a)
AckedAtRest == Rest => \A l \in Nodes : Leads(l) => \A c \in ghost.acked : Reflects(nd[l].mem, c)

\* R5 at rest: a host that is in no leader's list holds no configuration naming itself a member of a led set
RemovedQuits == Rest => \A l \in Nodes : Leads(l) => \A k \in Nodes \ Members(nd[l]) : ~(nd[k].cfg /\ nd[k].mem[l].in)

\* same (version, vertime) = same list and leader: the stamp identifies the list
StampIdentifies == \A a, b \in Nodes : (nd[a].cfg /\ nd[b].cfg /\ nd[a].ver = nd[b].ver /\ nd[a].vt = nd[b].vt) => SameList(nd[a].mem, nd[b].mem)

\* counterexample export: the printed history is replayed on the real code (never a verdict by itself)
Cex(name, ok) == ok \/ ~PrintT("CEX " \o name \o " " \o ToJson(hist))
CexNoRegress == Cex("version-regress", NoRegress)
CexRestConverged == Cex("rest-not-converged", RestConverged)
CexAckedAtRest == Cex("acked-command-lost", AckedAtRest)
CexLeaderEligible == Cex("leader-not-eligible", LeaderEligible)
CexNoDirtyRefuse == Cex("refused-announcement-applied", NoDirtyRefuse)
CexRemovedQuits == Cex("removed-member-stays", RemovedQuits)
CexOneLeaderAtRest == Cex("two-leaders-at-rest", OneLeaderAtRest)
=============================================================================

--------------------------- MODULE LockEngineExtSim ---------------------------
(***************************************************************************)
(* Front ends of LockEngineExt: constant definitions for the configs (key  *)
(* sets with a key, its byte-reversed key and a palindromic key; the flag  *)
(* alphabets) and the random-walk generator for `tlc -simulate` (request   *)
(* parameters drawn with RandomElement, action class drawn from a weighted *)
(* bag).  Every printed `hist` is a behaviour of LockEngineExt!SpecX with  *)
(* the driver's order inside one second (TEOrder).                         *)
(***************************************************************************)
EXTENDS LockEngineExt

KeysRev == {1, 0 - 1}                 \* a key and its reverse
KeysPal == {1, 0 - 1, 900}            \* ... and a key that is its own reverse
KeysOne == {900}
TFAll == SUBSET {"rev", "lv", "keep"}
TFRev == {{}, {"rev"}}
TFLv == {{}, {"lv"}}
TFKeep == {{}, {"keep"}, {"rev", "keep"}}
TFNone == {{}}
EFAll == SUBSET {"rev", "keep"}
EFRev == {{}, {"rev"}}
EFKeep == {{}, {"keep"}, {"rev", "keep"}}
EFNone == {{}}
TFKeep2 == {{}, {"keep"}}
EFKeep2 == {{}, {"keep"}}
UFAll == {"", "towait", "firsttowait"}
UFWait == {"", "towait"}
UFNone == {""}
LidsVer == {5, 1005, 7, 9}            \* versions 5, 5 (another LockId), 7, 9
LidsVer3 == {5, 7, 1007}

Pick(S) == RandomElement(S)

SimStepX ==
    \/ /\ turn \in {"lock", "lock2", "lock3"}
       /\ LockReqX(Pick(Keys), Pick(Lids), Pick(Counts), Pick(Rcounts), Pick(Timeouts), Pick(Expireds), Pick(TFlagSets), Pick(EFlagSets), Pick(Conns))
    \/ /\ turn \in {"unlock", "unlock2"}
       /\ LET fl == Pick(UFlagsX) IN
          IF fl = ""
          THEN UnlockReqX(Pick(Keys), Pick(Lids), Pick(Rcounts), "", 0, Min(Expireds \ {0}), 0, {}, {}, Pick(Conns))
          ELSE UnlockReqX(Pick(Keys), Pick(Lids), Pick(Rcounts), fl, Pick(UTimeouts), Pick(Expireds \ {0}), Pick(Counts), Pick(TFlagSets), Pick(EFlagSets), Pick(Conns))
    \/ \E k \in Keys : \E i \in DueTimeoutsX(k) : FireTimeoutA(k, i)
    \/ \E k \in Keys : \E i \in DueExpiriesX(k) : FireExpiryA(k, i)
    \/ ExecStep(IF Len(xq) >= 2 /\ Pick(1..4) = 1 THEN 2 ELSE 1)
    \/ /\ turn \in {"tick", "tick2"} \/ Len(reqs) = MaxReq
       /\ TickX
    \/ /\ turn = "close"
       /\ CloseConn(Pick(Conns))
    \/ UNCHANGED <<ks, now, reqs, out, hist, role, nrc, xq, copen>>      \* the drawn step was not enabled: draw again

SimNextX == SimStepX /\ turn' = Pick(Turns) /\ UNCHANGED <<role, nrc>>

SimInitX == InitX

SimSpecX == SimInitX /\ [][SimNextX]_xvars

SimExportX == (Len(reqs) = MaxReq /\ NothingDueX /\ xq = <<>> /\ turn = "tick") => PrintT("BEHAVIOUR " \o ToJson(hist))
=============================================================================

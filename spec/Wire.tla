-------------------------------- MODULE Wire --------------------------------
(***************************************************************************)
(* The slock wire formats as DATA.                                         *)
(*                                                                         *)
(*  - the 64-byte binary frames of the 12 command types and their results  *)
(*    (README "Slock Binary Protocol" for LOCK/UNLOCK and their result;    *)
(*    protocol/command.go struct declarations for the other ten),          *)
(*  - the value frame that follows a frame whose FLAG has 0x20,            *)
(*  - the text (RESP) form of LOCK / UNLOCK: key and id normalisation,     *)
(*    option keywords, and the rendering of a result.                      *)
(*                                                                         *)
(* Everything is an operator over byte sequences (Seq(0..255)); TLC        *)
(* evaluates them (a) exhaustively over boundary valuations in the design  *)
(* check spec/WireMC.tla and (b) on every event recorded from the real     *)
(* codecs in the trace spec spec/mon/MonWire.tla.                          *)
(*                                                                         *)
(* Field values.  TLC integers are 32 bit, the frames carry 64-bit         *)
(* counters, so a numeric field value is its base-256 NUMERAL, most        *)
(* significant digit first, exactly as wide as the field ("le" fields:     *)
(* the wire order is the reverse of the numeral).  "arr" fields are byte   *)
(* arrays in array order.  "str" fields are strings without NUL, padded    *)
(* with NUL on the wire.                                                   *)
(***************************************************************************)
EXTENDS Integers, Sequences, FiniteSets, TLC, SequencesExt, FiniteSetsExt

MAGIC == 86      \* 0x56
VERSION == 1
FRAME == 64

Byte == 0..255
Zeros(n) == [i \in 1..n |-> 0]
Rev(s) == [i \in 1..Len(s) |-> s[Len(s) + 1 - i]]

Min2(a, b) == IF a < b THEN a ELSE b
Max2(a, b) == IF a > b THEN a ELSE b

-----------------------------------------------------------------------------
\* numerals

\* base-256 numeral (MSB first) of width w of a non-negative TLC integer
RECURSIVE NumeralOf(_, _)
NumeralOf(n, w) == IF w = 0 THEN <<>> ELSE NumeralOf(n \div 256, w - 1) \o <<n % 256>>

\* value of a numeral that fits a TLC integer (callers guarantee < 2^31)
RECURSIVE ValueOf(_)
ValueOf(d) == IF d = <<>> THEN 0 ELSE ValueOf(SubSeq(d, 1, Len(d) - 1)) * 256 + d[Len(d)]

\* little-endian bytes of a non-negative integer
LE(n, w) == Rev(NumeralOf(n, w))

-----------------------------------------------------------------------------
\* layouts

F(name, off, w, kind) == [name |-> name, off |-> off, w |-> w, kind |-> kind]

\* A layout given as README rows: a sequence of <<name, width, kind>> in wire order; offsets
\* are the running sum, as in the README tables (8 bytes per table row).
RECURSIVE FromRows(_, _)
FromRows(rows, off) ==
    IF rows = <<>> THEN <<>>
    ELSE LET r == Head(rows) IN
         (IF r[1] = "PADDING" THEN <<>> ELSE <<F(r[1], off, r[2], r[3])>>) \o FromRows(Tail(rows), off + r[2])

\* README, "# Request Command"
ReadmeRequestRows == <<
    <<"Magic", 1, "le">>, <<"Version", 1, "le">>, <<"CommandType", 1, "le">>, <<"RequestId", 16, "arr">>,
    <<"Flag", 1, "le">>, <<"DbId", 1, "le">>, <<"LockId", 16, "arr">>, <<"LockKey", 16, "arr">>,
    <<"Timeout", 2, "le">>, <<"TimeoutFlag", 2, "le">>, <<"Expried", 2, "le">>, <<"ExpriedFlag", 2, "le">>,
    <<"Count", 2, "le">>, <<"Rcount", 1, "le">> >>

\* README, "# Response Command"
ReadmeResponseRows == <<
    <<"Magic", 1, "le">>, <<"Version", 1, "le">>, <<"CommandType", 1, "le">>, <<"RequestId", 16, "arr">>,
    <<"Result", 1, "le">>, <<"Flag", 1, "le">>, <<"DbId", 1, "le">>, <<"LockId", 16, "arr">>, <<"LockKey", 16, "arr">>,
    <<"Lcount", 2, "le">>, <<"Count", 2, "le">>, <<"Lrcount", 1, "le">>, <<"Rcount", 1, "le">>, <<"PADDING", 4, "pad">> >>

Hdr == << F("Magic", 0, 1, "le"), F("Version", 1, 1, "le"), F("CommandType", 2, 1, "le"), F("RequestId", 3, 16, "arr") >>
RHdr == Hdr \o << F("Result", 19, 1, "le") >>

\* request frames (command.go: InitCommand .. SubscribeCommand), result frames ("r_" prefix)
Layout == [
    command     |-> Hdr,
    init        |-> Hdr \o << F("ClientId", 19, 16, "arr") >>,
    lock        |-> FromRows(ReadmeRequestRows, 0),
    state       |-> Hdr \o << F("Flag", 19, 1, "le"), F("DbId", 20, 1, "le") >>,
    admin       |-> Hdr \o << F("AdminType", 19, 1, "le") >>,
    ping        |-> Hdr,
    quit        |-> Hdr,
    call        |-> Hdr \o << F("Flag", 19, 1, "le"), F("Encoding", 20, 1, "le"), F("Charset", 21, 1, "le"),
                             F("ContentLen", 22, 4, "le"), F("MethodName", 26, 38, "str") >>,
    leader      |-> Hdr \o << F("Flag", 19, 1, "le") >>,
    subscribe   |-> Hdr \o << F("Flag", 19, 1, "le"), F("ClientId", 20, 4, "le"), F("SubscribeId", 24, 4, "le"),
                             F("SubscribeType", 28, 1, "le"), F("LockKeyMask", 29, 16, "arr"),
                             F("Expried", 45, 4, "le"), F("MaxSize", 49, 4, "le") >>,
    r_command   |-> RHdr,
    r_init      |-> RHdr \o << F("InitType", 20, 1, "le") >>,
    r_lock      |-> FromRows(ReadmeResponseRows, 0),
    r_state     |-> RHdr \o << F("Flag", 20, 1, "le"), F("DbState", 21, 1, "le"), F("DbId", 22, 1, "le"),
                              F("LockCount", 23, 8, "le"), F("UnLockCount", 31, 8, "le"), F("LockedCount", 39, 4, "le"),
                              F("WaitCount", 43, 4, "le"), F("TimeoutedCount", 47, 4, "le"), F("ExpriedCount", 51, 4, "le"),
                              F("UnlockErrorCount", 55, 4, "le"), F("KeyCount", 59, 4, "le") >>,
    r_admin     |-> RHdr,
    r_ping      |-> RHdr,
    r_quit      |-> RHdr,
    r_call      |-> RHdr \o << F("Flag", 20, 1, "le"), F("Encoding", 21, 1, "le"), F("Charset", 22, 1, "le"),
                              F("ContentLen", 23, 4, "le"), F("ErrType", 27, 37, "str") >>,
    r_leader    |-> RHdr \o << F("HostLen", 20, 1, "le"), F("Host", 21, 43, "str") >>,
    r_subscribe |-> RHdr \o << F("Flag", 20, 1, "le"), F("ClientId", 21, 4, "le"), F("SubscribeId", 25, 4, "le") >>
]

Types == DOMAIN Layout

\* which frame layout a CommandType byte selects (COMMAND_* constants); 12 command types
TypeOfCommand == [c \in 0..11 |->
    CASE c = 0 -> "init" [] c = 1 -> "lock" [] c = 2 -> "lock" [] c = 3 -> "state" [] c = 4 -> "admin" [] c = 5 -> "ping"
      [] c = 6 -> "quit" [] c = 7 -> "call" [] c = 8 -> "lock" [] c = 9 -> "lock" [] c = 10 -> "leader" [] c = 11 -> "subscribe"]

FieldsOf(t) == {Layout[t][i] : i \in 1..Len(Layout[t])}
FieldNames(t) == {f.name : f \in FieldsOf(t)}
FieldByName(t, n) == CHOOSE f \in FieldsOf(t) : f.name = n

Covers(f, o) == f.off <= o /\ o < f.off + f.w

\* fields disjoint, inside the frame, names unique, common header where every frame has it
WellFormed(t) ==
    LET L == Layout[t] IN
    /\ \A i \in 1..Len(L) : L[i].off >= 0 /\ L[i].w > 0 /\ L[i].off + L[i].w <= FRAME /\ L[i].kind \in {"le", "arr", "str"}
    /\ \A i, j \in 1..Len(L) : i # j => /\ L[i].name # L[j].name
                                        /\ (L[i].off + L[i].w <= L[j].off \/ L[j].off + L[j].w <= L[i].off)
    /\ \A i \in 1..4 : L[i] = Hdr[i]

\* the documented offsets (README tables): spelled out once more, independently of FromRows
ReadmeOffsets ==
    /\ FieldByName("lock", "Flag").off = 19 /\ FieldByName("lock", "DbId").off = 20
    /\ FieldByName("lock", "LockId").off = 21 /\ FieldByName("lock", "LockKey").off = 37
    /\ FieldByName("lock", "Timeout").off = 53 /\ FieldByName("lock", "TimeoutFlag").off = 55
    /\ FieldByName("lock", "Expried").off = 57 /\ FieldByName("lock", "ExpriedFlag").off = 59
    /\ FieldByName("lock", "Count").off = 61 /\ FieldByName("lock", "Rcount").off = 63
    /\ FieldByName("r_lock", "Result").off = 19 /\ FieldByName("r_lock", "Flag").off = 20 /\ FieldByName("r_lock", "DbId").off = 21
    /\ FieldByName("r_lock", "LockId").off = 22 /\ FieldByName("r_lock", "LockKey").off = 38
    /\ FieldByName("r_lock", "Lcount").off = 54 /\ FieldByName("r_lock", "Count").off = 56
    /\ FieldByName("r_lock", "Lrcount").off = 58 /\ FieldByName("r_lock", "Rcount").off = 59

-----------------------------------------------------------------------------
\* values: a record (function) field name -> byte sequence

NoNul(s) == \A i \in 1..Len(s) : s[i] # 0

ValidValue(t, v) ==
    /\ DOMAIN v = FieldNames(t)
    /\ \A f \in FieldsOf(t) :
          /\ \A i \in 1..Len(v[f.name]) : v[f.name][i] \in Byte
          /\ IF f.kind = "str" THEN Len(v[f.name]) <= f.w /\ NoNul(v[f.name]) ELSE Len(v[f.name]) = f.w

\* byte j (0-based, inside the field) that field f with value val puts on the wire
FieldByte(f, val, j) ==
    CASE f.kind = "le"  -> val[f.w - j]
      [] f.kind = "arr" -> val[j + 1]
      [] f.kind = "str" -> IF j + 1 <= Len(val) THEN val[j + 1] ELSE 0

Encode(t, v) ==
    [i \in 1..FRAME |->
        LET C == {f \in FieldsOf(t) : Covers(f, i - 1)} IN
        IF C = {} THEN 0 ELSE LET f == CHOOSE x \in C : TRUE IN FieldByte(f, v[f.name], i - 1 - f.off)]

StripNulRight(s) ==
    LET N == {i \in 1..Len(s) : s[i] # 0} IN IF N = {} THEN <<>> ELSE SubSeq(s, 1, Max(N))

DecodeField(f, b) ==
    LET raw == SubSeq(b, f.off + 1, f.off + f.w) IN
    CASE f.kind = "le"  -> Rev(raw)
      [] f.kind = "arr" -> raw
      [] f.kind = "str" -> StripNulRight(raw)

Decode(t, b) == [n \in FieldNames(t) |-> DecodeField(FieldByName(t, n), b)]

\* Frames that are the encoding of some value: a "str" field holds a NUL-free string followed by
\* NUL padding; the r_leader HostLen counts the Host bytes.  Other byte strings decode to nothing the
\* layout defines (the check is agnostic about them).
InDomain(t, b) ==
    /\ \A f \in FieldsOf(t) : f.kind = "str" => NoNul(StripNulRight(SubSeq(b, f.off + 1, f.off + f.w)))
    /\ t = "r_leader" => b[21] = Len(StripNulRight(SubSeq(b, 22, 64)))

\* the defined bytes of a frame (1-based positions): those covered by a field
Defined(t) == {i \in 1..FRAME : \E f \in FieldsOf(t) : Covers(f, i - 1)}

\* positions where two frames differ
DiffAt(a, b, S) == {i \in S : a[i] # b[i]}

-----------------------------------------------------------------------------
\* value frames (command.go NewLockCommandDataFromBytes, LockResultCommandData accessors)
\*   | len:4 LE | stage<<6 | type&0x3f | flag | [ proplen:2 LE | { code | vlen:2 LE | value } ] | data |
\* len counts everything after the length prefix; flag has 0x10 iff a property block is present.

DATA_FLAG_PROPERTY == 16

PropBytes(p) == <<p.code>> \o LE(Len(p.value), 2) \o p.value

RECURSIVE PropsBytes(_)
PropsBytes(ps) == IF ps = <<>> THEN <<>> ELSE PropBytes(Head(ps)) \o PropsBytes(Tail(ps))

HasBit(x, b) == (x \div b) % 2 = 1

\* hasProps: whether a property block is written at all (an empty block is legal)
EncodeValueFrame(stage, ctype, flag, hasProps, props, data) ==
    LET pb   == PropsBytes(props)
        fl   == IF hasProps /\ ~HasBit(flag, DATA_FLAG_PROPERTY) THEN flag + DATA_FLAG_PROPERTY ELSE flag
        body == << (stage * 64 + (ctype % 64)) % 256, fl >> \o (IF hasProps THEN LE(Len(pb), 2) \o pb ELSE <<>>) \o data
    IN LE(Len(body), 4) \o body

RECURSIVE ParseProps(_)
ParseProps(pb) ==
    IF Len(pb) < 3 THEN <<>>
    ELSE LET vl == pb[2] + 256 * pb[3] IN
         <<[code |-> pb[1], value |-> SubSeq(pb, 4, 3 + vl)]>> \o ParseProps(SubSeq(pb, 4 + vl, Len(pb)))

DecodeValueFrame(fr) ==
    LET flag == fr[6]
        hasP == HasBit(flag, DATA_FLAG_PROPERTY)
        pl   == IF hasP THEN fr[7] + 256 * fr[8] ELSE 0
        voff == IF hasP THEN 8 + pl ELSE 6
    IN [len |-> fr[1] + 256 * fr[2] + 65536 * fr[3] + 16777216 * fr[4],
        stage |-> fr[5] \div 64, ctype |-> fr[5] % 64, flag |-> flag,
        props |-> IF hasP THEN ParseProps(SubSeq(fr, 9, 8 + pl)) ELSE <<>>,
        data |-> SubSeq(fr, voff + 1, Len(fr))]

\* array / KV payloads (NewLockCommandDataSetArray / SetKV, GetArrayValue / GetKVValue): items are
\*   | len:4 LE | bytes |      and a KV payload alternates key, value
RECURSIVE ItemsBytes(_)
ItemsBytes(items) == IF items = <<>> THEN <<>> ELSE LE(Len(Head(items)), 4) \o Head(items) \o ItemsBytes(Tail(items))

\* named deviation A20 of the code (command.go NewLockCommandDataSetKV, "keyLen := len(value)"): the length
\* prefix of a KEY is written as the length of its VALUE
RECURSIVE KVBytesA20(_)
KVBytesA20(items) ==
    IF Len(items) < 2 THEN <<>>
    ELSE LE(Len(items[2]), 4) \o items[1] \o LE(Len(items[2]), 4) \o items[2] \o KVBytesA20(SubSeq(items, 3, Len(items)))

-----------------------------------------------------------------------------
\* text form: ASCII helpers

CR == 13   LF == 10   STAR == 42   DOLLAR == 36   PLUS == 43   MINUS == 45   SPACE == 32   COLON == 58

IsDigit(b) == b >= 48 /\ b <= 57
Upper(b) == IF b >= 97 /\ b <= 122 THEN b - 32 ELSE b
UpperS(s) == [i \in 1..Len(s) |-> Upper(s[i])]

RECURSIVE DecDigits(_)
DecDigits(n) == IF n < 10 THEN <<48 + n>> ELSE DecDigits(n \div 10) \o <<48 + (n % 10)>>
Dec(n) == IF n < 0 THEN <<MINUS>> \o DecDigits(0 - n) ELSE DecDigits(n)

\* decimal numerals below 2 * 10^9 (TLC integers are 32 bit)
IsDecimal(s) == /\ Len(s) > 0 /\ \A i \in 1..Len(s) : IsDigit(s[i])
                /\ (Len(s) <= 9 \/ (Len(s) = 10 /\ s[1] \in {48, 49}))
RECURSIVE DecValue(_)
DecValue(s) == IF s = <<>> THEN 0 ELSE DecValue(SubSeq(s, 1, Len(s) - 1)) * 10 + (s[Len(s)] - 48)

\* the keywords as byte strings
K_LOCK == <<76, 79, 67, 75>>                      K_UNLOCK == <<85, 78, 76, 79, 67, 75>>
K_LOCK_ID == <<76, 79, 67, 75, 95, 73, 68>>       K_FLAG == <<70, 76, 65, 71>>
K_TIMEOUT == <<84, 73, 77, 69, 79, 85, 84>>       K_EXPRIED == <<69, 88, 80, 82, 73, 69, 68>>
K_COUNT == <<67, 79, 85, 78, 84>>                 K_RCOUNT == <<82, 67, 79, 85, 78, 84>>
K_LCOUNT == <<76, 67, 79, 85, 78, 84>>            K_LRCOUNT == <<76, 82, 67, 79, 85, 78, 84>>
K_WILL == <<87, 73, 76, 76>>                      K_OK == <<79, 75>>

HexVal(b) == IF b >= 48 /\ b <= 57 THEN b - 48 ELSE IF b >= 97 /\ b <= 102 THEN b - 87 ELSE IF b >= 65 /\ b <= 70 THEN b - 55 ELSE 0 - 1
IsHex(s) == \A i \in 1..Len(s) : HexVal(s[i]) >= 0
HexDecode(s) == [i \in 1..(Len(s) \div 2) |-> HexVal(s[2 * i - 1]) * 16 + HexVal(s[2 * i])]
HexDigit(n) == IF n < 10 THEN 48 + n ELSE 87 + n
HexLower(bs) == [i \in 1..(2 * Len(bs)) |-> IF i % 2 = 1 THEN HexDigit(bs[(i + 1) \div 2] \div 16) ELSE HexDigit(bs[i \div 2] % 16)]

\* README: "length 16 bytes, less than 16 front plus 0x00 to make up, 32 bytes is to try hex decoding,
\* more than 16 bytes to take MD5".  `hash` is the MD5 of s, supplied from outside (uninterpreted here).
Norm(s, hash) ==
    IF Len(s) <= 16 THEN Zeros(16 - Len(s)) \o s
    ELSE IF Len(s) = 32 /\ IsHex(s) THEN HexDecode(s)
    ELSE hash

\* The binary command a text LOCK/UNLOCK stands for.  args: sequence of byte strings
\* (args[1] the command word, args[2] the key, then keyword/value pairs); hashes: function from
\* argument position to the MD5 of that argument.  Options the README lists only.  Numeric option
\* values are decimal and below 2^31 (TLC integers).  COUNT / RCOUNT are "maximum number of locks":
\* the binary Count / Rcount hold that number minus one (0 stays 0).  Defaults: Timeout 15, Expried 120.
OptPositions(args) == {i \in 3..Len(args) : i % 2 = 1 /\ i + 1 <= Len(args)}
LastOpt(args, kw) == LET P == {i \in OptPositions(args) : UpperS(args[i]) = kw} IN IF P = {} THEN 0 ELSE Max(P)
OptNum(args, kw, dflt) == LET p == LastOpt(args, kw) IN IF p = 0 THEN dflt ELSE DecValue(args[p + 1])

TextWellFormed(args) ==
    /\ Len(args) >= 2 /\ Len(args) % 2 = 0
    /\ UpperS(args[1]) \in {K_LOCK, K_UNLOCK}
    /\ \A i \in OptPositions(args) :
          /\ UpperS(args[i]) \in {K_LOCK_ID, K_FLAG, K_TIMEOUT, K_EXPRIED, K_COUNT, K_RCOUNT, K_WILL}
          /\ UpperS(args[i]) # K_LOCK_ID => IsDecimal(args[i + 1])

TextToCommand(args, hashes) ==
    LET isUnlock == UpperS(args[1]) = K_UNLOCK
        will == OptNum(args, K_WILL, 0)
        to == OptNum(args, K_TIMEOUT, 15)
        ex == OptNum(args, K_EXPRIED, 120)
        cnt == OptNum(args, K_COUNT, 0)
        rc == OptNum(args, K_RCOUNT, 0)
        lidp == LastOpt(args, K_LOCK_ID)
    IN [CommandType |-> (IF isUnlock THEN 2 ELSE 1) + (IF will > 0 THEN 7 ELSE 0),
        LockKey |-> Norm(args[2], hashes[2]),
        HasLockId |-> lidp # 0,
        LockId |-> IF lidp = 0 THEN Zeros(16) ELSE Norm(args[lidp + 1], hashes[lidp + 1]),
        Flag |-> OptNum(args, K_FLAG, 0) % 256,
        Timeout |-> to % 65536, TimeoutFlag |-> (to \div 65536) % 65536,
        Expried |-> ex % 65536, ExpriedFlag |-> (ex \div 65536) % 65536,
        Count |-> (IF cnt > 0 THEN cnt - 1 ELSE 0) % 65536,
        Rcount |-> (IF rc > 0 THEN rc - 1 ELSE 0) % 256]

\* Value options of the text form (textcommand.go ConvertTextLockAndUnLockCommand): the command carries a value
\* frame (FLAG 0x20) built from the option's value:  SET v / APPEND v / PUSH v -> the bytes of v with command type
\* SET (0) / APPEND (3) / PUSH (7);  UNSET x -> the empty UNSET (1) frame;  INCR n -> command type INCR (2), value
\* type NUMBER, the 8-byte little-endian integer.  (At most one value option per command is considered.)
K_SET == <<83, 69, 84>>                           K_UNSET == <<85, 78, 83, 69, 84>>
K_INCR == <<73, 78, 67, 82>>                      K_APPEND == <<65, 80, 80, 69, 78, 68>>
K_PUSH == <<80, 85, 83, 72>>
ValueOptions == {K_SET, K_UNSET, K_INCR, K_APPEND, K_PUSH}
ValueOptPositions(args) == {i \in OptPositions(args) : UpperS(args[i]) \in ValueOptions}

TextWellFormedV(args) ==
    /\ Len(args) >= 2 /\ Len(args) % 2 = 0
    /\ UpperS(args[1]) \in {K_LOCK, K_UNLOCK}
    /\ Cardinality(ValueOptPositions(args)) <= 1
    /\ \A i \in OptPositions(args) :
          /\ UpperS(args[i]) \in {K_LOCK_ID, K_FLAG, K_TIMEOUT, K_EXPRIED, K_COUNT, K_RCOUNT, K_WILL} \cup ValueOptions
          /\ UpperS(args[i]) \notin ({K_LOCK_ID} \cup (ValueOptions \ {K_INCR})) => IsDecimal(args[i + 1])

\* the value frame the command carries (<<>>: none)
TextValueFrame(args) ==
    LET P == ValueOptPositions(args) IN
    IF P = {} THEN <<>>
    ELSE LET p == Max(P)
             kw == UpperS(args[p])
             v == args[p + 1]
         IN CASE kw = K_SET    -> EncodeValueFrame(0, 0, 0, FALSE, <<>>, v)
              [] kw = K_UNSET  -> EncodeValueFrame(0, 1, 0, FALSE, <<>>, <<>>)
              [] kw = K_INCR   -> EncodeValueFrame(0, 2, 1, FALSE, <<>>, LE(DecValue(v), 8))
              [] kw = K_APPEND -> EncodeValueFrame(0, 3, 0, FALSE, <<>>, v)
              [] kw = K_PUSH   -> EncodeValueFrame(0, 7, 0, FALSE, <<>>, v)

\* result codes (command.go RESULT_*): every one of them must have a text rendering
ResultCodes == 0..12

\* what the text rendering of a lock result must contain (README "Return [...]"): the code, a
\* non-empty message ("OK" for success), LOCK_ID as 32 hex characters, LCOUNT and LRCOUNT as
\* reported, COUNT and RCOUNT back in "maximum number of locks" form.
RenderingOK(args, r) ==
    /\ Len(args) >= 12
    /\ args[1] = Dec(r.Result)
    /\ Len(args[2]) > 0
    /\ r.Result = 0 => args[2] = K_OK
    /\ UpperS(args[3]) = K_LOCK_ID /\ Len(args[4]) = 32 /\ IsHex(args[4]) /\ HexDecode(args[4]) = r.LockId
    /\ UpperS(args[5]) = K_LCOUNT /\ args[6] = Dec(r.Lcount)
    /\ UpperS(args[7]) = K_COUNT /\ args[8] = Dec((r.Count + 1) % 65536)
    /\ UpperS(args[9]) = K_LRCOUNT /\ args[10] = Dec(r.Lrcount)
    /\ UpperS(args[11]) = K_RCOUNT /\ args[12] = Dec((r.Rcount + 1) % 256)

-----------------------------------------------------------------------------
\* The text reply to a LOCK / UNLOCK as a byte layout (protocol/textcommand.go
\* WriteTextLockAndUnLockCommandResult; the README lists the first twelve elements):
\*
\*    *<n> CRLF  <twelve bulk strings, RenderingOK>  [ $4 CRLF DATA CRLF  <data element> ]
\*
\* n = 12 for a result without value frame, n = 14 for a result that carries one (result FLAG 0x20): the DATA
\* pair is present iff the result carries a value frame, and n counts exactly the elements that follow.
\* The data element renders the VALUE of the frame (the bytes behind the header and the property block;
\* nothing for an UNSET frame) by the frame's value-type flag:
\*    number (0x01)  :<decimal of the little-endian integer> CRLF
\*    array  (0x02)  *<k> CRLF and the k non-empty items as bulk strings
\*    kv     (0x04)  *<2k> CRLF key, value, ... as bulk strings (order of the pairs not fixed)
\*    otherwise      one bulk string
K_DATA == <<68, 65, 84, 65>>
CRLF == <<CR, LF>>
RBulk(a) == <<DOLLAR>> \o Dec(Len(a)) \o CRLF \o a \o CRLF
RECURSIVE RBulks(_)
RBulks(xs) == IF xs = <<>> THEN <<>> ELSE RBulk(Head(xs)) \o RBulks(Tail(xs))

VALUE_TYPE_NUMBER == 1   VALUE_TYPE_ARRAY == 2   VALUE_TYPE_KV == 4   DATA_COMMAND_UNSET == 1

\* the value a frame carries
FrameValue(fr) == LET d == DecodeValueFrame(fr) IN IF d.ctype = DATA_COMMAND_UNSET THEN <<>> ELSE d.data

\* little-endian integer in the first (at most eight) bytes; representable here when below 2^31
IntRepresentable(v) == \A i \in 1..Min2(8, Len(v)) : (i >= 5 => v[i] = 0) /\ (i = 4 => v[i] < 128)
RECURSIVE IntLE(_)
IntLE(v) == IF v = <<>> THEN 0 ELSE v[1] + 256 * IntLE(Tail(v))

\* items of an array / kv payload: | len:4 LE | bytes | ..., empty items skipped (GetArrayValue)
RECURSIVE PayloadItems(_)
PayloadItems(v) ==
    IF Len(v) <= 4 THEN <<>>
    ELSE LET n == v[1] + 256 * v[2] + 65536 * v[3] + 16777216 * v[4] IN
         IF n = 0 THEN PayloadItems(SubSeq(v, 5, Len(v)))
         ELSE IF 4 + n > Len(v) THEN <<>>
         ELSE <<SubSeq(v, 5, 4 + n)>> \o PayloadItems(SubSeq(v, 5 + n, Len(v)))

\* an array / kv payload is well typed when it is exactly a sequence of complete items
RECURSIVE PayloadWellTyped(_)
PayloadWellTyped(v) ==
    IF v = <<>> THEN TRUE
    ELSE IF Len(v) < 4 THEN FALSE
    ELSE LET n == v[1] + 256 * v[2] + 65536 * v[3] IN
         v[4] = 0 /\ 4 + n <= Len(v) /\ PayloadWellTyped(SubSeq(v, 5 + n, Len(v)))
ValueWellTyped(fr) ==
    LET d == DecodeValueFrame(fr) IN
    (~HasBit(d.flag, VALUE_TYPE_NUMBER) /\ (HasBit(d.flag, VALUE_TYPE_ARRAY) \/ HasBit(d.flag, VALUE_TYPE_KV))) => PayloadWellTyped(FrameValue(fr))

\* [fixed |-> whether the layout below is the only admissible one, bytes |-> the element]
\* (a value that is not well typed has no defined rendering: not fixed)
DataElement(fr) ==
    LET d == DecodeValueFrame(fr)
        v == FrameValue(fr)
    IN IF HasBit(d.flag, VALUE_TYPE_NUMBER)
       THEN IF IntRepresentable(v) THEN [fixed |-> TRUE, bytes |-> <<COLON>> \o Dec(IntLE(SubSeq(v, 1, Min2(4, Len(v))))) \o CRLF]
            ELSE [fixed |-> FALSE, bytes |-> <<>>]
       ELSE IF HasBit(d.flag, VALUE_TYPE_ARRAY)
       THEN LET it == PayloadItems(v) IN [fixed |-> PayloadWellTyped(v), bytes |-> <<STAR>> \o Dec(Len(it)) \o CRLF \o RBulks(it)]
       ELSE IF HasBit(d.flag, VALUE_TYPE_KV)
       THEN LET it == PayloadItems(v) IN [fixed |-> PayloadWellTyped(v) /\ Len(it) <= 2, bytes |-> <<STAR>> \o Dec(Len(it)) \o CRLF \o RBulks(it)]
       ELSE [fixed |-> TRUE, bytes |-> RBulk(v)]

\* the tail of the reply behind the twelve elements, for a result whose value frame is fr (<<>>: no frame)
DataTail(fr) == IF fr = <<>> THEN <<>> ELSE RBulk(K_DATA) \o DataElement(fr).bytes
AnnouncedElements(fr) == IF fr = <<>> THEN 12 ELSE 14

=============================================================================

------------------------------ MODULE ElectionMC ------------------------------
(* Configuration families for the exhaustive and simulation runs of Election. *)
(* Positions are scaled (4-bit components, wrap threshold 7); the check maps   *)
(* them to real 32-bit components with a map that preserves every comparison. *)
EXTENDS Election

P(i, o, c) == [idx |-> i, off |-> o, ct |-> c]
S == P(1, 5, 1)

\* 3 data members, equal logs: the pure schedule space (delivery orders, losses, restarts)
Core3 == {[w |-> <<1, 1, 1>>, arb |-> <<0, 0, 0>>, aof |-> <<S, S, S>>, c0 |-> <<0, 0, 0>>]}
\* unequal committed numbers left behind by an earlier election (saved by the winner only)
Core3c == {[w |-> <<1, 1, 1>>, arb |-> <<0, 0, 0>>, aof |-> <<S, S, S>>, c0 |-> <<0, 1, 0>>]}

\* positions on which an offset-major comparison (the old defect A21) and the append order of the log agree
Agree == {P(1, 5, 1), P(1, 6, 1), P(1, 5, 2)}
\* positions on which they disagree (file index against offset; finding A21) and index wrap-around
Clash == {P(1, 6, 1), P(2, 0, 2), P(3, 3, 0)}
Wrap  == {P(15, 3, 0), P(1, 5, 1), P(2, 6, 1)}

\* one lagging member (a whole file behind, large offset) next to two members that are ahead
Clash1 == {[w |-> <<1, 1, 1>>, arb |-> <<0, 0, 0>>, aof |-> <<P(2, 0, 2), P(2, 0, 2), P(1, 6, 1)>>, c0 |-> <<0, 0, 0>>]}

Tup3(X) == {<<a, b, c>> : a \in X, b \in X, c \in X}
Mixed3(Pos) == {[w |-> ww, arb |-> aa, aof |-> pp, c0 |-> <<0, 0, 0>>] :
                  ww \in Tup3({0, 1, 2}), aa \in {<<0, 0, 0>>, <<0, 0, 1>>, <<1, 0, 0>>}, pp \in Tup3(Pos)}
Mixed3Agree == Mixed3(Agree)
Mixed3Clash == Mixed3(Clash)
Mixed3Wrap  == Mixed3(Wrap)
\* a small slice for quick runs
Slice3(Pos) == {[w |-> ww, arb |-> aa, aof |-> pp, c0 |-> <<0, 0, 0>>] :
                  ww \in {<<1, 1, 1>>, <<1, 0, 2>>, <<2, 1, 0>>}, aa \in {<<0, 0, 0>>, <<0, 0, 1>>}, pp \in Tup3(Pos)}
Slice3Agree == Slice3(Agree)
Slice3Clash == Slice3(Clash)
Slice3Wrap  == Slice3(Wrap)

Tup5(X) == {<<a, b, c, d, e>> : a \in X, b \in X, c \in X, d \in X, e \in X}
AllPos == Agree \cup Clash \cup Wrap
Mixed5 == {[w |-> ww, arb |-> aa, aof |-> pp, c0 |-> cc] :
             ww \in {<<1, 1, 1, 1, 1>>, <<1, 0, 2, 1, 1>>, <<2, 1, 1, 0, 1>>},
             aa \in {<<0, 0, 0, 0, 0>>, <<0, 0, 0, 0, 1>>, <<0, 1, 0, 0, 1>>},
             pp \in Tup5({P(1, 5, 1), P(1, 6, 1), P(2, 0, 2), P(15, 3, 0)}),
             cc \in {<<0, 0, 0, 0, 0>>, <<1, 0, 0, 1, 0>>}}
Mixed4 == {[w |-> ww, arb |-> aa, aof |-> pp, c0 |-> <<0, 0, 0, 0>>] :
             ww \in {<<1, 1, 1, 1>>, <<1, 0, 2, 1>>}, aa \in {<<0, 0, 0, 0>>, <<0, 0, 0, 1>>},
             pp \in {<<a, b, c, d>> : a \in {S, P(2, 0, 2)}, b \in {S, P(1, 6, 1)}, c \in {S, P(15, 3, 0)}, d \in {S}}}

\* weighted random gates for -simulate (a message is lost with probability ~ 1/6, a restart is rare)
SimLoseOK(c, m) == Lose /\ RandomElement(1..10) <= 2
SimRestartOK(x) == RandomElement(1..12) = 1

\* counterexample hunt for the restart finding (A7): only the messages between the two candidates get lost
HuntLoseOK(c, m) == (c = 1 /\ m = 3) \/ (c = 3 /\ m = 1)

\* behaviour export for -simulate: print the history of every finished (or depth-limited) behaviour
SimDepth == 400
SimExport == (Quiescent \/ Len(hist) >= SimDepth) => PrintT("BEHAVIOUR " \o ToJson(hist))
=============================================================================

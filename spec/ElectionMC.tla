------------------------------ MODULE ElectionMC ------------------------------
(* Configuration families for the exhaustive and simulation runs of Election. *)
(* Positions are scaled (4-bit components, wrap threshold 7); the check maps   *)
(* them to real 32-bit components with a map that preserves every comparison. *)
EXTENDS Election

P(i, o, c) == [idx |-> i, off |-> o, ct |-> c]
S == P(1, 5, 1)

\* 3 data members, equal logs: the pure schedule space (delivery orders, losses, restarts)
Core3 == {[w |-> <<1, 1, 1>>, arb |-> <<0, 0, 0>>, aof |-> <<S, S, S>>, c0 |-> <<0, 0, 0>>]}
\* unequal committed numbers left behind by an earlier election (saved by the winner only)
Core3c == {[w |-> <<1, 1, 1>>, arb |-> <<0, 0, 0>>, aof |-> <<S, S, S>>, c0 |-> <<0, 1, 0>>]}

\* positions on which an offset-major comparison (the old defect A21) and the append order of the log agree
Agree == {P(1, 5, 1), P(1, 6, 1), P(1, 5, 2)}
\* positions on which they disagree (file index against offset; finding A21) and index wrap-around
Clash == {P(1, 6, 1), P(2, 0, 2), P(3, 3, 0)}
Wrap  == {P(15, 3, 0), P(1, 5, 1), P(2, 6, 1)}

\* one lagging member (a whole file behind, large offset) next to two members that are ahead
Clash1 == {[w |-> <<1, 1, 1>>, arb |-> <<0, 0, 0>>, aof |-> <<P(2, 0, 2), P(2, 0, 2), P(1, 6, 1)>>, c0 |-> <<0, 0, 0>>]}

Tup3(X) == {<<a, b, c>> : a \in X, b \in X, c \in X}
Mixed3(Pos) == {[w |-> ww, arb |-> aa, aof |-> pp, c0 |-> <<0, 0, 0>>] :
                  ww \in Tup3({0, 1, 2}), aa \in {<<0, 0, 0>>, <<0, 0, 1>>, <<1, 0, 0>>}, pp \in Tup3(Pos)}
Mixed3Agree == Mixed3(Agree)
Mixed3Clash == Mixed3(Clash)
Mixed3Wrap  == Mixed3(Wrap)
\* a small slice for quick runs
Slice3(Pos) == {[w |-> ww, arb |-> aa, aof |-> pp, c0 |-> <<0, 0, 0>>] :
                  ww \in {<<1, 1, 1>>, <<1, 0, 2>>, <<2, 1, 0>>}, aa \in {<<0, 0, 0>>, <<0, 0, 1>>}, pp \in Tup3(Pos)}
Slice3Agree == Slice3(Agree)
Slice3Clash == Slice3(Clash)
Slice3Wrap  == Slice3(Wrap)

Tup5(X) == {<<a, b, c, d, e>> : a \in X, b \in X, c \in X, d \in X, e \in X}
AllPos == Agree \cup Clash \cup Wrap
Mixed5 == {[w |-> ww, arb |-> aa, aof |-> pp, c0 |-> cc] :
             ww \in {<<1, 1, 1, 1, 1>>, <<1, 0, 2, 1, 1>>, <<2, 1, 1, 0, 1>>},
             aa \in {<<0, 0, 0, 0, 0>>, <<0, 0, 0, 0, 1>>, <<0, 1, 0, 0, 1>>},
             pp \in Tup5({P(1, 5, 1), P(1, 6, 1), P(2, 0, 2), P(15, 3, 0)}),
             cc \in {<<0, 0, 0, 0, 0>>, <<1, 0, 0, 1, 0>>}}
Mixed4 == {[w |-> ww, arb |-> aa, aof |-> pp, c0 |-> <<0, 0, 0, 0>>] :
             ww \in {<<1, 1, 1, 1>>, <<1, 0, 2, 1>>}, aa \in {<<0, 0, 0, 0>>, <<0, 0, 0, 1>>},
             pp \in {<<a, b, c, d>> : a \in {S, P(2, 0, 2)}, b \in {S, P(1, 6, 1)}, c \in {S, P(15, 3, 0)}, d \in {S}}}

\* ---- configurations in which the election majority need not contain the newest data member: there the
\* refusal "my log is newer" (ERR_REJECT) is the only guard (switch RejectVetoes of Election).
\* Positions: POLD is a whole file behind PNEW but has the larger offset (file index against offset, finding A21);
\* PMID / PNEW differ in the offset only; PWOLD is older than PNEW across the index wrap-around.
POLD == P(1, 6, 1)
PMID == P(2, 0, 2)
PNEW == P(2, 3, 2)
PWOLD == P(15, 3, 0)
\* 3 members, exhaustive: one arbiter next to a stale and a fresh data member (majority 2 = {stale, arbiter}),
\* and all-data clusters whose newest member has weight 0 (never proposed, so it always refuses)
Veto3 == {[w |-> <<1, 1, 1>>, arb |-> <<0, 0, 1>>, aof |-> <<PNEW, POLD, POLD>>, c0 |-> <<0, 0, 0>>],
          [w |-> <<1, 2, 1>>, arb |-> <<1, 0, 0>>, aof |-> <<Z, PMID, PNEW>>, c0 |-> <<0, 0, 0>>],
          [w |-> <<0, 1, 1>>, arb |-> <<0, 0, 0>>, aof |-> <<PNEW, PMID, POLD>>, c0 |-> <<0, 0, 0>>],
          [w |-> <<1, 0, 2>>, arb |-> <<0, 0, 0>>, aof |-> <<POLD, PMID, POLD>>, c0 |-> <<0, 0, 0>>],
          [w |-> <<1, 1, 0>>, arb |-> <<0, 0, 0>>, aof |-> <<PMID, PMID, PNEW>>, c0 |-> <<0, 1, 0>>]}
\* 5 members = 3 data members + 2 arbiters (replication quorum = leader + ONE follower; election majority 3 =
\* {lagging follower, arbiter, arbiter}); member 1 plays the crashed leader's role only in so far as its messages may
\* all be lost.  The arbiters sit at different places of the member list (scan order, host tie-break).
Arb5Slice == {[w |-> <<1, 1, 1, 1, 1>>, arb |-> <<0, 0, 0, 1, 1>>, aof |-> <<PNEW, PNEW, POLD, Z, Z>>, c0 |-> <<0, 0, 0, 0, 0>>],
              [w |-> <<1, 1, 1, 1, 1>>, arb |-> <<1, 0, 1, 0, 0>>, aof |-> <<Z, PMID, Z, PNEW, PMID>>, c0 |-> <<0, 0, 0, 0, 0>>]}
Arb5 == {[w |-> ww, arb |-> aa, aof |-> pp, c0 |-> cc] :
           ww \in {<<1, 1, 1, 1, 1>>, <<2, 1, 1, 1, 1>>, <<1, 0, 1, 1, 2>>},
           aa \in {<<0, 0, 0, 1, 1>>, <<1, 0, 1, 0, 0>>, <<0, 1, 0, 0, 1>>, <<0, 0, 0, 0, 1>>},
           pp \in Tup5({POLD, PMID, PNEW, PWOLD}),
           cc \in {<<0, 0, 0, 0, 0>>, <<0, 1, 0, 0, 1>>}}
Arb4 == {[w |-> ww, arb |-> aa, aof |-> pp, c0 |-> <<0, 0, 0, 0>>] :
           ww \in {<<1, 1, 1, 1>>, <<0, 1, 2, 1>>, <<1, 1, 0, 1>>}, aa \in {<<0, 0, 0, 1>>, <<1, 0, 0, 0>>, <<0, 1, 0, 1>>},
           pp \in {<<a, b, c, d>> : a \in {POLD, PNEW}, b \in {POLD, PMID, PNEW}, c \in {PMID, PNEW, PWOLD}, d \in {POLD}}}
Arb3 == {[w |-> ww, arb |-> aa, aof |-> pp, c0 |-> <<0, 0, 0>>] :
           ww \in Tup3({0, 1, 2}), aa \in {<<0, 0, 0>>, <<0, 0, 1>>, <<1, 0, 0>>, <<0, 1, 0>>}, pp \in Tup3({POLD, PMID, PNEW})}

\* weighted random gates for -simulate (a message is lost with probability ~ 1/6, a restart is rare)
SimLoseOK(c, m) == Lose /\ RandomElement(1..10) <= 2
SimRestartOK(x) == RandomElement(1..12) = 1

\* gates of the generators "sim*h": the messages between a candidate and a data member whose log is newer than
\* the candidate's own are mostly lost in the VOTE round (so the fresher member is not seen there) and hardly ever
\* later (so it answers the PROPOSAL round); everything else is lost rarely, so that candidacies run to the end
\* (an arbiter candidate has no log of its own: then "newer than the log of some other data member")
Fresher(c, m) == /\ cfg.arb[m] = 0 /\ m # c
                 /\ IF cfg.arb[c] = 0 THEN CmpTrue(cfg.aof[m], cfg.aof[c]) > 0
                    ELSE \E x \in Members \ {m} : cfg.arb[x] = 0 /\ CmpTrue(cfg.aof[m], cfg.aof[x]) > 0
HideLoseOK(c, m) == Lose /\ IF cand[c].ph = "vote" THEN (IF Fresher(c, m) THEN RandomElement(1..10) <= 8 ELSE RandomElement(1..10) <= 1)
                            ELSE IF cand[c].ph = "prop" THEN (IF Fresher(c, m) THEN FALSE ELSE RandomElement(1..12) <= 1)
                            ELSE RandomElement(1..12) <= 1
HideRestartOK(x) == RandomElement(1..40) = 1

\* 5-member runs of the quick tier: only the messages between the candidate and the DATA members get lost (the
\* arbiters always answer); the thorough tier loses any subset
DataLoseOK(c, m) == Lose /\ cfg.arb[m] = 0

\* counterexample hunt for the restart finding (A7): only the messages between the two candidates get lost
HuntLoseOK(c, m) == (c = 1 /\ m = 3) \/ (c = 3 /\ m = 1)

\* behaviour export for -simulate: print the history of every finished (or depth-limited) behaviour
SimDepth == 400
SimExport == (Quiescent \/ Len(hist) >= SimDepth) => PrintT("BEHAVIOUR " \o ToJson(hist))
=============================================================================

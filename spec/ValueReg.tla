------------------------------ MODULE ValueReg ------------------------------
(***************************************************************************)
(* C15 - the value attached to a key is an atomic register.                *)
(*                                                                         *)
(* This module is PURE (no variables): it is the sequential interpreter    *)
(* the property speaks about, in two layers.                               *)
(*                                                                         *)
(*  1. Apply(a, o, edge): the register semantics on DECODED values         *)
(*     (None or [fl, hd, pl] = flag byte, property header, payload) and    *)
(*     decoded operations.  This is the reference: SET/UNSET/INCR/APPEND/  *)
(*     SHIFT/PUSH/POP and PIPELINE = left-to-right fold of its sub-ops.    *)
(*     Enc/Dec map between decoded values and wire frames                  *)
(*       frame = LE32(len) . cmd . flag . [LE16(plen) . props] . payload   *)
(*     (protocol/command.go LockCommandData; a stored value always has     *)
(*     cmd = 0 = SET).  Bytes are modelled as integers 0..255, frames as   *)
(*     sequences of bytes, 64-bit numbers as 8 little-endian bytes with    *)
(*     byte-wise carry (TLC integers are 32 bit).                          *)
(*                                                                         *)
(*  2. Impl(v, f, edge, sw): the IMPLEMENTATION-SHAPED interpreter on raw  *)
(*     frames, transcribing the index arithmetic of                        *)
(*     server/lock.go ProcessLockData (lines 941-1167) case by case.  The  *)
(*     places where the code deviates from the reference are named         *)
(*     switches of the record sw:                                          *)
(*       sw.shift  SHIFT clamps its count against the length of the whole  *)
(*                 frame instead of the payload (lock.go:1043) and then    *)
(*                 indexes past the shortened buffer  => PANIC             *)
(*       sw.pipe   PIPELINE resets the register to the value before the    *)
(*                 pipeline in front of every sub-operation                *)
(*                 (lock.go:1087-1089; the guard compares the LOCK command *)
(*                 type with a DATA command type and is always true)       *)
(*       (not modelled: INCR with an operand that is not 8 bytes takes a   *)
(*       second code path, lock.go:1006-1019, which dereferences the nil   *)
(*       current value of an empty key and leaves the length prefix 0 on a *)
(*       value with properties - the monitor labels the panic, the value   *)
(*       is an open case)                                                  *)
(*       sw.pop    POP slices an item whose recorded length runs past the  *)
(*                 frame (possible after SHIFT/APPEND on an array value)   *)
(*                 => PANIC (lock.go:1143)                                 *)
(*     With every switch off Impl is what the code was meant to do; TLC    *)
(*     checks (ValueRegMC) that it then refines Apply for every operation  *)
(*     sequence of the model, and with a switch on it produces the         *)
(*     counterexamples that are replayed on the real code.                 *)
(*                                                                         *)
(* The trace specification spec/mon/MonValue.tla folds Apply over the      *)
(* histories recorded from the real LockDB.Lock/UnLock.                    *)
(***************************************************************************)
EXTENDS Integers, Sequences, FiniteSets, TLC, SequencesExt

-----------------------------------------------------------------------------
\* bytes

Bit(x, b)    == (x \div b) % 2 = 1
SetBit(x, b) == IF Bit(x, b) THEN x ELSE x + b
LE16(n) == <<n % 256, (n \div 256) % 256>>
LE32(n) == <<n % 256, (n \div 256) % 256, (n \div 65536) % 256, (n \div 16777216) % 256>>
BIG == 1000000000                      \* saturation value for 32-bit fields that do not fit TLC integers

\* little-endian 32-bit field at 1-based index i of s (saturating)
Rd32(s, i) == IF s[i + 3] # 0 \/ s[i + 2] >= 64 THEN BIG ELSE s[i] + 256 * s[i + 1] + 65536 * s[i + 2]

\* the count of SHIFT / POP: up to four payload bytes, missing bytes read as 0 (command.go:672-706)
BAt(pl, i) == IF i <= Len(pl) THEN pl[i] ELSE 0
RdUpTo4(pl) == IF BAt(pl, 4) # 0 \/ BAt(pl, 3) >= 64 THEN BIG ELSE BAt(pl, 1) + 256 * BAt(pl, 2) + 65536 * BAt(pl, 3)

\* 64-bit two's complement numbers as 8 LE bytes; a shorter payload is zero-extended (lock.go:1516-1532)
Z8 == <<0, 0, 0, 0, 0, 0, 0, 0>>
Num8(pl) == [i \in 1..8 |-> IF i <= Len(pl) THEN pl[i] ELSE 0]
RECURSIVE AddBytes(_, _, _, _)
AddBytes(a, b, i, c) == IF i > 8 THEN <<>>
                        ELSE LET s == a[i] + b[i] + c IN <<s % 256>> \o AddBytes(a, b, i + 1, s \div 256)
Add64(a, b) == AddBytes(a, b, 1, 0)    \* wraps modulo 2^64 exactly like int64 addition in Go

Min2(a, b) == IF a < b THEN a ELSE b

-----------------------------------------------------------------------------
\* frames

T_SET == 0  T_UNSET == 1  T_INCR == 2  T_APPEND == 3  T_SHIFT == 4  T_EXECUTE == 5  T_PIPELINE == 6  T_PUSH == 7  T_POP == 8
FL_NUMBER == 1  FL_ARRAY == 2  FL_KV == 4  FL_PROPS == 16  FL_EDGE == 32     \* FL_EDGE = PROCESS_FIRST_OR_LAST

\* 0-based offset of the payload (command.go:629-634)
Off(f) == IF Bit(f[6], FL_PROPS) THEN f[7] + 256 * f[8] + 8 ELSE 6
Payload(f) == SubSeq(f, Off(f) + 1, Len(f))
Header(f)  == SubSeq(f, 7, Off(f))            \* the property region including its 2-byte length; <<>> without properties
MkFrame(fl, hd, pl) == LE32(2 + Len(hd) + Len(pl)) \o <<0, fl>> \o hd \o pl

WellFormedFrame(f) == /\ Len(f) >= 6
                      /\ Rd32(f, 1) = Len(f) - 4
                      /\ Bit(f[6], FL_PROPS) => (Len(f) >= 8 /\ Off(f) <= Len(f))
\* a stored value: well-formed and cmd byte = SET
WellFormedValue(v) == v = <<>> \/ (WellFormedFrame(v) /\ v[5] = 0)

None == [none |-> TRUE]
Dec(v) == IF v = <<>> THEN None ELSE [fl |-> v[6], hd |-> Header(v), pl |-> Payload(v)]
Enc(a) == IF a = None THEN <<>> ELSE MkFrame(a.fl, a.hd, a.pl)
DecOp(f) == [t |-> f[5] % 64, st |-> f[5] \div 64, fl |-> f[6], hd |-> Header(f), pl |-> Payload(f)]

\* array payloads: LE32(len) . bytes, repeated; zero-length entries are skipped and an entry needs at
\* least one byte behind its length field (lock.go:1137-1145).  ok = FALSE when a recorded length
\* runs past the payload (the lenient reading drops the rest).
RECURSIVE ParseFrom(_, _)
ParseFrom(pl, j) ==
    IF j + 4 >= Len(pl) THEN [items |-> <<>>, ok |-> TRUE]
    ELSE LET n == Rd32(pl, j + 1) IN
         IF n = 0 THEN ParseFrom(pl, j + 4)
         ELSE IF j + 4 + n > Len(pl) THEN [items |-> <<>>, ok |-> FALSE]
         ELSE LET rest == ParseFrom(pl, j + 4 + n)
              IN [items |-> <<SubSeq(pl, j + 5, j + 4 + n)>> \o rest.items, ok |-> rest.ok]
ParseItems(pl) == ParseFrom(pl, 0)
EncItems(items) == FoldLeft(LAMBDA acc, it : acc \o LE32(Len(it)) \o it, <<>>, items)
DropFirst(s, n) == SubSeq(s, Min2(n, Len(s)) + 1, Len(s))

\* sub-frames of a pipeline payload (lock.go:1080-1092); a truncated tail ends the pipeline
RECURSIVE SplitFrom(_, _)
SplitFrom(pl, j) ==
    IF j + 4 > Len(pl) THEN <<>>
    ELSE LET n == Rd32(pl, j + 1) IN
         IF n < 2 \/ j + 4 + n > Len(pl) THEN <<>>
         ELSE <<SubSeq(pl, j + 1, j + 4 + n)>> \o SplitFrom(pl, j + 4 + n)
SubFrames(pl) == SplitFrom(pl, 0)

SetArr(x) == (x \div 8) * 8 + FL_ARRAY      \* (flag & 0xf8) | ARRAY

-----------------------------------------------------------------------------
\* 1. the reference interpreter on decoded values.
\*    edge: the request is the first hold of the key (lock) / releases the last hold with nobody
\*    queued (unlock) - consulted only by operations flagged FL_EDGE.
\*    pr: FALSE = the reference (pipelines fold left to right); TRUE = the pipeline reading of the
\*    code as written (used by the monitor only to CLASSIFY an observed deviation).

RECURSIVE ApplyG(_, _, _, _)
ApplyG(a, o, edge, pr) ==
    IF o.st # 0 THEN a                                   \* staged commands are not value operations
    ELSE IF Bit(o.fl, FL_EDGE) /\ ~edge THEN a
    ELSE CASE o.t = T_SET    -> [fl |-> o.fl, hd |-> o.hd, pl |-> o.pl]
           [] o.t = T_UNSET  -> None
           [] o.t = T_INCR   -> [fl |-> SetBit(o.fl, FL_NUMBER), hd |-> o.hd,
                                 pl |-> Add64(IF a = None THEN Z8 ELSE Num8(a.pl), Num8(o.pl))]
           [] o.t = T_APPEND -> IF a = None THEN [fl |-> o.fl, hd |-> o.hd, pl |-> o.pl]
                                ELSE [a EXCEPT !.pl = a.pl \o o.pl]
           [] o.t = T_SHIFT  -> LET n == RdUpTo4(o.pl) IN
                                IF a = None \/ n = 0 THEN a ELSE [a EXCEPT !.pl = DropFirst(a.pl, n)]
           [] o.t = T_PUSH   -> IF a = None \/ ~Bit(a.fl, FL_ARRAY)
                                THEN [fl |-> SetArr(o.fl), hd |-> o.hd, pl |-> LE32(Len(o.pl)) \o o.pl]
                                ELSE [fl |-> SetArr(a.fl), hd |-> a.hd, pl |-> a.pl \o LE32(Len(o.pl)) \o o.pl]
           [] o.t = T_POP    -> LET n == RdUpTo4(o.pl) IN
                                IF a = None \/ n = 0 \/ ~Bit(a.fl, FL_ARRAY) THEN a
                                ELSE [a EXCEPT !.pl = EncItems(DropFirst(ParseItems(a.pl).items, n))]
           [] o.t = T_PIPELINE ->
                  LET subs == SubFrames(o.pl)
                      step(acc, sf) == LET so == DecOp(sf)
                                           base == IF pr /\ so.t # T_EXECUTE THEN a ELSE acc
                                       IN ApplyG(base, so, edge, pr)
                  IN FoldLeft(step, a, subs)
           [] OTHER -> a

Apply(a, o, edge) == ApplyG(a, o, edge, FALSE)

\* frame-level convenience for the monitor
ApplyFrame(v, f, edge)      == Enc(ApplyG(Dec(v), DecOp(f), edge, FALSE))
ApplyFrameCoded(v, f, edge) == Enc(ApplyG(Dec(v), DecOp(f), edge, TRUE))

\* Inputs on which the statement fixes no result (the monitor adopts what the code reports):
\* INCR whose operand is not 8 bytes; POP on an array payload whose item lengths run past it.
RECURSIVE Agnostic(_, _)
Agnostic(a, o) ==
    \/ o.t = T_INCR /\ Len(o.pl) # 8
    \/ o.t = T_POP /\ a # None /\ Bit(a.fl, FL_ARRAY) /\ ~ParseItems(a.pl).ok
    \/ o.t = T_PIPELINE /\
          LET subs == SubFrames(o.pl)
              \* the value a sub-operation meets: the running value of the fold (either edge reading) or, in the
              \* pipeline reading of the code as written, the value before the pipeline
              Mid(i, e) == FoldLeft(LAMBDA acc, sf : ApplyG(acc, DecOp(sf), e, FALSE), a, SubSeq(subs, 1, i - 1))
          IN \E i \in 1..Len(subs) : \/ Agnostic(a, DecOp(subs[i]))
                                      \/ Agnostic(Mid(i, TRUE), DecOp(subs[i]))
                                      \/ Agnostic(Mid(i, FALSE), DecOp(subs[i]))

\* does the frame contain (possibly inside pipelines) an INCR whose operand is not 8 bytes?
RECURSIVE HasShortIncr(_)
HasShortIncr(f) ==
    LET t == f[5] % 64 IN
    \/ t = T_INCR /\ Len(Payload(f)) # 8
    \/ t = T_PIPELINE /\ \E i \in 1..Len(SubFrames(Payload(f))) : HasShortIncr(SubFrames(Payload(f))[i])

\* classification of an operation on which the real code panicked (for stable finding signatures)
RECURSIVE PanicClass(_, _)
PanicClass(a, o) ==
    CASE o.t = T_SHIFT /\ a # None /\ RdUpTo4(o.pl) > Len(a.pl) -> "shift-count-beyond-payload-length"
      [] o.t = T_INCR /\ Len(o.pl) # 8 /\ a = None -> "incr-short-operand-on-key-without-value"
      [] o.t = T_POP /\ a # None /\ Bit(a.fl, FL_ARRAY) /\ ~ParseItems(a.pl).ok -> "pop-on-array-with-overlong-item-length"
      [] o.t = T_PIPELINE ->
             LET subs == SubFrames(o.pl)
                 \* the code evaluates every sub-operation against the value before the pipeline
                 cls == {PanicClass(a, DecOp(subs[i])) : i \in 1..Len(subs)} \ {"other"}
             IN IF cls = {} THEN "other" ELSE CHOOSE c \in cls : TRUE
      [] OTHER -> "other"

-----------------------------------------------------------------------------
\* 2. the implementation-shaped interpreter on raw frames (server/lock.go:941-1167)

PANIC == <<-1>>
SwIntent == [shift |-> FALSE, pipe |-> FALSE, pop |-> FALSE]
SwCoded  == [shift |-> TRUE,  pipe |-> TRUE,  pop |-> TRUE]

\* the item scan of POP with absolute indexes, i 0-based (lock.go:1137-1145)
RECURSIVE ImplScan(_, _, _)
ImplScan(v, i, strict) ==
    IF i + 4 >= Len(v) THEN [items |-> <<>>, ok |-> TRUE]
    ELSE LET n == Rd32(v, i + 1) IN
         IF n = 0 THEN ImplScan(v, i + 4, strict)
         ELSE IF i + 4 + n > Len(v) THEN [items |-> <<>>, ok |-> ~strict]      \* strict: slice bounds panic
         ELSE LET rest == ImplScan(v, i + 4 + n, strict)
              IN [items |-> <<SubSeq(v, i + 5, i + 4 + n)>> \o rest.items, ok |-> rest.ok]

RECURSIVE Impl(_, _, _, _)
Impl(v, f, edge, sw) ==
    IF v = PANIC THEN PANIC
    ELSE LET t == f[5] % 64
             st == f[5] \div 64
             fo == Off(f)
             size == Len(f) - fo                     \* GetValueSize()
             fpl == SubSeq(f, fo + 1, Len(f))        \* GetBytesValue()
             has == v # <<>>                         \* currentData != nil && GetData() != nil
         IN
    IF st # 0 THEN v                                 \* lock.go:961-964 (EXECUTE is not modelled)
    ELSE IF Bit(f[6], FL_EDGE) /\ ~edge THEN v       \* lock.go:948-960
    ELSE CASE t = T_SET -> f                                                      \* :976 stores the request frame
           [] t = T_UNSET -> <<>>                                                 \* :991 (unset marker reads as no value)
           [] t = T_INCR ->                                                       \* :996-1005
                  IF size = 8
                  THEN SubSeq(f, 1, 4) \o <<0, SetBit(f[6], FL_NUMBER)>> \o SubSeq(f, 7, fo)
                       \o Add64(IF has THEN Num8(SubSeq(v, Off(v) + 1, Len(v))) ELSE Z8, fpl)
                  ELSE v                                                          \* not modelled (see Agnostic)
           [] t = T_APPEND ->                                                     \* :1025-1035
                  IF ~has THEN [f EXCEPT ![5] = 0]
                  ELSE LE32(Len(v) - 4 + size) \o <<0, v[6]>> \o SubSeq(v, 7, Len(v)) \o fpl
           [] t = T_SHIFT ->                                                      \* :1041-1054
                  LET n0 == RdUpTo4(fpl) IN
                  IF ~has \/ n0 = 0 THEN v
                  ELSE LET vo == Off(v)
                           lim == IF sw.shift THEN Len(v) ELSE Len(v) - vo         \* :1043 compares with len(data)
                           n == IF n0 > lim THEN lim ELSE n0
                           newLen == Len(v) - n
                       IN IF newLen < vo THEN PANIC                               \* data[4], data[valueOffset:] out of range
                          ELSE LE32(newLen - 4) \o <<0, v[6]>> \o SubSeq(v, 7, vo) \o SubSeq(v, vo + n + 1, Len(v))
           [] t = T_PUSH ->                                                       \* :1107-1128
                  IF ~has \/ ~Bit(v[6], FL_ARRAY)
                  THEN LE32(Len(f)) \o <<0, SetArr(f[6])>> \o SubSeq(f, 7, fo) \o LE32(size) \o fpl
                  ELSE LE32(Len(v) + size) \o <<0, SetArr(v[6])>> \o SubSeq(v, 7, Len(v)) \o LE32(size) \o fpl
           [] t = T_POP ->                                                        \* :1134-1160
                  LET n0 == RdUpTo4(fpl) IN
                  IF ~has \/ n0 = 0 \/ ~Bit(v[6], FL_ARRAY) THEN v
                  ELSE LET vo == Off(v)
                           sc == ImplScan(v, vo, sw.pop)
                           keep == DropFirst(sc.items, n0)
                           body == EncItems(keep)
                       IN IF ~sc.ok THEN PANIC
                          ELSE LE32(vo - 4 + Len(body)) \o SubSeq(v, 5, vo) \o body
           [] t = T_PIPELINE ->                                                   \* :1080-1092
                  LET subs == SubFrames(fpl)
                      step(acc, sf) == IF acc = PANIC THEN PANIC
                                       ELSE LET base == IF sw.pipe /\ sf[5] % 64 # T_EXECUTE THEN v ELSE acc
                                            IN Impl(base, sf, edge, sw)
                  IN FoldLeft(step, v, subs)
           [] OTHER -> v

=============================================================================

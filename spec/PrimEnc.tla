-------------------------------- MODULE PrimEnc --------------------------------
(***************************************************************************)
(* The ENCODING of the packaged client primitives onto the slock lock      *)
(* engine, exactly as client/*.go builds the requests, driving the         *)
(* operators of spec/LockEngine.tla (DoLock / DoUnlock / WakePass = the    *)
(* server's Lock / UnLock / wakeUpWaitLocks critical sections).            *)
(*                                                                         *)
(*   primitive            acquire request                release request   *)
(*   -------------------  -----------------------------  ----------------- *)
(*   Lock (lock.go)       own LockId, Count 0, Rcount 0  unlock own LockId *)
(*   RLock (rlock.go)     own LockId, Count 0, Rcount    unlock own LockId *)
(*                        0xff (= MaxDepth here)         Rcount 0xff       *)
(*   Semaphore(n)         FRESH LockId, Count n-1        unlock-FIRST,     *)
(*     (semaphore.go)                                    zero LockId       *)
(*   MaxConcurrentFlow(n) own LockId, Count n-1          unlock own LockId *)
(*     (flow.go)                                                           *)
(*   RWLock (rwlock.go)   reader: FRESH LockId, Count    unlock that id    *)
(*                        0xffff (= CMAX here);                            *)
(*                        writer: own LockId, Count 0                      *)
(*   PriorityLock         FRESH LockId, Count 0, Rcount  unlock that id    *)
(*     (prioritylock.go)  = priority, timeout flag                         *)
(*                        RCOUNT_IS_PRIORITY                               *)
(*   Event default-set    Clear = lock-UPDATE LockId=key Count 0;          *)
(*     (event.go)         Set = unlock LockId=key; Wait = lock FRESH id,   *)
(*                        Count 0, Expried 0 (granted without a hold)      *)
(*   Event default-clear  Set = lock-UPDATE LockId=key Count 1; Clear =    *)
(*                        unlock; Wait = lock FRESH id, Count 1, Expried 0,*)
(*                        timeout flag LOCK_WAIT_WHEN_UNLOCK               *)
(*                                                                         *)
(* TLC checks, for every interleaving of the calls of the processes, that  *)
(* the engine's admission rule (CanLock = db.go doLock) under these        *)
(* encodings implies the textbook rules of module Primitives.              *)
(*                                                                         *)
(* Named deviation modelled here (not in LockEngine): WaitWhenUnlocked,    *)
(* db.go:2179-2191 - a request carrying TIMEOUT_FLAG_LOCK_WAIT_WHEN_UNLOCK *)
(* queues when the key is NOT held.                                        *)
(*                                                                         *)
(* `beh` carries the calls of a behaviour; exported as JSON they are       *)
(* replayed call by call on the real client + server (seq mode of the      *)
(* driver), the recorded history is then judged by mon/MonPrim.            *)
(*                                                                         *)
(* TIME.  With ETicks # {} the clock moves: ETick(n, order) advances `now` *)
(* by n seconds, and for every elapsed second fires the due timeouts and   *)
(* the due expiries of LockEngine (FireTimeout / FireExpiry with their     *)
(* wake passes) in the given order - exactly what the sweeps of the server *)
(* do per second.  Every blocking call carries the timeout `eto`, every    *)
(* hold the expiry `eex` (the two arguments each client primitive is       *)
(* constructed with).  The callers' view follows the TEXTBOOK rule of      *)
(* module Primitives (a hold ends with its expiry; a release / Set / Clear *)
(* stays), and the invariants say that the engine agrees with it at every  *)
(* second: long holds, holds that lapse while held, waits that time out,   *)
(* waits granted after a long time in the queue.  Behaviours with ticks    *)
(* are replayed on the real server under a virtual clock (driver           *)
(* harness/inpkg/server/zz_verif_primv_test.go).                           *)
(***************************************************************************)
EXTENDS LockEngine, Primitives

CONSTANTS EKinds,      \* primitive kinds to explore
          ENs,         \* values of n (Semaphore / MaxConcurrentFlow)
          EProcs,      \* processes (goroutines), small ints
          EMaxOps,     \* acquire / wait calls per process
          EMaxRe,      \* re-entrant depth a process tries (RLock)
          CMAX,        \* models Count 0xffff
          EPrios,      \* priorities used by PriorityLock requests
          EMaxSteps,   \* bound on the number of calls of a behaviour
          EMinExport,  \* behaviours of at least this many calls are exported (simulation mode)
          ETimeouts,   \* TRUE: a queued Event.Wait may time out (doTimeOut + its wake pass); FALSE for the replay generator
          A24Fixed,    \* TRUE: the wake pass does not grant a wait-when-unlocked request while the key is unlocked
                       \*       (fix 23dcb06); FALSE: the tree between 9ca40d3 and 23dcb06 - exhibits finding A24
          ETOs,        \* timeouts (seconds) a behaviour's blocking calls may carry (one value per behaviour)
          EEXs,        \* expiries (seconds) a behaviour's holds may carry (one value per behaviour)
          ETicks,      \* lengths of the clock steps, {} = the clock stands still (the untimed configurations)
          EMaxNow      \* clock bound

VARIABLES ekind, en, pc, evs, bad, beh, eto, eex
evars == <<ks, now, reqs, out, hist, turn, role, nrc, ekind, en, pc, evs, bad, beh, eto, eex>>
eview == <<ks, now, ekind, en, pc, evs, bad, eto, eex>>

EVLID == 99            \* Event: the LockId of the set/clear hold is the event key itself
TO == eto              \* every blocking call waits this long; every hold lasts EX (timers fire in ETick only)
EX == eex

K == CHOOSE k \in Keys : TRUE
S0 == ks[K]

\* t: second of the last successful acquisition (it renews the hold), tc: second of the call in flight,
\* lapsed: the last hold ended by its expiry (not by a release)
\* stale: an RWLock READER hold of this process lapsed without RUnlock.  client/rwlock.go keeps the reader LockIds of one
\* RWLock object in a FIFO that expiry does not prune, and RUnlock releases the OLDEST remembered id: after such a lapse the
\* next RUnlock names the lapsed id (UNOWN_ERROR) and the live reader hold stays.  The textbook object has no counterpart
\* of that state, so the programs explored here do not call RUnlock on such an object (named deviation RWStaleReader).
PC0 == [st |-> "idle", depth |-> 0, rl |-> "x", prio |-> 0, pend |-> 0, ops |-> 0, lid |-> 0, last |-> "none",
        t |-> 0, tc |-> 0, lapsed |-> FALSE, stale |-> FALSE]

EInit == /\ ks = [k \in Keys |-> EmptyKey] /\ now = 0 /\ reqs = <<>> /\ out = <<>> /\ hist = <<>>
         /\ turn = "any" /\ role = "leader" /\ nrc = 0
         /\ ekind \in EKinds
         /\ en \in (IF ekind \in {"sem", "flow"} THEN ENs ELSE {1})       \* n matters for Semaphore / MaxConcurrentFlow only
         /\ pc = [p \in EProcs |-> PC0]
         /\ evs = [last |-> "none", t |-> 0]       \* textbook event: the last Set / Clear call and its second
         /\ bad = {} /\ beh = <<>>
         /\ eto \in ETOs /\ eex \in EEXs

IsEvent == ekind \in {"event_set", "event_clear"}

-----------------------------------------------------------------------------
\* the encodings (client/*.go)

FreshLid(id) == 100 + id

AcqLid(p, rl, id) ==
    CASE ekind \in {"lock", "rlock", "flow"} -> p
      [] ekind = "rw" -> IF rl = "w" THEN p ELSE FreshLid(id)
      [] OTHER -> FreshLid(id)

AcqCnt(rl) ==
    CASE ekind \in {"sem", "flow"} -> en - 1                       \* NewSemaphore / NewMaxConcurrentFlow: count - 1
      [] ekind = "rw" -> IF rl = "w" THEN 0 ELSE CMAX            \* rwlock.go: readers 0xffff, writer 0
      [] OTHER -> 0

AcqRc(pr) ==
    CASE ekind = "rlock" -> MaxDepth                              \* rlock.go: Rcount 0xff
      [] ekind = "prio" -> pr                                     \* prioritylock.go: Rcount = priority
      [] OTHER -> 0

AcqReq(id, p, rl, pr) ==
    ReqRec(id, "L", K, AcqLid(p, rl, id), AcqCnt(rl), AcqRc(pr), TO, EX, IF ekind = "prio" THEN "prio" ELSE "")

RelReq(id, p) ==
    IF ekind = "sem"
    THEN ReqRec(id, "U", K, 0, 0, 0, 0, 0, "first")               \* semaphore.go Release: UnlockHead, zero LockId
    ELSE [ReqRec(id, "U", K, pc[p].lid, 0, AcqRc(pc[p].prio), 0, 0, "") EXCEPT !.pflag = (ekind = "prio")]

\* WaitWhenUnlocked (db.go:2179-2191): with the flag, a request on a key that is NOT held queues
DoLockX(S, r, t, wul) ==
    IF wul /\ Locked(S) = 0
    THEN IF S.waited /\ r.cnt = 0
         THEN [S |-> S, out |-> <<Reply(r.id, UNOWN_ERROR, S, r.lid)>>]
         ELSE IF r.to > 0
         THEN [S |-> Enqueue(S, [id |-> r.id, lid |-> r.lid, cnt |-> r.cnt, rc |-> r.rc, pflag |-> r.pflag, prio |-> r.prio,
                                  ex |-> r.ex, unl |-> r.unl, tot |-> t + r.to + 1, dead |-> FALSE]), out |-> <<>>]
         ELSE [S |-> S, out |-> <<Reply(r.id, TIMEOUT, S, r.lid)>>]
    ELSE DoLock(S, r, t)

-----------------------------------------------------------------------------
\* delivery of the replies of one critical section (run at second t) to the blocked callers

\* a TIMEOUT answer to a call that has waited its whole timeout is what the caller asked for - not a refusal
FullWait(P, q, o, t) == o.res = TIMEOUT /\ t - P[q].tc >= eto

Deliver(P, O, t) ==
    [q \in EProcs |->
        IF P[q].pend = 0 THEN P[q]
        ELSE LET mine == SelectSeq(O, LAMBDA o : o.rid = P[q].pend)
             IN IF mine = <<>> THEN P[q]
                ELSE IF mine[1].res = SUCCED
                THEN IF IsEvent THEN [P[q] EXCEPT !.pend = 0, !.last = "ok"]                   \* Wait returned
                     ELSE [P[q] EXCEPT !.pend = 0, !.st = "held", !.depth = @ + 1, !.last = "ok", !.t = t, !.lapsed = FALSE]
                ELSE [P[q] EXCEPT !.pend = 0, !.st = IF @ = "held" THEN "held" ELSE "idle",
                                  !.last = IF FullWait(P, q, mine[1], t) THEN "timeout" ELSE "fail"]]

Refused(P, O, t) == {q \in EProcs : P[q].pend # 0 /\ \E j \in 1..Len(O) : O[j].rid = P[q].pend /\ O[j].res # SUCCED
                                                                          /\ ~FullWait(P, q, O[j], t)}

\* the textbook rule of time on the callers' side: a hold ends with its expiry (the engine ends a hold taken at
\* second t in its sweep of second t + ex + 1; Primitives!PrimLive / PrimGone bracket that second)
ExpireView(P, t) ==
    [q \in EProcs |-> IF P[q].st = "held" /\ t > P[q].t + eex
                      THEN [P[q] EXCEPT !.st = "idle", !.depth = 0, !.lapsed = TRUE,
                                        !.stale = @ \/ (ekind = "rw" /\ P[q].rl = "r")] ELSE P[q]]

Common(res, r, step) ==
    /\ ks' = [ks EXCEPT ![K] = res.S]
    /\ out' = res.out
    /\ reqs' = Append(reqs, r)
    /\ beh' = Append(beh, step)
    /\ UNCHANGED <<now, hist, turn, role, nrc, ekind, en, eto, eex>>

AcqCall(p, rl, pr) ==
    /\ ~IsEvent /\ Len(beh) < EMaxSteps
    /\ pc[p].pend = 0 /\ pc[p].ops < EMaxOps
    /\ pc[p].st = "idle" \/ (ekind = "rlock" /\ pc[p].depth < EMaxRe)
    /\ ekind = "rw" => rl \in {"r", "w"}
    /\ ekind # "rw" => rl = "x"
    /\ IF ekind = "prio" THEN pr \in EPrios ELSE pr = 0
    /\ pc[p].st = "held" => rl = pc[p].rl /\ pr = pc[p].prio
    /\ LET id  == Len(reqs) + 1
           r   == AcqReq(id, p, rl, pr)
           res == DoLockX(S0, r, now, FALSE)
           P1  == [pc EXCEPT ![p] = [@ EXCEPT !.pend = id, !.ops = @ + 1, !.rl = rl, !.prio = pr, !.lid = r.lid, !.tc = now]]
       IN /\ Common(res, r, [op |-> "acq", p |-> p, role |-> rl, prio |-> pr, n |-> 0, order |-> ""])
          /\ pc' = Deliver(P1, res.out, now)
          /\ bad' = bad \cup {<<"acquire-refused", q>> : q \in Refused(P1, res.out, now)}
          /\ UNCHANGED evs

\* Semaphore units are anonymous: Release (unlock-first) ends the OLDEST hold of the key, so the caller that
\* releases hands the age of its own unit to the holder of the oldest one
OldestHolder == CHOOSE q \in {x \in EProcs : pc[x].st = "held"} : \A y \in {x \in EProcs : pc[x].st = "held"} : pc[q].t <= pc[y].t

RelCall(p) ==
    /\ ~IsEvent /\ Len(beh) < EMaxSteps
    /\ pc[p].pend = 0 /\ pc[p].st = "held"
    /\ ~(ekind = "rw" /\ pc[p].rl = "r" /\ pc[p].stale)            \* RWStaleReader (see PC0)
    /\ LET id  == Len(reqs) + 1
           r   == RelReq(id, p)
           res == DoUnlock(S0, r, now)
           own == SelectSeq(res.out, LAMBDA o : o.rid = id)
           okk == own # <<>> /\ own[1].res = SUCCED
           P0  == IF ekind = "sem" THEN [pc EXCEPT ![OldestHolder].t = pc[p].t] ELSE pc
           P1  == IF okk THEN [P0 EXCEPT ![p] = [@ EXCEPT !.depth = @ - 1, !.st = IF pc[p].depth = 1 THEN "idle" ELSE "held"]]
                  ELSE pc
       IN /\ Common(res, r, [op |-> "rel", p |-> p, role |-> pc[p].rl, prio |-> pc[p].prio, n |-> 0, order |-> ""])
          /\ pc' = Deliver(P1, res.out, now)
          /\ bad' = bad \cup (IF okk THEN {} ELSE {<<"release-refused", p>>})
                        \cup {<<"acquire-refused", q>> : q \in Refused(P1, res.out, now)}
          /\ UNCHANGED evs

\* Event (event.go).  The controller calls are complete client calls (Clear / Set treat the "already in that
\* state" replies as success).
EvHoldReq(id) == ReqRec(id, "L", K, EVLID, IF ekind = "event_set" THEN 0 ELSE 1, 0, TO, EX, "update")
EvDropReq(id) == ReqRec(id, "U", K, EVLID, 0, 0, 0, 0, "")

EvCall(p, which) ==
    /\ IsEvent /\ Len(beh) < EMaxSteps
    /\ pc[p].pend = 0 /\ pc[p].ops < EMaxOps
    /\ which \in {"set", "clear"}
    /\ LET id   == Len(reqs) + 1
           hold == (ekind = "event_set") = (which = "clear")      \* this call takes the hold (else it drops it)
           r    == IF hold THEN EvHoldReq(id) ELSE EvDropReq(id)
           res  == IF hold THEN DoLockX(S0, r, now, FALSE) ELSE DoUnlock(S0, r, now)
           own  == SelectSeq(res.out, LAMBDA o : o.rid = id)
           okk  == own # <<>> /\ own[1].res \in (IF hold THEN {SUCCED, LOCKED_ERROR} ELSE {SUCCED, UNLOCK_ERROR})
       IN /\ Common(res, r, [op |-> which, p |-> p, role |-> "x", prio |-> 0, n |-> 0, order |-> ""])
          /\ pc' = Deliver([pc EXCEPT ![p].ops = @ + 1], res.out, now)
          /\ evs' = [last |-> which, t |-> now]
          /\ bad' = bad \cup (IF okk THEN {} ELSE {<<"event-call-refused", p>>})

WaitCall(p) ==
    /\ IsEvent /\ Len(beh) < EMaxSteps
    /\ pc[p].pend = 0 /\ pc[p].ops < EMaxOps
    /\ LET id  == Len(reqs) + 1
           r   == ReqRec(id, "L", K, FreshLid(id), IF ekind = "event_set" THEN 0 ELSE 1, 0, TO, 0, "")
           res == DoLockX(S0, r, now, ekind = "event_clear")
           P1  == [pc EXCEPT ![p] = [@ EXCEPT !.pend = id, !.ops = @ + 1, !.tc = now]]
       IN /\ Common(res, r, [op |-> "wait", p |-> p, role |-> "x", prio |-> 0, n |-> 0, order |-> ""])
          /\ pc' = Deliver(P1, res.out, now)
          /\ bad' = bad \cup {<<"wait-refused", q>> : q \in Refused(P1, res.out, now)}
          /\ UNCHANGED evs

\* A queued request times out (db.go doTimeOut): the request leaves the queue, is answered TIMEOUT, and the wake
\* pass runs (fix 9ca40d3).  wakeUpWaitLocks (fix 23dcb06, A24Fixed) stops at a head waiter that carries
\* LOCK_WAIT_WHEN_UNLOCK while the key is unlocked - every default-clear Wait carries it.
WaitTimeoutOp(S, i, t) ==
    LET w  == S.W[i]
        S1 == [S EXCEPT !.W[i].dead = TRUE]
        S2 == IF LiveIdx(S1.W) = {} THEN [S1 EXCEPT !.W = <<>>, !.waited = FALSE] ELSE [S1 EXCEPT !.W = Purge(@)]
        o  == << [Reply(w.id, TIMEOUT, S2, w.lid) EXCEPT !.lrc = 0] >>
    IN IF A24Fixed /\ ekind = "event_clear" /\ Locked(S2) = 0 THEN [S |-> S2, out |-> o] ELSE WakePass(S2, t, o)

\* untimed abstraction (ETimeouts): a queued Event.Wait may time out at any moment
WaitTimeout(p) ==
    /\ ETimeouts /\ IsEvent /\ pc[p].pend # 0
    /\ \E i \in LiveIdx(S0.W) :
          /\ S0.W[i].id = pc[p].pend
          /\ LET res == WaitTimeoutOp(S0, i, now) IN
                /\ ks' = [ks EXCEPT ![K] = res.S] /\ out' = res.out
                /\ pc' = Deliver(pc, res.out, now)
    /\ UNCHANGED <<now, reqs, hist, turn, role, nrc, ekind, en, evs, bad, beh, eto, eex>>

-----------------------------------------------------------------------------
\* the clock.  One second = the timeout sweep and the expiry sweep of that second, each firing what is due, one
\* critical section (with its wake pass) at a time; `order` says which sweep runs first ("te" / "et": the server
\* runs them on two goroutines).  sp = [S, P, O, B]: key state, callers, replies of the step, refusals seen.

RECURSIVE SweepTO(_, _), SweepEX(_, _), Seconds(_, _, _, _)
SweepTO(sp, s) ==
    LET D == {i \in LiveIdx(sp.S.W) : sp.S.W[i].tot <= s} IN
    IF D = {} THEN sp
    ELSE LET res == WaitTimeoutOp(sp.S, Min(D), s)
         IN SweepTO([S |-> res.S, P |-> Deliver(sp.P, res.out, s), O |-> sp.O \o res.out,
                     B |-> sp.B \cup {<<"acquire-refused", q>> : q \in Refused(sp.P, res.out, s)}], s)
SweepEX(sp, s) ==
    LET D == {i \in 1..Len(sp.S.H) : sp.S.H[i].next <= s} IN
    IF D = {} THEN sp
    ELSE LET res == FireExpiryOp(sp.S, Min(D), s)
         IN SweepEX([S |-> res.S, P |-> Deliver(sp.P, res.out, s), O |-> sp.O \o res.out,
                     B |-> sp.B \cup {<<"acquire-refused", q>> : q \in Refused(sp.P, res.out, s)}], s)
\* (only the seconds in which something is due are visited: in the others both sweeps find nothing)
DueSeconds(S, s, last) == {S.W[i].tot : i \in LiveIdx(S.W)} \cup {S.H[i].next : i \in 1..Len(S.H)}
NextDue(S, s, last) == LET D == {d \in DueSeconds(S, s, last) : d <= last} IN IF D = {} THEN last + 1 ELSE Max({s, Min(D)})
Seconds(sp, s, last, order) ==
    LET d == NextDue(sp.S, s, last) IN
    IF d > last THEN [sp EXCEPT !.P = ExpireView(@, last)]
    ELSE LET a == IF order = "te" THEN SweepEX(SweepTO(sp, d), d) ELSE SweepTO(SweepEX(sp, d), d)
         IN Seconds([a EXCEPT !.P = ExpireView(@, d)], d + 1, last, order)

ETick(n, order) ==
    /\ n \in ETicks /\ now + n <= EMaxNow /\ Len(beh) < EMaxSteps
    \* generator mode only (behaviours are exported): two ticks in a row are one longer tick, a behaviour starts
    \* with a call.  (Exhaustive mode: `beh` is outside the VIEW, so nothing there may depend on it.)
    /\ EMinExport <= EMaxSteps => beh # <<>> /\ beh[Len(beh)].op # "tick"
    /\ LET sp == Seconds([S |-> S0, P |-> pc, O |-> <<>>, B |-> {}], now + 1, now + n, order) IN
          /\ ks' = [ks EXCEPT ![K] = sp.S] /\ out' = sp.O /\ pc' = sp.P /\ bad' = bad \cup sp.B
          /\ now' = now + n
          /\ beh' = Append(beh, [op |-> "tick", p |-> 0, role |-> "x", prio |-> 0, n |-> n, order |-> order])
    /\ UNCHANGED <<reqs, hist, turn, role, nrc, ekind, en, evs, eto, eex>>

EStep == \/ \E p \in EProcs : WaitTimeout(p)
         \/ \E p \in EProcs, rl \in {"x", "r", "w"}, pr \in EPrios \cup {0} : AcqCall(p, rl, pr)
         \/ \E p \in EProcs : RelCall(p) \/ WaitCall(p)
         \/ \E p \in EProcs, which \in {"set", "clear"} : EvCall(p, which)
         \/ \E n \in ETicks, order \in {"te", "et"} : ETick(n, order)

ESpec == EInit /\ [][EStep]_evars

-----------------------------------------------------------------------------
\* the textbook view of an engine state

Held == {p \in EProcs : pc[p].st = "held"}
HAbs == [p \in Held |-> [rl |-> pc[p].rl, depth |-> pc[p].depth]]
HAbsOf(P) == [p \in {q \in EProcs : P[q].st = "held"} |-> [rl |-> P[p].rl, depth |-> P[p].depth]]
Waiting(P) == {p \in EProcs : P[p].pend # 0}

EvDefSet   == PrimEvDefSet(ekind, evs.last, evs.t, eex, now)
EvDefClear == PrimEvDefClear(ekind, evs.last, evs.t, eex, now)

\* C19 on the model -----------------------------------------------------------

\* the holders the callers know about satisfy the textbook state predicate
EncStateOK == PrimStateOK(ekind, en, HAbs)

\* engine and callers agree on the number of outstanding units at every second ("as many unlocks as locks";
\* a released unit is free again; a hold that lapsed gave its unit back)
EncUnitsExact == ~IsEvent => Locked(S0) = PrimUnits(HAbs)

\* no call of a textbook-legal program is refused (re-entry by the holder, release by a holder whose hold has not
\* lapsed, set / clear; a TIMEOUT after the whole timeout is not a refusal)
EncNothingRefused == bad = {}

\* a blocked acquire is never admissible at once by the permissive halves of the statement, and nobody is blocked
\* while the object is free for all of the blocked requests
EncNoLostAdmission ==
    ~IsEvent => /\ \A p \in Waiting(pc) :
                    /\ ~PrimMustAdmit(ekind, p, pc[p].rl, HAbs, \E q \in Waiting(pc) \ {p} : pc[q].rl = "w")
                    /\ Held # {}                                   \* (model only: sequential atomicity has no pending wake pass)
                /\ ~PrimSomeoneMustBeAdmitted(ekind, en, {[g |-> p, rl |-> pc[p].rl] : p \in Waiting(pc)}, HAbs)

\* Event.Wait is blocked only while the event is clear, i.e. it returns only once the event is set
EncWaitBlockedOnlyWhenClear == IsEvent => (EvDefSet => Waiting(pc) = {})

\* the two-sided textbook bracket of a hold's end (Primitives!PrimLive / PrimGone) contains the second in which
\* the engine ends it: what the trace monitor may assume about a hold it cannot see
EncLiveBracket ==
    \A p \in EProcs : /\ pc[p].st = "held" => ~PrimGone(pc[p].t, eex, now)
                      /\ pc[p].lapsed /\ pc[p].st = "idle" => ~PrimLive(pc[p].t, eex, now)

\* every grant of a step is admissible by the textbook rule with respect to the other holders
NewlyGranted == {p \in EProcs : pc'[p].depth > pc[p].depth}
EncGrantAdmissible ==
    \A p \in NewlyGranted :
        PrimAdmissible(ekind, en, p, pc'[p].rl, PrimDrop(HAbsOf(pc'), p))

\* PriorityLock: whoever is granted in a step has at least the priority of every request that was waiting
\* before the step and is still waiting after it
EncHandOver ==
    ekind = "prio" =>
        \A p \in NewlyGranted :
            PrimHandOverOK(pc'[p].prio, {pc[q].prio : q \in (Waiting(pc) \cap Waiting(pc')) \ {p}})

\* Event.Wait returns (SUCCED) only in a step after which the event is not definitely clear
EncWaitReturnsOnlyWhenSet ==
    IsEvent => \A p \in EProcs : (pc[p].pend # 0 /\ pc'[p].pend = 0 /\ pc'[p].last = "ok") => ~EvDefClear'
EncWaitImmediateOnlyWhenSet ==
    IsEvent => \A p \in EProcs : (pc[p].pend = 0 /\ pc'[p].ops > pc[p].ops /\ pc'[p].pend = 0 /\ pc'[p].last = "ok" /\ Len(beh') > Len(beh) /\ beh'[Len(beh')].op = "wait") => ~EvDefClear

EncActionProps == [][EncGrantAdmissible /\ EncHandOver /\ EncWaitReturnsOnlyWhenSet /\ EncWaitImmediateOnlyWhenSet]_evars

-----------------------------------------------------------------------------
\* behaviour export (simulation mode)

EncExport == (Len(beh) >= EMinExport) => PrintT("BEHAVIOUR " \o ToJson([kind |-> ekind, n |-> en, to |-> eto, ex |-> eex, steps |-> beh]))

=============================================================================

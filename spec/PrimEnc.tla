-------------------------------- MODULE PrimEnc --------------------------------
(***************************************************************************)
(* The ENCODING of the packaged client primitives onto the slock lock      *)
(* engine, exactly as client/*.go builds the requests, driving the         *)
(* operators of spec/LockEngine.tla (DoLock / DoUnlock / WakePass = the    *)
(* server's Lock / UnLock / wakeUpWaitLocks critical sections).            *)
(*                                                                         *)
(*   primitive            acquire request                release request   *)
(*   -------------------  -----------------------------  ----------------- *)
(*   Lock (lock.go)       own LockId, Count 0, Rcount 0  unlock own LockId *)
(*   RLock (rlock.go)     own LockId, Count 0, Rcount    unlock own LockId *)
(*                        0xff (= MaxDepth here)         Rcount 0xff       *)
(*   Semaphore(n)         FRESH LockId, Count n-1        unlock-FIRST,     *)
(*     (semaphore.go)                                    zero LockId       *)
(*   MaxConcurrentFlow(n) own LockId, Count n-1          unlock own LockId *)
(*     (flow.go)                                                           *)
(*   RWLock (rwlock.go)   reader: FRESH LockId, Count    unlock that id    *)
(*                        0xffff (= CMAX here);                            *)
(*                        writer: own LockId, Count 0                      *)
(*   PriorityLock         FRESH LockId, Count 0, Rcount  unlock that id    *)
(*     (prioritylock.go)  = priority, timeout flag                         *)
(*                        RCOUNT_IS_PRIORITY                               *)
(*   Event default-set    Clear = lock-UPDATE LockId=key Count 0;          *)
(*     (event.go)         Set = unlock LockId=key; Wait = lock FRESH id,   *)
(*                        Count 0, Expried 0 (granted without a hold)      *)
(*   Event default-clear  Set = lock-UPDATE LockId=key Count 1; Clear =    *)
(*                        unlock; Wait = lock FRESH id, Count 1, Expried 0,*)
(*                        timeout flag LOCK_WAIT_WHEN_UNLOCK               *)
(*                                                                         *)
(* TLC checks, for every interleaving of the calls of the processes, that  *)
(* the engine's admission rule (CanLock = db.go doLock) under these        *)
(* encodings implies the textbook rules of module Primitives.              *)
(*                                                                         *)
(* Named deviation modelled here (not in LockEngine): WaitWhenUnlocked,    *)
(* db.go:2179-2191 - a request carrying TIMEOUT_FLAG_LOCK_WAIT_WHEN_UNLOCK *)
(* queues when the key is NOT held.                                        *)
(*                                                                         *)
(* `beh` carries the calls of a behaviour; exported as JSON they are       *)
(* replayed call by call on the real client + server (seq mode of the      *)
(* driver), the recorded history is then judged by mon/MonPrim.            *)
(***************************************************************************)
EXTENDS LockEngine, Primitives

CONSTANTS EKinds,      \* primitive kinds to explore
          ENs,         \* values of n (Semaphore / MaxConcurrentFlow)
          EProcs,      \* processes (goroutines), small ints
          EMaxOps,     \* acquire / wait calls per process
          EMaxRe,      \* re-entrant depth a process tries (RLock)
          CMAX,        \* models Count 0xffff
          EPrios,      \* priorities used by PriorityLock requests
          EMaxSteps,   \* bound on the number of calls of a behaviour
          EMinExport,  \* behaviours of at least this many calls are exported (simulation mode)
          ETimeouts,   \* TRUE: a queued Event.Wait may time out (doTimeOut + its wake pass); FALSE for the replay generator
          A24Fixed     \* TRUE: the wake pass does not grant a wait-when-unlocked request while the key is unlocked
                       \*       (fix 23dcb06); FALSE: the tree between 9ca40d3 and 23dcb06 - exhibits finding A24

VARIABLES ekind, en, pc, evs, bad, beh
evars == <<ks, now, reqs, out, hist, turn, role, nrc, ekind, en, pc, evs, bad, beh>>
eview == <<ks, ekind, en, pc, evs, bad>>

EVLID == 99            \* Event: the LockId of the set/clear hold is the event key itself
TO == 5                \* every blocking call waits (no timer fires in this model)
EX == 5

K == CHOOSE k \in Keys : TRUE
S0 == ks[K]

PC0 == [st |-> "idle", depth |-> 0, rl |-> "x", prio |-> 0, pend |-> 0, ops |-> 0, lid |-> 0, last |-> "none"]

EInit == /\ ks = [k \in Keys |-> EmptyKey] /\ now = 0 /\ reqs = <<>> /\ out = <<>> /\ hist = <<>>
         /\ turn = "any" /\ role = "leader" /\ nrc = 0
         /\ ekind \in EKinds
         /\ en \in (IF ekind \in {"sem", "flow"} THEN ENs ELSE {1})       \* n matters for Semaphore / MaxConcurrentFlow only
         /\ pc = [p \in EProcs |-> PC0]
         /\ evs = (ekind # "event_clear")          \* textbook event state: default-set starts set
         /\ bad = {} /\ beh = <<>>

IsEvent == ekind \in {"event_set", "event_clear"}

-----------------------------------------------------------------------------
\* the encodings (client/*.go)

FreshLid(id) == 100 + id

AcqLid(p, rl, id) ==
    CASE ekind \in {"lock", "rlock", "flow"} -> p
      [] ekind = "rw" -> IF rl = "w" THEN p ELSE FreshLid(id)
      [] OTHER -> FreshLid(id)

AcqCnt(rl) ==
    CASE ekind \in {"sem", "flow"} -> en - 1                       \* NewSemaphore / NewMaxConcurrentFlow: count - 1
      [] ekind = "rw" -> IF rl = "w" THEN 0 ELSE CMAX            \* rwlock.go: readers 0xffff, writer 0
      [] OTHER -> 0

AcqRc(pr) ==
    CASE ekind = "rlock" -> MaxDepth                              \* rlock.go: Rcount 0xff
      [] ekind = "prio" -> pr                                     \* prioritylock.go: Rcount = priority
      [] OTHER -> 0

AcqReq(id, p, rl, pr) ==
    ReqRec(id, "L", K, AcqLid(p, rl, id), AcqCnt(rl), AcqRc(pr), TO, EX, IF ekind = "prio" THEN "prio" ELSE "")

RelReq(id, p) ==
    IF ekind = "sem"
    THEN ReqRec(id, "U", K, 0, 0, 0, 0, 0, "first")               \* semaphore.go Release: UnlockHead, zero LockId
    ELSE [ReqRec(id, "U", K, pc[p].lid, 0, AcqRc(pc[p].prio), 0, 0, "") EXCEPT !.pflag = (ekind = "prio")]

\* WaitWhenUnlocked (db.go:2179-2191): with the flag, a request on a key that is NOT held queues
DoLockX(S, r, t, wul) ==
    IF wul /\ Locked(S) = 0
    THEN IF S.waited /\ r.cnt = 0
         THEN [S |-> S, out |-> <<Reply(r.id, UNOWN_ERROR, S, r.lid)>>]
         ELSE IF r.to > 0
         THEN [S |-> Enqueue(S, [id |-> r.id, lid |-> r.lid, cnt |-> r.cnt, rc |-> r.rc, pflag |-> r.pflag, prio |-> r.prio,
                                  ex |-> r.ex, unl |-> r.unl, tot |-> t + r.to + 1, dead |-> FALSE]), out |-> <<>>]
         ELSE [S |-> S, out |-> <<Reply(r.id, TIMEOUT, S, r.lid)>>]
    ELSE DoLock(S, r, t)

-----------------------------------------------------------------------------
\* delivery of the replies of one critical section to the blocked callers

Deliver(P, O) ==
    [q \in EProcs |->
        IF P[q].pend = 0 THEN P[q]
        ELSE LET mine == SelectSeq(O, LAMBDA o : o.rid = P[q].pend)
             IN IF mine = <<>> THEN P[q]
                ELSE IF mine[1].res = SUCCED
                THEN IF IsEvent THEN [P[q] EXCEPT !.pend = 0, !.last = "ok"]                   \* Wait returned
                     ELSE [P[q] EXCEPT !.pend = 0, !.st = "held", !.depth = @ + 1, !.last = "ok"]
                ELSE [P[q] EXCEPT !.pend = 0, !.st = IF @ = "held" THEN "held" ELSE "idle", !.last = "fail"]]

Refused(P, O) == {q \in EProcs : P[q].pend # 0 /\ \E j \in 1..Len(O) : O[j].rid = P[q].pend /\ O[j].res # SUCCED}

Common(res, r, step) ==
    /\ ks' = [ks EXCEPT ![K] = res.S]
    /\ out' = res.out
    /\ reqs' = Append(reqs, r)
    /\ beh' = Append(beh, step)
    /\ UNCHANGED <<now, hist, turn, role, nrc, ekind, en>>

AcqCall(p, rl, pr) ==
    /\ ~IsEvent /\ Len(beh) < EMaxSteps
    /\ pc[p].pend = 0 /\ pc[p].ops < EMaxOps
    /\ pc[p].st = "idle" \/ (ekind = "rlock" /\ pc[p].depth < EMaxRe)
    /\ ekind = "rw" => rl \in {"r", "w"}
    /\ ekind # "rw" => rl = "x"
    /\ IF ekind = "prio" THEN pr \in EPrios ELSE pr = 0
    /\ pc[p].st = "held" => rl = pc[p].rl /\ pr = pc[p].prio
    /\ LET id  == Len(reqs) + 1
           r   == AcqReq(id, p, rl, pr)
           res == DoLockX(S0, r, now, FALSE)
           P1  == [pc EXCEPT ![p] = [@ EXCEPT !.pend = id, !.ops = @ + 1, !.rl = rl, !.prio = pr, !.lid = r.lid]]
       IN /\ Common(res, r, [op |-> "acq", p |-> p, role |-> rl, prio |-> pr])
          /\ pc' = Deliver(P1, res.out)
          /\ bad' = bad \cup {<<"acquire-refused", q>> : q \in Refused(P1, res.out)}
          /\ UNCHANGED evs

RelCall(p) ==
    /\ ~IsEvent /\ Len(beh) < EMaxSteps
    /\ pc[p].pend = 0 /\ pc[p].st = "held"
    /\ LET id  == Len(reqs) + 1
           r   == RelReq(id, p)
           res == DoUnlock(S0, r, now)
           own == SelectSeq(res.out, LAMBDA o : o.rid = id)
           okk == own # <<>> /\ own[1].res = SUCCED
           P1  == IF okk THEN [pc EXCEPT ![p] = [@ EXCEPT !.depth = @ - 1, !.st = IF pc[p].depth = 1 THEN "idle" ELSE "held"]]
                  ELSE pc
       IN /\ Common(res, r, [op |-> "rel", p |-> p, role |-> pc[p].rl, prio |-> pc[p].prio])
          /\ pc' = Deliver(P1, res.out)
          /\ bad' = bad \cup (IF okk THEN {} ELSE {<<"release-refused", p>>})
                        \cup {<<"acquire-refused", q>> : q \in Refused(P1, res.out)}
          /\ UNCHANGED evs

\* Event (event.go).  The controller calls are complete client calls (Clear / Set treat the "already in that
\* state" replies as success).
EvHoldReq(id) == ReqRec(id, "L", K, EVLID, IF ekind = "event_set" THEN 0 ELSE 1, 0, TO, EX, "update")
EvDropReq(id) == ReqRec(id, "U", K, EVLID, 0, 0, 0, 0, "")

EvCall(p, which) ==
    /\ IsEvent /\ Len(beh) < EMaxSteps
    /\ pc[p].pend = 0 /\ pc[p].ops < EMaxOps
    /\ which \in {"set", "clear"}
    /\ LET id   == Len(reqs) + 1
           hold == (ekind = "event_set") = (which = "clear")      \* this call takes the hold (else it drops it)
           r    == IF hold THEN EvHoldReq(id) ELSE EvDropReq(id)
           res  == IF hold THEN DoLockX(S0, r, now, FALSE) ELSE DoUnlock(S0, r, now)
           own  == SelectSeq(res.out, LAMBDA o : o.rid = id)
           okk  == own # <<>> /\ own[1].res \in (IF hold THEN {SUCCED, LOCKED_ERROR} ELSE {SUCCED, UNLOCK_ERROR})
       IN /\ Common(res, r, [op |-> which, p |-> p, role |-> "x", prio |-> 0])
          /\ pc' = Deliver([pc EXCEPT ![p].ops = @ + 1], res.out)
          /\ evs' = (which = "set")
          /\ bad' = bad \cup (IF okk THEN {} ELSE {<<"event-call-refused", p>>})

WaitCall(p) ==
    /\ IsEvent /\ Len(beh) < EMaxSteps
    /\ pc[p].pend = 0 /\ pc[p].ops < EMaxOps
    /\ LET id  == Len(reqs) + 1
           r   == ReqRec(id, "L", K, FreshLid(id), IF ekind = "event_set" THEN 0 ELSE 1, 0, TO, 0, "")
           res == DoLockX(S0, r, now, ekind = "event_clear")
           P1  == [pc EXCEPT ![p] = [@ EXCEPT !.pend = id, !.ops = @ + 1]]
       IN /\ Common(res, r, [op |-> "wait", p |-> p, role |-> "x", prio |-> 0])
          /\ pc' = Deliver(P1, res.out)
          /\ bad' = bad \cup {<<"wait-refused", q>> : q \in Refused(P1, res.out)}
          /\ UNCHANGED evs

\* A queued Event.Wait times out (db.go doTimeOut): the request leaves the queue, is answered TIMEOUT, and the wake
\* pass runs (fix 9ca40d3).  wakeUpWaitLocks (fix 23dcb06, A24Fixed) stops at a head waiter that carries
\* LOCK_WAIT_WHEN_UNLOCK while the key is unlocked - every default-clear Wait carries it.
WaitTimeoutOp(S, i, t) ==
    LET w  == S.W[i]
        S1 == [S EXCEPT !.W[i].dead = TRUE]
        S2 == IF LiveIdx(S1.W) = {} THEN [S1 EXCEPT !.W = <<>>, !.waited = FALSE] ELSE [S1 EXCEPT !.W = Purge(@)]
        o  == << [Reply(w.id, TIMEOUT, S2, w.lid) EXCEPT !.lrc = 0] >>
    IN IF A24Fixed /\ ekind = "event_clear" /\ Locked(S2) = 0 THEN [S |-> S2, out |-> o] ELSE WakePass(S2, t, o)

WaitTimeout(p) ==
    /\ ETimeouts /\ IsEvent /\ pc[p].pend # 0
    /\ \E i \in LiveIdx(S0.W) :
          /\ S0.W[i].id = pc[p].pend
          /\ LET res == WaitTimeoutOp(S0, i, now) IN
                /\ ks' = [ks EXCEPT ![K] = res.S] /\ out' = res.out
                /\ pc' = Deliver(pc, res.out)
    /\ UNCHANGED <<now, reqs, hist, turn, role, nrc, ekind, en, evs, bad, beh>>

EStep == \/ \E p \in EProcs : WaitTimeout(p)
         \/ \E p \in EProcs, rl \in {"x", "r", "w"}, pr \in EPrios \cup {0} : AcqCall(p, rl, pr)
         \/ \E p \in EProcs : RelCall(p) \/ WaitCall(p)
         \/ \E p \in EProcs, which \in {"set", "clear"} : EvCall(p, which)

ESpec == EInit /\ [][EStep]_evars

-----------------------------------------------------------------------------
\* the textbook view of an engine state

Held == {p \in EProcs : pc[p].st = "held"}
HAbs == [p \in Held |-> [rl |-> pc[p].rl, depth |-> pc[p].depth]]
HAbsOf(P) == [p \in {q \in EProcs : P[q].st = "held"} |-> [rl |-> P[p].rl, depth |-> P[p].depth]]
Waiting(P) == {p \in EProcs : P[p].pend # 0}

\* C19 on the model -----------------------------------------------------------

\* the holders the callers know about satisfy the textbook state predicate
EncStateOK == PrimStateOK(ekind, en, HAbs)

\* engine and callers agree on the number of outstanding units ("as many unlocks as locks")
EncUnitsExact == ~IsEvent => Locked(S0) = PrimUnits(HAbs)

\* no call of a textbook-legal program is refused (re-entry by the holder, release by a holder, set / clear)
EncNothingRefused == bad = {}

\* a blocked acquire is never admissible at once by the permissive halves of the statement
EncNoLostAdmission ==
    ~IsEvent => \A p \in Waiting(pc) :
        /\ ~PrimMustAdmit(ekind, p, pc[p].rl, HAbs, \E q \in Waiting(pc) \ {p} : pc[q].rl = "w")
        /\ Held # {}                                   \* (model only: sequential atomicity has no pending wake pass)

\* Event.Wait is blocked only while the event is clear, i.e. it returns only once the event is set
EncWaitBlockedOnlyWhenClear == IsEvent => (evs => Waiting(pc) = {})

\* every grant of a step is admissible by the textbook rule with respect to the other holders
NewlyGranted == {p \in EProcs : pc'[p].depth > pc[p].depth}
EncGrantAdmissible ==
    \A p \in NewlyGranted :
        PrimAdmissible(ekind, en, p, pc'[p].rl, PrimDrop(HAbsOf(pc'), p))

\* PriorityLock: whoever is granted in a step has at least the priority of every request that was waiting
\* before the step and is still waiting after it
EncHandOver ==
    ekind = "prio" =>
        \A p \in NewlyGranted :
            PrimHandOverOK(pc'[p].prio, {pc[q].prio : q \in (Waiting(pc) \cap Waiting(pc')) \ {p}})

\* Event.Wait returns (SUCCED) only in a step after which the event is set
EncWaitReturnsOnlyWhenSet ==
    IsEvent => \A p \in EProcs : (pc[p].pend # 0 /\ pc'[p].pend = 0 /\ pc'[p].last = "ok") => evs'
EncWaitImmediateOnlyWhenSet ==
    IsEvent => \A p \in EProcs : (pc[p].pend = 0 /\ pc'[p].ops > pc[p].ops /\ pc'[p].pend = 0 /\ pc'[p].last = "ok" /\ Len(beh') > Len(beh) /\ beh'[Len(beh')].op = "wait") => evs

EncActionProps == [][EncGrantAdmissible /\ EncHandOver /\ EncWaitReturnsOnlyWhenSet /\ EncWaitImmediateOnlyWhenSet]_evars

-----------------------------------------------------------------------------
\* behaviour export (simulation mode)

EncExport == (Len(beh) >= EMinExport) => PrintT("BEHAVIOUR " \o ToJson([kind |-> ekind, n |-> en, steps |-> beh]))

=============================================================================

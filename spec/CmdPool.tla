------------------------------ MODULE CmdPool ------------------------------
(***************************************************************************)
(* The recycled LockCommand objects of the connections                     *)
(* (server/protocol.go: freeCommands / freeCommandIndex, lockedFreeCommands,*)
(* SLock.freeLockCommandQueue; Binary-, Text- and MemWaiterServerProtocol   *)
(* carry the same three-tier pool).                                        *)
(*                                                                         *)
(*   private stack  freeCommands[0 .. Cap-1], index freeCommandIndex:      *)
(*                  touched ONLY by the connection's own goroutine, no lock *)
(*   locked queue   lockedFreeCommands (under glock): objects handed back  *)
(*                  by other goroutines (sweepers, wake passes, executor)   *)
(*   global queue   SLock.freeLockCommandQueue: objects of closed          *)
(*                  connections, first four slots of a new connection      *)
(*                                                                         *)
(* A request frame is decoded into an object taken by Get(c).  A granted / *)
(* queued LOCK keeps its object in the engine (the hold's command).  The   *)
(* connection that RELEASES a hold frees BOTH objects - the hold's command,*)
(* whichever connection allocated it, and its own unlock command - into    *)
(* ITS private stack (db.go UnLock: serverProtocol.FreeLockCommand twice), *)
(* so objects migrate between connections and a connection that releases   *)
(* many holds sees its private stack fill up to the guard                   *)
(*     if freeCommandIndex < FREE_COMMAND_MAX_SIZE  (protocol.go:1741)      *)
(* behind which the object goes to the locked queue instead.               *)
(*                                                                         *)
(* Promises checked here (they are what keeps a well-formed LOCK / UNLOCK  *)
(* history from crashing the server, C13, and from sharing a command       *)
(* object between two requests, C01 / C03 / C18):                          *)
(*   PrivBound    the private stack index never exceeds Cap                *)
(*   OnePlace     an object is in exactly one place (one stack / queue, or *)
(*                owned by one hold, or being processed by one request)    *)
(* Guard = "lt" is the code; "le" is the one-off guard (refuted by TLC,    *)
(* counterexample replayed on the real protocol objects).                  *)
(***************************************************************************)
EXTENDS Integers, Sequences, FiniteSets, TLC, Json

CONSTANTS Conns,      \* connection ids
          Cap,        \* FREE_COMMAND_MAX_SIZE (64 in the code; the driver scales one model object to 64/Cap real ones)
          MaxObj,     \* bound on allocated objects
          MaxHolds,   \* bound on simultaneously outstanding holds
          Guard,      \* "lt" (as coded) | "le" (one-off)
          InitTake    \* slots a new connection pre-fills from the global queue (4 in the code)

VARIABLES priv, locked, glob, holds, fresh, open, hist, ovf
vars == <<priv, locked, glob, holds, fresh, open, hist, ovf>>

Hold == [obj : 1..MaxObj, conn : Conns]      \* the driver names a hold (a group of real holds) by its object id

Init == /\ priv = [c \in Conns |-> <<>>]
        /\ locked = [c \in Conns |-> <<>>]
        /\ glob = <<>>
        /\ holds = {}
        /\ fresh = 1
        /\ open = [c \in Conns |-> FALSE]
        /\ hist = <<>>
        /\ ovf = FALSE

\* ---- the three-tier pool as pure operators on a state record
S0 == [priv |-> priv, locked |-> locked, glob |-> glob, fresh |-> fresh, ovf |-> ovf]

\* GetLockCommand (protocol.go:1712-1737): private stack, locked queue (PopRight), global queue (PopRight), new object
Get(S, c) ==
    IF S.priv[c] # <<>>
    THEN [st |-> [S EXCEPT !.priv[c] = SubSeq(@, 1, Len(@) - 1)], obj |-> S.priv[c][Len(S.priv[c])]]
    ELSE IF S.locked[c] # <<>>
    THEN [st |-> [S EXCEPT !.locked[c] = SubSeq(@, 1, Len(@) - 1)], obj |-> S.locked[c][Len(S.locked[c])]]
    ELSE IF S.glob # <<>>
    THEN [st |-> [S EXCEPT !.glob = SubSeq(@, 1, Len(@) - 1)], obj |-> S.glob[Len(S.glob)]]
    ELSE [st |-> [S EXCEPT !.fresh = @ + 1], obj |-> S.fresh]

\* FreeLockCommandLocked (protocol.go:1749-1762)
FreeLocked(S, c, o, isOpen) ==
    IF isOpen THEN [S EXCEPT !.locked[c] = Append(@, o)] ELSE [S EXCEPT !.glob = Append(@, o)]

\* FreeLockCommand (protocol.go:1739-1747): by the connection's own goroutine
Room(n) == IF Guard = "lt" THEN n < Cap ELSE n <= Cap
FreeOwn(S, c, o, isOpen) ==
    IF Room(Len(S.priv[c]))
    THEN [S EXCEPT !.priv[c] = Append(@, o), !.ovf = @ \/ Len(S.priv[c]) >= Cap]     \* a write at index >= Cap is out of range
    ELSE FreeLocked(S, c, o, isOpen)

Put(S) == /\ priv' = S.priv /\ locked' = S.locked /\ glob' = S.glob /\ fresh' = S.fresh /\ ovf' = S.ovf

Log(op, c, g) == hist' = Append(hist, [op |-> op, c |-> c, g |-> g])

\* ---- actions (one per handler / goroutine step that touches the pool)

\* InitLockCommand: a new connection takes up to InitTake objects of the global queue
Connect(c) ==
    /\ ~open[c] /\ priv[c] = <<>> /\ locked[c] = <<>>
    /\ LET n == IF Len(glob) < InitTake THEN Len(glob) ELSE InitTake IN
       /\ priv' = [priv EXCEPT ![c] = [i \in 1..n |-> glob[Len(glob) - i + 1]]]
       /\ glob' = SubSeq(glob, 1, Len(glob) - n)
    /\ open' = [open EXCEPT ![c] = TRUE]
    /\ Log("connect", c, 0)
    /\ UNCHANGED <<locked, holds, fresh, ovf>>

\* a LOCK that is granted (or queued): the object stays with the engine
LockKeep(c) ==
    /\ open[c] /\ Cardinality(holds) < MaxHolds
    /\ LET g == Get(S0, c) IN
       /\ g.obj <= MaxObj
       /\ Put(g.st)
       /\ holds' = holds \cup {[obj |-> g.obj, conn |-> c]}
       /\ Log("lock", c, g.obj)
    /\ UNCHANGED open

\* a request answered at once (refused LOCK, refused UNLOCK): decoded and freed by the same goroutine
Refused(c) ==
    /\ open[c]
    /\ LET g == Get(S0, c) IN
       /\ g.obj <= MaxObj
       /\ Put(FreeOwn(g.st, c, g.obj, TRUE))
    /\ Log("refused", c, 0)
    /\ UNCHANGED <<holds, open>>

\* UNLOCK by connection c of hold h (any connection's): both objects go to c's private stack (db.go:2539-2540)
Unlock(c, h) ==
    /\ open[c] /\ h \in holds
    /\ LET g  == Get(S0, c)
           s1 == FreeOwn(g.st, c, h.obj, TRUE)
           s2 == FreeOwn(s1, c, g.obj, TRUE) IN
       /\ g.obj <= MaxObj
       /\ Put(s2)
    /\ holds' = holds \ {h}
    /\ Log("unlock", c, h.obj)
    /\ UNCHANGED open

\* expiry / timeout of a hold or waiter: the sweeper hands the object to the connection that sent it (locked path)
Expire(h) ==
    /\ h \in holds
    /\ Put(FreeLocked(S0, h.conn, h.obj, open[h.conn]))
    /\ holds' = holds \ {h}
    /\ Log("expire", h.conn, h.obj)
    /\ UNCHANGED open

\* UnInitLockCommand at the end of Close(): everything goes to the global queue
Close(c) ==
    /\ open[c]
    /\ glob' = glob \o [i \in 1..Len(priv[c]) |-> priv[c][Len(priv[c]) - i + 1]] \o [i \in 1..Len(locked[c]) |-> locked[c][Len(locked[c]) - i + 1]]
    /\ priv' = [priv EXCEPT ![c] = <<>>]
    /\ locked' = [locked EXCEPT ![c] = <<>>]
    /\ open' = [open EXCEPT ![c] = FALSE]
    /\ Log("close", c, 0)
    /\ UNCHANGED <<holds, fresh, ovf>>

Next == \/ \E c \in Conns : Connect(c) \/ LockKeep(c) \/ Refused(c) \/ Close(c)
        \/ \E c \in Conns, h \in holds : Unlock(c, h)
        \/ \E h \in holds : Expire(h)

Spec == Init /\ [][Next]_vars

\* ---- properties
SeqSet(s) == {s[i] : i \in DOMAIN s}
Places == [c \in Conns |-> SeqSet(priv[c])]
AllFree == UNION {SeqSet(priv[c]) \cup SeqSet(locked[c]) : c \in Conns} \cup SeqSet(glob)

TypeOK == /\ fresh \in 1..(MaxObj + 1)
          /\ \A c \in Conns : Len(priv[c]) <= Cap + 1

PrivBound == ~ovf /\ \A c \in Conns : Len(priv[c]) <= Cap

NoDup(s) == \A i, j \in DOMAIN s : i # j => s[i] # s[j]
OnePlace ==
    /\ \A c \in Conns : NoDup(priv[c]) /\ NoDup(locked[c])
    /\ NoDup(glob)
    /\ \A c, d \in Conns : (c # d => SeqSet(priv[c]) \cap SeqSet(priv[d]) = {}) /\ SeqSet(priv[c]) \cap SeqSet(locked[d]) = {}
                            /\ (c # d => SeqSet(locked[c]) \cap SeqSet(locked[d]) = {})
    /\ \A c \in Conns : (SeqSet(priv[c]) \cup SeqSet(locked[c])) \cap SeqSet(glob) = {}
    /\ \A h \in holds : h.obj \notin AllFree
    /\ \A h1, h2 \in holds : h1 # h2 => h1.obj # h2.obj

\* every allocated object is somewhere (nothing leaks out of the pool while connections come and go)
Conserved == Cardinality(AllFree) + Cardinality(holds) = fresh - 1

View == <<priv, locked, glob, holds, fresh, open, ovf>>
=============================================================================

---------------------------- MODULE ReplRingSim ----------------------------
(***************************************************************************)
(* Random-walk front end of ReplRing for `tlc -simulate`: the same step     *)
(* (ReplRing!Do, so every walk is a behaviour of ReplRing!Spec and is       *)
(* judged by the same reference and structural clauses), but ONE operation  *)
(* is drawn per step from a weighted bag that depends on a slowly changing  *)
(* `mode`: runs of small records (consume the free list completely), runs   *)
(* of big records (exceed the byte budget by more than one slot, so that    *)
(* the release loop of ResetQueueItems runs and refills the free list),     *)
(* draining cursors, lagging registered cursors (the ring grows to its      *)
(* maximum), and mixes.  Walks of SimLen operations are printed             *)
(* ("BEHAVIOUR <json>") and replayed on the real ReplicationBufferQueue by  *)
(* checks/ringpart.py.                                                      *)
(***************************************************************************)
EXTENDS ReplRing

CONSTANTS SimLen

VARIABLE mode
simvars == <<R, S, ph, nsync, bad, hist, mode>>

Pick(X) == RandomElement(X)
Modes == {"small", "small", "big", "big", "drain", "lag", "mix", "mix"}

PickOp ==
    LET cops   == UNION {CurOps(c) : c \in 1..NC}
        canp   == Len(S.L) < MaxPush
        bigs   == {d \in DataLens : d > 0}
        pw     == CASE mode = "small" -> 7 [] mode = "big" -> 7 [] mode = "drain" -> 1 [] mode = "lag" -> 8 [] OTHER -> 4
        dl     == CASE mode = "small" -> 0
                    [] mode = "big"   -> IF bigs = {} THEN 0 ELSE Pick(bigs)
                    [] OTHER          -> Pick(DataLens)
        pops   == {o \in cops : o[1] \in {"pop", "send"}}
        syncs  == {o \in cops : o[1] \in {"head", "search", "addpoll"}}
        nolag  == {o \in cops : o[1] \notin {"pop", "send", "rmpoll"}}     \* "lag": registered cursors stand still
        cop    == IF mode = "drain" /\ pops # {} /\ Pick(1..10) <= 8 THEN Pick(pops)
                  ELSE IF mode = "lag" THEN (IF nolag # {} THEN Pick(nolag) ELSE <<"none", 0, 0>>)
                  ELSE IF syncs # {} /\ Pick(1..10) <= 3 THEN Pick(syncs)
                  ELSE IF cops # {} THEN Pick(cops) ELSE <<"none", 0, 0>>
    IN IF canp /\ (cops = {} \/ Pick(1..10) <= pw) THEN <<"push", 0, dl>> ELSE cop

SimInit == Init /\ mode = "mix"

SimNext == /\ bad = "" /\ Len(hist) < SimLen
           /\ \E o \in {PickOp} :
                 \/ o[1] # "none" /\ Do(o)
                 \/ o[1] = "none" /\ UNCHANGED vars          \* nothing to draw in this mode: draw again
           /\ mode' = IF Pick(1..8) = 1 THEN Pick(Modes) ELSE mode

SimSpec == SimInit /\ [][SimNext]_simvars

SimExport == Len(hist) = SimLen => PrintT("BEHAVIOUR " \o ToJson(hist))
=============================================================================

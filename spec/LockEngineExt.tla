---------------------------- MODULE LockEngineExt ----------------------------
(***************************************************************************)
(* Growth of the lock-engine specification (DESIGN.md section 11, first    *)
(* items): the request flags that the twenty listed properties EXCLUDE     *)
(* from their quantifier because they RE-ISSUE commands or report success  *)
(* without a hold.  Code: server/db.go (line numbers at the pinned tree)   *)
(*   UnLock 2529-2533 + addUnlockLockCommandToWaitLock 2765-2796,          *)
(*   doTimeOut 1698-1803, doExpried 1880-1984, Lock 2286-2304,             *)
(*   doLock 2549-2581, checkLessLockVersion / compareLockVersion /         *)
(*   increaseLockVersion 3034-3068, the executor LockDBExecutor 154-327,   *)
(*   PushExecutorLockCommand 624-650; constants protocol/command.go 48-88. *)
(*                                                                         *)
(* WHAT THE SUBSYSTEM PROMISES TO A CLIENT.  The README has one line per   *)
(* flag (quoted); everything else is read off the code (marked [code]).    *)
(* An ISSUE is a client request or one of the re-issues below; every issue *)
(* of a LOCK gets exactly one terminal reply (SUCCED, TIMEOUT, LOCKED_,    *)
(* UNLOCK_, UNOWN_ERROR ...), an EXPRIED notice is not terminal.           *)
(*                                                                         *)
(* UW  unlock flag 0x08, README: "If the unlock is successful, put it into *)
(*     the lock waiting queue again".  [code]                              *)
(*  UW1 the flag acts only when the released hold has depth 1 at the       *)
(*      unlock; on a deeper hold the unlock is a plain unlock (one level   *)
(*      with Rcount > 0, the whole hold with Rcount = 0), nothing queued.  *)
(*  UW2 the UNLOCK is answered once, SUCCED, LockId = the LockId of the    *)
(*      re-issued request (= the released LockId; version + 1 when the     *)
(*      released hold's request carried the less-version flag).            *)
(*  UW3 unlock Timeout > 0: ONE waiting LOCK is put at the TAIL of the     *)
(*      key's wait queue, behind every queued request, whether or not the  *)
(*      key is free now.  Its terms (Timeout, TimeoutFlag, Expried,        *)
(*      ExpriedFlag, Count, Rcount) are those of the UNLOCK command (with  *)
(*      unlock-first and a foreign LockId: those of the released hold),    *)
(*      its RequestId is the one of the LOCK request that last set the     *)
(*      released hold's terms, its replies go to the connection that sent  *)
(*      the UNLOCK.  It is an issue: one terminal reply later under that   *)
(*      RequestId (possibly at once, from the wake pass of the unlock),    *)
(*      and an EXPRIED notice when its hold lapses.                        *)
(*  UW4 unlock Timeout = 0: nothing is queued and nothing is said (no      *)
(*      TIMEOUT reply for the request that was not re-issued).             *)
(*                                                                         *)
(* RT  timeout flag 0x0080, README: "Invoke lock command after reversing   *)
(*     LockKey on timeout".  [code]                                        *)
(*  RT1 only a QUEUED request that the timeout sweeper answers TIMEOUT is  *)
(*      re-issued; a request refused at once (Timeout 0), a cancelled      *)
(*      request, a granted request are not.                                *)
(*  RT2 exactly ONE LOCK is re-issued per such TIMEOUT, after the TIMEOUT  *)
(*      reply, asynchronously (executor), on the key with its sixteen      *)
(*      bytes in reverse order, same RequestId, LockId, Timeout, Expried,  *)
(*      ExpriedFlag, Count, Rcount, connection; TimeoutFlag = 0 - EVERY    *)
(*      timeout flag is dropped (minute unit, priority, keepalive,         *)
(*      less-version too), so the re-issued request is never re-issued by  *)
(*      a timeout again: no loop.                                          *)
(*  RT3 the re-issued request is an ordinary LOCK issue.                   *)
(*                                                                         *)
(* RE  expiry flag 0x0080, README: "Invoke lock command after reversing    *)
(*     LockKey on expiration".  [code]                                     *)
(*  RE1 when the expiry sweeper ends a hold whose terms were set by a      *)
(*      request with the flag (EXPRIED notice), exactly ONE LOCK is        *)
(*      re-issued on the reversed key: same RequestId, LockId, Timeout,    *)
(*      TimeoutFlag, Count, Rcount, connection; ExpriedFlag = 0 and        *)
(*      Expried = the request's TIMEOUT value (Timeout 0: granted without  *)
(*      a hold).  An unlock of the hold re-issues nothing.                 *)
(*  RE2 TimeoutFlag is kept: a re-issue that carries 0x0080 and times out  *)
(*      in the queue is re-issued once more (RT2, back on the original     *)
(*      key).  At most two re-issues follow one expiry.                    *)
(*  RT/RE leader only: on a node that is not the leader the re-issue is    *)
(*      dropped without a word (not modelled: role stays "leader" here).   *)
(*                                                                         *)
(* LV  timeout flag 0x4000, README: "Locked, but the lock version is       *)
(*     smaller than the current lock version, the lock is successful (the  *)
(*     lock version is the lower 8 bytes of lock_id)".  [code]             *)
(*  LV1 version = lower eight bytes of the LockId, little endian.          *)
(*  LV2 a LOCK with the flag by a LockId that does not hold the key and is *)
(*      not admitted: version < version of the OLDEST holder => SUCCED,    *)
(*      reply LockId = that holder's LockId, LRCount 0, LCount = holds     *)
(*      outstanding; no hold is added, nothing is queued, the holders are  *)
(*      untouched, no EXPRIED follows.  Equal or higher: queued / TIMEOUT. *)
(*  LV3 a request with the flag whose version is HIGHER than the oldest    *)
(*      holder's is not admitted although the Counts would allow it (in    *)
(*      Lock and in the wake pass); equal or lower versions share as usual.*)
(*  LV4 unlock-to-wait of a hold whose request carried the flag re-issues  *)
(*      with version + 1 (UW2).                                            *)
(*                                                                         *)
(* KA  timeout flag 0x8000 / expiry flag 0x8000, README: "keeplive         *)
(*     connection does not timeout [expire] if it is [not] open, then the  *)
(*     timeout time set at this time is the delay interval to check the    *)
(*     connection survival status".  [code]                                *)
(*  KA1 while the connection of the issue (for a hold: of the request that *)
(*      last set its terms) is open the sweeper answers no TIMEOUT / ends  *)
(*      no hold: each time the period lapses the timer is re-armed for     *)
(*      another Timeout / Expried seconds (the unit flags are ignored by   *)
(*      the re-arm).                                                       *)
(*  KA2 once the connection is closed the timer fires at its next check:   *)
(*      within Timeout / Expried (+ the sweeper window) of the close.      *)
(*                                                                         *)
(* CORE SAFETY that must survive the flags: Count bound / mutual exclusion *)
(* on BOTH keys involved, exactly one terminal reply per issue and no      *)
(* reply that no issue explains, counters exact and zero after drain, no   *)
(* executor task left behind.                                              *)
(*                                                                         *)
(* NOT MODELLED (said plainly): tree locks (lock flag 0x10 / unlock flag   *)
(* 0x10, unlockTreeLock), value data, ack-required requests, the show /    *)
(* update / cancel / priority / wait-when-unlocked flags in combination    *)
(* with the flags above, role changes, millisecond and minute units.       *)
(*                                                                         *)
(* SHAPE.  Sequential atomicity as LockEngine (whose helper operators are  *)
(* reused through EXTENDS: DepthSum, Locked, IdxOfLid, RemoveIdx, LiveIdx, *)
(* Purge, Enqueue, AdmissibleStmt, Reply, HoldersWellFormed, GrantOK,      *)
(* WaitedFlagInv); the decision operators are re-stated because holders    *)
(* and waiters carry the flags, the connection and the Timeout value the   *)
(* re-issues need.  The executor is asynchronous in the code: its queue    *)
(* `xq` and one action per task (ExecStep) are explicit; the code runs two *)
(* runner goroutines per shard, so either of the two oldest tasks may run  *)
(* first.  A client request waits while a task is pending (the pending     *)
(* task raises the low-priority mark of the shard mutex and every client   *)
(* request takes it with LowPriorityLock); timers do not wait.             *)
(***************************************************************************)
EXTENDS LockEngine

CONSTANTS
    Conns,          \* connections
    TFlagSets,      \* alphabet of timeout-flag sets, subsets of {"rev", "lv", "keep"}
    EFlagSets,      \* alphabet of expiry-flag sets, subsets of {"rev", "keep"}
    UFlagsX,        \* unlock flag alphabet, subset of {"", "towait", "firsttowait"}
    UTimeouts,      \* Timeout values of unlock commands
    MaxIssue,       \* bound on consecutive automatic re-issues per request id (2 in the code)
    RevClearsFlags, \* TRUE = the code: the timeout re-issue drops every timeout flag.  FALSE: a re-issue loop (regression run)
    TEOrder         \* TRUE: the driver's order inside one second - due timeouts, then due expiries, then executor tasks

VARIABLES xq, copen
xvars == <<ks, now, reqs, out, hist, turn, role, nrc, xq, copen>>
xview == <<ks, now, [i \in DOMAIN reqs |-> <<reqs[i].nissue, reqs[i].nterm, reqs[i].nauto>>], xq, copen>>

Rev(k) == IF k >= 900 THEN k ELSE 0 - k
Ver(l) == l % 1000
IncVer(l) == l + 1

-----------------------------------------------------------------------------
\* doLock with the less-version clause (db.go:2549)
CanLockX(S, c, tf, lid) ==
    IF Locked(S) = 0 THEN TRUE
    ELSE IF c = 0 THEN FALSE
    ELSE /\ Locked(S) <= Head(S.H).cnt /\ Locked(S) <= c
         /\ ~("lv" \in tf /\ Ver(lid) > Ver(Head(S.H).lid))

\* the statement form used by the invariants: admissible by Count and not held back by LV3
AdmissibleX(S, w) == AdmissibleStmt(S.H, w.cnt) /\ ~(S.H # <<>> /\ "lv" \in w.tf /\ Ver(w.lid) > Ver(Head(S.H).lid))

NewHolderX(r, t) == [lid |-> r.lid, depth |-> 1, cnt |-> r.cnt, rc |-> r.rc, rid |-> r.id,
                     dl |-> t + r.ex + 1, next |-> t + r.ex + 1, start |-> t,
                     to |-> r.to, ex |-> r.ex, tf |-> r.tf, ef |-> r.ef, conn |-> r.conn]

WaiterX(r, t) == [id |-> r.id, lid |-> r.lid, cnt |-> r.cnt, rc |-> r.rc, pflag |-> FALSE, prio |-> 0,
                  to |-> r.to, ex |-> r.ex, tf |-> r.tf, ef |-> r.ef, conn |-> r.conn, tot |-> t + r.to + 1, dead |-> FALSE]

ReplyX(k, rid, res, S, lid, kind) == [Reply(rid, res, S, lid) EXCEPT !.granted = (kind = "grant")] @@ [key |-> k, kind |-> kind]

RECURSIVE WakeLoopX(_, _, _, _)
WakeLoopX(k, S, t, acc) ==
    LET W == Purge(S.W) IN
    IF W = <<>>
    THEN [S |-> [S EXCEPT !.W = <<>>, !.waited = FALSE, !.pmode = FALSE], out |-> acc, push |-> <<>>]
    ELSE LET w == W[1] IN
         IF ~CanLockX([S EXCEPT !.W = W], w.cnt, w.tf, w.lid)
         THEN [S |-> [S EXCEPT !.W = W], out |-> acc, push |-> <<>>]
         ELSE LET S1 == [S EXCEPT !.W = [W EXCEPT ![1].dead = TRUE],
                                  !.H = IF w.ex > 0 THEN Append(@, NewHolderX(w, t)) ELSE @]
              IN WakeLoopX(k, S1, t, Append(acc, ReplyX(k, w.id, SUCCED, S1, w.lid, IF w.ex > 0 THEN "grant" ELSE "nohold")))

WakePassX(k, S, t, acc) == IF S.waited THEN WakeLoopX(k, S, t, acc) ELSE [S |-> S, out |-> acc, push |-> <<>>]

Res(S, o) == [S |-> S, out |-> o, push |-> <<>>]

\* LockDB.Lock for the flag alphabet of this module
DoLockX(k, S, r, t) ==
    LET locked == Locked(S)
        me == IF locked > 0 THEN IdxOfLid(S.H, r.lid) ELSE 0
    IN
    IF me # 0
    THEN LET h == S.H[me] IN
         IF h.depth < MaxDepth /\ h.depth <= r.rc
         THEN IF r.ex = 0
              THEN Res(S, <<ReplyX(k, r.id, SUCCED, S, r.lid, "nohold")>>)
              ELSE LET S1 == [S EXCEPT !.H[me] = [h EXCEPT !.depth = @ + 1, !.cnt = r.cnt, !.rc = r.rc, !.rid = r.id,
                                                            !.dl = t + r.ex + 1, !.next = t + r.ex + 1, !.start = t,
                                                            !.to = r.to, !.ex = r.ex, !.tf = r.tf, !.ef = r.ef, !.conn = r.conn]]
                   IN WakePassX(k, S1, t, <<ReplyX(k, r.id, SUCCED, S1, r.lid, "relock")>>)
         ELSE Res(S, <<ReplyX(k, r.id, LOCKED_ERROR, S, r.lid, "refused")>>)
    ELSE
    LET waited == IF locked > 0 THEN S.waited ELSE FALSE IN
    IF ~waited /\ CanLockX(S, r.cnt, r.tf, r.lid)
    THEN LET S1 == IF r.ex > 0 THEN [S EXCEPT !.H = Append(@, NewHolderX(r, t))] ELSE S
             rep == ReplyX(k, r.id, SUCCED, S1, r.lid, IF r.ex > 0 THEN "grant" ELSE "nohold")
         IN IF S.waited THEN WakePassX(k, S1, t, <<rep>>) ELSE Res(S1, <<rep>>)
    ELSE IF "lv" \in r.tf /\ S.H # <<>> /\ Ver(r.lid) < Ver(Head(S.H).lid)
    THEN Res(S, << [ReplyX(k, r.id, SUCCED, S, Head(S.H).lid, "lessver") EXCEPT !.lrc = 0] >>)      \* LV2
    ELSE IF r.to > 0
    THEN Res(Enqueue(S, WaiterX(r, t)), <<>>)
    ELSE Res(S, <<ReplyX(k, r.id, TIMEOUT, S, r.lid, "refused")>>)

\* LockDB.UnLock with the unlock-to-wait flag
DoUnlockX(k, S, r, t) ==
    IF Locked(S) = 0
    THEN Res(S, <<ReplyX(k, r.id, UNLOCK_ERROR, S, r.lid, "refused")>>)
    ELSE
    LET own == IdxOfLid(S.H, r.lid) IN
    IF own = 0 /\ ~r.first
    THEN Res(S, <<ReplyX(k, r.id, UNOWN_ERROR, S, r.lid, "refused")>>)
    ELSE
    LET i == IF own # 0 THEN own ELSE 1
        h == S.H[i]
        \* unlock-first copies the holder's terms into the command (db.go:2398-2404)
        e == IF own # 0 THEN r ELSE [r EXCEPT !.to = h.to, !.tf = h.tf, !.ex = h.ex, !.ef = h.ef, !.cnt = h.cnt, !.rc = h.rc]
    IN
    IF h.depth > 1
    THEN LET S1 == IF e.rc > 0 THEN [S EXCEPT !.H[i].depth = @ - 1] ELSE [S EXCEPT !.H = RemoveIdx(@, i)]       \* UW1
         IN WakePassX(k, S1, t, <<ReplyX(k, r.id, SUCCED, S1, h.lid, "unlock")>>)
    ELSE
    LET S1 == [S EXCEPT !.H = RemoveIdx(@, i)] IN
    IF ~r.towait
    THEN WakePassX(k, S1, t, <<ReplyX(k, r.id, SUCCED, S1, h.lid, "unlock")>>)
    ELSE LET nl == IF "lv" \in h.tf THEN IncVer(h.lid) ELSE h.lid                                               \* LV4
             w  == WaiterX([id |-> h.rid, lid |-> nl, cnt |-> e.cnt, rc |-> e.rc, to |-> e.to, ex |-> e.ex, tf |-> e.tf, ef |-> e.ef,
                            conn |-> r.conn], t)
             S2 == IF e.to > 0 THEN Enqueue(S1, w) ELSE S1                                                       \* UW3 / UW4
             res == WakePassX(k, S2, t, <<ReplyX(k, r.id, SUCCED, S2, nl, "unlock")>>)
         IN [res EXCEPT !.push = IF e.to > 0 THEN << [kind |-> "uw", id |-> h.rid] >> ELSE <<>>]

\* a re-issued command as the executor will run it
TaskRT(k, w) == [id |-> w.id, key |-> Rev(k), lid |-> w.lid, cnt |-> w.cnt, rc |-> w.rc, to |-> w.to, ex |-> w.ex,
                 tf |-> IF RevClearsFlags THEN {} ELSE w.tf, ef |-> w.ef, conn |-> w.conn, kind |-> "rt"]
TaskRE(k, h) == [id |-> h.rid, key |-> Rev(k), lid |-> h.lid, cnt |-> h.cnt, rc |-> h.rc, to |-> h.to, ex |-> h.to,
                 tf |-> h.tf, ef |-> {}, conn |-> h.conn, kind |-> "re"]

\* doTimeOut of a queued request
FireTimeoutX(k, S, i, t) ==
    LET w == S.W[i] IN
    IF "keep" \in w.tf /\ copen[w.conn]
    THEN Res([S EXCEPT !.W[i].tot = t + w.to], <<>>)                                                             \* KA1
    ELSE LET S1 == [S EXCEPT !.W[i].dead = TRUE]
             S2 == IF LiveIdx(S1.W) = {} THEN [S1 EXCEPT !.W = <<>>, !.waited = FALSE] ELSE [S1 EXCEPT !.W = Purge(@)]
             res == WakePassX(k, S2, t, << [ReplyX(k, w.id, TIMEOUT, S2, w.lid, "timeout") EXCEPT !.lrc = 0] >>)
         IN [res EXCEPT !.push = IF "rev" \in w.tf THEN <<TaskRT(k, w)>> ELSE <<>>]                             \* RT2

\* doExpried of a hold
FireExpiryX(k, S, i, t) ==
    LET h == S.H[i] IN
    IF "keep" \in h.ef /\ copen[h.conn]
    THEN Res([S EXCEPT !.H[i].next = t + h.ex, !.H[i].dl = t + h.ex], <<>>)                                      \* KA1
    ELSE LET S1 == [S EXCEPT !.H = RemoveIdx(@, i)]
             res == WakePassX(k, S1, t, << [ReplyX(k, h.rid, EXPRIED, S1, h.lid, "expried") EXCEPT !.lrc = 0] >>)
         IN [res EXCEPT !.push = IF "rev" \in h.ef THEN <<TaskRE(k, h)>> ELSE <<>>]                             \* RE1

-----------------------------------------------------------------------------
\* the transition system

DueTimeoutsX(k) == {i \in LiveIdx(ks[k].W) : ks[k].W[i].tot <= now}
DueExpiriesX(k) == {i \in 1..Len(ks[k].H) : ks[k].H[i].next <= now}
NoTimeoutDue == \A k \in Keys : DueTimeoutsX(k) = {}
NothingDueX == \A k \in Keys : DueTimeoutsX(k) = {} /\ DueExpiriesX(k) = {}

\* bookkeeping: issues and terminal replies per request id
BookX(R, O, P, newReq) ==
    LET R1 == IF newReq = <<>> THEN R ELSE Append(R, newReq[1])
    IN [i \in DOMAIN R1 |->
          LET mine == SelectSeq(O, LAMBDA o : o.rid = i)
              nt == Len(SelectSeq(mine, LAMBDA o : o.res # EXPRIED))
              np == Len(SelectSeq(P, LAMBDA p : p.id = i))
              nu == Len(SelectSeq(P, LAMBDA p : p.id = i /\ p.kind = "uw"))
          IN [R1[i] EXCEPT !.nterm = @ + nt, !.nexp = @ + (Len(mine) - nt), !.nissue = @ + np,
                           \* automatic re-issues (rt / re) since the last issue a client caused (its request, or its unlock-to-wait)
                           !.nauto = IF nu > 0 THEN 0 ELSE @ + np]]

Tasks(P) == SelectSeq(P, LAMBDA p : p.kind # "uw")

ApplyX(k, res, newReq) ==
    /\ ks' = [ks EXCEPT ![k] = res.S]
    /\ out' = res.out
    /\ reqs' = BookX(reqs, res.out, res.push, newReq)

ExpOut(O) == [j \in 1..Len(O) |-> [rid |-> O[j].rid, res |-> O[j].res, key |-> O[j].key, lid |-> O[j].lid]]

LockReqX(k, lid, cnt, rc, to, ex, tf, ef, c) ==
    /\ Len(reqs) < MaxReq
    /\ xq = <<>>
    /\ Lag \/ NothingDueX
    /\ \A i \in LiveIdx(ks[k].W) : ks[k].W[i].lid # lid              \* NoDupWait (finding A12 is not this module's subject)
    /\ \A j \in 1..Len(xq) : ~(xq[j].key = k /\ xq[j].lid = lid)
    /\ LET id == Len(reqs) + 1
           r  == [id |-> id, key |-> k, lid |-> lid, cnt |-> cnt, rc |-> rc, to |-> to, ex |-> ex, tf |-> tf, ef |-> ef, conn |-> c]
           res == DoLockX(k, ks[k], r, now)
       IN /\ ApplyX(k, res, << [cmd |-> "L", key |-> k, nissue |-> 1, nterm |-> 0, nexp |-> 0, nauto |-> 0] >>)
          /\ xq' = xq \o Tasks(res.push)
          /\ hist' = Append(hist, [op |-> "lock", key |-> k, lid |-> lid, cnt |-> cnt, rc |-> rc, to |-> to, ex |-> ex, tf |-> tf, ef |-> ef,
                                   conn |-> c, fl |-> "", n |-> 0, exp |-> ExpOut(res.out)])
    /\ UNCHANGED <<now, role, nrc, copen>>

UnlockReqX(k, lid, rc, fl, to, ex, cnt, tf, ef, c) ==
    /\ Len(reqs) < MaxReq
    /\ xq = <<>>
    /\ Lag \/ NothingDueX
    /\ LET id == Len(reqs) + 1
           r  == [id |-> id, key |-> k, lid |-> lid, cnt |-> cnt, rc |-> rc, to |-> to, ex |-> ex, tf |-> tf, ef |-> ef, conn |-> c,
                  towait |-> fl \in {"towait", "firsttowait"}, first |-> fl = "firsttowait"]
           res == DoUnlockX(k, ks[k], r, now)
       IN /\ ApplyX(k, res, << [cmd |-> "U", key |-> k, nissue |-> 1, nterm |-> 0, nexp |-> 0, nauto |-> 0] >>)
          /\ xq' = xq \o Tasks(res.push)
          /\ hist' = Append(hist, [op |-> "unlock", key |-> k, lid |-> lid, cnt |-> cnt, rc |-> rc, to |-> to, ex |-> ex, tf |-> tf, ef |-> ef,
                                   conn |-> c, fl |-> fl, n |-> 0, exp |-> ExpOut(res.out)])
    /\ UNCHANGED <<now, role, nrc, copen>>

FireTimeoutA(k, i) ==
    /\ i \in DueTimeoutsX(k)
    /\ LET res == FireTimeoutX(k, ks[k], i, now) IN
          /\ ApplyX(k, res, <<>>) /\ xq' = xq \o Tasks(res.push)
    /\ UNCHANGED <<now, hist, role, nrc, copen>>

FireExpiryA(k, i) ==
    /\ i \in DueExpiriesX(k)
    /\ TEOrder => NoTimeoutDue
    /\ LET res == FireExpiryX(k, ks[k], i, now) IN
          /\ ApplyX(k, res, <<>>) /\ xq' = xq \o Tasks(res.push)
    /\ UNCHANGED <<now, hist, role, nrc, copen>>

\* one executor task: LockDBExecutor.Run pops it and calls LockDB.Lock (two runners: either of the two oldest)
ExecStep(j) ==
    /\ j \in 1..(IF Len(xq) < 2 THEN Len(xq) ELSE 2)
    /\ TEOrder => NothingDueX
    /\ LET r == xq[j]
           res == DoLockX(r.key, ks[r.key], r, now)
       IN /\ ApplyX(r.key, res, <<>>)
          /\ xq' = RemoveIdx(xq, j) \o Tasks(res.push)
          /\ hist' = Append(hist, [op |-> "exec", key |-> r.key, lid |-> r.lid, cnt |-> 0, rc |-> 0, to |-> 0, ex |-> 0, tf |-> {}, ef |-> {},
                                   conn |-> 0, fl |-> "", n |-> j - 1, exp |-> ExpOut(res.out)])
    /\ UNCHANGED <<now, role, nrc, copen>>

TickX ==
    /\ now < MaxNow
    /\ NothingDueX
    /\ TEOrder => xq = <<>>
    /\ now' = now + 1
    /\ out' = <<>>
    /\ hist' = Append(hist, [op |-> "tick", key |-> 0, lid |-> 0, cnt |-> 0, rc |-> 0, to |-> 0, ex |-> 0, tf |-> {}, ef |-> {},
                             conn |-> 0, fl |-> "", n |-> 1, exp |-> <<>>])
    /\ UNCHANGED <<ks, reqs, role, nrc, xq, copen>>

CloseConn(c) ==
    /\ copen[c]
    /\ TEOrder => NothingDueX
    /\ copen' = [copen EXCEPT ![c] = FALSE]
    /\ out' = <<>>
    /\ hist' = Append(hist, [op |-> "close", key |-> 0, lid |-> 0, cnt |-> 0, rc |-> 0, to |-> 0, ex |-> 0, tf |-> {}, ef |-> {},
                             conn |-> c, fl |-> "", n |-> 0, exp |-> <<>>])
    /\ UNCHANGED <<ks, now, reqs, role, nrc, xq>>

InitX == /\ ks = [k \in Keys |-> EmptyKey] /\ now = 0 /\ reqs = <<>> /\ out = <<>> /\ hist = <<>> /\ turn = "any" /\ role = "leader" /\ nrc = 0
         /\ xq = <<>> /\ copen = [c \in Conns |-> TRUE]

\* one named action per code path, so that `tlc -coverage` reports each of them (none may be dead over the aspect configs)
ALock == /\ \E k \in Keys, lid \in Lids, cnt \in Counts, rc \in Rcounts, to \in Timeouts, ex \in Expireds, tf \in TFlagSets, ef \in EFlagSets, c \in Conns :
               LockReqX(k, lid, cnt, rc, to, ex, tf, ef, c)
         /\ UNCHANGED turn
AUnlock == /\ \E k \in Keys, lid \in Lids, rc \in Rcounts, fl \in UFlagsX, to \in UTimeouts, ex \in Expireds \ {0}, cnt \in Counts, tf \in TFlagSets, ef \in EFlagSets, c \in Conns :
                 /\ (fl = "" => to = 0 /\ tf = {} /\ ef = {} /\ cnt = 0 /\ ex = Min(Expireds \ {0}))       \* a plain unlock carries no terms
                 /\ UnlockReqX(k, lid, rc, fl, to, ex, cnt, tf, ef, c)
           /\ UNCHANGED turn
ATimeout == (\E k \in Keys : \E i \in DueTimeoutsX(k) : FireTimeoutA(k, i)) /\ UNCHANGED turn
AExpiry == (\E k \in Keys : \E i \in DueExpiriesX(k) : FireExpiryA(k, i)) /\ UNCHANGED turn
AExec == (\E j \in 1..2 : ExecStep(j)) /\ UNCHANGED turn
ATick == TickX /\ UNCHANGED turn
AClose == (\E c \in Conns : CloseConn(c)) /\ UNCHANGED turn

StepX == ALock \/ AUnlock \/ ATimeout \/ AExpiry \/ AExec \/ ATick \/ AClose

NextX == ALock \/ AUnlock \/ ATimeout \/ AExpiry \/ AExec \/ ATick \/ AClose

SpecX == InitX /\ [][NextX]_xvars

-----------------------------------------------------------------------------
\* design invariants

\* exactly one terminal reply per issue, none lost, none invented: what is owed is exactly what is queued or pending
LiveWaitersOf(id) == FoldSet(LAMBDA k, acc : acc + Cardinality({i \in LiveIdx(ks[k].W) : ks[k].W[i].id = id}), 0, Keys)
TasksOf(id) == Cardinality({j \in 1..Len(xq) : xq[j].id = id})
IssueAccounting ==
    \A id \in DOMAIN reqs :
        /\ reqs[id].nterm <= reqs[id].nissue
        /\ reqs[id].nissue - reqs[id].nterm = (IF reqs[id].cmd = "L" THEN LiveWaitersOf(id) + TasksOf(id) ELSE 0)

\* at most one EXPRIED notice per grant (a notice follows a terminal SUCCED)
NoticeAfterGrant == \A id \in DOMAIN reqs : reqs[id].nexp <= reqs[id].nterm

\* RT2 / RE2: no loop - at most MaxIssue (= 2: one after an expiry, one after the timeout of that one) automatic re-issues
\* follow an issue that a client caused
ChainBound == \A id \in DOMAIN reqs : reqs[id].nauto <= MaxIssue

\* C04 with LV3: the first live waiter of a key is not admissible
NoLostWakeupX ==
    \A k \in Keys : LET W == Purge(ks[k].W) IN W # <<>> => ~AdmissibleX(ks[k], W[1])

\* a pending task and a queued request never carry timeout flags that were promised to be dropped
RTClears == RevClearsFlags => \A j \in 1..Len(xq) : xq[j].kind = "rt" => xq[j].tf = {}
REClears == \A j \in 1..Len(xq) : xq[j].kind = "re" => xq[j].ef = {} /\ xq[j].ex = xq[j].to

\* state constraint of every config: two live queued issues of one LockId on one key are finding A12 (C02: both are granted, two
\* holder records with one LockId).  A client request is held back by the NoDupWait guard, a RE-ISSUE can still arrive where its
\* LockId is queued already; such states are not explored further (the trace monitor stops judging a history there, too).
NoDupQueuedX == \A k \in Keys : \A i, j \in LiveIdx(ks[k].W) : i # j => ks[k].W[i].lid # ks[k].W[j].lid

\* action properties
\* LV2: a less-version success changes nothing on the key
LessVerChangesNothing ==
    \A j \in 1..Len(out') : out'[j].kind = "lessver" => (Len(out') = 1 /\ ks' = ks)
\* KA1: no TIMEOUT from the sweeper / no EXPRIED while the connection of the issue is open
KeepaliveHolds ==
    \A j \in 1..Len(out') :
        /\ (out'[j].kind = "timeout" =>
               \A k \in Keys : \A i \in LiveIdx(ks[k].W) : (ks[k].W[i].id = out'[j].rid /\ k = out'[j].key /\ "keep" \in ks[k].W[i].tf) => ~copen[ks[k].W[i].conn])
        /\ (out'[j].kind = "expried" =>
               \A i \in 1..Len(ks[out'[j].key].H) : (ks[out'[j].key].H[i].rid = out'[j].rid /\ "keep" \in ks[out'[j].key].H[i].ef) => ~copen[ks[out'[j].key].H[i].conn])
\* RT2 / RE1: one re-issue per sweeper TIMEOUT / EXPRIED of a flagged issue, on the reversed key
OneReissue ==
    \A j \in 1..Len(out') :
        (out'[j].kind = "timeout" /\ \E i \in LiveIdx(ks[out'[j].key].W) : ks[out'[j].key].W[i].id = out'[j].rid /\ "rev" \in ks[out'[j].key].W[i].tf)
            => Cardinality({n \in 1..Len(xq') : xq'[n].id = out'[j].rid /\ xq'[n].key = Rev(out'[j].key)}) = 1
\* nothing is granted to a request that already has its answer: every SUCCED of a LOCK issue is owed
ActionPropsX == [][GrantOK /\ LessVerChangesNothing /\ KeepaliveHolds /\ OneReissue]_xvars

\* behaviour export for engine X
ExportAtX == (Len(reqs) = MaxReq /\ NothingDueX /\ xq = <<>>) => PrintT("BEHAVIOUR " \o ToJson(hist))

=============================================================================

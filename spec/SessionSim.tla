----------------------------- MODULE SessionSim -----------------------------
(***************************************************************************)
(* Random-walk front end of Session for `tlc -simulate` (behaviour         *)
(* generator of engine W).  Same actions; the action class is drawn from a *)
(* weighted bag so that disconnects, reconnects and timer events are as    *)
(* frequent as requests.  Every printed behaviour is a behaviour of        *)
(* Session!Spec with Eager = TRUE (SimNext => Next \/ UNCHANGED <<st,hist>>).*)
(***************************************************************************)
EXTENDS Session

CONSTANTS Turns, HistLen,
          AvoidF1     \* TRUE: do not end a connection in the situation of deviation F1 (explored by its own runs)

VARIABLE turn

Pick(S) == RandomElement(S)

OpenConns == {c \in Conns : st.cs[c].st = "open" /\ ~st.cs[c].hung}

\* a behaviour is exported when it is long enough, when the model says the server died, or when every
\* connection has lived its whole life and the request budget is used up (nothing of interest can follow)
Spent == /\ \A c \in Conns : st.cs[c].st = "done"
         /\ Len(hist) >= 8

SimStep ==
    IF Urgent THEN UrgentSteps
    ELSE
    \/ /\ turn = "connect"
       /\ \E c \in Conns : Connect(c, Pick(Kinds))
    \/ /\ turn = "init" /\ OpenConns # {}
       /\ Init(Pick(OpenConns), Pick(Cids))
    \/ /\ turn = "will" /\ OpenConns # {}
       /\ LET cmd == Pick({"L", "L", "U", "E", "E"}) IN
          RegisterWill(Pick(OpenConns), cmd, IF cmd = "E" THEN 0 ELSE Pick(WillKeys), IF cmd = "E" THEN FALSE ELSE Pick({TRUE, FALSE, FALSE}))
    \/ /\ turn = "lock" /\ OpenConns # {}
       /\ ReqLock(Pick(OpenConns), Pick(Keys), Pick({TRUE, TRUE, FALSE}))
    \/ /\ turn = "unlock" /\ OpenConns # {}
       /\ ReqUnlock(Pick(OpenConns), Pick(Keys))
    \/ /\ turn = "hangup"
       /\ LET Trips(c) == /\ st.cs[c].kind = "bin" /\ st.cs[c].inited /\ st.cs[c].wills # <<>>
                          /\ st.clients[st.cs[c].cid] = c
              O == {c \in Conns : st.cs[c].st = "open" /\ ~st.cs[c].hung /\ (AvoidF1 => ~Trips(c))}
          IN O # {} /\ LET c == Pick(O) IN Hangup(c, IF AvoidF1 /\ st.cs[c].inited THEN FALSE ELSE Pick({TRUE, FALSE}))
    \/ /\ turn = "resume"
       /\ \E c \in Conns : st.cs[c].gated /\ WillExec(c)
    \/ /\ turn = "timer"
       /\ TimerSteps
    \/ /\ turn = "traffic" /\ OpenConns # {}
       /\ \E c \in Conns : st.cs[c].st \in {"closing", "done"}      \* only worth it once somebody has left something behind
       /\ Traffic(Pick(OpenConns))
    \/ UNCHANGED <<st, hist>>          \* the drawn step was not enabled: draw again

SimNext == /\ ~st.crashed /\ Len(hist) < HistLen /\ ~Spent
           /\ SimStep
           /\ turn' = Pick(Turns)

SimSpec == Init0 /\ turn = "connect" /\ [][SimNext]_<<st, hist, turn>>

SimExport ==
    (Len(hist) >= HistLen \/ st.crashed \/ Spent) =>
        PrintT("BEHAVIOUR " \o ToJson([hist |-> hist, exec |-> st.exec, hold |-> [k \in Keys |-> st.ks[k].h], crashed |-> st.crashed]))
=============================================================================

----------------------------- MODULE ValueRegMC -----------------------------
(***************************************************************************)
(* C15 design model and behaviour generator.                               *)
(*                                                                         *)
(* One key, LockIds Lids, every request may carry one value operation from *)
(* the alphabet Ops (frames built by the constructors below over the byte  *)
(* alphabet {x, y}).  The lock engine is reduced to what decides WHEN a    *)
(* value operation is executed and WHICH value a reply carries             *)
(* (server/db.go Lock / UnLock / wakeUpWaitLock):                          *)
(*   - grant of a free or shared key (Count = 1: two holders), re-entrant  *)
(*     re-lock (Rcount = 1: depth two), update by the holder (flag 0x02,   *)
(*     answered LOCKED_ERROR), refused requests (TIMEOUT / LOCKED_ERROR /  *)
(*     UNOWN_ERROR / UNLOCK_ERROR), queued requests (Timeout > 0) whose    *)
(*     operation runs when an unlock wakes them;                           *)
(*   - the operation runs inside the same critical section as the grant /  *)
(*     release, the reply carries the value read BEFORE it (db.go:2060,    *)
(*     2217, 2413, 2436, 2477, 2631);                                      *)
(*   - `edge` of ValueReg: lock side manager.locked = 1 after the grant,   *)
(*     unlock side manager.locked = 0 and nobody queued (lock.go:948-960). *)
(*                                                                         *)
(* Two registers run side by side: ival (frames, implementation-shaped     *)
(* Impl with the deviation switches Sw) and aval (decoded, reference       *)
(* Apply).  TLC checks Refines == Dec(ival) = aval, well-formedness of     *)
(* every stored frame, absence of PANIC, "reply data = value before" and   *)
(* "a refused request changes nothing".  With Sw = SwIntent all hold; with *)
(* a switch on TLC yields the counterexample that the check replays on the *)
(* real code.                                                              *)
(*                                                                         *)
(* hist records the requests; ExportInv prints every behaviour of exactly  *)
(* MaxSteps requests as JSON for replay on the real code.                  *)
(***************************************************************************)
EXTENDS ValueReg, Json

CONSTANTS Lids, MaxSteps, OpSet, SwShift, SwPipe, SwPop, Export

Sw == [shift |-> SwShift, pipe |-> SwPipe, pop |-> SwPop]

VARIABLES ival, aval, hold, wq, out, hist
vars == <<ival, aval, hold, wq, out, hist>>
view == <<ival, aval, hold, wq, Len(hist)>>

CNT == 1     \* Count of every request: locked <= Count admits a second holder
RC  == 1     \* Rcount of every request: depth <= 2

-----------------------------------------------------------------------------
\* operation alphabet

X == 120  Y == 121
MkOp(t, fl, hd, pl) == LE32(2 + Len(hd) + Len(pl)) \o <<t, fl>> \o hd \o pl
PropHd(code, val) == LE16(3 + Len(val)) \o <<code>> \o LE16(Len(val)) \o val
Int8(lo, rest) == <<lo, rest, rest, rest, rest, rest, rest, rest>>
PLUS1 == Int8(1, 0)   MINUS1 == Int8(255, 255)   MAXINT == <<255, 255, 255, 255, 255, 255, 255, 127>>

OSet(pl)      == MkOp(T_SET, 0, <<>>, pl)
OSetP(pl)     == MkOp(T_SET, FL_PROPS, PropHd(1, <<107>>), pl)
OSetE(pl)     == MkOp(T_SET, FL_EDGE, <<>>, pl)
OSetArr(its)  == MkOp(T_SET, FL_ARRAY, <<>>, EncItems(its))
OUnset        == MkOp(T_UNSET, 0, <<>>, <<>>)
OIncr(n8)     == MkOp(T_INCR, FL_NUMBER, <<>>, n8)
OIncrP(n8)    == MkOp(T_INCR, FL_NUMBER + FL_PROPS, PropHd(1, <<107>>), n8)
OAppend(pl)   == MkOp(T_APPEND, 0, <<>>, pl)
OAppendP(pl)  == MkOp(T_APPEND, FL_PROPS, PropHd(1, <<122, 122>>), pl)
OAppendE(pl)  == MkOp(T_APPEND, FL_EDGE, <<>>, pl)
OShift(n)     == MkOp(T_SHIFT, FL_NUMBER, <<>>, LE32(n))
OPush(pl)     == MkOp(T_PUSH, 0, <<>>, pl)
OPop(n)       == MkOp(T_POP, FL_NUMBER, <<>>, LE32(n))
OPipe(subs)   == MkOp(T_PIPELINE, 0, <<>>, FoldLeft(LAMBDA acc, s : acc \o s, <<>>, subs))

\* the operations whose code path is exact on every value they can meet in the model
CoreOps == { OSet(<<X>>), OUnset, OIncr(PLUS1), OAppend(<<Y>>), OShift(1), OPush(<<X>>), OPop(1) }
MoreOps == { OSet(<<X, Y>>), OSet(<<>>), OSetP(<<Y>>), OSetArr(<< <<X>>, <<Y, Y>> >>), OIncr(MINUS1), OIncr(MAXINT), OIncrP(PLUS1),
             OAppendP(<<Y, X>>), OPush(<<Y, Y>>), OPop(3), OSetE(<<Y>>), OAppendE(<<X>>),
             OPipe(<<OSet(<<X>>)>>), OPipe(<<OUnset, OPush(<<Y>>)>>) }
\* the operations that meet a named deviation of the code (ValueReg: sw.shift, sw.pipe)
DevOps  == { OShift(3), OPipe(<<OSet(<<X>>), OAppend(<<Y>>)>>), OPipe(<<OIncr(PLUS1), OIncr(PLUS1)>>),
             OPipe(<<OPush(<<X>>), OPush(<<Y>>), OPop(1)>>) }

Ops == CASE OpSet = "core" -> CoreOps
         [] OpSet = "coredev" -> CoreOps \cup {OShift(3), OPipe(<<OSet(<<X>>), OAppend(<<Y>>)>>)}
         [] OpSet = "nodev" -> CoreOps \cup MoreOps
         [] OpSet = "full" -> CoreOps \cup MoreOps \cup DevOps

NoOp == <<>>
OpsOrNone == Ops \cup {NoOp}

-----------------------------------------------------------------------------
SUCCED == 0  LOCKED_ERROR == 5  UNLOCK_ERROR == 6  UNOWN_ERROR == 7  TIMEOUT == 8

Total == FoldLeft(LAMBDA acc, l : acc + hold[l], 0, SetToSeq(Lids))

\* both registers step together
ImplStep(v, op, edge) == IF op = NoOp THEN v ELSE Impl(v, op, edge, Sw)
RefStep(a, op, edge)  == IF op = NoOp THEN a ELSE Apply(a, DecOp(op), edge)

Reply(l, res, data, applied) == [lid |-> l, res |-> res, data |-> data, applied |-> applied]

Init == /\ ival = <<>> /\ aval = None
        /\ hold = [l \in Lids |-> 0]
        /\ wq = <<>>
        /\ out = <<>>
        /\ hist = <<>>

Rec(k, l, op, w, a) == hist' = Append(hist, [k |-> k, lid |-> l, op |-> op, w |-> w, a |-> a])

Queued(l) == \E i \in 1..Len(wq) : wq[i].lid = l

\* a lock request of l carrying op; w: Timeout > 0
Lock(l, op, w) ==
    /\ ~Queued(l)
    /\ Rec("L", l, op, w, FALSE)
    /\ IF hold[l] > 0
       THEN \* re-entrant lock by a holder (db.go:2121-2170)
            /\ w = FALSE
            /\ IF hold[l] <= RC
               THEN /\ hold' = [hold EXCEPT ![l] = @ + 1]
                    /\ ival' = ImplStep(ival, op, Total + 1 = 1)
                    /\ aval' = RefStep(aval, op, Total + 1 = 1)
                    /\ out' = <<Reply(l, SUCCED, ival, TRUE)>>
               ELSE /\ UNCHANGED <<hold, ival, aval>>
                    /\ out' = <<Reply(l, LOCKED_ERROR, ival, FALSE)>>
            /\ UNCHANGED wq
       ELSE IF (Total = 0 \/ (Total <= CNT /\ wq = <<>>))
            THEN \* grant (db.go:2188-2236)
                 /\ w = FALSE
                 /\ hold' = [hold EXCEPT ![l] = 1]
                 /\ ival' = ImplStep(ival, op, Total + 1 = 1)
                 /\ aval' = RefStep(aval, op, Total + 1 = 1)
                 /\ out' = <<Reply(l, SUCCED, ival, TRUE)>>
                 /\ UNCHANGED wq
            ELSE IF w
                 THEN /\ wq' = Append(wq, [lid |-> l, op |-> op])        \* queued, no reply yet (db.go:2284-2295)
                      /\ out' = <<>>
                      /\ UNCHANGED <<hold, ival, aval>>
                 ELSE /\ out' = <<Reply(l, TIMEOUT, ival, FALSE)>>        \* refused (db.go:2306)
                      /\ UNCHANGED <<hold, ival, aval, wq>>

\* an update request (lock flag 0x02) of the holder l (db.go:2061-2120): always answered LOCKED_ERROR
Update(l, op) ==
    /\ hold[l] > 0
    /\ Rec("P", l, op, FALSE, FALSE)
    /\ ival' = ImplStep(ival, op, Total = 1)
    /\ aval' = RefStep(aval, op, Total = 1)
    /\ out' = <<Reply(l, LOCKED_ERROR, ival, TRUE)>>
    /\ UNCHANGED <<hold, wq>>

\* the wake pass after a release (db.go:2573-2598, 2627-2652): head waiters are granted while admissible
RECURSIVE Wake(_, _, _, _, _)
Wake(h, q, iv, av, o) ==
    LET tot == FoldLeft(LAMBDA acc, l : acc + h[l], 0, SetToSeq(Lids)) IN
    IF q = <<>> \/ ~(tot = 0 \/ tot <= CNT)
    THEN [h |-> h, q |-> q, iv |-> iv, av |-> av, o |-> o]
    ELSE LET wl == Head(q)
         IN Wake([h EXCEPT ![wl.lid] = 1], Tail(q), ImplStep(iv, wl.op, tot + 1 = 1), RefStep(av, wl.op, tot + 1 = 1),
                 Append(o, Reply(wl.lid, SUCCED, iv, TRUE)))

\* an unlock request of l carrying op; a: release every depth (Rcount = 0) instead of one
Unlock(l, op, a) ==
    /\ Rec("U", l, op, FALSE, a)
    /\ IF hold[l] = 0
       THEN /\ a = FALSE
            /\ out' = <<Reply(l, IF Total = 0 THEN UNLOCK_ERROR ELSE UNOWN_ERROR, ival, FALSE)>>   \* refused (db.go:2349-2393)
            /\ UNCHANGED <<hold, ival, aval, wq>>
       ELSE IF hold[l] > 1 /\ ~a
            THEN \* one depth less, still held (db.go:2407-2425)
                 /\ hold' = [hold EXCEPT ![l] = @ - 1]
                 /\ ival' = ImplStep(ival, op, FALSE)
                 /\ aval' = RefStep(aval, op, FALSE)
                 /\ out' = <<Reply(l, SUCCED, ival, TRUE)>>
                 /\ UNCHANGED wq
            ELSE \* released (db.go:2432-2521), then the wake pass
                 /\ (hold[l] = 1 => a = FALSE)
                 /\ LET h1 == [hold EXCEPT ![l] = 0]
                     tot1 == Total - hold[l]
                     edge == tot1 = 0 /\ wq = <<>>
                     iv1 == ImplStep(ival, op, edge)
                     av1 == RefStep(aval, op, edge)
                     r == Wake(h1, wq, iv1, av1, <<Reply(l, SUCCED, ival, TRUE)>>)
                    IN /\ hold' = r.h /\ wq' = r.q /\ ival' = r.iv /\ aval' = r.av /\ out' = r.o

Alive == ival # PANIC /\ Dec(ival) = aval      \* no step after a deviation (none exists with the switches off)

Next == /\ Alive
        /\ Len(hist) < MaxSteps
        /\ \E l \in Lids, op \in OpsOrNone :
              /\ (hist = <<>> => l = 1)          \* LockIds are interchangeable: the first request is by LockId 1
              /\ \/ \E w \in BOOLEAN : Lock(l, op, w)
                 \/ Update(l, op)
                 \/ \E a \in BOOLEAN : Unlock(l, op, a)

Spec == Init /\ [][Next]_vars

-----------------------------------------------------------------------------
\* invariants

TypeOK   == ival = PANIC \/ WellFormedValue(ival)
NoPanic  == ival # PANIC
Refines  == ival # PANIC => Dec(ival) = aval
Canonical == ival # PANIC => Enc(Dec(ival)) = ival
\* every reply of the step carries the value that was stored immediately before its operation ran:
\* the first reply the value before the step; a woken waiter the value its predecessor left
ReplyChain ==
    \A i \in 1..Len(out) : WellFormedValue(out[i].data) \/ out[i].data = PANIC
HoldSane == \A l \in Lids : hold[l] \in 0..(RC + 1)

\* action properties
FirstReplyIsValueBefore == [][ out' # <<>> => out'[1].data = ival ]_vars
RefusedChangesNothing   == [][ (\A i \in 1..Len(out') : ~out'[i].applied) => (ival' = ival /\ aval' = aval) ]_vars
\* a step that executes exactly one operation leaves exactly Impl(before, op)
ActionProps == FirstReplyIsValueBefore /\ RefusedChangesNothing

\* algebraic sanity of the reference interpreter on the values the model reaches
RefLaws ==
    /\ Apply(aval, DecOp(OUnset), TRUE) = None
    /\ Apply(Apply(aval, DecOp(OIncr(PLUS1)), TRUE), DecOp(OIncr(MINUS1)), TRUE).pl = (IF aval = None THEN Z8 ELSE Num8(aval.pl))
    /\ Apply(Apply(aval, DecOp(OPush(<<X>>)), TRUE), DecOp(OPop(1000)), TRUE).pl = <<>>
    /\ LET s == Apply(aval, DecOp(OSet(<<X, Y>>)), TRUE) IN Apply(s, DecOp(OShift(5)), TRUE).pl = <<>>
    /\ Apply(aval, DecOp(OPipe(<<OSet(<<X>>), OAppend(<<Y>>)>>)), TRUE) = Apply(Apply(aval, DecOp(OSet(<<X>>)), TRUE), DecOp(OAppend(<<Y>>)), TRUE)

\* counterexample export for the as-coded configuration (always true): whenever the model shows a
\* deviation - a PANIC of the implementation-shaped interpreter or a stored value that is not the
\* reference value - the request history is printed as JSON; the check replays it on the real code.
\* (Next stops at the first deviation, so every printed history is minimal in its last request.)
CexExport == /\ (ival = PANIC) => PrintT("CEX panic " \o ToJson(hist))
             /\ (ival # PANIC /\ Dec(ival) # aval) => PrintT("CEX refines " \o ToJson(hist))

\* behaviour export (always true)
ExportInv == (Export /\ (Len(hist) = MaxSteps \/ ~Alive)) => PrintT("BEHAVIOUR " \o ToJson(hist))

=============================================================================

------------------------------ MODULE TimerWheel ------------------------------
(***************************************************************************)
(* The second-granularity timer machinery of the lock engine               *)
(* (server/db.go AddTimeOut / AddExpried, checkTimeOut / checkTimeTimeOut, *)
(* checkExpried / checkTimeExpried, UpdateLockedLock, RemoveLongXxx):      *)
(*                                                                         *)
(*  - a timer created at server second t0 with period P has the deadline   *)
(*    dl = t0 + P + 1 (lock.go GetOrNewLock / AddLock) and fires at the    *)
(*    first sweep whose captured clock `now` satisfies dl <= now;          *)
(*  - it is not kept sorted: it sits in a 16-slot wheel at slot            *)
(*    min(dl, chk + checked) where chk is the sweeper's next second and    *)
(*    `checked` counts the re-checks (1,2,..,8): each visit before the     *)
(*    deadline increments `checked` and re-inserts it; after the 8th       *)
(*    re-check it moves to a long-wait table keyed by the deadline itself; *)
(*  - the sweeper sets chk := now + 1 BEFORE it processes the seconds      *)
(*    chk_old .. now (catch-up loop), so re-insertions use the new chk;    *)
(*  - an update / re-lock changes dl in place: a wheel entry stays in the  *)
(*    slot chosen before (found late by at most the back-off gap), a       *)
(*    long-table entry is moved to the bucket of the new deadline and its  *)
(*    re-check counter restarts at 1.                                      *)
(*                                                                         *)
(* The sweeper may lag behind the clock by at most MaxLag seconds.         *)
(* TLC checks the windows of C05 / C06 for every period 0..MaxP, every     *)
(* creation phase, every lag pattern and one update per timer.             *)
(***************************************************************************)
EXTENDS Integers, Sequences, FiniteSets, TLC

CONSTANTS MaxP,        \* longest period (seconds); > 44 crosses into the long table
          MaxNow,      \* clock bound
          MaxLag,      \* how many seconds the sweeper may be behind (0 or 1)
          MaxTimers,   \* timers created in one behaviour
          Updates,     \* TRUE: one update (new period) per timer allowed
          MaxWait      \* re-check limit before the long table (8 in the code)

VARIABLES now, chk, timers, fired
vars == <<now, chk, timers, fired>>

\* timers: sequence of records; fired: id -> time of firing (0 = not fired)

Slot(dl, checked, c) ==       \* AddTimeOut / AddExpried
    IF checked > MaxWait
    THEN [long |-> TRUE, at |-> IF dl < c THEN c ELSE dl, dl |-> IF dl < c THEN c ELSE dl]
    ELSE LET d == c + checked
         IN [long |-> FALSE, at |-> IF dl < d THEN (IF dl < c THEN c ELSE dl) ELSE d, dl |-> dl]

NewTimer(id, P) ==
    LET dl == now + P + 1
        s  == Slot(dl, 1, chk)
    IN [id |-> id, t0 |-> now, P |-> P, dl |-> s.dl, checked |-> 1, long |-> s.long, at |-> s.at, live |-> TRUE,
        base |-> now, short |-> FALSE, upd |-> FALSE]

Create(P) ==
    /\ Len(timers) < MaxTimers
    /\ timers' = Append(timers, NewTimer(Len(timers) + 1, P))
    /\ UNCHANGED <<now, chk, fired>>

\* UpdateLockedLock + (for long entries) RemoveLongExpried / AddExpried
Update(i, P) ==
    /\ Updates /\ timers[i].live /\ ~timers[i].upd
    /\ LET t  == timers[i]
           dl == now + P + 1
           nt == IF t.long
                 THEN LET s == Slot(dl, 1, chk) IN
                      [t EXCEPT !.dl = s.dl, !.checked = 1, !.long = s.long, !.at = s.at, !.base = now, !.P = P,
                                !.short = (dl < t.dl), !.upd = TRUE]
                 ELSE [t EXCEPT !.dl = dl, !.checked = 1, !.base = now, !.P = P, !.short = (dl < t.dl), !.upd = TRUE]
       IN timers' = [timers EXCEPT ![i] = nt]
    /\ UNCHANGED <<now, chk, fired>>

Tick ==
    /\ now < MaxNow
    /\ now - chk < MaxLag          \* the sweeper is never more than MaxLag seconds behind: chk <= now + 1 always
    /\ now' = now + 1
    /\ UNCHANGED <<chk, timers, fired>>

\* one sweeper round: captured clock = now, chk := now + 1, seconds chk_old .. now processed in order
RECURSIVE SweepFrom(_, _, _, _)
SweepFrom(ct, cap, T, F) ==
    IF ct > cap THEN <<T, F>>
    ELSE
      LET visit(t) == t.live /\ t.at = ct
          step(t) == IF ~visit(t) THEN t
                     ELSE IF t.long THEN [t EXCEPT !.live = FALSE]                         \* long bucket: fire whatever is in it
                     ELSE IF t.dl > cap
                          THEN LET s == Slot(t.dl, t.checked + 1, cap + 1)
                               IN [t EXCEPT !.checked = @ + 1, !.long = s.long, !.at = s.at, !.dl = s.dl]
                          ELSE [t EXCEPT !.live = FALSE]
          T2 == [i \in 1..Len(T) |-> step(T[i])]
          F2 == [i \in 1..Len(T) |-> IF T[i].live /\ ~T2[i].live THEN cap ELSE F[i]]
      IN SweepFrom(ct + 1, cap, T2, F2)

Sweep ==
    /\ chk <= now
    /\ LET F0 == [i \in 1..Len(timers) |-> IF i \in DOMAIN fired THEN fired[i] ELSE 0]
           r == SweepFrom(chk, now, timers, F0)
       IN /\ timers' = r[1]
          /\ fired' = r[2]
    /\ chk' = now + 1
    /\ UNCHANGED now

Init == now = 1 /\ chk = 2 /\ timers = <<>> /\ fired = <<>>

Next == \/ \E P \in 0..MaxP : Create(P)
        \/ \E i \in 1..Len(timers), P \in 0..MaxP : Update(i, P)
        \/ Tick
        \/ Sweep

Spec == Init /\ [][Next]_vars

-----------------------------------------------------------------------------
Fired(i) == i \in DOMAIN fired /\ fired[i] > 0

\* C05 / C06 lower bound: never before the period has passed since creation or the last update
NeverEarly == \A i \in 1..Len(timers) : Fired(i) => fired[i] - timers[i].base >= timers[i].P

\* C05 / C06 upper bound: fired by period + 2 (lag <= 1), or within 10 s of the new deadline after a shortening update
UpperBound(t) == t.base + t.P + 1 + MaxLag + (IF t.short THEN 8 ELSE 0)
NeverLate ==
    \A i \in 1..Len(timers) :
        /\ Fired(i) => fired[i] <= UpperBound(timers[i])
        /\ (~Fired(i) /\ timers[i].live) => (chk - 1 <= UpperBound(timers[i]))    \* every second <= chk-1 has been swept

\* structural: a live timer is always scheduled for a second the sweeper has not passed yet
Scheduled == \A i \in 1..Len(timers) : timers[i].live => timers[i].at >= chk

\* the long table is reached exactly by timers that survived MaxWait re-checks
LongMeansOld == \A i \in 1..Len(timers) : (timers[i].live /\ timers[i].long) => timers[i].checked > MaxWait
=============================================================================

---------------------------- MODULE RespParserMC ----------------------------
(***************************************************************************)
(* Design check of the text parser: every chunking of every small input.   *)
(*                                                                         *)
(* A behaviour picks an input (one or two requests, or one or two          *)
(* responses, over a small binary-unsafe alphabet that contains CR, LF,    *)
(* '$', '*' and a letter), then feeds its encoding to the implementation-  *)
(* shaped parser in chunks of every possible size.  After every chunk the  *)
(* parser must have reported exactly the commands the reference reading    *)
(* finds in the bytes consumed so far (ChunkingIndependent), and at the    *)
(* end of the stream exactly the original argument lists (RoundTrip).      *)
(* With A9Fixed = A19Fixed = TRUE TLC proves both for the bounded inputs;  *)
(* with FALSE it produces the counterexamples, which the check replays on  *)
(* the real TextParser (only the replay is a verdict).                     *)
(***************************************************************************)
EXTENDS RespParser, Json

CONSTANTS Mode,        \* "req" | "resp"
          Alphabet,    \* bytes the arguments are made of
          LineAlphabet,\* bytes status / error messages are made of (no CR, LF)
          MaxArgLen, MaxArgs, MaxCmds, MaxChunk

VARIABLES inp,   \* the chosen input: sequence of items
          pos,   \* bytes fed so far
          cuts,  \* where the stream was cut so far (history, hidden by VIEW)
          ps     \* implementation-shaped parser state

vars == <<inp, pos, cuts, ps>>

Strings(A, n) == UNION {[1..m -> A] : m \in 0..n}

Args == Strings(Alphabet, MaxArgLen)
Lines == Strings(LineAlphabet, MaxArgLen)

ArgLists == UNION {[1..m -> Args] : m \in 1..MaxArgs}

\* one item: a request, or one of the four response shapes BuildResponse produces
Items ==
    IF Mode = "req" THEN {[kind |-> "req", args |-> a] : a \in ArgLists}
    ELSE {[kind |-> "status", msg |-> m] : m \in Lines}
         \cup {[kind |-> "error", msg |-> m] : m \in Lines}
         \cup {[kind |-> "results", args |-> a] : a \in ArgLists}

BytesOfItem(it) ==
    CASE it.kind = "req" -> BuildReq(it.args)
      [] it.kind = "status" -> BuildResp(TRUE, it.msg, <<>>)
      [] it.kind = "error" -> BuildResp(FALSE, it.msg, <<>>)
      [] it.kind = "results" -> BuildResp(TRUE, <<>>, it.args)

ExpectOfItem(it) ==
    CASE it.kind = "req" -> ExpectReq(it.args)
      [] it.kind = "status" -> ExpectResp(TRUE, it.msg, <<>>)
      [] it.kind = "error" -> ExpectResp(FALSE, it.msg, <<>>)
      [] it.kind = "results" -> ExpectResp(TRUE, <<>>, it.args)

RECURSIVE BytesOf(_)
BytesOf(items) == IF items = <<>> THEN <<>> ELSE BytesOfItem(Head(items)) \o BytesOf(Tail(items))

Expected(items) == [i \in 1..Len(items) |-> ExpectOfItem(items[i])]

Init == /\ inp \in UNION {[1..m -> Items] : m \in 1..MaxCmds}
        /\ pos = 0 /\ cuts = <<>> /\ ps = P0

FeedChunk ==
    LET b == BytesOf(inp) IN
    \E n \in 1..Min2(MaxChunk, Len(b) - pos) :
        /\ ps' = Feed(ps, SubSeq(b, pos + 1, pos + n), IF Mode = "req" THEN "req" ELSE "resp")
        /\ pos' = pos + n
        /\ cuts' = Append(cuts, pos + n)
        /\ UNCHANGED inp

Next == FeedChunk
Spec == Init /\ [][Next]_vars

view == <<inp, pos, ps>>

-----------------------------------------------------------------------------
ModeStr == IF Mode = "req" THEN "req" ELSE "resp"

\* the reference reads the original argument lists out of the whole encoding (format self-consistency)
RefRoundTrip ==
    LET b == BytesOf(inp)
        r == RefDone(b, Len(b), ModeStr)
    IN r.done = Expected(inp) /\ r.idle /\ ~r.bad

\* after every chunk: the same complete commands as the reference finds in the bytes consumed so far
ChunkingIndependent ==
    LET b == BytesOf(inp)
        r == RefDone(b, pos, ModeStr)
    IN /\ ~ps.err
       /\ ps.done = r.done
       /\ (ps.stage = 0) = r.idle

\* at the end of the stream: the original argument lists
RoundTrip ==
    pos = Len(BytesOf(inp)) => ps.done = Expected(inp) /\ ps.stage = 0 /\ ~ps.err

\* export of a counterexample as a replay script (used with A9Fixed / A19Fixed = FALSE): a completely fed
\* stream whose argument lists are not the original ones
CexExport ==
    (pos = Len(BytesOf(inp)) /\ ~RoundTrip) =>
        PrintT("CEX " \o ToJson([mode |-> ModeStr, bytes |-> BytesOf(inp), cuts |-> cuts]))
=============================================================================

------------------------------ MODULE AofReplay ------------------------------
(***************************************************************************)
(* Replay discipline of the append-only log (server/aof.go LoadAofFiles /  *)
(* LoadAofFile / AofChannel.HandleLoad, and the FROM_AOF paths of          *)
(* LockDB.Lock / LockDB.UnLock) as PURE operators over a decoded log.      *)
(*                                                                         *)
(*   Recover(files, T)  ==  what a leader started at wall-clock second T   *)
(*                          holds after loading `files` (rewrite.aof       *)
(*                          first, then the append files by index)         *)
(*                                                                         *)
(* The operators are shared by                                             *)
(*   - spec/AofLog.tla     (model: TLC checks the LOGGING discipline -     *)
(*                          which records are written when - against this  *)
(*                          replay discipline, under crashes/compaction),  *)
(*   - spec/mon/MonAof.tla (trace spec: the files of every image recorded  *)
(*                          from the real code are decoded by the harness  *)
(*                          and Recover() of them is compared with what    *)
(*                          the real code recovered: refinement).          *)
(*                                                                         *)
(* A record is  [ty, ct, fl, db, lid, key, af, et, ef, cnt, rc, data]      *)
(*   ty 1 = LOCK, 2 = UNLOCK; ct = command time (seconds); fl = request    *)
(*   flag & 0x12; af = aof flags; et = remaining lifetime in the unit of   *)
(*   ef (0x40 minutes, 0x400 milliseconds, 0x4000 unlimited, else          *)
(*   seconds); data = attached value frame, "" none, "-" flagged in the    *)
(*   record but missing / torn in the value file.                          *)
(***************************************************************************)
EXTENDS Integers, Sequences, FiniteSets, TLC, SequencesExt, FiniteSetsExt

CONSTANT MinuteLen        \* seconds per "minute" (60; the bounded model scales it down)

INF == 2000000000

Bit(x, b) == (x \div b) % 2 = 1

EF_MINUTE == 64   EF_MS == 1024   EF_UNLIMITED == 16384
AF_REWRITED == 1  AF_TIMEOUTED == 2  AF_EXPRIED == 4  AF_UPDATED == 8  AF_PRIO == 16  AF_ACK == 4096  AF_DATA == 8192
FL_UPDATE == 2

UnitOf(ef) == IF Bit(ef, EF_MINUTE) THEN MinuteLen ELSE 1

EmptyFn == [x \in {} |-> 0]
SetFn(f, k, v) == [x \in (DOMAIN f) \cup {k} |-> IF x = k THEN v ELSE f[x]]
DelFn(f, k) == [x \in (DOMAIN f) \ {k} |-> f[x]]

DepthSum(H) == FoldLeft(LAMBDA acc, h : acc + h.depth, 0, H)
IdxOfLid(H, lid) == LET I == {i \in 1..Len(H) : H[i].lid = lid} IN IF I = {} THEN 0 ELSE Min(I)
RemoveIdx(Q, i) == SubSeq(Q, 1, i - 1) \o SubSeq(Q, i + 1, Len(Q))

-----------------------------------------------------------------------------
\* LoadAofFile: records whose lifetime is over at start time T are skipped (lock AND unlock records)
Skipped(r, T) ==
    IF Bit(r.ef, EF_MS) THEN r.ct + (r.et \div 1000) <= T
    ELSE IF Bit(r.ef, EF_MINUTE) THEN r.ct + r.et * MinuteLen <= T
    ELSE IF ~Bit(r.ef, EF_UNLIMITED) THEN r.et > 0 /\ r.ct + r.et <= T
    ELSE FALSE

\* Aof.GetLockCommandExpriedTime: the Expried field of the replayed command (in the record's unit)
ReplayExpried(r, T) ==
    IF Bit(r.ef, EF_UNLIMITED) \/ Bit(r.ef, EF_MS) THEN r.et
    ELSE IF Bit(r.ef, EF_MINUTE) THEN
        LET el == T - r.ct IN
        IF el >= 0 THEN LET m == (el \div MinuteLen) + (IF el < MinuteLen \/ el % MinuteLen # 0 THEN 1 ELSE 0)
                        IN IF r.et > m THEN r.et - m ELSE 0
        ELSE r.et
    ELSE IF r.et > 0 THEN
        LET el == T - r.ct IN IF el >= 0 THEN (IF r.et > el THEN r.et - el ELSE 0) ELSE r.et
    ELSE r.et

\* a record that no longer takes effect at T: skipped, or a LOCK record whose remaining lifetime rounds to zero (minute unit)
Dead(r, T) == Skipped(r, T) \/ (r.ty = 1 /\ r.et > 0 /\ ReplayExpried(r, T) = 0)

\* LockManager.AddLock / UpdateLockedLock: the deadline of a hold (re)granted at T with Expried E
DeadlineOf(ef, E, T) ==
    IF Bit(ef, EF_UNLIMITED) THEN INF
    ELSE IF Bit(ef, EF_MS) THEN T + (E \div 1000) + 1
    ELSE IF Bit(ef, EF_MINUTE) THEN T + E * MinuteLen + 1
    ELSE T + E + 1

\* LockDB.doLock
CanLock(H, c) ==
    IF DepthSum(H) = 0 THEN TRUE
    ELSE IF c = 0 THEN FALSE
    ELSE DepthSum(H) <= Head(H).cnt /\ DepthSum(H) <= c

HasData(r) == Bit(r.af, AF_DATA)
IsPrio(r)  == Bit(r.af, AF_PRIO)

KeyOfRec(r) == <<r.db, r.key>>
\* ghost: the value the key had when its last holder left.  The running server frees a released key (and its value)
\* at the next visit of the expiry wheel; during a replay nothing ages, so a key that is released and taken again
\* within one load may or may not still carry that value (finding A28) - the refinement check accepts both.
NoKey == [H |-> <<>>, data |-> "", ghost |-> ""]
KeyState(S, k) == IF k \in DOMAIN S THEN S[k] ELSE NoKey
PutKey(S, k, ks) ==
    IF ks.H = <<>> THEN SetFn(S, k, [H |-> <<>>, data |-> "", ghost |-> IF ks.data # "" THEN ks.data ELSE KeyState(S, k).ghost])
    ELSE SetFn(S, k, [H |-> ks.H, data |-> ks.data, ghost |-> IF ks.data # "" THEN "" ELSE KeyState(S, k).ghost])

\* LockDB.Lock with LOCK_FLAG_FROM_AOF (Timeout 0: a refused request is simply dropped)
ApplyLock(S, r, T) ==
    LET k   == KeyOfRec(r)
        ks  == KeyState(S, k)
        H   == ks.H
        i   == IdxOfLid(H, r.lid)
        E   == ReplayExpried(r, T)
        nd  == IF HasData(r) THEN r.data ELSE ks.data
        trm(d) == [lid |-> r.lid, depth |-> d, cnt |-> r.cnt, rc |-> r.rc, exp |-> DeadlineOf(r.ef, E, T), ef |-> r.ef]
    IN
    IF DepthSum(H) > 0 /\ i > 0 THEN
        IF Bit(r.fl, FL_UPDATE) THEN
            PutKey(S, k, [H |-> [H EXCEPT ![i] = trm(H[i].depth)], data |-> nd])
        ELSE IF H[i].depth < 255 /\ H[i].depth <= r.rc /\ ~IsPrio(r) THEN
            IF E = 0 THEN S
            ELSE PutKey(S, k, [H |-> [H EXCEPT ![i] = trm(H[i].depth + 1)], data |-> nd])
        ELSE S
    ELSE IF CanLock(H, r.cnt) THEN
        IF E > 0 THEN PutKey(S, k, [H |-> Append(H, trm(1)), data |-> nd])
        ELSE PutKey(S, k, [H |-> H, data |-> nd])      \* zero-expiry request: value only (gone with the key when nobody holds)
    ELSE S

\* LockDB.UnLock with UNLOCK_FLAG_FROM_AOF (flag 0: plain unlock by LockId)
ApplyUnlock(S, r) ==
    LET k  == KeyOfRec(r)
        ks == KeyState(S, k)
        H  == ks.H
        i  == IdxOfLid(H, r.lid)
        nd == IF HasData(r) THEN r.data ELSE ks.data
    IN
    IF DepthSum(H) = 0 \/ i = 0 THEN S
    ELSE IF H[i].depth > 1 /\ r.rc > 0 /\ ~IsPrio(r) THEN
        PutKey(S, k, [H |-> [H EXCEPT ![i].depth = @ - 1], data |-> nd])
    ELSE PutKey(S, k, [H |-> RemoveIdx(H, i), data |-> nd])

ApplyRec(S, r, T) ==
    IF Skipped(r, T) THEN S
    ELSE IF r.ty = 1 THEN ApplyLock(S, r, T)
    ELSE IF r.ty = 2 THEN ApplyUnlock(S, r)
    ELSE S

\* LoadAofFiles: one pass over all files in load order.  A record whose value frame is missing ends the
\* load of ALL files (ReadLockData -> io.EOF -> LoadAofFiles treats it as a clean end).
AllRecs(files) == FoldLeft(LAMBDA acc, f : acc \o f.recs, <<>>, files)

RecoverRecs(recs, T) ==
    LET \* note: LoadAofFile reads the value frame BEFORE the skip test, so a skipped record also stops the load
        bad2 == {i \in 1..Len(recs) : HasData(recs[i]) /\ recs[i].data = "-"}
        n   == IF bad2 = {} THEN Len(recs) ELSE Min(bad2) - 1
        full == FoldLeft(LAMBDA S, r : ApplyRec(S, r, T), EmptyFn, SubSeq(recs, 1, n))
    IN [k \in {kk \in DOMAIN full : full[kk].H # <<>>} |-> full[k]]

Recover(files, T) == RecoverRecs(AllRecs(files), T)

-----------------------------------------------------------------------------
\* comparison of two recovered states up to the deadline tolerance the properties allow
\* (one unit of the hold's expiry granularity plus one second)
HoldEq(a, b) ==
    /\ a.lid = b.lid /\ a.depth = b.depth /\ a.cnt = b.cnt /\ a.rc = b.rc
    /\ (a.exp >= INF) = (b.exp >= INF)
    /\ (a.exp < INF => (a.exp - b.exp <= UnitOf(a.ef) + 1 /\ b.exp - a.exp <= UnitOf(a.ef) + 1))

KeyEq(x, y) ==
    /\ x.data = y.data
    /\ Len(x.H) = Len(y.H)
    /\ \A i \in 1..Len(x.H) : \E j \in 1..Len(y.H) : HoldEq(x.H[i], y.H[j])
    /\ \A j \in 1..Len(y.H) : \E i \in 1..Len(x.H) : HoldEq(x.H[i], y.H[j])

StateEq(A, B) == DOMAIN A = DOMAIN B /\ \A k \in DOMAIN A : KeyEq(A[k], B[k])

\* two states that are to be compared "as of second T" (two recoveries made at different wall-clock seconds, or
\* the stopped instance against its recovery): a hold whose deadline is not clearly after T (within twice the
\* tolerance) may be present on one side and absent on the other; the value of a key is compared where both
\* sides clearly hold it
Near(h, T) == h.exp < INF /\ h.exp - T <= 2 * (UnitOf(h.ef) + 1)

CoveredBy(A, B, T) ==
    \A k \in DOMAIN A : \A i \in 1..Len(A[k].H) :
        Near(A[k].H[i], T) \/ (k \in DOMAIN B /\ \E j \in 1..Len(B[k].H) : HoldEq(A[k].H[i], B[k].H[j]))

ClearlyHeld(S, k, T) == k \in DOMAIN S /\ \E i \in 1..Len(S[k].H) : ~Near(S[k].H[i], T)

StateEqAt(A, B, T) ==
    /\ CoveredBy(A, B, T) /\ CoveredBy(B, A, T)
    /\ \A k \in DOMAIN A : (ClearlyHeld(A, k, T) /\ ClearlyHeld(B, k, T)) => A[k].data = B[k].data

\* keys on which the two states differ as of T (for reports)
DiffKeysAt(A, B, T) ==
    {k \in DOMAIN A \cup DOMAIN B :
        \/ (k \in DOMAIN A /\ \E i \in 1..Len(A[k].H) : ~Near(A[k].H[i], T) /\ ~(k \in DOMAIN B /\ \E j \in 1..Len(B[k].H) : HoldEq(A[k].H[i], B[k].H[j])))
        \/ (k \in DOMAIN B /\ \E i \in 1..Len(B[k].H) : ~Near(B[k].H[i], T) /\ ~(k \in DOMAIN A /\ \E j \in 1..Len(A[k].H) : HoldEq(B[k].H[i], A[k].H[j])))
        \/ (ClearlyHeld(A, k, T) /\ ClearlyHeld(B, k, T) /\ A[k].data # B[k].data)}

-----------------------------------------------------------------------------
\* the same comparisons with the deadline tolerance as a parameter (Tol(a, b) = seconds allowed between holds a and b).
\* Used where both states were recovered by the same code from record files that should hold the same records (C16:
\* the compacted files against the files they replaced): a seconds-unit deadline is ct + et + 1 whatever the second
\* of the start, so it must come back EXACTLY; a minute-unit deadline is computed from the second of the start and
\* the replay of an update compares deadlines "give or take one minute", so it keeps the general tolerance.
HoldEqT(a, b, Tol(_, _)) ==
    /\ a.lid = b.lid /\ a.depth = b.depth /\ a.cnt = b.cnt /\ a.rc = b.rc
    /\ (a.exp >= INF) = (b.exp >= INF)
    /\ (a.exp < INF => (a.exp - b.exp <= Tol(a, b) /\ b.exp - a.exp <= Tol(a, b)))

CoveredByT(A, B, T, Tol(_, _)) ==
    \A k \in DOMAIN A : \A i \in 1..Len(A[k].H) :
        Near(A[k].H[i], T) \/ (k \in DOMAIN B /\ \E j \in 1..Len(B[k].H) : HoldEqT(A[k].H[i], B[k].H[j], Tol))

StateEqAtT(A, B, T, Tol(_, _)) ==
    /\ CoveredByT(A, B, T, Tol) /\ CoveredByT(B, A, T, Tol)
    /\ \A k \in DOMAIN A : (ClearlyHeld(A, k, T) /\ ClearlyHeld(B, k, T)) => A[k].data = B[k].data

DiffKeysAtT(A, B, T, Tol(_, _)) ==
    {k \in DOMAIN A \cup DOMAIN B :
        \/ (k \in DOMAIN A /\ \E i \in 1..Len(A[k].H) : ~Near(A[k].H[i], T) /\ ~(k \in DOMAIN B /\ \E j \in 1..Len(B[k].H) : HoldEqT(A[k].H[i], B[k].H[j], Tol)))
        \/ (k \in DOMAIN B /\ \E i \in 1..Len(B[k].H) : ~Near(B[k].H[i], T) /\ ~(k \in DOMAIN A /\ \E j \in 1..Len(A[k].H) : HoldEqT(B[k].H[i], A[k].H[j], Tol)))
        \/ (ClearlyHeld(A, k, T) /\ ClearlyHeld(B, k, T) /\ A[k].data # B[k].data)}

-----------------------------------------------------------------------------
\* Wall-clock robustness of comparisons between recoveries that were started at different seconds (a busy machine
\* spreads the recoveries of one stop point over many seconds).  The start skips a record when its lifetime is over
\* AT THE SECOND OF THE START: a record whose lifetime ends inside [lo, hi] is applied by one start and skipped by
\* another.  The keys of such records are left out of the comparison (counted as agnostic by the monitor).
RecEnd(r) == IF Bit(r.ef, EF_UNLIMITED) THEN INF
             ELSE IF Bit(r.ef, EF_MS) THEN r.ct + (r.et \div 1000)
             ELSE IF Bit(r.ef, EF_MINUTE) THEN r.ct + r.et * MinuteLen
             ELSE IF r.et > 0 THEN r.ct + r.et ELSE INF
\* (a minute-unit LOCK record already stops taking effect when its remaining lifetime rounds to zero, up to a minute earlier)
RecEndLo(r) == IF Bit(r.ef, EF_MINUTE) /\ ~Bit(r.ef, EF_UNLIMITED) /\ ~Bit(r.ef, EF_MS) THEN RecEnd(r) - MinuteLen ELSE RecEnd(r)
TimeKeys(recs, lo, hi) == {<<recs[i].db, recs[i].key>> : i \in {j \in 1..Len(recs) : RecEndLo(recs[j]) <= hi /\ RecEnd(recs[j]) >= lo}}
Without(S, K) == [k \in (DOMAIN S) \ K |-> S[k]]

=============================================================================

------------------------------ MODULE PrioMutex ------------------------------
(***************************************************************************)
(* server/lock.go PriorityMutex - the shard mutex of the lock engine: an   *)
(* inner sync.Mutex plus a "high priority" lane (the sweepers) that keeps  *)
(* ordinary lockers out while a sweeper wants the shard.  One step per     *)
(* atomic operation / inner mutex operation:                               *)
(*                                                                         *)
(*   Lock():              if hp # 0 { hpm.Lock(); hpm.Unlock() }           *)
(*                        m.Lock(); while hp # 0 { m.Unlock(); wait hpm;   *)
(*                        m.Lock() }                                       *)
(*   HighPriorityLock():  hpCount++ ; m.Lock()                             *)
(*   HighPriorityUnlock():hpCount-- ; if hpCount = 0 HighUnSetPriority();  *)
(*                        m.Unlock()                                       *)
(*   HighSetPriority():   if CAS(hp,0,1) { hpm.Lock(); if hpCount = 0      *)
(*                        HighUnSetPriority() }      (called by the clock  *)
(*                        goroutine once a second when hpCount > 0)        *)
(*   HighUnSetPriority(): if CAS(hp,1,0) hpm.Unlock()                      *)
(*                                                                         *)
(* Checked: mutual exclusion of the inner mutex, no deadlock, and that no  *)
(* inner sync.Mutex is ever unlocked while it is not locked (Go aborts the *)
(* process with "sync: unlock of unlocked mutex").                         *)
(*                                                                         *)
(* RESULT (design level only, no listed property depends on it, not        *)
(* reproduced on the code): NoBadUnlock is VIOLATED by a 6-step behaviour: *)
(* the clock goroutine has done CAS(hp,0,1) but not yet hpm.Lock() when    *)
(* the last sweeper finishes: its HighUnSetPriority wins CAS(hp,1,0) and   *)
(* unlocks hpm, which nobody holds.  See DESIGN.md 12.3 (B1).              *)
(***************************************************************************)
EXTENDS Integers, FiniteSets, TLC

CONSTANTS Lockers, Sweepers, Clock, MaxRounds

Procs == Lockers \cup Sweepers \cup {Clock}
None == "none"

VARIABLES m,        \* owner of the inner mutex
          hpm,      \* owner of highPriorityMutex
          hp,       \* highPriority flag 0/1
          hpCount,  \* highPriorityAcquireCount
          pc, rounds, bad
vars == <<m, hpm, hp, hpCount, pc, rounds, bad>>

Init == /\ m = None /\ hpm = None /\ hp = 0 /\ hpCount = 0
        /\ pc = [p \in Procs |-> "idle"] /\ rounds = [p \in Procs |-> 0] /\ bad = "no"

Goto(p, l) == pc' = [pc EXCEPT ![p] = l]

\* ---------------------------------------------------------------- ordinary Lock / Unlock
LStart(p) == /\ p \in Lockers /\ pc[p] = "idle" /\ rounds[p] < MaxRounds
             /\ rounds' = [rounds EXCEPT ![p] = @ + 1]
             /\ Goto(p, IF hp # 0 THEN "l_wait_hpm" ELSE "l_lock")
             /\ UNCHANGED <<m, hpm, hp, hpCount, bad>>
LWaitHpm(p) == /\ pc[p] = "l_wait_hpm" /\ hpm = None          \* hpm.Lock(); hpm.Unlock()
               /\ Goto(p, "l_lock") /\ UNCHANGED <<m, hpm, hp, hpCount, rounds, bad>>
LLock(p) == /\ pc[p] = "l_lock" /\ m = None
            /\ m' = p /\ Goto(p, "l_check") /\ UNCHANGED <<hpm, hp, hpCount, rounds, bad>>
LCheck(p) == /\ pc[p] = "l_check"
             /\ IF hp # 0 THEN /\ m' = None /\ Goto(p, "l_wait_hpm2")
                          ELSE /\ Goto(p, "l_cs") /\ UNCHANGED m
             /\ UNCHANGED <<hpm, hp, hpCount, rounds, bad>>
LWaitHpm2(p) == /\ pc[p] = "l_wait_hpm2"
                /\ IF hp # 0 THEN hpm = None ELSE TRUE         \* if hp # 0 { hpm.Lock(); hpm.Unlock() }
                /\ Goto(p, "l_lock") /\ UNCHANGED <<m, hpm, hp, hpCount, rounds, bad>>
LUnlock(p) == /\ pc[p] = "l_cs"
              /\ m' = None /\ Goto(p, "idle") /\ UNCHANGED <<hpm, hp, hpCount, rounds, bad>>

\* ---------------------------------------------------------------- sweeper: HighPriorityLock / HighPriorityUnlock
SStart(p) == /\ p \in Sweepers /\ pc[p] = "idle" /\ rounds[p] < MaxRounds
             /\ rounds' = [rounds EXCEPT ![p] = @ + 1]
             /\ hpCount' = hpCount + 1 /\ Goto(p, "s_lock")
             /\ UNCHANGED <<m, hpm, hp, bad>>
SLock(p) == /\ pc[p] = "s_lock" /\ m = None
            /\ m' = p /\ Goto(p, "s_cs") /\ UNCHANGED <<hpm, hp, hpCount, rounds, bad>>
SDec(p) == /\ pc[p] = "s_cs"
           /\ hpCount' = hpCount - 1
           /\ Goto(p, IF hpCount - 1 = 0 THEN "s_unset" ELSE "s_unlock")
           /\ UNCHANGED <<m, hpm, hp, rounds, bad>>
SUnset(p) == /\ pc[p] = "s_unset"                               \* HighUnSetPriority: CAS(hp,1,0) then hpm.Unlock()
             /\ IF hp = 1 THEN /\ hp' = 0 /\ Goto(p, "s_hpm_unlock")
                          ELSE /\ Goto(p, "s_unlock") /\ UNCHANGED hp
             /\ UNCHANGED <<m, hpm, hpCount, rounds, bad>>
SHpmUnlock(p) == /\ pc[p] = "s_hpm_unlock"
                 /\ IF hpm = None THEN bad' = "unlock of unlocked highPriorityMutex" /\ UNCHANGED hpm
                                  ELSE hpm' = None /\ UNCHANGED bad
                 /\ Goto(p, "s_unlock") /\ UNCHANGED <<m, hp, hpCount, rounds>>
SUnlock(p) == /\ pc[p] = "s_unlock"
              /\ m' = None /\ Goto(p, "idle") /\ UNCHANGED <<hpm, hp, hpCount, rounds, bad>>

\* ---------------------------------------------------------------- clock goroutine: HighSetPriority when hpCount > 0
CStart == /\ pc[Clock] = "idle" /\ rounds[Clock] < MaxRounds /\ hpCount > 0
          /\ rounds' = [rounds EXCEPT ![Clock] = @ + 1]
          /\ IF hp = 0 THEN hp' = 1 /\ Goto(Clock, "c_hpm_lock") ELSE UNCHANGED <<hp, pc>>
          /\ UNCHANGED <<m, hpm, hpCount, bad>>
CHpmLock == /\ pc[Clock] = "c_hpm_lock" /\ hpm = None
            /\ hpm' = Clock /\ Goto(Clock, "c_check") /\ UNCHANGED <<m, hp, hpCount, rounds, bad>>
CCheck == /\ pc[Clock] = "c_check"
          /\ IF hpCount = 0 THEN Goto(Clock, "c_unset") ELSE Goto(Clock, "idle")
          /\ UNCHANGED <<m, hpm, hp, hpCount, rounds, bad>>
CUnset == /\ pc[Clock] = "c_unset"
          /\ IF hp = 1 THEN /\ hp' = 0 /\ Goto(Clock, "c_hpm_unlock") ELSE /\ Goto(Clock, "idle") /\ UNCHANGED hp
          /\ UNCHANGED <<m, hpm, hpCount, rounds, bad>>
CHpmUnlock == /\ pc[Clock] = "c_hpm_unlock"
              /\ IF hpm = None THEN bad' = "unlock of unlocked highPriorityMutex" /\ UNCHANGED hpm
                               ELSE hpm' = None /\ UNCHANGED bad
              /\ Goto(Clock, "idle") /\ UNCHANGED <<m, hp, hpCount, rounds>>

Next == \/ \E p \in Lockers : LStart(p) \/ LWaitHpm(p) \/ LLock(p) \/ LCheck(p) \/ LWaitHpm2(p) \/ LUnlock(p)
        \/ \E p \in Sweepers : SStart(p) \/ SLock(p) \/ SDec(p) \/ SUnset(p) \/ SHpmUnlock(p) \/ SUnlock(p)
        \/ CStart \/ CHpmLock \/ CCheck \/ CUnset \/ CHpmUnlock

Spec == Init /\ [][Next]_vars /\ WF_vars(Next)

-----------------------------------------------------------------------------
InCS(p) == pc[p] \in {"l_cs", "s_cs", "s_unset", "s_hpm_unlock", "s_unlock", "l_check"}
MutualExclusion == \A p, q \in Procs : (p # q /\ InCS(p)) => ~InCS(q)
NoBadUnlock == bad = "no"
\* no deadlock: when everybody is done or idle the mutexes are free (otherwise somebody is blocked for ever)
AllIdle == \A p \in Procs : pc[p] = "idle"
QuietMeansFree == AllIdle => (m = None /\ hp = 0 => hpm = None)
\* the priority flag is never left set with nobody going to clear it
NoStuckPriority == (AllIdle /\ hpCount = 0) => hp = 0
=============================================================================

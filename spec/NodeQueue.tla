------------------------------- MODULE NodeQueue -------------------------------
(***************************************************************************)
(* Implementation-shaped model of the node-array queue of server/queue.go  *)
(* (LockQueue, LockCommandQueue, LockManagerQueue: three copies of one     *)
(* code shape; LongWaitLockQueue and LockManagerScaleLockQueue embed it).  *)
(*                                                                         *)
(* The state record I has the fields of the Go struct:                     *)
(*   queues      [][]*T   sequence of array references (0 = nil)           *)
(*   sizes       nodeQueueSizes                                            *)
(*   hq, hqs     headQueue (an ALIAS of one node array), headQueueSize     *)
(*   tq, tqs     tailQueue, tailQueueSize                                  *)
(*   hn, hi      headNodeIndex, headQueueIndex                             *)
(*   tn, ti      tailNodeIndex, tailQueueIndex                             *)
(*   ni, ns      nodeIndex, nodeSize      sh  shrinkNodeSize               *)
(*   qs          queueSize                rt  rellacTailNodeIndex          *)
(*   base, bqs   baseNodeSize, baseQueueSize                               *)
(* plus `heap`, the node arrays themselves (a slot holds an element id,    *)
(* 0 = nil), so that the cached slices alias exactly as in Go, and         *)
(* `panicked` (an index / slice-bounds / nil dereference panic of the Go   *)
(* statement is an explicit outcome, not a TLC evaluation error).          *)
(* Every method is one operator, statement by statement.                   *)
(*                                                                         *)
(* D is the plain deque (module Deque).  TLC checks in every reachable     *)
(* state, for every operation:  return value, Len, Head, Tail and the      *)
(* iteration order (IterNodes/IterNodeQueues) of the model equal those of  *)
(* the deque, and no panic.  A refuted clause does not stop TLC: the       *)
(* program is printed ("CEX ..") and replayed on the real code by the      *)
(* check - only a reproduction on the real code is a verdict.              *)
(* Every transition prints its program ("T ..", transition cover).         *)
(***************************************************************************)
EXTENDS Integers, Sequences, FiniteSets, TLC, Json, Deque

CONSTANTS BaseNodeSize, NodeSize, QueueSize,   \* constructor parameters
          OpNames, MaxPush, ExportCover,
          Q2Fixed,   \* TRUE: db.go restructuring copies as repaired by 2b698da (nodeIndex-- with every freed node);
                     \* FALSE: the old code (nodeIndex left stale: known finding Q2)
          Q4Fixed,   \* TRUE: db.go restructuring copies as repaired by e13fd2e (free from nodeIndex downwards, queueSize
                     \* from nodeIndex); FALSE: 2b698da only (counts down from the old tail node: finding Q4)
          Q3Fixed    \* TRUE: Restructuring as repaired by 775ec1e (frees from nodeIndex downwards);
                     \* FALSE: the old code (counts down from the old tail node: known finding Q3)

MaxMalloc == 67108863      \* QUEUE_MAX_MALLOC_SIZE

VARIABLES I, D, bad, hist, nid
vars == <<I, D, bad, hist, nid>>

Min2(a, b) == IF a < b THEN a ELSE b
Zeros(n) == [i \in 1..n |-> 0]

\* func NewLockQueue(baseNodeSize, nodeSize, queueSize)
NewQ(b, n, s) ==
       [heap |-> <<Zeros(s)>>,
        queues |-> [i \in 1..n |-> IF i = 1 THEN 1 ELSE 0],
        sizes  |-> [i \in 1..n |-> IF i = 1 THEN s ELSE 0],
        hq |-> 1, hqs |-> s, tq |-> 1, tqs |-> s,
        hn |-> 0, hi |-> 0, tn |-> 0, ti |-> 0,
        ni |-> 0, ns |-> n, sh |-> 0, qs |-> s, rt |-> 0,
        base |-> b, bqs |-> s, panicked |-> FALSE]
New == NewQ(BaseNodeSize, NodeSize, QueueSize)

Panic(J) == [J EXCEPT !.panicked = TRUE]
R(J, r) == [I |-> J, ret |-> r]

\* Go: queues[k], nodeQueueSizes[k] (k is a Go index)
InNodes(J, k) == k >= 0 /\ k < Len(J.queues)
InSizes(J, k) == k >= 0 /\ k < Len(J.sizes)
Qref(J, k) == J.queues[k + 1]
Qsz(J, k)  == J.sizes[k + 1]
\* Go: arr[i] on the array referenced by r
InArr(J, r, i) == r > 0 /\ i >= 0 /\ i < Len(J.heap[r])
Slot(J, r, i) == J.heap[r][i + 1]
SetSlot(J, r, i, v) == [J EXCEPT !.heap[r][i + 1] = v]

Alloc(J, n) == [J EXCEPT !.heap = Append(@, Zeros(n))]     \* the new array is Len(heap)

Empty(J) == J.ti <= J.hi /\ J.tn <= J.hn

----------------------------------------------------------------------------
\* func mallocQueue()
Malloc(J0) ==
    LET J1 == [J0 EXCEPT !.tn = @ + 1, !.ti = 0] IN
    IF J1.tn >= J1.ns
    THEN LET q2 == Min2(J1.qs * 2, MaxMalloc)
             J2 == Alloc(J1, q2)
             r  == Len(J2.heap)
             J3 == [J2 EXCEPT !.qs = q2, !.queues = Append(@, r), !.sizes = Append(@, q2), !.ni = @ + 1, !.ns = @ + 1]
         IN IF InNodes(J3, J3.tn) /\ InSizes(J3, J3.tn)
            THEN [J3 EXCEPT !.tq = Qref(J3, J3.tn), !.tqs = Qsz(J3, J3.tn)] ELSE Panic(J3)
    ELSE IF ~InNodes(J1, J1.tn) THEN Panic(J1)
    ELSE IF Qref(J1, J1.tn) = 0
    THEN LET q2 == Min2(J1.qs * 2, MaxMalloc)
             J2 == Alloc(J1, q2)
             r  == Len(J2.heap)
         IN IF ~InSizes(J2, J2.tn) THEN Panic(J2)
            ELSE LET J3 == [J2 EXCEPT !.qs = q2, !.queues[J2.tn + 1] = r, !.sizes[J2.tn + 1] = q2, !.ni = @ + 1]
                 IN [J3 EXCEPT !.tq = Qref(J3, J3.tn), !.tqs = Qsz(J3, J3.tn)]
    ELSE IF ~InSizes(J1, J1.tn) THEN Panic(J1)
    ELSE [J1 EXCEPT !.tq = Qref(J1, J1.tn), !.tqs = Qsz(J1, J1.tn)]

\* func freeQueue()
RECURSIVE FreeLoop(_, _)
FreeLoop(J, t) ==
    IF J.ni > t
    THEN IF ~InNodes(J, J.ni) \/ ~InSizes(J, J.ni) \/ ~InSizes(J, J.ni - 1) THEN Panic(J)
         ELSE FreeLoop([J EXCEPT !.queues[J.ni + 1] = 0, !.sizes[J.ni + 1] = 0, !.ni = @ - 1, !.qs = Qsz(J, J.ni - 1)], t)
    ELSE J
FreeQueue(J) ==
    IF J.ns <= J.base THEN J
    ELSE FreeLoop(J, IF J.tn < J.base - 1 THEN J.base - 1 ELSE J.tn)

\* func Push(x)
Push(J, x) ==
    IF ~InArr(J, J.tq, J.ti) THEN Panic(J)
    ELSE LET J1 == [SetSlot(J, J.tq, J.ti, x) EXCEPT !.ti = @ + 1]
         IN IF J1.ti >= J1.tqs THEN Malloc(J1) ELSE J1

\* func PushLeft(x): ret 0 ok, -1 "full"
PushLeft(J, x) ==
    IF J.hn <= 0 /\ J.hi <= 0 THEN R(J, -1)
    ELSE LET J1 == [J EXCEPT !.hi = @ - 1]
             J2 == IF J1.hi < 0
                   THEN LET h == J1.hn - 1 IN
                        IF ~InSizes(J1, h) \/ ~InNodes(J1, h) THEN Panic(J1)
                        ELSE [J1 EXCEPT !.hn = h, !.hi = Qsz(J1, h) - 1, !.hq = Qref(J1, h), !.hqs = Qsz(J1, h)]
                   ELSE J1
         IN IF J2.panicked THEN R(J2, 0)
            ELSE IF ~InArr(J2, J2.hq, J2.hi) THEN R(Panic(J2), 0)
            ELSE R(SetSlot(J2, J2.hq, J2.hi, x), 0)

\* func Pop()
Pop(J) ==
    IF Empty(J) THEN R(J, 0)
    ELSE IF ~InArr(J, J.hq, J.hi) THEN R(Panic(J), 0)
    ELSE LET x  == Slot(J, J.hq, J.hi)
             J1 == [SetSlot(J, J.hq, J.hi, 0) EXCEPT !.hi = @ + 1]
         IN IF J1.hi >= J1.hqs
            THEN LET h == J1.hn + 1 IN
                 IF ~InNodes(J1, h) \/ ~InSizes(J1, h) THEN R(Panic(J1), x)
                 ELSE R([J1 EXCEPT !.hn = h, !.hi = 0, !.hq = Qref(J1, h), !.hqs = Qsz(J1, h)], x)
            ELSE R(J1, x)

\* func PopRight()
PopRight(J) ==
    IF Empty(J) THEN R(J, 0)
    ELSE LET J1 == [J EXCEPT !.ti = @ - 1]
             J2 == IF J1.ti < 0
                   THEN LET t == J1.tn - 1 IN
                        IF ~InSizes(J1, t) \/ ~InNodes(J1, t) THEN Panic(J1)
                        ELSE [J1 EXCEPT !.tn = t, !.ti = Qsz(J1, t) - 1, !.tq = Qref(J1, t), !.tqs = Qsz(J1, t)]
                   ELSE J1
         IN IF J2.panicked THEN R(J2, 0)
            ELSE IF ~InArr(J2, J2.tq, J2.ti) THEN R(Panic(J2), 0)
            ELSE R(SetSlot(J2, J2.tq, J2.ti, 0), Slot(J2, J2.tq, J2.ti))

PANICV == -7     \* observation value standing for "the Go expression panics"

\* func Head(), Tail(), Len()
HeadI(J) == IF Empty(J) THEN 0 ELSE IF InArr(J, J.hq, J.hi) THEN Slot(J, J.hq, J.hi) ELSE PANICV
TailI(J) ==
    IF Empty(J) THEN 0
    ELSE IF J.ti = 0
         THEN IF J.tn = 0 THEN 0
              ELSE IF InNodes(J, J.tn - 1) /\ InSizes(J, J.tn - 1) /\ InArr(J, Qref(J, J.tn - 1), Qsz(J, J.tn - 1) - 1)
                   THEN Slot(J, Qref(J, J.tn - 1), Qsz(J, J.tn - 1) - 1) ELSE PANICV
         ELSE IF InArr(J, J.tq, J.ti - 1) THEN Slot(J, J.tq, J.ti - 1) ELSE PANICV

RECURSIVE SumSizes(_, _, _)
SumSizes(J, a, b) == IF a >= b THEN 0 ELSE (IF InSizes(J, a) THEN Qsz(J, a) ELSE 0) + SumSizes(J, a + 1, b)
LenI(J) ==
    IF J.tn <= J.hn THEN J.ti - J.hi
    ELSE (IF InSizes(J, J.hn) THEN Qsz(J, J.hn) ELSE 0) - J.hi + SumSizes(J, J.hn + 1, J.tn) + J.ti

\* IterNodes() / IterNodeQueues(index): the concatenation of the node slices; <<PANICV>> when a slice expression panics
SliceOK(J, r, a, b) == a >= 0 /\ a <= b /\ (IF r = 0 THEN b = 0 ELSE b <= Len(J.heap[r]))
Slice(J, r, a, b) == IF r = 0 THEN <<>> ELSE SubSeq(J.heap[r], a + 1, b)
RECURSIVE IterFrom(_, _)
IterFrom(J, k) ==       \* k is the node index (Go: headNodeIndex + index)
    IF k > J.tn THEN <<>>
    ELSE LET a == IF k = J.hn THEN J.hi ELSE 0
             b == IF k = J.tn THEN J.ti ELSE Qsz(J, k)
             rest == IterFrom(J, k + 1)
         IN IF ~InNodes(J, k) \/ ~InSizes(J, k) \/ ~SliceOK(J, Qref(J, k), a, b) \/ rest = <<PANICV>> THEN <<PANICV>>
            ELSE Slice(J, Qref(J, k), a, b) \o rest
IterI(J) == IF J.hn > J.tn + 1 \/ J.tn + 1 > Len(J.queues) THEN <<PANICV>> ELSE IterFrom(J, J.hn)

\* func Reset()
RECURSIVE NilDown(_, _)
NilDown(J, lim) ==      \* for self.nodeIndex >= lim { queues[nodeIndex] = nil; sizes[nodeIndex] = 0; nodeIndex-- }
    IF J.ni >= lim
    THEN IF ~InNodes(J, J.ni) \/ ~InSizes(J, J.ni) THEN Panic(J)
         ELSE NilDown([J EXCEPT !.queues[J.ni + 1] = 0, !.sizes[J.ni + 1] = 0, !.ni = @ - 1], lim)
    ELSE J
ToFront(J) ==           \* head and tail back to node 0
    IF ~InNodes(J, 0) \/ ~InSizes(J, 0) THEN Panic(J)
    ELSE [J EXCEPT !.hn = 0, !.hi = 0, !.hq = Qref(J, 0), !.tq = Qref(J, 0), !.tn = 0, !.ti = 0,
                   !.hqs = Qsz(J, 0), !.tqs = Qsz(J, 0)]
Reset(J) ==
    LET J1 == NilDown(J, J.base) IN
    IF J1.panicked \/ ~InSizes(J1, J1.ni) THEN Panic(J1)
    ELSE LET J2 == ToFront([J1 EXCEPT !.qs = Qsz(J1, J1.ni)]) IN [J2 EXCEPT !.rt = 0]

\* func Rellac()      (Go integer division truncates towards zero)
GoDiv2(a) == IF a >= 0 THEN a \div 2 ELSE -((-a) \div 2)
Rellac(J) ==
    LET J1 == IF J.rt >= J.tn
              THEN LET b0 == J.rt + GoDiv2(J.ni - J.rt)
                       b  == IF b0 < J.base THEN J.base ELSE b0
                       K  == NilDown(J, b)
                   IN IF K.panicked \/ ~InSizes(K, K.ni) THEN Panic(K) ELSE [K EXCEPT !.qs = Qsz(K, K.ni)]
              ELSE J
    IN IF J1.panicked THEN J1 ELSE ToFront([J1 EXCEPT !.rt = J1.tn])

\* func Resize()
RECURSIVE ResizeNil(_, _, _), ResizeMove(_, _, _, _)
ResizeNil(J, i, lim) == IF i < lim THEN (IF ~InNodes(J, i) \/ ~InSizes(J, i) THEN Panic(J)
                                          ELSE ResizeNil([J EXCEPT !.queues[i + 1] = 0, !.sizes[i + 1] = 0], i + 1, lim)) ELSE J
ResizeMove(J, i, lim, mv) ==
    IF i <= lim
    THEN IF ~InNodes(J, i) \/ ~InSizes(J, i) \/ ~InNodes(J, i - mv) THEN Panic(J)
         ELSE LET J1 == [J EXCEPT !.queues[i - mv + 1] = Qref(J, i), !.sizes[i - mv + 1] = Qsz(J, i)]
                  J2 == [J1 EXCEPT !.queues[i + 1] = 0, !.sizes[i + 1] = 0, !.ni = @ + 1]
              IN ResizeMove(J2, i + 1, lim, mv)
    ELSE J
Pow2(n) == IF n <= 0 THEN 1 ELSE IF n >= 30 THEN 1073741824 ELSE 2 ^ n
Resize(J) ==
    IF J.hn <= J.base THEN J
    ELSE LET J1 == ResizeNil(J, J.base, J.hn)
             mv == J.hn - J.base
             J2 == IF J1.panicked THEN J1 ELSE ResizeMove([J1 EXCEPT !.ni = J.base - 1], J.hn, J.tn, mv)
         IN IF J2.panicked THEN J2
            ELSE [J2 EXCEPT !.qs = J.bqs * Pow2(J.tn), !.hn = @ - mv, !.tn = @ - mv]

\* func Restructuring()
RECURSIVE RestrNode(_, _, _, _)
RestrNode(J, j, k, lim) ==      \* for k < lim(J, j): move queues[j][k] to the (new) tail
    IF J.panicked THEN J
    ELSE IF k < lim
    THEN IF ~InNodes(J, j) \/ ~InArr(J, Qref(J, j), k) THEN Panic(J)
         ELSE LET x == Slot(J, Qref(J, j), k) IN
              IF x # 0 THEN RestrNode(Push(SetSlot(J, Qref(J, j), k, 0), x), j, k + 1, lim)
              ELSE RestrNode(J, j, k + 1, lim)
    ELSE J
RECURSIVE RestrNodes(_, _, _)
RestrNodes(J, j, told) ==
    IF J.panicked THEN J
    ELSE IF j < told
    THEN IF ~InSizes(J, j) THEN Panic(J) ELSE RestrNodes(RestrNode(J, j, 0, Qsz(J, j)), j + 1, told)
    ELSE J
RECURSIVE RestrFree(_, _), RestrFreeFixed(_)
RestrFree(J, t) ==          \* old code (Q3): for tailNodeIndex > self.tailNodeIndex+1 { free tailNodeIndex; nodeIndex--; tailNodeIndex-- }
    IF J.panicked THEN J
    ELSE IF t > J.tn + 1
    THEN IF ~InNodes(J, t) \/ ~InSizes(J, t) THEN Panic(J)
         ELSE RestrFree([J EXCEPT !.queues[t + 1] = 0, !.sizes[t + 1] = 0, !.ni = @ - 1], t - 1)
    ELSE J
RestrFreeFixed(J) ==        \* 775ec1e: for self.nodeIndex > self.tailNodeIndex+1 { free nodeIndex; nodeIndex-- }
    IF J.panicked THEN J
    ELSE IF J.ni > J.tn + 1
    THEN IF ~InNodes(J, J.ni) \/ ~InSizes(J, J.ni) THEN Panic(J)
         ELSE RestrFreeFixed([J EXCEPT !.queues[J.ni + 1] = 0, !.sizes[J.ni + 1] = 0, !.ni = @ - 1])
    ELSE J
Restructuring(J) ==
    LET told == J.tn
        tiold == J.ti
        J1 == ToFront(J)
        J2 == IF J1.panicked THEN J1 ELSE RestrNodes(J1, 0, told)
        J3 == IF J2.panicked THEN J2 ELSE RestrNode(J2, told, 0, tiold)
        J4 == IF Q3Fixed THEN RestrFreeFixed(J3) ELSE RestrFree(J3, told)
    IN IF J4.panicked THEN J4
       ELSE IF ~InSizes(J4, J4.ni) THEN Panic(J4)
       ELSE [J4 EXCEPT !.qs = Qsz(J4, J4.ni), !.rt = 0]
\* NOTE the sizes[j] bound of the inner Go loop is re-read on every iteration; it cannot change while
\* node j is being scanned (Push only writes sizes of nil nodes), so reading it once per node is exact.

\* func (db *LockDB) restructuringLongTimeOutQueue / restructuringLongExpriedQueue (db.go:890, db.go:1152), the
\* copies of Restructuring that LongWaitLockQueue really uses: the same walk counting down from the old tail
\* node (nodeIndex decremented with every freed node since 2b698da; before that it was left stale, Q2) - since
\* e13fd2e from nodeIndex downwards like Restructuring (Q4) -, queueSize is recomputed from the node count, and a queue left empty is handed to FreeLongWaitLockQueue
\* (= Reset) at once.
RECURSIVE RestrFreeDb(_, _)
RestrFreeDb(J, t) ==
    IF J.panicked THEN [I |-> J, t |-> t]
    ELSE IF t > J.tn + 1
    THEN IF ~InNodes(J, t) \/ ~InSizes(J, t) THEN [I |-> Panic(J), t |-> t]
         ELSE RestrFreeDb([J EXCEPT !.queues[t + 1] = 0, !.sizes[t + 1] = 0, !.ni = IF Q2Fixed THEN @ - 1 ELSE @], t - 1)
    ELSE [I |-> J, t |-> t]
RestructuringDb(J) ==
    LET told == J.tn
        tiold == J.ti
        J1 == ToFront(J)
        J2 == IF J1.panicked THEN J1 ELSE RestrNodes(J1, 0, told)
        J3 == IF J2.panicked THEN J2 ELSE RestrNode(J2, told, 0, tiold)
        f  == IF Q4Fixed THEN LET K == RestrFreeFixed(J3) IN [I |-> K, t |-> K.ni] ELSE RestrFreeDb(J3, told)
        J4 == f.I
    IN IF J4.panicked THEN J4
       ELSE LET J5 == [J4 EXCEPT !.qs = Min2(J4.bqs * Pow2(f.t), MaxMalloc)]
            IN IF LenI(J5) = 0 THEN Reset(J5) ELSE J5

\* func Shrink(size) with size = 0
RECURSIVE ShrinkLoop(_, _)
ShrinkLoop(J, size) ==
    IF ~InSizes(J, J.hn) THEN Panic(J)
    ELSE IF size >= Qsz(J, J.hn)
    THEN IF J.sh >= J.ns THEN J
         ELSE LET s1 == size - Qsz(J, J.hn)
                  J1 == IF ~InNodes(J, J.hn) THEN Panic(J)
                        ELSE [J EXCEPT !.queues[J.hn + 1] = 0, !.sizes[J.hn + 1] = 0, !.sh = @ + 1]
              IN IF J1.panicked \/ J1.hn = 0 THEN J1
                 ELSE ShrinkLoop([J1 EXCEPT !.hn = @ - 1], s1)
    ELSE J
Shrink(J) == IF ~InSizes(J, J.hn) THEN Panic(J) ELSE ShrinkLoop(J, Qsz(J, J.hn))

\* in-place removal of element x through the iteration slices (the slot becomes nil)
RemoveI(J, x) ==
    LET Range(k) == (IF k = J.hn THEN J.hi ELSE 0)..((IF k = J.tn THEN J.ti ELSE IF InSizes(J, k) THEN Qsz(J, k) ELSE 0) - 1)
        P == {p \in UNION {{<<k, i>> : i \in Range(k)} : k \in J.hn..J.tn} :
                 InNodes(J, p[1]) /\ InArr(J, Qref(J, p[1]), p[2]) /\ Slot(J, Qref(J, p[1]), p[2]) = x}
    IN IF P = {} THEN J ELSE LET p == CHOOSE p \in P : TRUE IN SetSlot(J, Qref(J, p[1]), p[2], 0)

----------------------------------------------------------------------------
Op(name, x) == <<name, x, 0>>
Ev(o, ret) == [op |-> IF o[1] = "restructdb" THEN "restruct" ELSE o[1], x |-> o[2], pr |-> 0, ret |-> ret]

Apply(J, o) ==
    CASE o[1] = "push"     -> R(Push(J, o[2]), 0)
      [] o[1] = "pushleft" -> PushLeft(J, o[2])
      [] o[1] = "pop"      -> Pop(J)
      [] o[1] = "popright" -> PopRight(J)
      [] o[1] = "reset"    -> R(Reset(J), 0)
      [] o[1] = "rellac"   -> R(Rellac(J), 0)
      [] o[1] = "resize"   -> R(Resize(J), 0)
      [] o[1] = "restruct" -> R(Restructuring(J), 0)
      [] o[1] = "free"     -> R(FreeQueue(J), 0)
      [] o[1] = "shrink"   -> R(Shrink(J), 0)
      [] o[1] = "remove"   -> R(RemoveI(J, o[2]), 0)
      [] o[1] = "restructdb" -> R(RestructuringDb(J), 0)
      [] o[1] = "lwfree"   -> R(Reset(J), 0)       \* FreeLongWaitLockQueue, then taken back from the free list

EnabledOps(D0, n) ==
       {Op(o, n + 1) : o \in IF n < MaxPush THEN OpNames \cap {"push", "pushleft"} ELSE {}}
  \cup {Op(o, 0) : o \in OpNames \cap {"pop", "popright", "reset", "rellac", "resize", "restruct", "free", "shrink", "restructdb"}}
  \cup {Op("lwfree", 0) : z \in IF "lwfree" \in OpNames /\ D0.q = <<>> THEN {0} ELSE {}}
  \cup {Op("remove", x) : x \in IF "remove" \in OpNames THEN IdSet(D0.q) ELSE {}}

\* the refinement clauses, evaluated on a (model state, deque value) pair
Clauses(J, D0) ==
    [nopanic |-> ~J.panicked,
     len     |-> J.panicked \/ LenI(J) = LenOf(D0),
     head    |-> J.panicked \/ HeadI(J) = HeadOf(D0),
     tail    |-> J.panicked \/ TailI(J) = TailOf(D0),
     iter    |-> J.panicked \/ IterI(J) = Ids(D0.q)]
AllOK(c) == c.nopanic /\ c.len /\ c.head /\ c.tail /\ c.iter

Init == I = New /\ D = InitQ(FALSE) /\ bad = FALSE /\ hist = <<>> /\ nid = 0

Next == /\ ~bad                     \* nothing is explored behind a refuted clause
        /\ \E o \in EnabledOps(D, nid) :
             LET a  == Apply(I, o)
                 e  == Ev(o, a.ret)
                 D1 == Effect(D, e)
                 ok == a.ret \in Returns(D, e) /\ AllOK(Clauses(a.I, D1))
             IN /\ I' = a.I
                /\ D' = D1
                /\ bad' = ~ok
                /\ hist' = Append(hist, o)
                /\ nid' = IF o[1] \in {"push", "pushleft"} THEN nid + 1 ELSE nid
                /\ (ExportCover => PrintT("T " \o ToJson(hist')))

Spec == Init /\ [][Next]_vars

\* state identity: the program that first reached a state is not part of it
view == <<I, D, bad, nid>>

\* the property as an invariant of the model (named in the cfg when a refutation should stop TLC)
Refines == ~bad
\* always-true invariant that exports refuted programs instead of stopping
CexExport == bad => PrintT("CEX " \o ToJson(hist))

\* structural invariants of the model that the methods rely on (cached slices alias the right node)
CacheOK == (~bad /\ ~I.panicked /\ I.sh = 0) =>
              /\ InNodes(I, I.hn) /\ InNodes(I, I.tn)
              /\ I.hq = Qref(I, I.hn) /\ I.hqs = Qsz(I, I.hn)
              /\ I.tq = Qref(I, I.tn) /\ I.tqs = Qsz(I, I.tn)
              /\ I.ns = Len(I.queues) /\ Len(I.sizes) = Len(I.queues)
              /\ \A k \in 0..(Len(I.queues) - 1) : Qref(I, k) = 0 => Qsz(I, k) = 0
              /\ \A k \in 0..(Len(I.queues) - 1) : Qref(I, k) # 0 => Len(I.heap[Qref(I, k)]) = Qsz(I, k)
=============================================================================

------------------------------ MODULE AofLogSim ------------------------------
(***************************************************************************)
(* Random-walk front end of AofLog for `tlc -simulate`: the same actions,  *)
(* request parameters drawn with RandomElement, the action class drawn     *)
(* from a weighted bag.  Every printed `hist` is a behaviour of AofLog!Spec *)
(* (SimNext => Next); engine F replays it on the real code.                *)
(***************************************************************************)
EXTENDS AofLog

Pick(S) == RandomElement(S)

SimOps ==
    \/ /\ turn \in {"lock", "lock2", "lock3"}
       /\ LockReq(Pick(Keys), Pick(Lids), Pick(Counts), Pick(Rcounts), Pick(Exps), Pick(Classes), Pick(Units), Pick(Vals))
    \/ /\ turn \in {"unlock"}
       /\ UnlockReq(Pick(Keys), Pick(Lids), Pick(Rcounts))
    \/ /\ turn \in {"update", "update2"} /\ UpdExps # {}
       /\ UpdateReq(Pick(Keys), Pick(Lids), Pick(UpdExps))
    \/ /\ turn \in {"tick", "tick2"}
       /\ Tick
    \/ /\ turn = "rewrite"
       /\ AdminRewrite

SimStep ==
    \/ (cpt.st = "idle" /\ SimOps)
    \/ CptWrite \/ CptStep \/ CptFinish
    \/ (cpt.st = "idle" /\ UNCHANGED <<now, eng, files, rw, cpt, lastn, epoch, nops, hist>>)   \* the drawn request was not enabled: draw again

SimNext == SimStep /\ turn' = Pick(Turns)

SimSpec == Init /\ [][SimNext]_vars

SimExport == (nops = MaxOps /\ cpt.st = "idle") => PrintT("BEHAVIOUR " \o ToJson(hist))
=============================================================================

----------------------------- MODULE RespParser -----------------------------
(***************************************************************************)
(* The text (RESP) side of the slock wire: protocol/textparse.go.          *)
(*                                                                         *)
(* 1. The format: BuildReq / BuildResp (what BuildRequest / BuildResponse  *)
(*    must produce) and the REFERENCE reading of a byte stream, RefDone:   *)
(*    the list of complete commands contained in the first k bytes.  It is *)
(*    a function of the bytes alone, so it cannot depend on how the stream *)
(*    was split - chunk boundaries are stuttering steps of the reference.  *)
(*                                                                         *)
(* 2. The IMPLEMENTATION-SHAPED parser: Feed(state, chunk) mirrors         *)
(*    TextParser.ParseRequest / ParseResponse statement by statement       *)
(*    (stage, carg, cargIndex, cargLen, argsCount carried across reads;    *)
(*    the caller loop of TextServerProtocol.Process / TextClientProtocol.  *)
(*    Read around it).  Two deliberate deviations of the code are named    *)
(*    and switchable:                                                      *)
(*      A9Fixed  = FALSE: stage 4 stores the REMAINING instead of the      *)
(*                 total length in cargIndex when a later chunk completes  *)
(*                 an argument (textparse.go:306 and :450)                 *)
(*      A19Fixed = FALSE: stages 5/6 (status and error lines of            *)
(*                 ParseResponse) append rbuf[start : end+1] with end      *)
(*                 initialised to start, i.e. one byte even when no        *)
(*                 message byte was seen in this chunk (textparse.go:480-  *)
(*                 530)                                                    *)
(*                                                                         *)
(* 3. spec/RespParserMC.tla explores every chunking of every small input   *)
(*    and checks that Feed refines the reference.                          *)
(***************************************************************************)
EXTENDS Wire

CONSTANTS A9Fixed, A19Fixed

-----------------------------------------------------------------------------
\* format

Bulk(a) == <<DOLLAR>> \o Dec(Len(a)) \o <<CR, LF>> \o a \o <<CR, LF>>

RECURSIVE Bulks(_)
Bulks(args) == IF args = <<>> THEN <<>> ELSE Bulk(Head(args)) \o Bulks(Tail(args))

\* BuildRequest(args)
BuildReq(args) == <<STAR>> \o Dec(Len(args)) \o <<CR, LF>> \o Bulks(args)

\* BuildResponse(isSuccess, message, results)
BuildResp(ok, msg, results) ==
    IF ~ok THEN <<MINUS>> \o msg \o <<CR, LF>>
    ELSE IF Len(results) = 0 THEN <<PLUS>> \o msg \o <<CR, LF>>
    ELSE IF Len(results) = 1 THEN Bulk(results[1])
    ELSE <<STAR>> \o Dec(Len(results)) \o <<CR, LF>> \o Bulks(results)

\* argument-list types as the parser reports them (TextParser.argsType)
T_REQ == 0   T_STATUS == 1   T_ERROR == 2   T_BULK == 3   T_ARRAY == 4

FirstSpace(s) == LET P == {i \in 1..Len(s) : s[i] = SPACE} IN IF P = {} THEN 0 ELSE Min(P)

\* what a response must parse back to
ExpectResp(ok, msg, results) ==
    IF ~ok THEN LET p == FirstSpace(msg) IN
                [type |-> T_ERROR, args |-> IF p = 0 THEN <<msg, <<>> >> ELSE <<SubSeq(msg, 1, p - 1), SubSeq(msg, p + 1, Len(msg))>>]
    ELSE IF Len(results) = 0 THEN [type |-> T_STATUS, args |-> <<msg>>]
    ELSE IF Len(results) = 1 THEN [type |-> T_BULK, args |-> results]
    ELSE [type |-> T_ARRAY, args |-> results]

ExpectReq(args) == [type |-> T_REQ, args |-> args]

-----------------------------------------------------------------------------
\* reference reading of the first k bytes of b

RECURSIVE ScanLF(_, _, _)
ScanLF(b, p, k) == IF p > k THEN 0 ELSE IF b[p] = LF THEN p ELSE ScanLF(b, p + 1, k)

\* a CRLF-terminated line starting at p: [st |-> "ok", text, next] | "more" | "bad"
RefLine(b, p, k) ==
    LET j == ScanLF(b, p, k) IN
    IF j = 0 THEN [st |-> "more"]
    ELSE IF j = p \/ b[j - 1] # CR THEN [st |-> "bad"]
    ELSE [st |-> "ok", text |-> SubSeq(b, p, j - 2), next |-> j + 1]

\* "$<n>\r\n<n bytes>\r\n" at p
RefBulk(b, p, k) ==
    IF p > k THEN [st |-> "more"]
    ELSE IF b[p] # DOLLAR THEN [st |-> "bad"]
    ELSE LET h == RefLine(b, p + 1, k) IN
         IF h.st # "ok" THEN h
         ELSE IF ~IsDecimal(h.text) THEN [st |-> "bad"]
         ELSE LET n == DecValue(h.text) IN
              IF h.next + n + 1 > k THEN [st |-> "more"]
              ELSE IF b[h.next + n] # CR \/ b[h.next + n + 1] # LF THEN [st |-> "bad"]
              ELSE [st |-> "ok", text |-> SubSeq(b, h.next, h.next + n - 1), next |-> h.next + n + 2]

RECURSIVE RefBulks(_, _, _, _, _)
RefBulks(b, p, k, n, acc) ==
    IF n = 0 THEN [st |-> "ok", args |-> acc, next |-> p]
    ELSE LET r == RefBulk(b, p, k) IN
         IF r.st # "ok" THEN r ELSE RefBulks(b, r.next, k, n - 1, Append(acc, r.text))

RefArray(b, p, k, type) ==
    LET h == RefLine(b, p + 1, k) IN
    IF h.st # "ok" THEN h
    ELSE IF ~IsDecimal(h.text) THEN [st |-> "bad"]
    ELSE LET r == RefBulks(b, h.next, k, DecValue(h.text), <<>>) IN
         IF r.st # "ok" THEN r ELSE [st |-> "ok", cmd |-> [type |-> type, args |-> r.args], next |-> r.next]

\* one command / response starting at p
RefOne(b, p, k, mode) ==
    IF mode = "req"
    THEN IF b[p] = STAR THEN RefArray(b, p, k, T_REQ) ELSE [st |-> "bad"]
    ELSE CASE b[p] = STAR -> RefArray(b, p, k, T_ARRAY)
           [] b[p] = DOLLAR -> LET r == RefBulk(b, p, k) IN
                               IF r.st # "ok" THEN r ELSE [st |-> "ok", cmd |-> [type |-> T_BULK, args |-> <<r.text>>], next |-> r.next]
           [] b[p] = PLUS -> LET h == RefLine(b, p + 1, k) IN
                             IF h.st # "ok" THEN h ELSE [st |-> "ok", cmd |-> [type |-> T_STATUS, args |-> <<h.text>>], next |-> h.next]
           [] b[p] = MINUS -> LET h == RefLine(b, p + 1, k) IN
                              IF h.st # "ok" THEN h
                              ELSE LET s == FirstSpace(h.text) IN
                                   [st |-> "ok", next |-> h.next,
                                    cmd |-> [type |-> T_ERROR,
                                             args |-> IF s = 0 THEN <<h.text, <<>> >>
                                                      ELSE <<SubSeq(h.text, 1, s - 1), SubSeq(h.text, s + 1, Len(h.text))>>]]
           [] OTHER -> [st |-> "bad"]

\* the complete commands contained in b[1..k]:  [done, idle (nothing pending), bad]
RECURSIVE RefFrom(_, _, _, _, _)
RefFrom(b, p, k, mode, acc) ==
    IF p > k THEN [done |-> acc, idle |-> TRUE, bad |-> FALSE]
    ELSE LET r == RefOne(b, p, k, mode) IN
         IF r.st = "more" THEN [done |-> acc, idle |-> FALSE, bad |-> FALSE]
         ELSE IF r.st = "bad" THEN [done |-> acc, idle |-> FALSE, bad |-> TRUE]
         ELSE RefFrom(b, r.next, k, mode, Append(acc, r.cmd))

RefDone(b, k, mode) == RefFrom(b, 1, k, mode, <<>>)

-----------------------------------------------------------------------------
\* implementation-shaped parser

P0 == [stage |-> 0, args |-> <<>>, hdr |-> <<>>, cargIndex |-> 0, cargLen |-> 0, argsCount |-> 0, argsType |-> 0,
       done |-> <<>>, err |-> FALSE]

NonCR(s) == SelectSeq(s, LAMBDA x : x # CR)

ExtendLast(args, part) == [args EXCEPT ![Len(args)] = @ \o part]

\* result of one stage handler: the new state, the new buffer index, and whether ParseX returns
R(st, idx, ret) == [st |-> st, idx |-> idx, ret |-> ret]
Fail(st, idx) == R([st EXCEPT !.err = TRUE], idx, TRUE)

\* stages 1 and 3: "<decimal>\r\n" collected into carg across chunks
StageHeader(st, buf, idx) ==
    LET n == Len(buf)
        j == ScanLF(buf, idx, n)
    IN IF j = 0
       THEN R([st EXCEPT !.hdr = @ \o NonCR(SubSeq(buf, idx, n))], n + 1, TRUE)
       ELSE LET h == st.hdr \o NonCR(SubSeq(buf, idx, j - 1)) IN
            IF j > 1 /\ buf[j - 1] # CR THEN Fail(st, j)
            ELSE IF ~IsDecimal(h) THEN Fail(st, j)
            ELSE IF st.stage = 1
                 THEN R([st EXCEPT !.argsCount = DecValue(h), !.hdr = <<>>, !.cargIndex = 0, !.stage = 2], j + 1, FALSE)
                 ELSE R([st EXCEPT !.cargLen = DecValue(h), !.hdr = <<>>, !.cargIndex = 0, !.stage = 4], j + 1, FALSE)

\* stage 4: argument bytes, then the terminating line end
StageData(st, buf, idx) ==
    LET n == Len(buf)
        rem == st.cargLen - st.cargIndex
        avail == n - idx + 1
        add(part) == IF st.cargIndex = 0 THEN Append(st.args, part) ELSE ExtendLast(st.args, part)
    IN IF rem > 0 /\ avail < rem
       THEN R([st EXCEPT !.args = add(SubSeq(buf, idx, n)), !.cargIndex = @ + avail], n + 1, TRUE)
       ELSE LET s1 == IF rem > 0
                      THEN [st EXCEPT !.args = add(SubSeq(buf, idx, idx + rem - 1)),
                                      !.cargIndex = IF A9Fixed THEN st.cargLen ELSE rem]
                      ELSE st
                i1 == IF rem > 0 THEN idx + rem ELSE idx
                j == ScanLF(buf, i1, n)
            IN IF j = 0 THEN R(s1, n + 1, TRUE)
               ELSE IF j > 1 /\ buf[j - 1] # CR THEN Fail(s1, j)
               ELSE LET a2 == IF s1.cargLen = 0 THEN Append(s1.args, <<>>) ELSE s1.args
                        s2 == [s1 EXCEPT !.args = a2, !.cargIndex = 0, !.cargLen = 0]
                    IN IF Len(a2) < s2.argsCount
                       THEN R([s2 EXCEPT !.stage = 2], j + 1, FALSE)
                       ELSE R([s2 EXCEPT !.stage = 0], j + 1, TRUE)

\* the segment of buf[idx..lim] appended by stages 5/6: up to the last non-CR byte
Segment(buf, idx, lim) ==
    LET N == {p \in idx..lim : buf[p] # CR} IN
    IF N # {} THEN SubSeq(buf, idx, Max(N))
    ELSE IF A19Fixed THEN <<>> ELSE <<buf[idx]>>       \* rbuf[start : endBufIndex+1] with endBufIndex = start

\* stage 5: rest of a status / error line
StageLine(st, buf, idx) ==
    LET n == Len(buf)
        j == ScanLF(buf, idx, n)
        which == IF st.argsType = 2 THEN 2 ELSE 1
    IN IF j = 0
       THEN R([st EXCEPT !.args[which] = @ \o Segment(buf, idx, n)], n + 1, TRUE)
       ELSE LET s1 == [st EXCEPT !.args[which] = @ \o Segment(buf, idx, j - 1)] IN
            IF j > 1 /\ buf[j - 1] # CR THEN Fail(s1, j)
            ELSE R([s1 EXCEPT !.stage = 0], j + 1, TRUE)

\* stage 6: the error type, up to the first space
ScanSpaceOrLF(buf, idx, n) == LET S == {p \in idx..n : buf[p] = SPACE \/ buf[p] = LF} IN IF S = {} THEN 0 ELSE Min(S)

StageErrType(st, buf, idx) ==
    LET n == Len(buf)
        j == ScanSpaceOrLF(buf, idx, n)
    IN IF j = 0
       THEN R([st EXCEPT !.args[1] = @ \o Segment(buf, idx, n)], n + 1, TRUE)
       ELSE LET s1 == [st EXCEPT !.args[1] = @ \o Segment(buf, idx, j - 1)] IN
            IF buf[j] = SPACE THEN R([s1 EXCEPT !.stage = 5], j + 1, FALSE)
            ELSE IF j > 1 /\ buf[j - 1] # CR THEN Fail(s1, j)
            ELSE R([s1 EXCEPT !.stage = 0], j + 1, TRUE)

Stage0(st, buf, idx, mode) ==
    IF mode = "req"
    THEN IF buf[idx] # STAR THEN Fail(st, idx) ELSE R([st EXCEPT !.argsType = 0, !.stage = 1], idx + 1, FALSE)
    ELSE CASE buf[idx] = PLUS   -> R([st EXCEPT !.args = Append(@, <<>>), !.argsCount = 0, !.argsType = 1, !.stage = 5], idx + 1, FALSE)
           [] buf[idx] = MINUS  -> R([st EXCEPT !.args = @ \o << <<>>, <<>> >>, !.argsCount = 0, !.argsType = 2, !.stage = 6], idx + 1, FALSE)
           [] buf[idx] = DOLLAR -> R([st EXCEPT !.argsType = 3, !.stage = 3], idx + 1, FALSE)
           [] buf[idx] = STAR   -> R([st EXCEPT !.argsType = 4, !.stage = 1], idx + 1, FALSE)
           [] OTHER -> Fail(st, idx)

Stage2(st, buf, idx) ==
    IF buf[idx] # DOLLAR THEN Fail(st, idx) ELSE R([st EXCEPT !.stage = 3], idx + 1, FALSE)

\* one call of ParseRequest / ParseResponse:  for self.bufIndex < self.bufLen { switch self.stage {...} }
RECURSIVE ParseCall(_, _, _, _)
ParseCall(st, buf, idx, mode) ==
    IF idx > Len(buf) THEN [st |-> st, idx |-> idx]
    ELSE LET r == CASE st.stage = 0 -> Stage0(st, buf, idx, mode)
                    [] st.stage \in {1, 3} -> StageHeader(st, buf, idx)
                    [] st.stage = 2 -> Stage2(st, buf, idx)
                    [] st.stage = 4 -> StageData(st, buf, idx)
                    [] st.stage = 5 -> StageLine(st, buf, idx)
                    [] st.stage = 6 -> StageErrType(st, buf, idx)
         IN IF r.ret THEN [st |-> r.st, idx |-> r.idx] ELSE ParseCall(r.st, buf, r.idx, mode)

\* the caller loop (TextServerProtocol.Process, TextClientProtocol.Read): parse; when IsParseFinish take the
\* argument list and Reset; go on while the buffer is not at its end
RECURSIVE FeedFrom(_, _, _, _)
FeedFrom(st, buf, idx, mode) ==
    LET r == ParseCall(st, buf, idx, mode) IN
    IF r.st.err THEN r.st
    ELSE LET s2 == IF r.st.stage = 0
                   THEN [r.st EXCEPT !.done = Append(@, [type |-> r.st.argsType, args |-> r.st.args]), !.args = <<>>, !.argsCount = 0]
                   ELSE r.st
         IN IF r.idx > Len(buf) THEN s2 ELSE FeedFrom(s2, buf, r.idx, mode)

Feed(st, chunk, mode) == IF st.err \/ chunk = <<>> THEN st ELSE FeedFrom(st, chunk, 1, mode)

\* feeding b cut at the (strictly increasing, interior) positions cuts: chunk i = b[cuts[i-1]+1 .. cuts[i]]
RECURSIVE FeedCuts(_, _, _, _, _)
FeedCuts(st, b, from, cuts, mode) ==
    IF cuts = <<>> THEN st
    ELSE FeedCuts(Feed(st, SubSeq(b, from + 1, Head(cuts)), mode), b, Head(cuts), Tail(cuts), mode)

\* state after the prefix b[1..k] fed in the chunks that `cuts` (a sequence ending with k) describes
FeedPrefix(b, cuts, mode) == FeedCuts(P0, b, 0, cuts, mode)

=============================================================================

------------------------------ MODULE WireSeq ------------------------------
(***************************************************************************)
(* SEQUENCES of LOCK / UNLOCK requests on ONE connection (property C14:    *)
(* "a LOCK or UNLOCK written in text form has the same effect and result   *)
(* fields as the equivalent binary command").                              *)
(*                                                                         *)
(* A connection of the server answers every request through RECYCLED       *)
(* objects: the text connection keeps ONE result object and rewrites it    *)
(* for every later result (TextServerProtocol.freeCommandResult), both     *)
(* kinds of connection decode every request into a LockCommand taken from  *)
(* a private free stack (spec/CmdPool.tla), the binary connection renders  *)
(* every reply into one 64-byte buffer.  The statement of C14 quantifies   *)
(* over requests, not over connections' histories: the result of request n *)
(* is a function of request n and of what the engine answered - NOT of     *)
(* what the connection rendered for request n-1.                           *)
(*                                                                         *)
(* This module states that as a model:                                     *)
(*   - an abstract engine (per database and key: who holds how deep, what  *)
(*     kind of value the key carries) answers a request with a RESULT      *)
(*     SHAPE  [res, data, lc, lrc]  (result code, kind of the value frame  *)
(*     the result carries, LCount, LRCount);                               *)
(*   - the connection owns one result object `pool` with the fields a      *)
(*     result has on the wire; Render(x, shape) rewrites it.  The          *)
(*     deviation switches name the ways a rewrite can be incomplete:       *)
(*        KeepFlag   the "contains data" flag is only ever set             *)
(*        KeepData   the value frame is only ever set, never dropped       *)
(*        KeepCounts LCount / LRCount are only written when non-zero       *)
(*   - invariant FreshResult: what goes on the wire equals the shape the   *)
(*     engine answered;  WellFramed: the reply announces a value frame     *)
(*     (text: two more elements) iff it carries one.                       *)
(* With every switch FALSE the invariants hold for all sequences over the  *)
(* alphabet (mc/WireSeq_core.cfg); with a switch TRUE TLC refutes them and *)
(* the counterexample is a replay script for the real connections          *)
(* (mc/WireSeq_keepflag.cfg ...: vacuity guard of the phase).              *)
(*                                                                         *)
(* Generator.  `hist` records the letters with the predicted shapes; the   *)
(* exhaustive configurations print every sequence of length Depth over    *)
(* the alphabet as  "SEQ {json}"  (one state per sequence), SimSpec draws  *)
(* long random sequences (-simulate).  checks/wire_seq.py concretises the  *)
(* letters (keys, ids, option values, value bytes, chunking) and replays   *)
(* each sequence on ONE real text connection, ONE real binary connection   *)
(* and a twin path with fresh objects, in lockstep;                        *)
(* spec/mon/MonWire.tla (StepSeq) judges every step.  The predicted shape  *)
(* is compared with the real one as a refinement note ("SEQDIV"), never    *)
(* as a verdict.                                                           *)
(***************************************************************************)
EXTENDS Integers, Sequences, FiniteSets, TLC, Json

CONSTANTS Alpha,        \* "core" | "valops" | "binonly" | "text" | "bin": which alphabet
          Depth,        \* length of the exported sequences
          KeepFlag, KeepData, KeepCounts

Keys == {"k1", "k2"}
Ids == {"a", "b"}
Dbs == {"main", "alt"}
\* value operations a request can carry.  Text form: SET / INCR / PUSH / UNSET / APPEND options; binary only:
\* a SET whose value frame has a property block, a SET of a key-value payload
TextDops == {"none", "set", "incr", "push", "unset", "append"}
BinDops == TextDops \cup {"setp", "setkv"}

\* result codes (protocol/command.go RESULT_*)
SUCCED == 0   UNKNOWN_DB == 3   LOCKED_ERROR == 5   UNLOCK_ERROR == 6   UNOWN_ERROR == 7   TIMEOUT == 8

\* per key: k1 is an exclusive, non re-entrant lock (COUNT 1, RCOUNT 1), k2 admits two holds, each two deep
Cap(k) == IF k = "k2" THEN 2 ELSE 1
Rc(k) == IF k = "k2" THEN 2 ELSE 1

L(op, key, lid, dop, db) == [op |-> op, key |-> key, lid |-> lid, dop |-> dop, db |-> db]

\* the core alphabet: one letter per way a result can differ from its predecessor on the same connection
\* (with / without value frame, kinds of value, result codes, LCount / LRCount, key, lock id, database, LOCK / UNLOCK,
\* the two "unknown database" answers, a read in between)
Core == {
    L("lock", "k1", "a", "none", "main"),   L("lock", "k1", "a", "set", "main"),     L("lock", "k1", "b", "none", "main"),
    L("unlock", "k1", "a", "none", "main"), L("unlock", "k1", "b", "none", "main"),
    L("lock", "k2", "a", "incr", "main"),   L("lock", "k2", "b", "push", "main"),
    L("unlock", "k2", "a", "none", "main"), L("unlock", "k2", "b", "set", "main"),
    L("lock", "k1", "a", "set", "alt"),     L("unlock", "k1", "a", "none", "nodb"),
    L("get", "k1", "a", "none", "main") }

\* the value operations against each other on one key with two holders (kinds of value a result can carry, one after
\* the other: array, number, string, the UNSET marker; an operation of one kind on a value of another)
ValOps == {
    L("lock", "k2", "a", "push", "main"),   L("lock", "k2", "a", "incr", "main"),   L("lock", "k2", "a", "unset", "main"),
    L("lock", "k2", "b", "append", "main"), L("lock", "k2", "b", "set", "main"),    L("lock", "k2", "b", "none", "main"),
    L("unlock", "k2", "a", "none", "main"), L("unlock", "k2", "b", "none", "main") }

\* value frames only the binary form can carry (property block, key-value payload) next to plain ones
BinOnly == {
    L("lock", "k1", "a", "none", "main"),   L("lock", "k1", "a", "setp", "main"),   L("lock", "k1", "a", "setkv", "main"),
    L("lock", "k1", "b", "none", "main"),   L("unlock", "k1", "a", "none", "main"), L("unlock", "k1", "a", "setp", "main") }

Special == { L("lock", "k1", "a", "none", "bad"), L("lock", "k2", "b", "set", "bad"), L("unlock", "k1", "a", "none", "bad"),
             L("unlock", "k1", "a", "none", "nodb"), L("unlock", "k2", "b", "set", "nodb") }

Full(dops) == {L(op, k, i, d, db) : op \in {"lock", "unlock"}, k \in Keys, i \in Ids, d \in dops, db \in Dbs} \cup Special

Alphabet ==
    CASE Alpha = "core" -> Core
      [] Alpha = "text" -> Full(TextDops) \cup {L("get", k, "a", "none", db) : k \in Keys, db \in Dbs}
      [] Alpha = "bin"  -> Full(BinDops)
      [] Alpha = "binonly" -> BinOnly
      [] Alpha = "valops" -> ValOps

-----------------------------------------------------------------------------
\* the abstract engine

VARIABLES eng,      \* [Dbs \X Keys -> [hold : [Ids -> Nat], val : kind of value]]
          pool,     \* the connection's result object: [res, data, lc, lrc, flag] as last rendered ("fresh": none yet)
          hist      \* sequence of [l |-> letter, r |-> shape the engine answered, w |-> what went on the wire]
vars == <<eng, pool, hist>>

E0 == [hold |-> [i \in Ids |-> 0], val |-> "none"]
Tot(e) == e.hold["a"] + e.hold["b"]

Shape(res, data, lc, lrc) == [res |-> res, data |-> data, lc |-> lc, lrc |-> lrc]

\* the kind of value a key carries after a value operation (the engine's arithmetic is not modelled: kinds only)
Apply(val, dop) ==
    CASE dop = "none" -> val
      [] dop \in {"set", "setp", "append"} -> IF dop = "append" /\ val \notin {"none", "str"} THEN val ELSE IF dop = "setp" THEN "strp" ELSE "str"
      [] dop = "setkv" -> "kv"
      [] dop = "incr" -> "num"
      [] dop = "push" -> "arr"
      [] dop = "unset" -> "none"

\* A key without holders keeps its manager - and its value - until the sweeper's next visit; the replay runs on a clock
\* that does not advance, so the value stays (a later request of the key sees it).
Settle(e) == e

\* answer of the engine: <<shape, new state of the key>>
AnswerLock(x, e) ==
    LET d == e.hold[x.lid]
        tot == Tot(e)
    IN IF d > 0
       THEN IF d < Rc(x.key)
            THEN <<Shape(SUCCED, e.val, tot + 1, d + 1), [e EXCEPT !.hold[x.lid] = d + 1, !.val = Apply(e.val, x.dop)]>>
            ELSE <<Shape(LOCKED_ERROR, e.val, tot, d), e>>
       ELSE IF tot = 0 \/ tot < Cap(x.key)
            THEN <<Shape(SUCCED, e.val, tot + 1, 1), [e EXCEPT !.hold[x.lid] = 1, !.val = Apply(e.val, x.dop)]>>
            ELSE <<Shape(TIMEOUT, e.val, tot, 0), e>>

AnswerUnlock(x, e) ==
    LET d == e.hold[x.lid]
        tot == Tot(e)
    IN IF tot = 0 THEN <<Shape(UNLOCK_ERROR, e.val, 0, 0), e>>
       ELSE IF d = 0 THEN <<Shape(UNOWN_ERROR, e.val, tot, 0), e>>
       ELSE LET e1 == [e EXCEPT !.hold[x.lid] = d - 1, !.val = Apply(e.val, x.dop)]
            IN <<Shape(SUCCED, e.val, tot - 1, d - 1), Settle(e1)>>

\* a read in between (text GET): answered from the key, the engine is not involved; it goes through the same result object
AnswerGet(x, e) == <<Shape(IF Tot(e) = 0 THEN SUCCED ELSE UNOWN_ERROR, IF Tot(e) = 0 THEN "none" ELSE e.val, Tot(e), 0), e>>

Answer(x) ==
    IF x.db \in {"bad", "nodb"} THEN <<Shape(UNKNOWN_DB, "none", 0, 0), E0>>
    ELSE LET e == eng[<<x.db, x.key>>] IN
         CASE x.op = "lock" -> AnswerLock(x, e) [] x.op = "unlock" -> AnswerUnlock(x, e) [] OTHER -> AnswerGet(x, e)

-----------------------------------------------------------------------------
\* the connection's recycled result object

Fresh == [res |-> 0 - 1, data |-> "none", lc |-> 0, lrc |-> 0, flag |-> FALSE]

\* rewrite of the pooled object for shape s.  The FIRST result of a connection is a new object (always complete).
Render(p, s) ==
    IF p = Fresh THEN [res |-> s.res, data |-> s.data, lc |-> s.lc, lrc |-> s.lrc, flag |-> s.data # "none"]
    ELSE [res  |-> s.res,
          data |-> IF KeepData /\ s.data = "none" THEN p.data ELSE s.data,
          lc   |-> IF KeepCounts /\ s.lc = 0 THEN p.lc ELSE s.lc,
          lrc  |-> IF KeepCounts /\ s.lrc = 0 THEN p.lrc ELSE s.lrc,
          flag |-> IF KeepFlag /\ s.data = "none" THEN p.flag ELSE s.data # "none"]

\* after the reply is written the handler drops the value frame and keeps the object
Recycle(p) == IF KeepData THEN p ELSE [p EXCEPT !.data = "none"]

Do(x) ==
    LET a == Answer(x)
        w == Render(pool, a[1])
    IN /\ eng' = IF x.db \in Dbs THEN [eng EXCEPT ![<<x.db, x.key>>] = a[2]] ELSE eng
       /\ pool' = IF x.db \in Dbs THEN Recycle(w) ELSE pool            \* the unknown-database answers do not use the object
       /\ hist' = Append(hist, [l |-> x, r |-> a[1], w |-> IF x.db \in Dbs THEN w ELSE Render(Fresh, a[1])])

Init == /\ eng = [dk \in Dbs \X Keys |-> E0]
        /\ pool = Fresh
        /\ hist = <<>>

Next == Len(hist) < Depth /\ \E x \in Alphabet : Do(x)

Spec == Init /\ [][Next]_vars

-----------------------------------------------------------------------------
\* what C14 demands of every result of a sequence

Last == hist[Len(hist)]

FreshResult == hist # <<>> =>
    /\ Last.w.res = Last.r.res /\ Last.w.lc = Last.r.lc /\ Last.w.lrc = Last.r.lrc
    /\ Last.w.flag = (Last.r.data # "none")
    /\ Last.w.data = Last.r.data

\* the reply announces a value frame (text: "*14") iff it carries one
WellFramed == hist # <<>> => (Last.w.flag = (Last.w.data # "none"))

TypeOK == /\ \A dk \in DOMAIN eng : \A i \in Ids : eng[dk].hold[i] \in 0..Rc(dk[2])
          /\ Len(hist) <= Depth

\* at least one sequence of the alphabet reaches every shape transition "with value frame -> without" (vacuity guard)
Export == Len(hist) = Depth => PrintT("SEQ " \o ToJson([steps |-> [i \in 1..Len(hist) |-> [l |-> hist[i].l, r |-> hist[i].r]]]))

\* counterexample export of the deviation configurations (invariant: prints the offending sequence once, stays TRUE)
CexExport == (hist # <<>> /\ ~(FreshResult /\ WellFramed)) =>
    PrintT("SEQCEX " \o ToJson([steps |-> [i \in 1..Len(hist) |-> [l |-> hist[i].l, r |-> hist[i].r]]]))

-----------------------------------------------------------------------------
\* random long sequences (-simulate): letters drawn uniformly, except that every other draw prefers a letter whose
\* answer differs from the previous one in "carries a value frame" (the transition a recycled object can get wrong)

Pick(S) == RandomElement(S)

Flips(x) == hist # <<>> /\ (Answer(x)[1].data = "none") # (Last.r.data = "none")

SimNext ==
    /\ Len(hist) < Depth
    /\ LET F == {x \in Alphabet : Flips(x)}
       IN Do(IF F # {} /\ Pick({TRUE, FALSE}) THEN Pick(F) ELSE Pick(Alphabet))

SimSpec == Init /\ [][SimNext]_vars
=============================================================================

---------------------------- MODULE PrimitivesRef ----------------------------
(***************************************************************************)
(* The textbook primitives as a state machine over the rules of module     *)
(* Primitives: processes request, wait, are admitted by the admission rule *)
(* (PriorityLock: hand-over to the highest waiting priority), release.     *)
(* TLC checks that the admission rule is inductive for the state predicate *)
(* (PrimStateOK) and that Event.Wait returns only in a set state.  This is *)
(* the reference the encoding model (PrimEnc) and the trace monitor        *)
(* (mon/MonPrim) are phrased against.                                      *)
(***************************************************************************)
EXTENDS Primitives, TLC

CONSTANTS RKinds, RNs, RProcs, RMaxDepth, RPrios

VARIABLES rkind, rn, HT, WT, evset, evwait
rvars == <<rkind, rn, HT, WT, evset, evwait>>

\* WT: waiting requests  proc -> [rl, prio]
WEmpty == [pp \in {} |-> [rl |-> "x", prio |-> 0]]

RInit == /\ rkind \in RKinds /\ rn \in RNs
         /\ HT = PrimEmpty /\ WT = WEmpty
         /\ evset = (rkind # "event_clear") /\ evwait = {}

IsLockKind == rkind \in PrimLockKinds

Request(pp, rl, pr) ==
    /\ IsLockKind /\ pp \notin DOMAIN WT
    /\ pp \in DOMAIN HT => rkind = "rlock" /\ HT[pp].depth < RMaxDepth
    /\ rkind = "rw" => rl \in {"r", "w"}
    /\ rkind # "rw" => rl = "x"
    /\ rkind # "prio" => pr = 0
    /\ IF PrimAdmissible(rkind, rn, pp, rl, HT) /\ (DOMAIN WT = {} \/ pp \in DOMAIN HT)
       THEN HT' = PrimAdd(HT, pp, rl) /\ UNCHANGED WT
       ELSE WT' = [qq \in (DOMAIN WT) \cup {pp} |-> IF qq = pp THEN [rl |-> rl, prio |-> pr] ELSE WT[qq]] /\ UNCHANGED HT
    /\ UNCHANGED <<rkind, rn, evset, evwait>>

\* any admissible waiter may be admitted (no fairness policy is part of the statement), except PriorityLock
Admit(pp) ==
    /\ IsLockKind /\ pp \in DOMAIN WT
    /\ PrimAdmissible(rkind, rn, pp, WT[pp].rl, HT)
    /\ rkind = "prio" => PrimHandOverOK(WT[pp].prio, {WT[qq].prio : qq \in (DOMAIN WT) \ {pp}})
    /\ HT' = PrimAdd(HT, pp, WT[pp].rl)
    /\ WT' = [qq \in (DOMAIN WT) \ {pp} |-> WT[qq]]
    /\ UNCHANGED <<rkind, rn, evset, evwait>>

Release(pp) ==
    /\ IsLockKind /\ pp \in DOMAIN HT /\ pp \notin DOMAIN WT
    /\ HT' = PrimSub(HT, pp)
    /\ UNCHANGED <<rkind, rn, WT, evset, evwait>>

EvSet   == ~IsLockKind /\ evset' = TRUE /\ evwait' = {} /\ UNCHANGED <<rkind, rn, HT, WT>>
EvClear == ~IsLockKind /\ evset' = FALSE /\ UNCHANGED <<rkind, rn, HT, WT, evwait>>
EvWait(pp) == /\ ~IsLockKind /\ pp \notin evwait
              /\ evwait' = IF evset THEN evwait ELSE evwait \cup {pp}    \* returns at once iff set
              /\ UNCHANGED <<rkind, rn, HT, WT, evset>>

RNext == \/ \E pp \in RProcs, rl \in {"x", "r", "w"}, pr \in RPrios \cup {0} : Request(pp, rl, pr)
         \/ \E pp \in RProcs : Admit(pp) \/ Release(pp) \/ EvWait(pp)
         \/ EvSet \/ EvClear

RSpec == RInit /\ [][RNext]_rvars

RStateOK == PrimStateOK(rkind, rn, HT)
RWaitersBlocked == evset => evwait = {}                       \* a waiter is blocked only while the event is clear
RDepthBounded == \A pp \in DOMAIN HT : HT[pp].depth \in 1..RMaxDepth
=============================================================================

---------------------------- MODULE PrimitivesRef ----------------------------
(***************************************************************************)
(* The textbook primitives as a state machine over the rules of module     *)
(* Primitives: processes request, wait, are admitted by the admission rule *)
(* (PriorityLock: hand-over to the highest waiting priority), release.     *)
(* TLC checks that the admission rule is inductive for the state predicate *)
(* (PrimStateOK) and that Event.Wait returns only in a set state.  This is *)
(* the reference the encoding model (PrimEnc) and the trace monitor        *)
(* (mon/MonPrim) are phrased against.                                      *)
(*                                                                         *)
(* ACROSS TIME (RTick): every hold is taken with the expiry rex and ends   *)
(* with it (a re-entrant acquisition renews it); a released unit and a     *)
(* lapsed unit are free again for the waiters; a waiting request gives up  *)
(* after rto seconds; the hold behind an Event state (Clear of a           *)
(* default-set event, Set of a default-clear event) lapses the same way,   *)
(* what Set / Clear establish by DROPPING the hold stays.  The reference   *)
(* is exact to the second; Primitives!PrimLive / PrimGone are the two-     *)
(* sided bracket a monitor may assume without knowing in which second the  *)
(* server's sweep ran (RBracket).                                          *)
(***************************************************************************)
EXTENDS Primitives, TLC

CONSTANTS RKinds, RNs, RProcs, RMaxDepth, RPrios,
          REXs, RTOs,    \* expiry of a hold / timeout of a waiting request (seconds), one value per behaviour
          RMaxNow        \* clock bound, 0 = the clock stands still

VARIABLES rkind, rn, HT, WT, evset, evwait, rnow, rex, rto, rt
rvars == <<rkind, rn, HT, WT, evset, evwait, rnow, rex, rto, rt>>

\* WT: waiting requests  proc -> [rl, prio, since];  rt: proc -> second of its last admission
\* evset: [last, t] the last Set / Clear call;  evwait: waiting Wait calls  proc -> since
WEmpty == [pp \in {} |-> [rl |-> "x", prio |-> 0, since |-> 0]]

RInit == /\ rkind \in RKinds /\ rn \in RNs
         /\ HT = PrimEmpty /\ WT = WEmpty
         /\ evset = [last |-> "none", t |-> 0] /\ evwait = [pp \in {} |-> 0]
         /\ rnow = 0 /\ rex \in REXs /\ rto \in RTOs /\ rt = [pp \in RProcs |-> 0]

IsLockKind == rkind \in PrimLockKinds
Const == UNCHANGED <<rkind, rn, rex, rto>>

\* the event is set (exact to the second: the hold behind a state lasts through second t + rex)
HoldOn == rnow <= evset.t + rex
IsSet == IF rkind = "event_set" THEN ~(evset.last = "clear" /\ HoldOn) ELSE evset.last = "set" /\ HoldOn

Request(pp, rl, pr) ==
    /\ IsLockKind /\ pp \notin DOMAIN WT
    /\ pp \in DOMAIN HT => rkind = "rlock" /\ HT[pp].depth < RMaxDepth
    /\ rkind = "rw" => rl \in {"r", "w"}
    /\ rkind # "rw" => rl = "x"
    /\ rkind # "prio" => pr = 0
    /\ IF PrimAdmissible(rkind, rn, pp, rl, HT) /\ (DOMAIN WT = {} \/ pp \in DOMAIN HT)
       THEN HT' = PrimAdd(HT, pp, rl) /\ rt' = [rt EXCEPT ![pp] = rnow] /\ UNCHANGED WT
       ELSE /\ WT' = [qq \in (DOMAIN WT) \cup {pp} |-> IF qq = pp THEN [rl |-> rl, prio |-> pr, since |-> rnow] ELSE WT[qq]]
            /\ UNCHANGED <<HT, rt>>
    /\ Const /\ UNCHANGED <<evset, evwait, rnow>>

\* any admissible waiter may be admitted (no fairness policy is part of the statement), except PriorityLock
Admit(pp) ==
    /\ IsLockKind /\ pp \in DOMAIN WT
    /\ PrimAdmissible(rkind, rn, pp, WT[pp].rl, HT)
    /\ rkind = "prio" => PrimHandOverOK(WT[pp].prio, {WT[qq].prio : qq \in (DOMAIN WT) \ {pp}})
    /\ HT' = PrimAdd(HT, pp, WT[pp].rl) /\ rt' = [rt EXCEPT ![pp] = rnow]
    /\ WT' = [qq \in (DOMAIN WT) \ {pp} |-> WT[qq]]
    /\ Const /\ UNCHANGED <<evset, evwait, rnow>>

\* a release by a holder always succeeds and gives the unit back
Release(pp) ==
    /\ IsLockKind /\ pp \in DOMAIN HT /\ pp \notin DOMAIN WT
    /\ HT' = PrimSub(HT, pp)
    /\ Const /\ UNCHANGED <<WT, evset, evwait, rnow, rt>>

EvSet   == /\ ~IsLockKind /\ evset' = [last |-> "set", t |-> rnow] /\ evwait' = [pp \in {} |-> 0]
           /\ Const /\ UNCHANGED <<HT, WT, rnow, rt>>
EvClear == /\ ~IsLockKind /\ evset' = [last |-> "clear", t |-> rnow]
           /\ Const /\ UNCHANGED <<HT, WT, evwait, rnow, rt>>
EvWait(pp) == /\ ~IsLockKind /\ pp \notin DOMAIN evwait
              /\ evwait' = IF IsSet THEN evwait                               \* returns at once iff set
                            ELSE [qq \in (DOMAIN evwait) \cup {pp} |-> IF qq = pp THEN rnow ELSE evwait[qq]]
              /\ Const /\ UNCHANGED <<HT, WT, evset, rnow, rt>>

\* one second passes: holds older than rex end, requests that waited rto seconds give up, the Event hold lapses
\* (a default-set event is set again: its waiters return)
RTick ==
    /\ rnow < RMaxNow /\ rnow' = rnow + 1
    /\ HT' = [pp \in {qq \in DOMAIN HT : rnow + 1 <= rt[qq] + rex} |-> HT[pp]]
    /\ WT' = [pp \in {qq \in DOMAIN WT : rnow + 1 <= WT[qq].since + rto} |-> WT[pp]]
    /\ evwait' = IF rkind = "event_set" /\ evset.last = "clear" /\ rnow + 1 > evset.t + rex THEN [pp \in {} |-> 0]
                  ELSE [pp \in {qq \in DOMAIN evwait : rnow + 1 <= evwait[qq] + rto} |-> evwait[pp]]
    /\ Const /\ UNCHANGED <<evset, rt>>

RNext == \/ \E pp \in RProcs, rl \in {"x", "r", "w"}, pr \in RPrios \cup {0} : Request(pp, rl, pr)
         \/ \E pp \in RProcs : Admit(pp) \/ Release(pp) \/ EvWait(pp)
         \/ EvSet \/ EvClear \/ RTick

RSpec == RInit /\ [][RNext]_rvars

RStateOK == PrimStateOK(rkind, rn, HT)
RWaitersBlocked == IsSet => DOMAIN evwait = {}                \* a waiter is blocked only while the event is clear
RDepthBounded == \A pp \in DOMAIN HT : HT[pp].depth \in 1..RMaxDepth
\* no hold outlives its expiry, no request waits longer than its timeout
RNoStaleHold == /\ \A pp \in DOMAIN HT : rnow <= rt[pp] + rex
                /\ \A pp \in DOMAIN WT : rnow <= WT[pp].since + rto
\* the bracket a monitor may assume: a hold is there while PrimLive, gone once PrimGone; the same for the event state
RBracket == /\ \A pp \in DOMAIN HT : ~PrimGone(rt[pp], rex, rnow)
            /\ PrimEvDefSet(rkind, evset.last, evset.t, rex, rnow) => IsSet
            /\ PrimEvDefClear(rkind, evset.last, evset.t, rex, rnow) => ~IsSet
=============================================================================

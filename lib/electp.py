"""Engine P for C12: a real 3-process slock cluster on loopback, kill -9 of the leader.

One experiment: start 3 `slock --replset` processes, form the replica set with the documented
`replset config/add` commands, take quorum-acknowledged locks (TIMEOUT flag REQUIRE_ACKED) on the
leader, kill -9 the leader at a seeded moment, watch the survivors' INFO until a new leader is
reported, and probe every lock that had been reported SUCCED on the new leader.

The observations are written as ndjson events (pbegin, packed, ppos, pkill, pobs, pprobe, pfin) and are
judged by the TLA+ monitor spec/mon/MonElection.tla (clauses P1 "never two leaders among the
survivors", P2 "a quorum-acknowledged lock is still held on the new leader").

A directed variant (`lag=True`) crashes one follower first; the leader and the other follower move
on into the next append files (tiny --aof_file_rewrite_size) and take the quorum-acknowledged
locks; then the leader is crashed and the stale follower is started again from its data dir: the
survivor that is ahead and the one that is whole files behind compete for leadership (finding A21)."""
import json, os, random, shutil, signal, socket, subprocess, time
import vbuild
from vbuild import InfraError

REQUIRE_ACKED = 0x1000      # TIMEOUT_FLAG_REQUIRE_ACKED
ZERO_AOF_TIME = 0x0100      # EXPRIED_FLAG_ZEOR_AOF_TIME: the hold is written to the append file at once

def build_slock(outdir):
    binp = os.path.join(outdir, "slock")
    p = subprocess.run(["go", "build", "-o", binp, "."], cwd=vbuild.REPO, env=vbuild.GOENV, capture_output=True, text=True)
    if p.returncode != 0:
        raise InfraError("go build of slock failed:\n" + p.stdout + p.stderr)
    return binp

def free_ports(n):
    socks, ports = [], []
    for _ in range(n):
        s = socket.socket()
        s.bind(("127.0.0.1", 0))
        socks.append(s)
        ports.append(s.getsockname()[1])
    for s in socks:
        s.close()
    return ports

def resp_parse(data):
    """Minimal RESP reader: returns the first reply as nested python lists / strings / ints."""
    def rd(i):
        j = data.index(b"\r\n", i)
        line = data[i:j]
        t, rest = line[:1], line[1:]
        i = j + 2
        if t in (b"+", b"-"):
            return rest.decode(errors="replace"), i
        if t == b":":
            return int(rest), i
        if t == b"$":
            n = int(rest)
            if n < 0:
                return None, i
            return data[i:i + n].decode(errors="replace"), i + n + 2
        if t == b"*":
            out = []
            for _ in range(int(rest)):
                v, i = rd(i)
                out.append(v)
            return out, i
        raise ValueError("bad RESP")
    return rd(0)[0]

class Node:
    def __init__(self, binp, root, i, port, rewrite_size=None):
        self.i, self.port, self.host = i, port, f"127.0.0.1:{port}"
        self.dir = os.path.join(root, f"d{i}")
        os.makedirs(self.dir, exist_ok=True)
        self.log = open(os.path.join(root, f"log{i}.txt"), "ab")
        args = [binp, f"--data_dir={self.dir}", "--bind=127.0.0.1", f"--port={port}", "--replset=vc", "--log_level=INFO"]
        if rewrite_size:
            args.append(f"--aof_file_rewrite_size={rewrite_size}")
        self.args = args
        self.proc = subprocess.Popen(args, stdout=self.log, stderr=self.log, cwd=self.dir)
        self.alive = True

    def restart(self):
        self.proc = subprocess.Popen(self.args, stdout=self.log, stderr=self.log, cwd=self.dir)
        self.alive = True

    def cmd(self, *args, timeout=6.0):
        s = socket.create_connection(("127.0.0.1", self.port), timeout=timeout)
        try:
            s.sendall((f"*{len(args)}\r\n" + "".join(f"${len(a.encode())}\r\n{a}\r\n" for a in args)).encode())
            s.settimeout(timeout)
            data = b""
            while True:
                b = s.recv(65536)
                if not b:
                    break
                data += b
                try:
                    return resp_parse(data)
                except (ValueError, IndexError):
                    continue
            return resp_parse(data)
        finally:
            s.close()

    def info(self):
        try:
            txt = self.cmd("info", timeout=3.0)
        except Exception:
            return None
        if not isinstance(txt, str):
            return None
        d = {"members": {}}
        for ln in txt.splitlines():
            if ln.startswith("role:"):
                d["role"] = ln[5:].strip()
            elif ln.startswith("leader_host:"):
                d["leader_host"] = ln[12:].strip()
            elif ln.startswith("current_aof_id:"):
                d["aof"] = ln[15:].strip()
            elif ln.startswith("member") and ":host=" in ln:
                kv = dict(x.split("=", 1) for x in ln.split(":", 1)[1].split(",") if "=" in x)
                d["members"][kv.get("host")] = kv
        return d

    def kill(self, sig=signal.SIGKILL):
        try:
            self.proc.send_signal(sig)
        except Exception:
            pass
        if sig == signal.SIGKILL:
            self.alive = False
            try:
                self.proc.wait(timeout=5)
            except Exception:
                pass

def aof_limbs(hexid):
    """FormatAofId prints index (8 hex digits), offset (8), command time (16)."""
    idx, off, ct = int(hexid[0:8], 16), int(hexid[8:16], 16), int(hexid[16:32], 16)
    return {"ih": idx >> 16, "il": idx & 0xffff, "oh": off >> 16, "ol": off & 0xffff,
            "c": [(ct >> 48) & 0xffff, (ct >> 32) & 0xffff, (ct >> 16) & 0xffff, ct & 0xffff]}

def lock_cmd(node, key, lid, timeout_s, flag, expried=600):
    r = node.cmd("LOCK", key, "TIMEOUT", str((flag << 16) | timeout_s), "EXPRIED", str(expried), "LOCK_ID", lid, timeout=timeout_s + 6.0)
    if isinstance(r, list) and r and isinstance(r[0], int):
        return r[0]
    if isinstance(r, list) and r:
        try:
            return int(r[0])
        except Exception:
            pass
    return -1

def experiment(binp, root, name, idx, seed, emit, lag=False, nlocks=4):
    """Runs one kill experiment; emits events through emit(dict).  Returns a summary dict."""
    rng = random.Random(seed)
    shutil.rmtree(root, ignore_errors=True)
    os.makedirs(root)
    ports = free_ports(3)
    nodes = [Node(binp, root, i + 1, ports[i], rewrite_size=4096 if lag else None) for i in range(3)]
    summ = {"name": name, "formed": False, "new_leader": None, "acked": 0, "lag": lag}
    try:
        t0 = time.time()
        # form the replica set
        ok = False
        for _ in range(50):
            try:
                if nodes[0].cmd("replset", "config", nodes[0].host, "weight", "1", "arbiter", "0") == "OK":
                    ok = True
                    break
            except Exception:
                time.sleep(0.2)
        if not ok:
            raise InfraError("engine P: replset config failed")
        time.sleep(0.5)
        for nd in nodes[1:]:
            for _ in range(30):
                try:
                    if nodes[0].cmd("replset", "add", nd.host, "weight", "1", "arbiter", "0") == "OK":
                        break
                except Exception:
                    pass
                time.sleep(0.3)
        leader = None
        for _ in range(150):
            infos = [nd.info() for nd in nodes]
            if all(infos) and [x.get("role") for x in infos].count("leader") == 1 and \
               all(all(m.get("status") == "online" for m in x["members"].values()) and len(x["members"]) == 3 for x in infos) and \
               all(x.get("role") == "leader" or x.get("leader_host") for x in infos):
                leader = nodes[[x.get("role") for x in infos].index("leader")]
                break
            time.sleep(0.2)
        if leader is None:
            raise InfraError("engine P: the 3-process replica set did not form within 30 s")
        summ["formed"] = True
        followers = [nd for nd in nodes if nd is not leader]
        emit({"e": "pbegin", "name": name, "idx": idx, "n": 3, "leader": leader.i, "lag": lag})
        key0 = f"vp{seed % 100000:05d}"
        def emit_pos(nd):
            x = nd.info()
            me = [m for m in (x or {"members": {}})["members"].values() if m.get("self") == "yes"]
            if me and len(me[0].get("aof_id", "")) == 32:
                emit({"e": "ppos", "node": nd.i, "aof": aof_limbs(me[0]["aof_id"]), "hex": me[0]["aof_id"]})
        acked = []
        frozen = None
        if lag:
            # one follower crashes; the leader and the other follower move on into the next append files
            frozen = followers[rng.randrange(2)]
            # first some locks that everybody has, so that the frozen follower's offset is not small
            for k in range(40):
                lock_cmd(leader, f"{key0}w{k}", f"wl{k}", 2, 0, expried=(ZERO_AOF_TIME << 16) | 900)
            time.sleep(0.6)
            emit_pos(frozen)
            frozen.kill()
            emit({"e": "pkill", "node": frozen.i, "role": "follower"})
            # aof_file_rewrite_size is tiny: a few dozen records rotate the append file
            for k in range(rng.randrange(70, 90)):
                lock_cmd(leader, f"{key0}x{k}", f"xl{k}", 2, 0, expried=(ZERO_AOF_TIME << 16) | 900)
        for k in range(nlocks):
            key, lid = f"{key0}k{k}", f"{key0}l{k}"
            res = lock_cmd(leader, key, lid, 5, REQUIRE_ACKED)
            emit({"e": "plock", "key": key, "res": res, "node": leader.i})
            if res == 0:
                acked.append(key)
                emit({"e": "packed", "key": key, "node": leader.i})
        summ["acked"] = len(acked)
        pre = {nd.i: (nd.info() or {}).get("aof") for nd in nodes if nd is not frozen}
        summ["aof_before_kill"] = pre
        for nd in followers:
            if nd is not frozen:
                emit_pos(nd)
        time.sleep(rng.choice([0.0, 0.0, 0.01, 0.05, 0.2]))
        leader.kill()
        emit({"e": "pkill", "node": leader.i, "role": "leader"})
        if frozen is not None:
            frozen.restart()
            emit({"e": "prestart", "node": frozen.i})
        # watch the survivors
        new_leader = None
        seen_pos = {}
        deadline = time.time() + 45
        nobs = 0
        while time.time() < deadline:
            infos = {nd.i: nd.info() for nd in followers}
            claim = sorted(i for i, x in infos.items() if x and x.get("role") == "leader")
            # the survivors' own log positions while nobody leads yet (what the election decides on)
            for i, x in infos.items():
                if x and not claim and i not in seen_pos:
                    me = [m for m in x["members"].values() if m.get("self") == "yes"]
                    if me and len(me[0].get("aof_id", "")) == 32 and x["members"] and len(x["members"]) == 3:
                        seen_pos[i] = me[0]["aof_id"]
                        emit({"e": "ppos", "node": i, "aof": aof_limbs(me[0]["aof_id"]), "hex": me[0]["aof_id"]})
            emit({"e": "pobs", "leaders": claim, "t": round(time.time() - t0, 2)})
            nobs += 1
            if len(claim) == 1:
                other = [x for i, x in infos.items() if i != claim[0]][0]
                lh = f"127.0.0.1:{ports[claim[0] - 1]}"
                if other and other.get("leader_host") == lh:
                    new_leader = nodes[claim[0] - 1]
                    break
            time.sleep(0.25)
        if new_leader is not None:
            # a few more observations, then probe the acknowledged locks on the new leader
            for _ in range(4):
                time.sleep(0.25)
                infos = {nd.i: nd.info() for nd in followers}
                emit({"e": "pobs", "leaders": sorted(i for i, x in infos.items() if x and x.get("role") == "leader"), "t": round(time.time() - t0, 2)})
            summ["new_leader"] = new_leader.i
            summ["aof_after"] = {nd.i: (nd.info() or {}).get("aof") for nd in followers}
            for key in acked:
                res = lock_cmd(new_leader, key, "probe" + key[-6:], 0, 0, expried=1)
                emit({"e": "pprobe", "node": new_leader.i, "key": key, "res": res})
        emit({"e": "pfin", "name": name, "idx": idx, "elected": new_leader.i if new_leader else 0, "observations": nobs})
        return summ
    finally:
        for nd in nodes:
            try:
                nd.proc.send_signal(signal.SIGCONT)
            except Exception:
                pass
            nd.kill()
            nd.log.close()
        shutil.rmtree(root, ignore_errors=True)

#!/usr/bin/env python3
"""Regenerates MANIFEST.json from the table below (kept in one place so it stays valid)."""
import json, os, subprocess
VERIF = os.path.dirname(os.path.dirname(os.path.abspath(__file__)))
props = [json.loads(l) for l in open(os.path.join(VERIF, "properties.jsonl"))]
ids = [p["id"] for p in props]

LOCKFAM_NOTE = ("Trusted: TLC; the in-package harness (engine S: real LockDB.Lock/UnLock and the real sweepers driven on a virtual clock through hook H1); "
                "the monitor spec/mon/MonLock.tla, which re-states the property over observable events. Bounded model constants are in the evidence file. "
                "Sequential schedules only in this check (one goroutine); gated concurrent schedules are added by the engine-C part where the evidence lists it.")

CHECKS = {
 "C01": dict(level="model_checking", design="5/C01", technique="TLA+ model (LockEngine) checked by TLC + trace validation of real-code histories against the TLA+ monitor MonLock (clause grant-exceeds-count)",
   text="TLC exhausts the LockEngine design model (admission rule, wake pass, timers) for the GrantOK action property; TLC-generated and wide-range histories are replayed on the real LockDB and every recorded trace is validated by TLC against the C01 monitor, which keeps the outstanding holds exactly as the statement defines them and evaluates the Count bound at every new-holder reply."),
 "C02": dict(level="model_checking", design="5/C02", technique="TLC on LockEngine + trace validation against MonLock (unlock ownership, re-entrant depth clauses)",
   text="The monitor predicts, from events alone, whether an unlock may be accepted (a hold with that LockId, or the oldest with unlock-first), how depth changes, and that a re-lock succeeds at most Rcount times; every real-code reply is judged against it. The model side checks RefusedUnlockChangesNothing and HoldersWellFormed exhaustively."),
 "C03": dict(level="model_checking", design="5/C03", technique="TLC on LockEngine (OneTerminalReply) + trace validation against MonLock (reply multiset per request and connection); on real Binary/TextServerProtocol objects (engine W) idle-connection histories validated by TLC against the reply-correlation clauses of MonSession",
   text="Every reply delivered by the real code is attributed to the request and connection that sent it; a second terminal reply, an unknown RequestId, a reply on a foreign connection, an EXPRIED without a hold whose terms that request set, or an unanswered request at the end of a drained history is a violation."),
 "C04": dict(level="model_checking", design="5/C04", technique="TLC on LockEngine (NoLostWakeup, QueueOrderInv) + trace validation against MonLock (head-of-queue clause on snapshots, grant order clause)",
   text="At every quiescent point of every replayed history the head live waiter of each key (from the in-package snapshot) must not be admissible against the monitor's outstanding holds; every grant of a queued request is checked for overtaking an earlier or higher-priority waiter."),
 "C05": dict(level="model_checking", design="5/C05", technique="TLC on LockEngine (NoEarlyTimeout) + trace validation against MonLock (timeout window clauses on the virtual clock)",
   text="Virtual-clock histories (timers crossing the 8-re-check back-off into the long-wait tables) are validated: TIMEOUT not before T, every queued request answered by T+2 at the tock that closes the second, T=0 never left queued, no grant after TIMEOUT."),
 "C06": dict(level="model_checking", design="5/C06", technique="TLC on LockEngine + trace validation against MonLock (expiry window clauses on the virtual clock)",
   text="EXPRIED never before the deadline implied by the last grant / re-lock / update (updates within one granularity unit may be ignored), every hold ended by deadline+2 (deadline+10 after a shortening), unlimited holds never expired, capacity freed and waiters served (with C04 clause)."),
 "C17": dict(level="model_checking", design="5/C17", technique="trace validation against MonLock (LCount/LRCount of every reply, STATE counters on every snapshot, zero census after drain) + TLC on LockEngine",
   text="The monitor computes the true number of outstanding holds, queued requests and busy keys from events and compares them with every reply's LCount/LRCount and with STATE after every step; after the drain suffix everything must be zero and the in-package census (holder/wait queues, both wheels, long tables) must be empty."),
}

import sys, glob, importlib
sys.path.insert(0, VERIF); sys.path.insert(0, os.path.join(VERIF, "lib"))
ENGINES_EXTRA = []
for f in sorted(glob.glob(os.path.join(VERIF, "checks", "*.py"))):
    name = os.path.basename(f)[:-3]
    if name.startswith("_") or name == "lockfam":
        continue
    mod = importlib.import_module("checks." + name)
    for pid, ent in getattr(mod, "MANIFEST", {}).items():
        CHECKS[pid] = ent
    ENGINES_EXTRA += getattr(mod, "ENGINES", [])

def cmd(pid, tier):
    return f"bin/check {pid} {tier}"

checks = []
for pid in ids:
    if pid not in CHECKS:
        continue
    c = CHECKS[pid]
    checks.append({
        "property_id": pid, "quick_cmd": cmd(pid, "quick"), "thorough_cmd": cmd(pid, "thorough"),
        "evidence_file": f"/verif/evidence/{pid}.json", "engine": c.get("engine", "S"),
        **({"replay_cmd_template": f"bin/check {pid} --replay {{path}}"} if c.get("replay", pid in ("C01","C02","C03","C04","C05","C06","C17")) else {}),
        "level_claimed": {"category": c["level"], "text": c["text"], "design_ref": c["design"]},
        "level_note": c.get("note", LOCKFAM_NOTE), "technique": c["technique"]})

NA = {p: "check not built yet in this round (planned, see DESIGN.md section 5); nothing is claimed" for p in ids if p not in CHECKS}

hooks_commits = subprocess.run(["git", "-C", "/repo", "log", "--format=%h %s", "--grep=verif hooks"], capture_output=True, text=True).stdout.strip().splitlines()
manifest = {
 "version": 1,
 "setup_cmd": "bin/setup",
 "hooks": {"guard": "verif", "enable": "go build/test -tags verif (the in-package harness is injected with -overlay; checks rebuild from /repo's working tree)",
           "baseline_off_cmd": "cd /repo && GOFLAGS=-mod=mod GOPROXY=off GOSUMDB=off go test -vet=off -count=1 ./protocol/... ./server/...",
           "source_commits": [h.split()[0] for h in hooks_commits], "add_only": True},
 "engines": [
   {"name": "S", "path": "harness/inpkg/server/zz_verif_s_test.go", "serves_properties": ["C01", "C02", "C03", "C04", "C05", "C06", "C17"],
    "kind_free_text": "sequential in-package replay of TLC-generated and seeded histories on the real LockDB with a virtual clock; ndjson traces validated by TLC"},
   {"name": "C", "path": "harness/inpkg/server/zz_verif_c_test.go", "serves_properties": ["C01", "C03", "C04", "C06", "C10", "C17"],
    "kind_free_text": "gated concurrent engine: every request / sweeper / role change in its own goroutine, parked at the reply callback and the verif yield points; a scheduler releases one actor at a time following TLC-generated (LockEngineFine, KeyTable) and seeded schedules; ungated bursts behind one start barrier"},
   {"name": "RT", "path": "harness/inpkg/server/zz_verif_s_test.go", "serves_properties": ["C03", "C05", "C06", "C10"],
    "kind_free_text": "the step interpreter on the real clock with the server's own sweepers (millisecond timers, millisecond-wheel hand-over)"},
   {"name": "F", "path": "harness/inpkg/server/zz_verif_f_test.go", "serves_properties": ["C07", "C08", "C16"],
    "kind_free_text": "real Aof + LockDB on a scratch directory: stop/start, crash images cut at every record boundary and byte class, images at flush entry and between the two writes of a flush, compaction interrupted at each file-system step, bursts with the channel goroutines parked (zz_verif_fburst_test.go); recovered state judged by TLC against MonAof"},
   {"name": "E", "path": "harness/inpkg/server/zz_verif_e_test.go", "serves_properties": ["C12"],
    "kind_free_text": "N real ArbiterManager / ArbiterVoter objects in one process; the driver delivers / loses every request and reply and restarts members as the TLC behaviour dictates"},
   {"name": "P", "path": "lib/replcluster.py", "serves_properties": ["C09", "C10", "C12", "C19"],
    "kind_free_text": "real slock processes (leader, followers, replica sets) built from /repo's working tree, every inter-node link through a byte-level recording / fault proxy (lib/replcluster.py, lib/fwdcluster.py, lib/electp.py)"},
   {"name": "V", "path": "harness/inpkg/server/zz_verif_value_test.go", "serves_properties": ["C15"],
    "kind_free_text": "TLC-enumerated and seeded value-operation histories on the real LockDB (zz_verif_value_test.go) and the real text protocol handlers (zz_verif_redis_test.go); every step recomputed by TLC (MonValue / MonRedis)"},
   {"name": "Wire", "path": "harness/inpkg/protocol/zz_verif_wire_test.go", "serves_properties": ["C14"],
    "kind_free_text": "real codecs and TextParser against spec-computed bytes (protocol package), the server's inline decoder / encoders and text-vs-binary sequences on one connection (harness/inpkg/server/zz_verif_wire_test.go, zz_verif_wseq_test.go)"},
   {"name": "Proto", "path": "harness/inpkg/server/zz_verif_proto_test.go", "serves_properties": ["C13"],
    "kind_free_text": "TLC-enumerated input-class paths and output-buffer patterns concretised to bytes and fed to the real Server.handle in child processes; command-pool and extended-flag sequences (engine W / engine X traces judged by MonCrash)"},
   {"name": "Prim", "path": "harness/inpkg/client/zz_verif_prim_test.go", "serves_properties": ["C19"],
    "kind_free_text": "the real client library against real server processes (free-running interval histories, TLC call sequences) and against an in-process server on the manual clock (harness/inpkg/server/zz_verif_primv_test.go)"},
   {"name": "X", "path": "harness/inpkg/server/zz_verif_lockext_test.go", "serves_properties": ["C13"],
    "kind_free_text": "real LockDB + LockDBExecutor on the virtual clock for the re-issuing / holdless request flags (growth check bin/extra lockext; its histories also run under C13)"},
 ] + ENGINES_EXTRA,
 "checks": checks,
 "not_applicable": [{"property_id": p, "reason": r} for p, r in NA.items()],
 "notes": "All verdicts come from TLC validating traces of the real code against TLA+ monitors (spec/mon) or from TLC-generated behaviours replayed on the real code; TLC counterexamples on the design models are never verdicts. Exit 2 = infrastructure problem.",
}
json.dump(manifest, open(os.path.join(VERIF, "MANIFEST.json"), "w"), indent=1)
print("MANIFEST.json written:", len(checks), "checks,", len(NA), "not claimed")

"""Fault scenarios for engine P (C09).

  behaviours_to_scenarios : environment actions exported by TLC from spec/Replication.tla (appends, rotations, joins,
                            handshakes, cuts with phase + record coordinate, restarts) -> cluster scenario steps; the
                            model's record coordinate is scaled to the real ring (RingCap 2 <-> 64 records) and every cut
                            gets a byte residue so that all 64 offsets of a record (and offsets inside value frames) are
                            visited over runs
  directed / seeded       : cases the bounded model does not contain: cuts inside the handshake answer, splits
                            (segment boundaries inside records and value frames), size-driven rotation, slow follower
"""
import json, random

SCALE = 32       # one model record = 32 real records (model ring capacity 2 = 64-record ring of 4096 bytes)

def parse_behaviours(out_lines):
    hs = set()
    for ln in out_lines:
        ln = ln.strip()
        if ln.startswith('"BEHAVIOUR '):
            try:
                hs.add(json.loads(ln)[10:])
            except Exception:
                pass
    return [json.loads(h) for h in sorted(hs)]

def features(h):
    f = set()
    for x in h:
        if x["a"] == "cut":
            f.add("cut-" + x["ph"])
        elif x["a"] == "hs":
            if x.get("refused"):
                f.add("refused")
            elif not x.get("full"):
                f.add("resume")
        elif x["a"] in ("rotate", "restart", "eof"):
            f.add(x["a"])
    if len({x.get("f") for x in h if x["a"] == "join"}) > 1:
        f.add("two")
    return f

def select(behs, seed, limit, max_cuts=3):
    """Greedy cover of the feature combinations, then seeded fill."""
    rng = random.Random(seed)
    pool = [h for h in behs if sum(1 for x in h if x["a"] == "cut") <= max_cuts and any(x["a"] in ("cut", "restart") for x in h)]
    rng.shuffle(pool)
    chosen, seen = [], set()
    for h in pool:
        key = frozenset(features(h))
        if key not in seen:
            seen.add(key)
            chosen.append(h)
        if len(chosen) >= limit:
            return chosen
    for h in pool:
        if h not in chosen:
            chosen.append(h)
        if len(chosen) >= limit:
            break
    return chosen

def residue(seed, n, ci):
    r = (seed * 17 + n * 5 + ci * 23) % 64
    if (seed + n + ci) % 4 == 3:
        r += 64 + (seed * 3 + n) % 40        # inside the value frame when the record has one
    return r

def behaviour_to_scenario(h, seed, n, mix=None):
    rng = random.Random(f"beh/{seed}/{n}")
    followers = sorted({x["f"] for x in h if x["a"] == "join"})
    # connection plan per follower: one entry per handshake, the cut (if any) that ends that connection
    conns = {f: [] for f in followers}
    ci = 0
    for x in h:
        if x["a"] == "hs":
            conns[x["f"]].append({"kind": "none"})
        elif x["a"] == "cut":
            k = x["k"]
            if x["ph"] == "files":
                rec = k * SCALE + rng.randrange(SCALE)
            else:
                rec = max(0, k * SCALE - rng.randrange(SCALE // 2)) if k > 0 else 0
            conns[x["f"]][-1] = {"kind": "cut", "phase": x["ph"], "rec": rec, "res": residue(seed, n, ci)}
            ci += 1
    has_rot = any(x["a"] == "rotate" for x in h)
    if mix is None:
        mix = rng.choice(["value", "value", "plain"])
    steps, pend = [], 0
    nhs = {f: 0 for f in followers}
    ncut = {f: 0 for f in followers}
    down = {f: False for f in followers}
    def flush():
        nonlocal pend
        if pend:
            steps.append({"op": "work", "n": pend * SCALE + rng.randrange(-3, 4), "mix": mix})
            pend = 0
    for x in h:
        a = x["a"]
        if a == "append":
            pend += 1
            continue
        flush()
        if a == "rotate":
            steps.append({"op": "rotate"})
        elif a == "join":
            steps.append({"op": "join", "f": x["f"], "faults": conns[x["f"]]})
        elif a == "hs":
            f = x["f"]
            nhs[f] += 1
            if down[f]:
                steps.append({"op": "start", "f": f})
                down[f] = False
            steps.append({"op": "wait", "f": f, "ev": "resp", "nth": nhs[f]})
        elif a == "cut":
            f = x["f"]
            ncut[f] += 1
            steps.append({"op": "wait", "f": f, "ev": "cut", "nth": ncut[f]})
        elif a == "restart":
            steps.append({"op": "kill", "f": x["f"]})
            down[x["f"]] = True
    flush()
    for f in followers:
        if down[f]:
            steps.append({"op": "start", "f": f})
    return {"name": f"tlc-{seed}-{n}", "src": "tlc", "cfg": {"ring": 4096}, "steps": steps, "model": h,
            "features": sorted(features(h)), "rot": has_rot}

def directed(seed, quick):
    """Hand-shaped cases outside the bounded model."""
    r = lambda i: (seed * 11 + i * 7) % 64
    scs = [
        # cut inside the SYNC answer, then inside the first file record, then a clean transfer
        {"name": "dir-handshake-cut", "steps": [
            {"op": "work", "n": 12, "mix": "value"},
            {"op": "join", "f": 1, "faults": [{"kind": "cut", "phase": "hs", "rec": 0, "res": 1 + r(1)}, {"kind": "cut", "phase": "files", "rec": 0, "res": r(2)}]},
            {"op": "wait", "f": 1, "ev": "cut", "nth": 2},
            {"op": "work", "n": 10, "mix": "value"}]},
        # segment boundaries inside records / value frames / the marker, no cut: the readers must reassemble
        {"name": "dir-split", "steps": [
            {"op": "work", "n": 20, "mix": "value"},
            {"op": "join", "f": 1, "faults": [{"kind": "split", "phase": "files", "rec": 3 + seed % 9, "res": 1 + r(3)}]},
            {"op": "join", "f": 2, "faults": [{"kind": "split", "phase": "live", "rec": 2 + seed % 5, "res": 64 + r(4) % 30}]},
            {"op": "work", "n": 24, "mix": "value"}]},
        # size-driven rotation on the leader (and, following it, on the followers) with a cut and a restart
        {"name": "dir-rotate-by-size", "cfg": {"ring": 4096, "rewrite": 2572}, "steps": [
            {"op": "work", "n": 30, "mix": "plain"},
            {"op": "join", "f": 1, "faults": [{"kind": "cut", "phase": "live", "rec": 20 + seed % 30, "res": r(5)}]},
            {"op": "join", "f": 2},
            {"op": "work", "n": 70, "mix": "plain"},
            {"op": "wait", "f": 1, "ev": "cut", "nth": 1},
            {"op": "work", "n": 20, "mix": "plain"},
            {"op": "kill", "f": 2}, {"op": "work", "n": 12, "mix": "plain"}, {"op": "start", "f": 2},
            {"op": "work", "n": 10, "mix": "plain"}]},
        # follower away while the ring wraps: the resume must be refused and a full transfer follow
        {"name": "dir-overflow-while-down", "steps": [
            {"op": "work", "n": 15, "mix": "value"},
            {"op": "join", "f": 1, "faults": [{"kind": "cut", "phase": "live", "rec": 4, "res": r(6)}]},
            {"op": "work", "n": 10, "mix": "value"},
            {"op": "wait", "f": 1, "ev": "cut", "nth": 1},
            {"op": "work", "n": 80, "mix": "plain"}]},
    ]
    scs += [
        # slow follower, cheap variant: the follower's "started" frame (the leader waits for it between the handshake and
        # the first Pop) is late while the ring wraps under the cursor: the leader must close ("out of buf"), the
        # follower's resume must be refused and a full transfer follow - on the full-transfer path ...
        {"name": "dir-slow-start", "steps": [
            {"op": "work", "n": 20, "mix": "value"},
            {"op": "join", "f": 1, "faults": [{"kind": "holdstart", "secs": 3}]},
            {"op": "wait", "f": 1, "ev": "holdstart"},
            {"op": "work", "n": 90, "mix": "plain"},
            {"op": "wait", "f": 1, "ev": "fdone"},
            {"op": "work", "n": 10, "mix": "plain"}]},
        # ... and on the resume path
        {"name": "dir-slow-start-resume", "steps": [
            {"op": "work", "n": 20, "mix": "value"},
            {"op": "join", "f": 1, "faults": [{"kind": "cut", "phase": "live", "rec": 3, "res": r(7)}, {"kind": "holdstart", "secs": 3}]},
            {"op": "work", "n": 8, "mix": "plain"},
            {"op": "wait", "f": 1, "ev": "holdstart"},
            {"op": "work", "n": 90, "mix": "plain"},
            {"op": "wait", "f": 1, "ev": "disc", "nth": 2},
            {"op": "work", "n": 10, "mix": "plain"}]},
    ]
    scs += [
        # a ring of 10 slots / 640 bytes with value frames of 100-300 bytes: every Push recycles slots, the byte budget
        # releases several slots at a time to the free list, two followers trail by a record or two
        {"name": "dir-tiny-ring", "cfg": {"ring": 640}, "steps": [
            {"op": "work", "n": 12, "mix": "tiny"},
            {"op": "join", "f": 1},
            {"op": "join", "f": 2, "faults": [{"kind": "split", "phase": "live", "rec": 5 + seed % 7, "res": 1 + r(8)}]},
            {"op": "work", "n": 140, "mix": "tiny"},
            {"op": "work", "n": 40, "mix": "plain"},
            {"op": "work", "n": 60, "mix": "tiny"}]},
        # the same ring driven by a fixed cycle of value-frame sizes that makes it release several slots at once, refill
        # from its free list and release again (free-list bookkeeping of ReplicationBufferQueue)
        {"name": "dir-ring-pattern", "cfg": {"ring": 640}, "steps": [
            {"op": "work", "n": 10, "mix": "pattern"},
            {"op": "join", "f": 1}, {"op": "join", "f": 2},
            {"op": "work", "n": 260, "mix": "pattern"}]},
    ]
    scs += [
        # records with small and with large values (around and above the stream writer's 4096-byte batch buffer) pile up
        # while the follower is away and are streamed in one burst when it resumes: the order of the log must survive
        {"name": "dir-big-values-in-backlog", "cfg": {"ring": 1048576}, "steps": [
            {"op": "work", "n": 8, "mix": "value"},
            {"op": "join", "f": 1, "faults": [{"kind": "cut", "phase": "live", "rec": 3, "res": r(9)}]},
            {"op": "join", "f": 2, "faults": [{"kind": "stall", "phase": "live", "rec": 2, "secs": 3}]},
            {"op": "work", "n": 6, "mix": "value"},
            {"op": "wait", "f": 1, "ev": "cut", "nth": 1},
            {"op": "work", "n": 40, "mix": "mixedbig"},
            {"op": "work", "n": 10, "mix": "plain"}]},
        # value-carrying records whose holds have EXPIRED by the time a follower is transferred the files (the reader skips
        # them) stand in front of / between the value-carrying records of live holds: every live record still travels with
        # ITS value frame (record file and value file are read in lockstep)
        {"name": "dir-expired-value-records-before-transfer", "steps": [
            {"op": "script", "reqs": [
                {"ct": 1, "key": 300, "lid": 9301, "set": "AAAA-short-lived-%d" % seed, "exp": 1},
                {"ct": 1, "key": 301, "lid": 9302, "set": "BBBB-of-key-301"},
                {"ct": 1, "key": 302, "lid": 9303, "append": "cc", "exp": 1},
                {"ct": 1, "key": 303, "lid": 9304, "incr": 7},
                {"ct": 1, "key": 304, "lid": 9305, "set": "x" * (5 + seed % 90), "exp": 2},
                {"ct": 1, "key": 305, "lid": 9306, "set": "FFFF-of-key-305"},
                {"ct": 1, "key": 301, "lid": 9307, "append": "+tail"}]},
            {"op": "work", "n": 6, "mix": "plain"},
            {"op": "sleep", "secs": 3.2},
            {"op": "join", "f": 1},
            {"op": "work", "n": 6, "mix": "value"},
            {"op": "join", "f": 2, "faults": [{"kind": "cut", "phase": "files", "rec": 2, "res": r(10)}]},
            {"op": "work", "n": 4, "mix": "plain"}]},
    ]
    if not quick:
        scs += [
            # slow follower: the proxy stops reading while the leader logs large values; the leader either keeps the
            # records for it or, once the ring has wrapped under its cursor, closes and transfers everything again
            {"name": "dir-slow-follower", "quiesce_timeout": 240, "cfg": {"ring": 1048576}, "steps": [
                {"op": "work", "n": 10, "mix": "value"},
                {"op": "join", "f": 1, "faults": [{"kind": "stall", "phase": "live", "rec": 2, "secs": 8}]},
                {"op": "wait", "f": 1, "ev": "fdone"},
                {"op": "work", "n": 160, "mix": "huge"},
                {"op": "work", "n": 20, "mix": "plain"}]},
        ]
    for sc in scs:
        sc.setdefault("cfg", {"ring": 4096})
        sc["src"] = "directed"
    return scs

def known_compaction_value(seed):
    """Directed history of the known finding R1: the log stores the value RESULTING from each value operation with
    the record of the hold that made it; compaction keeps only the records of holds that are still live, so the
    key's current value is lost when its last writer has been released: a follower that is transferred the
    compacted files holds an older value than the leader (10 on the leader, 8 on the follower here)."""
    return {"name": "dir-R1-compaction-drops-value", "src": "directed", "cfg": {"ring": 4096}, "steps": [
        {"op": "script", "reqs": [
            {"ct": 1, "key": 100, "lid": 9001, "incr": 5}, {"ct": 1, "key": 100, "lid": 9002, "incr": 3},
            {"ct": 1, "key": 100, "lid": 9003, "incr": 2}, {"ct": 2, "key": 100, "lid": 9003}]},
        {"op": "work", "n": 6, "mix": "plain"},
        {"op": "rotate"},
        {"op": "sleep", "secs": 1.0},
        {"op": "work", "n": 4, "mix": "plain"},
        {"op": "join", "f": 1},
        {"op": "work", "n": 4, "mix": "plain"}]}

def known_empty_ring(seed):
    """Directed history of the known finding R4 (predicted by TLC: NilCursorChecked = FALSE): a follower joins a leader
    whose ring is still empty, its 'started' frame is late, the ring wraps before the leader's first Pop."""
    return {"name": "dir-R4-empty-ring-slow-start", "src": "directed", "cfg": {"ring": 4096}, "steps": [
        {"op": "join", "f": 1, "faults": [{"kind": "holdstart", "secs": 3}]},
        {"op": "wait", "f": 1, "ev": "holdstart"},
        {"op": "work", "n": 100, "mix": "plain"},
        {"op": "wait", "f": 1, "ev": "fdone"},
        {"op": "work", "n": 10, "mix": "plain"}]}

def seeded(seed, i):
    """Random fault plans (not from the model): 1-2 followers, 1-2 faults each, wide coordinates."""
    rng = random.Random(f"rnd/{seed}/{i}")
    nf = rng.choice([1, 1, 2])
    mix = rng.choice(["value", "value", "plain", "mixedbig"])
    rot = rng.random() < 0.3
    cfg = {"ring": 4096 if mix != "mixedbig" else 1048576}
    if rot:
        cfg["rewrite"] = 12 + 64 * rng.choice([30, 45, 60])
        mix = "plain" if rng.random() < 0.7 else mix
    steps = [{"op": "work", "n": rng.randrange(5, 60), "mix": mix}]
    if rng.random() < 0.34:
        # short-lived value-carrying holds among long-lived ones, expired before the followers join
        reqs = []
        for j in range(rng.randrange(3, 9)):
            short = rng.random() < 0.5
            val = rng.choice(["set", "append", "incr"])
            rq = {"ct": 1, "key": 400 + j, "lid": 9400 + j}
            rq[val] = (rng.randrange(1, 50) if val == "incr" else "v%d-" % j + "y" * rng.randrange(0, 70))
            if short:
                rq["exp"] = rng.choice([1, 1, 2])
            reqs.append(rq)
        steps += [{"op": "script", "reqs": reqs}, {"op": "work", "n": rng.randrange(2, 12), "mix": mix}, {"op": "sleep", "secs": 3.2}]
    waits = []
    for f in range(1, nf + 1):
        faults = []
        for c in range(rng.choice([1, 1, 2])):
            ph = rng.choice(["files", "live", "live"])
            kind = rng.choice(["cut", "cut", "cut", "split"])
            faults.append({"kind": kind, "phase": ph, "rec": rng.randrange(0, 40), "res": rng.randrange(0, 64) if rng.random() < 0.8 else rng.randrange(64, 140)})
        steps.append({"op": "join", "f": f, "faults": faults})
        ncut = 0
        for flt in faults:
            if flt["kind"] == "cut":
                ncut += 1
                waits.append((f, ncut))
        steps.append({"op": "work", "n": rng.randrange(10, 50), "mix": mix})
    for f, nth in waits:
        steps.append({"op": "wait", "f": f, "ev": "cut", "nth": nth})
        steps.append({"op": "work", "n": rng.choice([8, 20, 70, 90]), "mix": mix})
    return {"name": f"rnd-{seed}-{i}", "src": "seeded", "cfg": cfg, "steps": steps}

"""Engine P for the forwarding half of C10: real slock PROCESSES (one leader, followers joined with --slaveof through a
recording proxy, one unconfigured --replset member in the CONFIG state), raw binary and text client connections, and a
per-follower proxy on the follower -> leader address.

The proxy sees every connection a follower opens to its leader.  The replication link (first frame is the CALL "SYNC")
is passed through untouched.  Every other link is an upstream connection of the transparency layer
(server/transparency.go): its frames are parsed in both directions and recorded, so that the monitor can compare what a
client was told through the follower with what the leader really answered ("relayed unchanged", "never a locally
fabricated success").  The proxy can cut one upstream connection, hold back the leader's replies, and make the leader
unreachable for the follower (listener closed + upstream links cut; the replication link is left alone so the cluster
stays usable for the next sequence).

Nothing here judges anything: the module produces ndjson events; spec/mon/MonForward.tla takes the verdicts."""
import os, select, socket, struct, threading, time, signal
import replcluster as rc
from vbuild import InfraError

MAGIC, VERSION = 0x56, 0x01
RID_TAG = 0xF0D
TEXT_RID_BASE = 1000000

def k16(n):
    return struct.pack("<QQ", n, 0)

def id_of(b):
    """16 raw bytes -> small int when it is one of ours (k16), else a hex string."""
    a, z = struct.unpack("<QQ", b)
    return a if z == 0 and a < 2000000000 else b.hex()

# every key command registered in the text dispatch tables (server/protocol.go TextServerProtocol.FindHandler and
# server/transparency.go TransparencyTextServerProtocol.FindHandler), beside LOCK / UNLOCK / PUSH.  The CLASS of a command
# (does it change engine state on a leader?) is data of the specification (spec/Forward.tla, spec/mon/MonForward.tla); here
# only the wire form: arguments after the key, and the RedisCmds command code (spec/RedisCmds.tla) of the form sent.
VALUE_COMMANDS = ("SET", "SETNX", "SETEX", "PSETEX", "GETSET", "APPEND", "INCR", "INCRBY", "DECR", "DECRBY", "EXPIRE", "PEXPIRE", "EXPIREAT",
                  "PEXPIREAT", "PERSIST", "DEL", "GET", "STRLEN", "EXISTS", "TYPE", "DUMP", "TTL", "PTTL", "KEYS", "SCAN")

def decode_value(data):
    """LockResultCommandData after its 4-byte length (type, flag, [property block], value) -> the value as the reply writers of
    protocol/textcommand.go read it: kind none / str / num / big, bytes, number (GetIncrValue), size (GetValueSize), empty frame."""
    if not data or len(data) < 2:
        return {"dkind": "none", "dvb": [], "dnum": 0, "dlen": 0, "dempty": True}
    typ, flag = data[0] & 0x3f, data[1]
    off = 2
    if flag & 0x10 and len(data) >= 4:
        off = 4 + (data[2] | (data[3] << 8))
    val = data[off:] if typ != 1 else b""
    num = int.from_bytes((val[:8] + b"\0" * 8)[:8], "little", signed=True)
    kind = "num" if flag & 0x01 else "str"
    if flag & 0x06:
        kind = "big"            # array / map values: not generated, not judged
    if kind == "num" and abs(num) > 1000000000:
        kind = "big"
    return {"dkind": kind, "dvb": list(val) if kind == "str" else [], "dnum": num if abs(num) <= 1000000000 else 0, "dlen": len(val), "dempty": len(data) <= 2}

def parse_result(r, data):
    """64-byte LockResultCommand (+ value frame) -> dict of all fields."""
    lc, cnt = struct.unpack_from("<HH", r, 54)
    return {"ct": r[2], "res": r[19], "rflag": r[20], "db": r[21], "lid": id_of(r[22:38]), "key": id_of(r[38:54]),
            "lc": lc, "cnt": cnt, "lrc": r[58], "rc": r[59], "data": (data or b"").hex()}

class Sink:
    """Event list of the sequence currently running on one follower (client thread + proxy threads append)."""
    def __init__(self):
        self.lock = threading.Lock()
        self.ev = []
        self.on = False

    def emit(self, e):
        with self.lock:
            if self.on:
                self.ev.append(e)

    def start(self):
        with self.lock:
            self.ev, self.on = [], True

    def stop(self):
        with self.lock:
            self.on = False
            return self.ev

class RidMap:
    """16-byte request ids seen on the wire -> small ints (ours are decoded, server-generated ones are numbered)."""
    def __init__(self):
        self.lock = threading.Lock()
        self.m = {}
        self.n = TEXT_RID_BASE

    def get(self, b):
        a, z = struct.unpack("<QQ", b)
        if z == RID_TAG and a < TEXT_RID_BASE:
            return a
        with self.lock:
            if b not in self.m:
                self.n += 1
                self.m[b] = self.n
            return self.m[b]

RIDS = RidMap()

class UpLink:
    def __init__(self, uid, fsock, lsock):
        self.uid, self.f, self.l = uid, fsock, lsock
        self.reqs = []          # (rid, ct, key, lid) forwarded on this upstream connection
        self.dead = False
        self.fbuf = b""
        self.lbuf = b""
        self.held = []          # leader bytes not handed on while the proxy holds replies

class Proxy(threading.Thread):
    """follower -> leader address of ONE follower."""
    def __init__(self, node_name, leader_port, sink):
        super().__init__(daemon=True)
        self.node, self.lport, self.sink = node_name, leader_port, sink
        self.port = rc.free_port()
        self.lsock = None
        self.links = {}
        self.nlink = 0
        self.stop_flag = False
        self.blocked = False
        self.hold = False
        self.mu = threading.Lock()
        self.listen()

    def listen(self):
        for _ in range(100):
            try:
                s = socket.socket()
                s.setsockopt(socket.SOL_SOCKET, socket.SO_REUSEADDR, 1)
                s.bind(("127.0.0.1", self.port))
                s.listen(64)
                self.lsock = s
                return
            except OSError:
                time.sleep(0.05)
        raise InfraError("forward proxy could not listen on its port again")

    # ---- controls (called by the driver thread)
    def block(self):
        """The leader becomes unreachable for this follower's transparency layer."""
        with self.mu:
            self.blocked = True
            if self.lsock is not None:
                try:
                    self.lsock.close()
                except OSError:
                    pass
                self.lsock = None
            ups = [u for u in self.links.values() if not u.dead]
        for u in ups:
            self.cut(u.uid)

    def unblock(self):
        with self.mu:
            if self.blocked:
                self.listen()
                self.blocked = False

    def cut(self, uid):
        u = self.links.get(uid)
        if u is None or u.dead:
            return False
        u.dead = True
        self.sink.emit({"e": "cut", "node": self.node, "up": uid})
        for s in (u.f, u.l):
            try:
                s.shutdown(socket.SHUT_RDWR)
            except OSError:
                pass
            try:
                s.close()
            except OSError:
                pass
        return True

    def find_up(self, rid=None, ct=None, key=None, lid=None):
        """Upstream connection that carried the given request (latest match)."""
        best = None
        for u in list(self.links.values()):
            if u.dead:
                continue
            for (r, c, k, l) in u.reqs:
                if (rid is not None and r == rid) or (rid is None and c == ct and k == key and l == lid):
                    best = u
        return best.uid if best else None

    def set_hold(self, on):
        self.hold = on
        if not on:
            for u in list(self.links.values()):
                held, u.held = u.held, []
                if not u.dead:
                    for b in held:
                        try:
                            u.f.sendall(b)
                        except OSError:
                            pass

    def stop(self):
        self.stop_flag = True
        with self.mu:
            if self.lsock is not None:
                try:
                    self.lsock.close()
                except OSError:
                    pass
                self.lsock = None
        for u in list(self.links.values()):
            for s in (u.f, u.l):
                try:
                    s.close()
                except OSError:
                    pass

    # ---- threads
    def run(self):
        while not self.stop_flag:
            ls = self.lsock
            if ls is None:
                time.sleep(0.005)
                continue
            try:
                r, _, _ = select.select([ls], [], [], 0.05)
                if not r:
                    continue
                c, _ = ls.accept()
            except (OSError, ValueError):
                continue
            c.setsockopt(socket.IPPROTO_TCP, socket.TCP_NODELAY, 1)
            threading.Thread(target=self.serve, args=(c,), daemon=True).start()

    def serve(self, c):
        try:
            l = socket.create_connection(("127.0.0.1", self.lport), timeout=10)
            l.setsockopt(socket.IPPROTO_TCP, socket.TCP_NODELAY, 1)
            l.settimeout(None)
        except OSError:
            c.close()
            return
        try:
            first = b""
            c.settimeout(30)
            while len(first) < 64:
                b = c.recv(64 - len(first))
                if not b:
                    raise OSError("closed")
                first += b
            c.settimeout(None)
        except OSError:
            c.close(); l.close()
            return
        if first[2] == 7:
            self.pump_raw(c, l, first)
            return
        with self.mu:
            # (a connection that was accepted before the leader became unreachable for this follower but has not carried a
            #  frame yet - a slow follower on a busy machine - must not survive the block: nothing is forwarded on it)
            refused = self.blocked
            if not refused:
                self.nlink += 1
                uid = self.nlink
                u = UpLink(uid, c, l)
                self.links[uid] = u
        if refused:
            for s_ in (c, l):
                try:
                    s_.close()
                except OSError:
                    pass
            return
        self.sink.emit({"e": "up_open", "node": self.node, "up": uid})
        u.fbuf = first
        self.pump_up(u)

    def pump_raw(self, c, l, first):
        try:
            l.sendall(first)
            while not self.stop_flag:
                r, _, _ = select.select([c, l], [], [], 0.5)
                for s in r:
                    b = s.recv(65536)
                    if not b:
                        raise OSError("closed")
                    (l if s is c else c).sendall(b)
        except (OSError, ValueError):
            pass
        finally:
            # graceful: FIN first, so that unread data is not lost with a reset
            for s in (c, l):
                try:
                    s.shutdown(socket.SHUT_WR)
                except OSError:
                    pass
            time.sleep(0.05)
            for s in (c, l):
                try:
                    s.close()
                except OSError:
                    pass

    def _frames(self, buf, from_leader):
        """Split complete frames off buf: [(frame64, data|None)], rest."""
        out = []
        while len(buf) >= 64:
            fr = buf[:64]
            ct = fr[2]
            has = False
            if ct in (1, 2):
                has = bool((fr[20] if from_leader else fr[19]) & 0x20)
            if has:
                if len(buf) < 68:
                    break
                ln = struct.unpack_from("<I", buf, 64)[0]
                if len(buf) < 68 + ln:
                    break
                out.append((fr, buf[64:68 + ln]))
                buf = buf[68 + ln:]
            else:
                out.append((fr, None))
                buf = buf[64:]
        return out, buf

    def pump_up(self, u):
        try:
            self.handle_f(u)
            while not self.stop_flag and not u.dead:
                r, _, _ = select.select([u.f, u.l], [], [], 0.5)
                for s in r:
                    b = s.recv(65536)
                    if not b:
                        raise OSError("closed")
                    if s is u.f:
                        u.fbuf += b
                        self.handle_f(u)
                    else:
                        u.lbuf += b
                        self.handle_l(u)
        except (OSError, ValueError):
            pass
        finally:
            if not u.dead:
                u.dead = True
                self.sink.emit({"e": "up_closed", "node": self.node, "up": u.uid})
            for s in (u.f, u.l):
                try:
                    s.close()
                except OSError:
                    pass

    def handle_f(self, u):
        frames, u.fbuf = self._frames(u.fbuf, False)
        for fr, data in frames:
            rid = RIDS.get(fr[3:19])
            ct = fr[2]
            ev = {"e": "up_req", "node": self.node, "up": u.uid, "rid": rid, "ct": ct}
            if ct in (1, 2):
                to, tf, ex, ef, cnt = struct.unpack_from("<HHHHH", fr, 53)
                ev.update({"key": id_of(fr[37:53]), "lid": id_of(fr[21:37]), "flag": fr[19], "to": to, "tf": tf, "ex": ex, "ef": ef, "cnt": cnt, "rc": fr[63]})
                u.reqs.append((rid, ct, ev["key"], ev["lid"]))
            self.sink.emit(ev)
            u.l.sendall(fr + (data or b""))

    def handle_l(self, u):
        frames, u.lbuf = self._frames(u.lbuf, True)
        for fr, data in frames:
            rid = RIDS.get(fr[3:19])
            ev = {"e": "up_reply", "node": self.node, "up": u.uid, "rid": rid}
            ev.update(parse_result(fr, data[4:] if data else None))
            ev.update(decode_value(data[4:] if data else None))
            self.sink.emit(ev)
            out = fr + (data or b"")
            if self.hold:
                u.held.append(out)
            else:
                u.f.sendall(out)

# --------------------------------------------------------------------------------------------------- client connections

class BinConn:
    def __init__(self, cid, node, port, sink):
        self.cid, self.node, self.sink = cid, node, sink
        self.s = socket.create_connection(("127.0.0.1", port), timeout=30)
        self.s.setsockopt(socket.IPPROTO_TCP, socket.TCP_NODELAY, 1)
        self.buf = b""
        self.proto = "bin"
        self.open = {}          # rid -> request (awaiting its reply)
        self.closed = False

    def send(self, rid, q):
        """q: dict(cmd 'L'|'U', key, lid, flag, tf, to, ef, ex, cnt, rc, data bytes|None)"""
        flag = q["flag"] | (0x20 if q.get("data") else 0)
        buf = struct.pack("<BBB16sBB16s16sHHHHHB", MAGIC, VERSION, 1 if q["cmd"] == "L" else 2, struct.pack("<QQ", rid, RID_TAG), flag, q.get("db", 0),
                          k16(q["lid"]), k16(q["key"]), q["to"], q["tf"], q["ex"], q["ef"], q["cnt"], q["rc"])
        if q.get("data"):
            buf += q["data"]
        self.open[rid] = q
        self.s.sendall(buf)

    def poll(self, timeout):
        """Read what has arrived within `timeout`; returns reply dicts in arrival order."""
        out = []
        end = time.time() + timeout
        while True:
            fr = self._frame()
            if fr is not None:
                out.append(fr)
                continue
            if self.closed:
                return out
            left = end - time.time()
            try:
                # (what has already arrived is always read, also with timeout 0)
                r, _, _ = select.select([self.s], [], [], 0 if out else max(left, 0))
                if not r:
                    return out
                b = self.s.recv(65536)
            except OSError:
                b = b""
            if not b:
                self.closed = True
                return out
            self.buf += b

    def _frame(self):
        if len(self.buf) < 64:
            return None
        fr = self.buf[:64]
        data = None
        n = 64
        if fr[2] in (1, 2) and fr[20] & 0x20:
            if len(self.buf) < 68:
                return None
            ln = struct.unpack_from("<I", self.buf, 64)[0]
            if len(self.buf) < 68 + ln:
                return None
            data = self.buf[68:68 + ln]
            n = 68 + ln
        self.buf = self.buf[n:]
        a, z = struct.unpack("<QQ", fr[3:19])
        d = parse_result(fr, data)
        d["rid"] = a if z == RID_TAG else RIDS.get(fr[3:19])
        d["raw"] = fr.hex()
        return d

    def close(self):
        try:
            self.s.close()
        except OSError:
            pass

def resp_encode(args):
    out = b"*%d\r\n" % len(args)
    for a in args:
        a = a if isinstance(a, bytes) else str(a).encode()
        out += b"$%d\r\n%s\r\n" % (len(a), a)
    return out

class TextConn:
    """RESP connection; one request at a time (the server handler blocks until the reply is there)."""
    def __init__(self, cid, node, port, sink):
        self.cid, self.node, self.sink = cid, node, sink
        self.s = socket.create_connection(("127.0.0.1", port), timeout=30)
        self.s.setsockopt(socket.IPPROTO_TCP, socket.TCP_NODELAY, 1)
        self.buf = b""
        self.proto = "text"
        self.open = {}
        self.cur = None
        self.closed = False
        self.nsent = 0

    def text_args(self, q):
        if q["cmd"] in ("L", "U") and q.get("nolid"):
            # short form (fits the first 64-byte read): LockId = generated (LOCK) / the connection's last granted one (UNLOCK)
            return ["LOCK" if q["cmd"] == "L" else "UNLOCK", k16(q["key"]).hex()]
        if q["cmd"] in ("L", "U"):
            a = ["LOCK" if q["cmd"] == "L" else "UNLOCK", k16(q["key"]).hex(), "LOCK_ID", k16(q["lid"]).hex()]
            if q["cmd"] == "L" or q.get("long"):
                a += ["TIMEOUT", str(q["to"] | (q["tf"] << 16)), "EXPRIED", str(q["ex"] | (q["ef"] << 16))]
            if q["cnt"]:
                a += ["COUNT", str(q["cnt"] + 1)]
            if q["rc"]:
                a += ["RCOUNT", str(q["rc"] + 1)]
            if q["flag"]:
                a += ["FLAG", str(q["flag"])]
            if q.get("data"):
                a += ["SET", q["data"][6:].decode()]
            return a
        if q["cmd"] == "S":
            # SET key val [EX s | PX ms] / SETEX key s val / PSETEX key ms val  (lock + value requests underneath: LockId = key,
            # the expiry of the command is the expiry of the hold)
            key, ex, ms = k16(q["key"]).hex(), q.get("ex", 0), bool(q.get("ef", 0) & 0x0400)
            form = q.get("form", "set")
            if not ex:
                return ["SET", key, q["val"]]
            if form == "setex":
                return ["PSETEX" if ms else "SETEX", key, str(ex), q["val"]]
            return ["SET", key, q["val"], "PX" if ms else "EX", str(ex)]
        if q["cmd"] == "G":
            return ["GET", k16(q["key"]).hex()]
        if q["cmd"] == "D":
            return ["DEL", k16(q["key"]).hex()]
        if q["cmd"] == "V":
            # any registered key command of the text protocol: q = {name, key, val, num}
            name, key = q["name"], k16(q["key"]).hex()
            if name not in VALUE_COMMANDS:
                raise InfraError("unknown text command " + str(q))
            if name in ("SETNX", "GETSET", "APPEND", "SET"):
                return [name, key, q["val"]]
            if name in ("SETEX", "PSETEX"):
                return [name, key, str(q["num"]), q["val"]]
            if name in ("INCRBY", "DECRBY", "EXPIRE", "PEXPIRE"):
                return [name, key, str(q["num"])]
            if name == "EXPIREAT":
                return [name, key, str(int(time.time()) + q["num"])]
            if name == "PEXPIREAT":
                return [name, key, str(int(time.time() * 1000) + q["num"])]
            if name == "KEYS":
                return [name, "*"]
            if name == "SCAN":
                return [name, "0"]
            return [name, key]
        if q["cmd"] == "C":
            # connection-local setting: TIMEOUT SET n
            return ["TIMEOUT", "SET", str(q.get("num", 0))]
        if q["cmd"] == "P":
            # PUSH: a LOCK that is executed without an answer of its own (the handler says OK at once)
            return ["PUSH", k16(q["key"]).hex(), "LOCK_ID", k16(q["lid"]).hex(), "TIMEOUT", str(q["to"] | (q["tf"] << 16)), "EXPRIED", str(q["ex"] | (q["ef"] << 16))]
        raise InfraError("unknown text command " + str(q))

    def send(self, rid, q):
        self.cur = rid
        self.open[rid] = q
        self.nsent += 1
        self.s.sendall(resp_encode(self.text_args(q)))

    def _parse(self, i):
        j = self.buf.find(b"\r\n", i)
        if j < 0:
            return None
        line = self.buf[i:j]
        t, rest = line[:1], line[1:]
        i = j + 2
        if t == b"+":
            return ("ok", rest.decode(errors="replace")), i
        if t == b"-":
            return ("err", rest.decode(errors="replace")), i
        if t == b":":
            return ("int", int(rest)), i
        if t == b"$":
            n = int(rest)
            if n < 0:
                return ("nil", None), i
            if len(self.buf) < i + n + 2:
                return None
            return ("str", self.buf[i:i + n]), i + n + 2
        if t == b"*":
            out = []
            for _ in range(max(int(rest), 0)):
                r = self._parse(i)
                if r is None:
                    return None
                out.append(r[0])
                i = r[1]
            return ("arr", out), i
        raise InfraError("bad RESP from the server: %r" % self.buf[:80])

    def poll(self, timeout):
        if self.cur is None:
            return []
        end = time.time() + timeout
        while True:
            r = self._parse(0)
            if r is not None:
                val, n = r
                self.buf = self.buf[n:]
                rid, self.cur = self.cur, None
                return [self.norm(rid, val)]
            if self.closed:
                return []
            left = end - time.time()
            try:
                rr, _, _ = select.select([self.s], [], [], max(left, 0))
                if not rr:
                    return []
                b = self.s.recv(65536)
            except OSError:
                b = b""
            if not b:
                self.closed = True
                return []
            self.buf += b

    def norm(self, rid, val):
        """Text reply -> the same field names as a binary reply (res -1 = an -ERR line; text carried in `err`)."""
        q = self.open.get(rid, {})
        d = {"rid": rid, "res": -1, "lid": 0, "key": q.get("key", 0), "lc": -1, "cnt": -1, "lrc": -1, "rc": -1, "data": "", "err": "", "raw": ""}
        kind, v = val
        d["raw"] = repr(val)[:300]
        if q.get("cmd") in ("L", "U"):
            if kind == "arr" and len(v) >= 12 and v[0][0] == "str":
                f = [x[1] for x in v]
                try:
                    d["res"] = int(f[0])
                    b = bytes.fromhex(f[3].decode())
                    d["lid"] = id_of(b)
                    d["lc"], d["cnt"], d["lrc"], d["rc"] = int(f[5]), int(f[7]) - 1, int(f[9]), int(f[11]) - 1
                    if len(f) >= 14 and isinstance(f[13], bytes):
                        d["data"] = f[13].hex()
                        d["hasdata"] = True
                except (ValueError, AttributeError):
                    d["err"] = "unparsed"
            elif kind == "err":
                d["err"] = v
            else:
                d["err"] = "unexpected:" + kind
        elif q.get("cmd") == "S":
            if kind == "ok":
                d["res"] = 0
            elif kind == "err":
                d["err"] = v
                if v.startswith("ERR ") and v[4:].isdigit():
                    d["res"] = int(v[4:])
            elif kind == "nil":
                d["res"] = 8
        elif q.get("cmd") == "G":
            d["res"] = 0 if kind in ("str", "nil") else -1
            d["val"] = v.decode(errors="replace") if kind == "str" else ""
            d["nil"] = kind == "nil"
            if kind == "err":
                d["err"] = v
        elif q.get("cmd") == "D":
            d["res"] = 0 if (kind == "int" and v == 1) else (6 if kind == "int" else -1)
            if kind == "err":
                d["err"] = v
        elif q.get("cmd") in ("V", "P", "C"):
            # res: 0 = an answer (+.. / :n / $..), 8 = nil, n = "-ERR n" (the leader's result code), -1 = any other error line
            d["res"] = 0 if kind in ("ok", "int", "str", "arr") else (8 if kind == "nil" else -1)
            if kind == "err":
                d["err"] = v
                if v.startswith("ERR ") and v[4:].isdigit():
                    d["res"] = int(v[4:])
        # the reply as a plain key-value store would render it (spec/RedisCmds.tla: ok / int / bulk / nil; err with the code)
        d["rk"] = {"ok": "ok", "int": "int", "str": "bulk", "nil": "nil", "err": "err"}.get(kind, "other")
        d["ri"], d["rsb"] = 0, []
        if kind == "int":
            if abs(v) > 1000000000:
                d["rk"] = "bigint"
            else:
                d["ri"] = v
        elif kind == "str":
            d["rsb"] = list(v)
        elif kind == "ok":
            d["rsb"] = list(v.encode())
        elif kind == "err" and v.startswith("ERR ") and v[4:].isdigit():
            d["ri"] = int(v[4:])
        elif kind == "err":
            d["ri"] = -1
        return d

    def close(self):
        try:
            self.s.close()
        except OSError:
            pass

# --------------------------------------------------------------------------------------------------- the cluster

class FwdCluster:
    """One leader, `nf` plain followers (each behind its own recording proxy), `nspare` spare followers for promotion
    sequences, one unconfigured replset member (state CONFIG)."""
    def __init__(self, binp, wd, nf=2, nspare=2):
        self.binp, self.wd = binp, wd
        self.leader = rc.Node(binp, wd, "L", rc.free_port())
        self.followers = {}     # name -> (Node, Proxy, Sink)
        self.nf, self.nspare = nf, nspare
        self.config_node = None
        self.admins = {}

    def start(self):
        t0 = time.time()
        self.leader.start()
        names = ["F%d" % (i + 1) for i in range(self.nf)] + ["S%d" % (i + 1) for i in range(self.nspare)]
        for nm in names:
            sink = Sink()
            px = Proxy(nm, self.leader.port, sink)
            px.start()
            nd = rc.Node(self.binp, self.wd, nm, rc.free_port(), slaveof="127.0.0.1:%d" % px.port)
            nd.start()
            self.followers[nm] = (nd, px, sink)
        self.config_node = rc.Node(self.binp, self.wd, "G", rc.free_port(), extra=["--replset", "vfwd"])
        self.config_node.start()
        # an empty leader reports a position no follower ever reports: log one record first
        try:
            c = rc.LockClient(self.leader.port, timeout=30)
            c.request(1, 0, 1, 1, eflag=0x0100, expried=5)
            c.request(2, 0, 1, 1)
            c.close()
        except (OSError, ConnectionError) as ex:
            raise InfraError(f"warm-up request on the leader failed: {ex!r}")
        for nm in names:
            if not self.wait_caughtup(nm, 60):
                raise InfraError(f"follower {nm} did not connect to the leader within 60 s: " + self.followers[nm][0].tail_log(800))
        return time.time() - t0

    def admin(self, name):
        a = self.admins.get((name, threading.get_ident()))
        if a is None:
            port = self.leader.port if name == "L" else (self.config_node.port if name == "G" else self.followers[name][0].port)
            a = rc.Admin(port, timeout=30)
            self.admins[(name, threading.get_ident())] = a
        return a

    def drop_admin(self, name):
        a = self.admins.pop((name, threading.get_ident()), None)
        if a:
            a.close()

    def info(self, name):
        try:
            return self.admin(name).info_repl()
        except (OSError, ConnectionError, ValueError):
            self.drop_admin(name)
            return {}

    def node_state(self, name):
        try:
            r = self.admin(name).cmd("INFO")
            txt = r.decode(errors="replace") if isinstance(r, bytes) else str(r)
            for ln in txt.splitlines():
                if ln.startswith("state:"):
                    return ln[6:].strip()
        except (OSError, ConnectionError, ValueError):
            self.drop_admin(name)
        return ""

    def wait_caughtup(self, name, timeout):
        end = time.time() + timeout
        stable = 0
        while time.time() < end:
            li, fi = self.info("L"), self.info(name)
            if fi.get("leader_link_status") == "up" and fi.get("aof_file_recv_finish") == "yes" and li and \
               fi.get("current_aof_id") == li.get("current_aof_id") and fi.get("recv_count") == fi.get("replay_count") == fi.get("append_count") == fi.get("push_count"):
                stable += 1
                if stable >= 2:
                    return True
                time.sleep(0.01)
                continue
            stable = 0
            time.sleep(0.02)
        return False

    def show_keys(self, name, keys):
        """Holds of the given keys on one node: [{key, holds:[{lid, depth, aof}], val}]"""
        a = self.admin(name)
        out = []
        for k in keys:
            rr = a.cmd("SHOW", k16(k).hex())
            holds, val = [], ""
            if not isinstance(rr, tuple):
                i = 0
                while i + 7 <= len(rr):
                    lid, start, tot, exp, locked, aoft, st = rr[i:i + 7]
                    i += 7
                    holds.append({"lid": id_of(bytes.fromhex(lid.decode())), "depth": int(locked), "aof": 1 if int(st) & 0x08 else 0, "exp": int(exp)})
                    if i < len(rr) and not rc._looks_like_lockid(rr, i):
                        val = rr[i].hex()
                        i += 1
            out.append({"key": k, "holds": sorted(holds, key=lambda h: str(h["lid"])), "val": val})
        return out

    def alive(self):
        dead = [nm for nm, (nd, _, _) in self.followers.items() if not nd.alive()]
        if not self.leader.alive():
            dead.append("L")
        if self.config_node is not None and not self.config_node.alive():
            dead.append("G")
        return dead

    def shutdown(self):
        for a in list(self.admins.values()):
            a.close()
        self.admins = {}
        for nm, (nd, px, _) in self.followers.items():
            px.stop()
        nodes = [nd for nd, _, _ in self.followers.values()] + [self.leader] + ([self.config_node] if self.config_node else [])
        for nd in nodes:
            if nd.p is not None:
                try:
                    nd.p.send_signal(signal.SIGCONT)
                except OSError:
                    pass
            nd.kill()

# --------------------------------------------------------------------------------------------------- sequence runner

class SeqRunner:
    """Runs sequences one at a time against one follower node (and the shared leader).

    A sequence: {"name", "idx", "keys": [...], "vkeys": [...], "conns": {cid: {"node": "N"|"L"|"G", "proto": "bin"|"text"}},
                 "steps": [...]}
    steps:  {"op":"send","c":cid,"q":{...},"expect_pending":bool}
            {"op":"cut","c":cid}            cut the upstream connection that carried the last request of connection c
            {"op":"gone"} / {"op":"back"}    leader unreachable / reachable again for node N
            {"op":"hold"} / {"op":"release"} leader replies held back in the proxy / handed on
            {"op":"promote"}                 SLAVEOF NO ONE on node N
            {"op":"stop_leader"} / {"op":"cont_leader"}   SIGSTOP / SIGCONT of the leader process
            {"op":"kill_leader"}             SIGKILL of the leader (last sequence of a run only)
            {"op":"reconnect","c":cid}       close and reopen client connection c
            {"op":"wait","ms":n}
            {"op":"wait_notice","n":k,"max_ms":m,"settle_ms":s}   until k EXPRIED frames of this sequence have been seen (on an
                                             upstream link of node N, or by a binary client of the leader), at most m ms; then s ms
    """
    def __init__(self, cluster, fname, next_rid):
        self.cl, self.fname = cluster, fname
        self.node, self.px, self.sink = cluster.followers[fname]
        self.next_rid = next_rid
        self.leader_dead = False

    def port_of(self, where):
        return {"N": self.node.port, "L": self.cl.leader.port, "G": self.cl.config_node.port}[where]

    def name_of(self, where):
        return {"N": self.fname, "L": "L", "G": "G"}[where]

    def emit(self, e):
        self.sink.emit(e)

    def record_replies(self, conn, reps):
        for d in reps:
            d = dict(d)
            d["e"] = "reply"
            d["conn"] = conn.cid
            d["ts"] = int(time.time())
            q = conn.open.pop(d["rid"], None)
            self.last_res[d["rid"]] = d["res"]
            self.emit(d)
            if q is not None:
                self.pending.discard((conn.cid, d["rid"]))

    def poll_all(self, timeout=0.0, only=None):
        got = 0
        for cid, conn in self.conns.items():
            if only is not None and cid != only:
                continue
            if not conn.open and conn.proto == "text":
                continue        # (a text connection is read only while a request is open: whatever the server wrote meanwhile
                                #  is what the client takes as the answer of its next request)
            reps = conn.poll(timeout)
            got += len(reps)
            self.record_replies(conn, reps)
        return got

    def run(self, sc):
        self.sink.start()
        self.conns, self.pending, self.last_res, self.maybe_lost = {}, set(), {}, set()
        role = {"N": "follower", "L": "leader", "G": "config"}
        t0 = time.time()
        self.emit({"e": "begin", "name": sc["name"], "idx": sc["idx"], "node": self.fname, "kind": sc.get("kind", "")})
        try:
            for cid, cd in sc["conns"].items():
                self.open_conn(cid, cd)
            for st in sc["steps"]:
                self.step(st, sc, role)
            # drain: every open request is answered, times out (<= 0.4 s timeouts are generated) or is given up
            # requests that were open on a connection of N when an upstream was cut / the leader went away may never be
            # answered (that is the code's behaviour, judged by the monitor): they are waited for `drain` seconds; every
            # other open request is waited for much longer (the machine may be busy)
            t_short = time.time() + sc.get("drain", 1.2)
            # (only a pipelining - binary - connection can lose a request for good: the text handler serves one request at a time and
            #  gets the fabricated error of a broken upstream itself; an open TEXT request is waited for longer, so that a node that is
            #  merely slow on a busy machine is not taken for one that never answers)
            t_short_text = time.time() + max(sc.get("drain", 1.2), 5.0)
            t_long = time.time() + 12.0
            while self.pending:
                now = time.time()
                text_open = any(self.conns[c].proto == "text" for c, _ in self.pending)
                if now > t_long or (now > (t_short_text if text_open else t_short) and self.pending <= self.maybe_lost):
                    break
                if not self.poll_all(0.02):
                    time.sleep(0.005)
            self.poll_all(0.0)
            # an expiry notice that crossed the upstream link a moment ago is given time to reach its binary client
            t_n = time.time() + 2.0
            while self.notices_due() and time.time() < t_n:
                self.poll_all(0.02)
            for cid, rid in sorted(self.pending):
                self.emit({"e": "unanswered", "conn": cid, "rid": rid})
            self.snapshot(sc, role)
            # a hold may have expired while the snapshots were taken: its notice gets its chance to reach the binary client, and
            # the history ends at a moment when no notice is on its way (decided under the lock the proxy threads record with)
            t_n = time.time() + 3.0
            while True:
                self.poll_all(0.0)
                with self.sink.lock:
                    if not self.notices_due(self.sink.ev) or time.time() > t_n:
                        if self.sink.on:
                            self.sink.ev.append({"e": "end", "name": sc["name"], "complete": True, "wall_ms": int((time.time() - t0) * 1000)})
                        break
                self.poll_all(0.02)
        finally:
            self.px.set_hold(False)
            if self.px.blocked:
                self.px.unblock()
            for conn in self.conns.values():
                conn.close()
        return self.sink.stop()

    def open_conn(self, cid, cd):
        cls = BinConn if cd["proto"] == "bin" else TextConn
        try:
            conn = cls(cid, self.name_of(cd["node"]), self.port_of(cd["node"]), self.sink)
        except OSError as ex:
            raise InfraError(f"client connection to node {self.name_of(cd['node'])} failed: {ex!r}")
        conn.where = cd["node"]
        self.conns[cid] = conn
        self.emit({"e": "conn", "conn": cid, "node": conn.node, "proto": cd["proto"], "where": cd["node"]})

    def step(self, st, sc, role):
        op = st["op"]
        if op in ("cut", "gone", "promote", "kill_leader", "stop_leader"):
            self.maybe_lost |= {(c, r) for c, r in self.pending if self.conns[c].where != "L"}
        if op == "send":
            conn = self.conns[st["c"]]
            if conn.proto == "text" and conn.cur is not None:
                # the text handler is still blocked on an earlier request of this connection: wait for it first
                self.record_replies(conn, conn.poll(1.5))
                if conn.cur is not None:
                    self.emit({"e": "skipped", "conn": conn.cid, "why": "text connection still waiting"})
                    return
            q = dict(st["q"])
            rid = self.next_rid()
            ev = {"e": "req", "id": rid, "conn": conn.cid, "node": conn.node, "where": conn.where, "proto": conn.proto, "cmd": q["cmd"], "db": 0,
                  "key": q["key"], "lid": 0 if q.get("nolid") else q.get("lid", 0), "flag": q.get("flag", 0), "tf": q.get("tf", 0), "to": q.get("to", 0), "ef": q.get("ef", 0),
                  "ex": q.get("ex", 0), "cnt": q.get("cnt", 0), "rc": q.get("rc", 0), "data": (q.get("data") or b"").hex(), "val": q.get("val", ""),
                  "first": conn.proto == "text" and conn.nsent == 0, "role": role[conn.where], "tap": True, "ts": int(time.time()),
                  "name": q.get("name", ""), "num": q.get("num", 0), "form": q.get("form", "")}
            if conn.proto == "text":
                ev["len"] = len(resp_encode(conn.text_args(q)))
            self.emit(ev)
            try:
                conn.send(rid, q)
            except OSError:
                self.emit({"e": "sendfail", "conn": conn.cid, "rid": rid})
                conn.open.pop(rid, None)
                return
            self.pending.add((conn.cid, rid))
            wait = 0.03 if st.get("expect_pending") else 0.5
            end = time.time() + wait
            while (conn.cid, rid) in self.pending and time.time() < end:
                self.record_replies(conn, conn.poll(max(0.0, end - time.time())))
            if q["cmd"] == "P" and conn.where == "N" and self.last_res.get(rid) == 0:
                # PUSH is acknowledged as soon as the command is on its way: the proxy's record of the forwarded frame may lag
                # behind the client's OK - it is waited for (1 s), so that the trace shows whether there was one
                end = time.time() + 1.0
                while time.time() < end:
                    with self.sink.lock:
                        seen = any(e["e"] == "up_req" and e.get("key") == q["key"] and e.get("lid") == q["lid"] for e in self.sink.ev)
                    if seen:
                        break
                    time.sleep(0.002)
            if q["cmd"] == "U":
                # a waiter woken by this unlock: its reply is read before the next request goes out (up to 150 ms)
                waiters = [(c, r) for c, r in self.pending if self.conns[c].open.get(r, {}).get("key") == q["key"]] if self.last_res.get(rid) == 0 else []
                end = time.time() + 0.15
                while waiters and time.time() < end:
                    n0 = len(self.pending)
                    for c in sorted({c for c, _ in waiters}):
                        self.record_replies(self.conns[c], self.conns[c].poll(0.0))
                    if len(self.pending) < n0:
                        break
                    time.sleep(0.003)
            self.poll_all(0.0)
        elif op == "cut":
            conn = self.conns[st["c"]]
            uid = self.find_up_of(conn)
            if uid is None:
                self.emit({"e": "note", "what": "cut: no live upstream of connection", "conn": conn.cid})
            else:
                self.px.cut(uid)
                time.sleep(0.02)
                self.poll_all(0.05)
        elif op == "gone":
            self.px.block()
            self.emit({"e": "gone", "node": self.fname})
            time.sleep(0.03)
            self.poll_all(0.03)
        elif op == "back":
            self.px.unblock()
            self.emit({"e": "back", "node": self.fname})
        elif op == "hold":
            self.px.set_hold(True)
            self.emit({"e": "hold", "node": self.fname})
        elif op == "release":
            self.emit({"e": "release", "node": self.fname})
            self.px.set_hold(False)
            time.sleep(0.01)
            self.poll_all(0.05)
        elif op == "promote":
            if not self.cl.wait_caughtup(self.fname, 20):
                raise InfraError(f"follower {self.fname} not in sync before its promotion")
            r = self.cl.admin(self.fname).cmd("SLAVEOF")
            if r != "OK":
                raise InfraError(f"SLAVEOF NO ONE on {self.fname} answered {r!r}")
            st_now = self.cl.node_state(self.fname)
            role["N"] = "leader"
            self.emit({"e": "role", "node": self.fname, "role": "leader", "takeover": False, "reported": st_now})
        elif op == "stop_leader":
            self.cl.leader.p.send_signal(signal.SIGSTOP)
            # the signal is delivered asynchronously: "frozen" is recorded only when every thread of the leader is stopped
            pid = self.cl.leader.p.pid
            end = time.time() + 5
            while time.time() < end:
                try:
                    states = []
                    for t in os.listdir(f"/proc/{pid}/task"):
                        with open(f"/proc/{pid}/task/{t}/stat") as fh:
                            states.append(fh.read().rsplit(")", 1)[1].split()[0])
                except OSError:
                    states = ["?"]
                if states and all(x in ("T", "t") for x in states):
                    break
                time.sleep(0.002)
            else:
                self.cl.leader.p.send_signal(signal.SIGCONT)
                raise InfraError("the leader process did not stop within 5 s of SIGSTOP")
            self.emit({"e": "frozen", "node": "L"})
        elif op == "cont_leader":
            self.emit({"e": "thawed", "node": "L"})
            self.cl.leader.p.send_signal(signal.SIGCONT)
            time.sleep(0.02)
            self.poll_all(0.2)
        elif op == "kill_leader":
            self.cl.leader.kill()
            self.leader_dead = True
            self.emit({"e": "gone", "node": self.fname, "killed": True})
            time.sleep(0.05)
            self.poll_all(0.1)
        elif op == "reconnect":
            old = self.conns[st["c"]]
            for rid in list(old.open):
                self.pending.discard((old.cid, rid))
                self.emit({"e": "abandoned", "conn": old.cid, "rid": rid})
            old.close()
            self.emit({"e": "closed", "conn": old.cid})
            self.open_conn(st["c"], sc["conns"][st["c"]])
        elif op == "wait":
            end = time.time() + st["ms"] / 1000.0
            while time.time() < end:
                self.poll_all(min(0.02, max(0.0, end - time.time())))
        elif op == "wait_notice":
            # the holds expire on the LEADER's clock: wait for the evidence (the notice frame), not for a guessed time
            end = time.time() + st.get("max_ms", 4000) / 1000.0
            while self.notices_seen() < st["n"] and time.time() < end:
                self.poll_all(0.01)
            self.emit({"e": "note", "what": "wait_notice", "want": st["n"], "seen": self.notices_seen()})
            end = time.time() + st.get("settle_ms", 40) / 1000.0
            while time.time() < end:
                self.poll_all(min(0.01, max(0.0, end - time.time())))
        else:
            raise InfraError("unknown step " + op)

    def notices_seen(self):
        """EXPRIED frames of the running sequence: on the upstream links of node N and on binary connections to the leader."""
        with self.sink.lock:
            evs = list(self.sink.ev)
        direct = {e["id"] for e in evs if e["e"] == "req" and e["where"] == "L"}
        mine = {e["rid"] for e in evs if e["e"] == "up_req"}        # (a pooled upstream link may still carry the notice of an earlier history)
        return sum(1 for e in evs if (e["e"] == "up_reply" and e["res"] == 9 and e["rid"] in mine) or (e["e"] == "reply" and e["res"] == 9 and e["rid"] in direct))

    def notices_due(self, evs=None):
        """Notices the leader sent down an upstream link for a request of a binary client of N that is still connected and has
        not received it yet."""
        if evs is None:
            with self.sink.lock:
                evs = list(self.sink.ev)
        answered, sent, got, due = set(), {}, {}, {}
        for e in evs:
            t = e["e"]
            if t == "req" and e["proto"] == "bin" and e["where"] == "N":
                sent[e["id"]] = e["conn"]
            elif t == "reply" and e["rid"] in sent:
                if e["rid"] in answered and e["res"] == 9:
                    got[e["rid"]] = got.get(e["rid"], 0) + 1
                answered.add(e["rid"])
            elif t == "up_reply" and e["res"] == 9 and e["rid"] in sent:
                due[e["rid"]] = due.get(e["rid"], 0) + 1
            elif t == "closed":
                sent = {r: c for r, c in sent.items() if c != e["conn"]}
            elif t in ("cut", "up_closed", "gone", "role"):
                due = {}
        return {r for r, n in due.items() if r in sent and got.get(r, 0) < n and not self.conns[sent[r]].closed}

    def find_up_of(self, conn):
        """Upstream connection of a client connection: the live one that carried its most recent forwarded request."""
        evs = self.sink.ev
        # requests of this connection, newest first
        mine = [e for e in evs if e["e"] == "req" and e["conn"] == conn.cid and e["cmd"] in ("L", "U", "S", "D")]
        for e in reversed(mine):
            if conn.proto == "bin":
                uid = self.px.find_up(rid=e["id"])
            else:
                ct = 1 if e["cmd"] in ("L", "S") else 2
                lid = e["lid"] if e["cmd"] in ("L", "U") else e["key"]
                uid = self.px.find_up(ct=ct, key=e["key"], lid=lid)
            if uid is not None:
                return uid
        return None

    def snapshot(self, sc, role):
        """Holds of the sequence's keys on the leader and on the follower, after the follower reports the leader's position."""
        keys = sc["keys"] + sc.get("vkeys", [])
        if self.leader_dead:
            self.emit({"e": "snap", "node": self.fname, "lead": False, "caught": False, "alone": True, "ts": int(time.time()), "keys": self.cl.show_keys(self.fname, keys)})
            return
        caught = False
        if role["N"] == "follower":
            caught = self.cl.wait_caughtup(self.fname, 15)
        ts_snap = int(time.time())       # (taken BEFORE the holds are read: a hold that may expire from here on is not judged)
        ls, fs = self.cl.show_keys("L", keys), self.cl.show_keys(self.fname, keys)
        if role["N"] == "follower":
            # quiescence: the leader pushes a record to its followers AFTER it answered the client and the follower applies
            # it a moment later; settle until the two nodes agree on the logged holds or 10 s have passed
            def agree(a, b):
                for x, y in zip(a, b):
                    fl = {h["lid"] for h in y["holds"]}
                    if not fl <= {h["lid"] for h in x["holds"]} or not {h["lid"] for h in x["holds"] if h["aof"]} <= fl:
                        return False
                return True
            end = time.time() + 10.0
            while not agree(ls, fs) and time.time() < end:
                time.sleep(0.05)
                caught = self.cl.wait_caughtup(self.fname, 2)
                ts_snap = int(time.time())
                ls, fs = self.cl.show_keys("L", keys), self.cl.show_keys(self.fname, keys)
        self.emit({"e": "snap", "node": "L", "lead": True, "caught": True, "ts": ts_snap, "keys": ls})
        self.emit({"e": "snap", "node": self.fname, "lead": role["N"] == "leader", "caught": caught, "ts": ts_snap, "keys": fs})
        if role["N"] == "follower" and sc.get("vkeys"):
            # value registers read back through both nodes (text GET is served from the node's own state).  The leader pushes a
            # record to its followers AFTER it answered the client: as with the holds above, the two nodes are read again until
            # they agree or 5 s have passed (a difference that stays is reported)
            def read_vals(nm):
                a = self.cl.admin(nm)
                vals = []
                for k in sc["vkeys"]:
                    v = a.cmd("GET", k16(k).hex())
                    vals.append({"key": k, "val": v.decode(errors="replace") if isinstance(v, bytes) else (str(v) if isinstance(v, int) else ""), "nil": v is None,
                                 "rk": "bulk" if isinstance(v, bytes) else ("int" if isinstance(v, int) and abs(v) <= 1000000000 else ("nil" if v is None else "other")),
                                 "ri": v if isinstance(v, int) and abs(v) <= 1000000000 else 0, "rsb": list(v) if isinstance(v, bytes) else []})
                return vals
            lv, fv = read_vals("L"), read_vals(self.fname)
            end = time.time() + 5.0
            while lv != fv and time.time() < end:
                time.sleep(0.05)
                caught = self.cl.wait_caughtup(self.fname, 2)
                lv, fv = read_vals("L"), read_vals(self.fname)
            self.emit({"e": "vals", "node": "L", "lead": True, "caught": caught, "vals": lv})
            self.emit({"e": "vals", "node": self.fname, "lead": False, "caught": caught, "vals": fv})

# --------------------------------------------------------------------------------------------------- replica set (leader -> follower)

class ReplsetRunner:
    """A real 3-member replica set (--replset, formed with the documented `replset config / add` commands).  The leader is
    told to step down with `replset quit-leader`; another member is elected within a second.  Client connections opened
    on the old leader BEFORE the change (plain Binary/TextServerProtocol objects) are used again AFTER it: the next request
    must be re-dispatched (AGAIN), wrapped and forwarded to the new leader.  No proxy here (members address each other
    directly), so the monitor judges these histories by clauses (a), (b) and (d) only."""
    def __init__(self, binp, wd, next_rid):
        import electp
        self.ep = electp
        self.binp, self.wd, self.next_rid = binp, wd, next_rid
        self.nodes = []
        self.ev = []
        self.admins = {}

    def emit(self, e):
        self.ev.append(e)

    def name(self, nd):
        return "R%d" % nd.i

    def form(self):
        ep = self.ep
        os.makedirs(self.wd, exist_ok=True)
        ports = ep.free_ports(3)
        self.nodes = [ep.Node(self.binp, self.wd, i + 1, ports[i]) for i in range(3)]
        n0 = self.nodes[0]
        ok = False
        for _ in range(100):
            try:
                if n0.cmd("replset", "config", n0.host, "weight", "1", "arbiter", "0") == "OK":
                    ok = True
                    break
            except Exception:
                time.sleep(0.1)
        if not ok:
            raise InfraError("replica set: replset config failed")
        time.sleep(0.3)
        for nd in self.nodes[1:]:
            for _ in range(60):
                try:
                    if n0.cmd("replset", "add", nd.host, "weight", "1", "arbiter", "0") == "OK":
                        break
                except Exception:
                    pass
                time.sleep(0.2)
        return self.wait_leader(None, 40)

    def wait_leader(self, not_node, timeout):
        """Until exactly one member leads, everybody names it and everybody is online."""
        end = time.time() + timeout
        while time.time() < end:
            infos = [nd.info() for nd in self.nodes]
            if all(infos):
                roles = [x.get("role") for x in infos]
                if roles.count("leader") == 1:
                    ld = self.nodes[roles.index("leader")]
                    if all(x.get("role") == "leader" or x.get("leader_host") == ld.host for x in infos) and \
                       all(len(x["members"]) == 3 and all(m.get("status") == "online" for m in x["members"].values()) for x in infos):
                        return ld
            time.sleep(0.1)
        raise InfraError("replica set: no (new) leader within %d s" % timeout)

    def admin(self, nd):
        a = self.admins.get(nd.i)
        if a is None:
            a = rc.Admin(nd.port, timeout=30)
            self.admins[nd.i] = a
        return a

    def caughtup(self, leader, timeout):
        end = time.time() + timeout
        while time.time() < end:
            infos = [nd.info() for nd in self.nodes]
            if all(infos) and len({x.get("aof") for x in infos}) == 1:
                return True
            time.sleep(0.05)
        return False

    def show_keys(self, nd, keys):
        a = self.admin(nd)
        out = []
        for k in keys:
            rr = a.cmd("SHOW", k16(k).hex())
            holds = []
            if not isinstance(rr, tuple):
                i = 0
                while i + 7 <= len(rr):
                    lid, start, tot, exp, locked, aoft, st = rr[i:i + 7]
                    i += 7
                    holds.append({"lid": id_of(bytes.fromhex(lid.decode())), "depth": int(locked), "aof": 1 if int(st) & 0x08 else 0, "exp": int(exp)})
                    if i < len(rr) and not rc._looks_like_lockid(rr, i):
                        i += 1
            out.append({"key": k, "holds": sorted(holds, key=lambda h: str(h["lid"])), "val": ""})
        return out

    def run(self, sc):
        """sc["conns"]: cid -> {"node": "A" (initial leader) | "B" | "C", "proto"}; steps: send / wait / quit_leader."""
        t0 = time.time()
        conns, pending = {}, set()
        try:
            leader = self.form()
            others = [nd for nd in self.nodes if nd is not leader]
            byrole = {"A": leader, "B": others[0], "C": others[1]}
            roles = {self.name(nd): ("leader" if nd is leader else "follower") for nd in self.nodes}
            self.emit({"e": "begin", "name": sc["name"], "idx": sc["idx"], "node": self.name(leader), "kind": sc["kind"], "leader": self.name(leader), "roles": dict(roles),
                       "formed_s": round(time.time() - t0, 2)})
            for cid, cd in sc["conns"].items():
                nd = byrole[cd["node"]]
                cls = BinConn if cd["proto"] == "bin" else TextConn
                c = cls(cid, self.name(nd), nd.port, None)
                c.where = cd["node"]
                conns[cid] = c
                self.emit({"e": "conn", "conn": cid, "node": c.node, "proto": cd["proto"], "where": cd["node"]})
            def record(conn, reps):
                for d in reps:
                    d = dict(d); d["e"] = "reply"; d["conn"] = conn.cid; d["ts"] = int(time.time())
                    conn.open.pop(d["rid"], None)
                    pending.discard((conn.cid, d["rid"]))
                    self.emit(d)
            def poll_all(t):
                for c in conns.values():
                    if c.open:
                        record(c, c.poll(t))
            for st in sc["steps"]:
                if st["op"] == "send":
                    conn = conns[st["c"]]
                    if conn.proto == "text" and conn.cur is not None:
                        record(conn, conn.poll(3.0))
                        if conn.cur is not None:
                            continue
                    q = dict(st["q"])
                    rid = self.next_rid()
                    self.emit({"e": "req", "id": rid, "conn": conn.cid, "node": conn.node, "where": conn.where, "proto": conn.proto, "cmd": q["cmd"], "db": 0,
                               "key": q["key"], "lid": q.get("lid", 0), "flag": q.get("flag", 0), "tf": q.get("tf", 0), "to": q.get("to", 0), "ef": q.get("ef", 0),
                               "ex": q.get("ex", 0), "cnt": q.get("cnt", 0), "rc": q.get("rc", 0), "data": "", "val": "", "first": conn.proto == "text" and conn.nsent == 0,
                               "role": roles[conn.node], "tap": False, "ts": int(time.time()), "len": len(resp_encode(conn.text_args(q))) if conn.proto == "text" else 0})
                    conn.send(rid, q)
                    pending.add((conn.cid, rid))
                    end = time.time() + (0.03 if st.get("expect_pending") else 3.0)
                    while (conn.cid, rid) in pending and time.time() < end:
                        record(conn, conn.poll(max(0.0, end - time.time())))
                    poll_all(0.0)
                elif st["op"] == "wait":
                    end = time.time() + st["ms"] / 1000.0
                    while time.time() < end:
                        poll_all(0.02)
                elif st["op"] == "quit_leader":
                    if not self.caughtup(leader, 20):
                        raise InfraError("replica set: members not in sync before the leader steps down")
                    r = leader.cmd("replset", "quit-leader")
                    if r != "OK":
                        raise InfraError(f"replset quit-leader answered {r!r}")
                    roles[self.name(leader)] = "follower"
                    self.emit({"e": "role", "node": self.name(leader), "role": "follower", "takeover": False})
                    for s2 in st.get("meanwhile", []):
                        # a request sent while nobody leads: it may be refused, or held back until the new leader is known
                        conn = conns[s2["c"]]
                        q = dict(s2["q"]); rid = self.next_rid()
                        self.emit({"e": "req", "id": rid, "conn": conn.cid, "node": conn.node, "where": conn.where, "proto": conn.proto, "cmd": q["cmd"], "db": 0,
                                   "key": q["key"], "lid": q.get("lid", 0), "flag": 0, "tf": q.get("tf", 0), "to": q.get("to", 0), "ef": q.get("ef", 0),
                                   "ex": q.get("ex", 0), "cnt": 0, "rc": 0, "data": "", "val": "", "first": False, "role": roles[conn.node], "tap": False, "ts": int(time.time()), "len": 0})
                        conn.send(rid, q)
                        pending.add((conn.cid, rid))
                    # (the member that stepped down abstains; should it be elected again all the same, the history is still valid)
                    time.sleep(0.05)
                    new = self.wait_leader(leader, 60)
                    # (replies are recorded when they are READ: nothing has been read since the step-down, so everything
                    #  answered by the new leader is recorded after its role event)
                    roles[self.name(new)] = "leader"
                    self.emit({"e": "role", "node": self.name(new), "role": "leader", "takeover": True, "after_s": round(time.time() - t0, 2)})
                    leader = new
                    end = time.time() + 5
                    while pending and time.time() < end:
                        poll_all(0.05)
            end = time.time() + 5
            while pending and time.time() < end:
                poll_all(0.05)
            for cid, rid in sorted(pending):
                self.emit({"e": "unanswered", "conn": cid, "rid": rid})
            caught = self.caughtup(leader, 15)
            keys = sc["keys"]
            def agree(a, b):
                return all({h["lid"] for h in y["holds"]} == {h["lid"] for h in x["holds"] if h["aof"]} for x, y in zip(a, b))
            ts_snap = int(time.time())
            ls = self.show_keys(leader, keys)
            fs = {self.name(nd): self.show_keys(nd, keys) for nd in self.nodes if nd is not leader}
            end = time.time() + 10
            while not all(agree(ls, f) for f in fs.values()) and time.time() < end:
                time.sleep(0.1)
                ts_snap = int(time.time())
                ls = self.show_keys(leader, keys)
                fs = {self.name(nd): self.show_keys(nd, keys) for nd in self.nodes if nd is not leader}
            self.emit({"e": "snap", "node": self.name(leader), "lead": True, "caught": True, "ts": ts_snap, "keys": ls})
            for nm, f in sorted(fs.items()):
                self.emit({"e": "snap", "node": nm, "lead": False, "caught": caught, "ts": ts_snap, "keys": f})
            self.emit({"e": "end", "name": sc["name"], "complete": True, "wall_ms": int((time.time() - t0) * 1000)})
            return self.ev
        finally:
            for c in conns.values():
                c.close()
            for a in self.admins.values():
                a.close()
            for nd in self.nodes:
                nd.kill()
                try:
                    nd.log.close()
                except Exception:
                    pass

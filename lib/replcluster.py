"""Engine P for C09: a real slock leader + followers as child processes, a byte-level fault proxy on every
leader->follower link, a reference replication tap, a raw-frame workload client and text admin probes.

Nothing here judges anything: this module only produces observations (ndjson events).  The verdicts are
taken by the TLA+ trace spec spec/mon/MonRepl.tla over those events."""
import os, socket, struct, subprocess, threading, time, hashlib, select, signal, shutil
import vbuild
from vbuild import InfraError

MAGIC, VERSION = 0x56, 0x01
AOF_FLAG_REWRITED = 0x0001
AOF_FLAG_CONTAINS_DATA = 0x2000

def free_port():
    s = socket.socket()
    s.bind(("127.0.0.1", 0))
    p = s.getsockname()[1]
    s.close()
    return p

def build_server(outdir):
    binp = os.path.join(outdir, "slock")
    p = subprocess.run(["go", "build", "-o", binp, "."], cwd=vbuild.REPO, env=vbuild.GOENV, capture_output=True, text=True)
    if p.returncode != 0:
        raise InfraError("go build of the slock server failed:\n" + p.stdout + p.stderr)
    return binp

# ----------------------------------------------------------------------------------------------- records

def rec_id(buf):
    """(file index, offset) of a 64-byte AOF / replication record."""
    off, idx = struct.unpack_from("<II", buf, 3)
    return (idx, off)

def rec_time(buf):
    return struct.unpack_from("<Q", buf, 11)[0]

def rec_aofflag(buf):
    return struct.unpack_from("<H", buf, 55)[0]

def rec_is_marker(buf):
    return buf[2] == 0 and buf[3:19] == b"\xff" * 16

def rec_norm(buf):
    """Record bytes with the 2-byte length prefix and the REWRITED flag bit neutralised (the only bytes that
    legitimately differ between the copy on the wire, in the leader's file and in a follower's file)."""
    b = bytearray(buf)
    b[0], b[1] = 0, 0
    b[55] &= 0xFE
    return bytes(b)

def rec_hash(buf, data):
    h = hashlib.sha1(rec_norm(buf))
    if data:
        h.update(data)
    return int(h.hexdigest()[:7], 16)

def rec_hash64(buf):
    """Hash of the 64 record bytes alone (value frame not included)."""
    return int(hashlib.sha1(rec_norm(buf)).hexdigest()[:7], 16)

def rec_fields(buf):
    """Decoded record for human-readable replays."""
    ct = buf[2]
    idx, off = rec_id(buf)
    st, af, et, ef = struct.unpack_from("<HHHH", buf, 53)
    cnt, = struct.unpack_from("<H", buf, 61)
    return {"ct": ct, "idx": idx, "off": off, "time": rec_time(buf), "flag": buf[19], "db": buf[20],
            "lid": buf[21:37].hex(), "key": buf[37:53].hex(), "aofflag": af, "start": st, "exp": et, "expflag": ef,
            "cnt": cnt, "rc": buf[63]}

def fmt_aofid(idx, off, tm):
    b = struct.pack("<IIQ", off, idx, tm)
    return bytes([b[7], b[6], b[5], b[4], b[3], b[2], b[1], b[0], b[15], b[14], b[13], b[12], b[11], b[10], b[9], b[8]]).hex()

def parse_aofid(s):
    """-> (idx, off, time) of the 32-hex-digit id used in the SYNC handshake ('' -> None)."""
    if not s:
        return None
    b = bytes.fromhex(s)
    raw = bytes([b[7], b[6], b[5], b[4], b[3], b[2], b[1], b[0], b[15], b[14], b[13], b[12], b[11], b[10], b[9], b[8]])
    off, idx, tm = struct.unpack("<IIQ", raw)
    return (idx, off, tm)

def read_aof_file(path):
    """Records of one append/rewrite file with their value frames (plain reader, independent of the server's)."""
    recs = []
    with open(path, "rb") as fh:
        raw = fh.read()
    dat = b""
    if os.path.exists(path + ".dat"):
        with open(path + ".dat", "rb") as fh:
            dat = fh.read()
    if len(raw) < 12 or raw[:8] != b"SLOCKAOF":
        return recs, {"size": len(raw), "torn": len(raw)}
    hl = struct.unpack_from("<H", raw, 10)[0]
    p, dp = 12 + hl, 0
    while p + 64 <= len(raw):
        buf = raw[p:p + 64]
        p += 64
        data = None
        if rec_aofflag(buf) & AOF_FLAG_CONTAINS_DATA:
            if dp + 4 <= len(dat):
                ln = struct.unpack_from("<I", dat, dp)[0]
                data = dat[dp:dp + 4 + ln]
                dp += 4 + ln
            else:
                data = b"<missing>"
        recs.append((buf, data))
    return recs, {"size": len(raw), "torn": len(raw) - p, "dat_left": len(dat) - dp}

# ----------------------------------------------------------------------------------------------- processes

class Node:
    def __init__(self, binp, workdir, name, port, slaveof=None, ring=4096, ringmax=None, rewrite=None, extra=None):
        self.binp, self.name, self.port = binp, name, port
        self.dir = os.path.join(workdir, name)
        self.data = os.path.join(self.dir, "data")
        os.makedirs(self.data, exist_ok=True)
        self.log = os.path.join(self.dir, "server.log")
        self.args = [binp, "--bind", "127.0.0.1", "--port", str(port), "--data_dir", self.data, "--log", self.log, "--log_level", "INFO",
                     "--db_concurrent", "2", "--db_fast_key_count", "4096",
                     "--aof_ring_buffer_size", str(ring), "--aof_ring_buffer_max_size", str(ringmax or ring)]
        if rewrite:
            self.args += ["--aof_file_rewrite_size", str(rewrite)]
        if slaveof:
            self.args += ["--slaveof", slaveof]
        if extra:
            self.args += extra
        self.p = None
        self.starts = 0

    def start(self):
        self.starts += 1
        if self.starts > 1:
            # a restarted node takes a fresh port: its old one may have been handed to another cluster meanwhile
            self.port = free_port()
            self.args[self.args.index("--port") + 1] = str(self.port)
        out = open(os.path.join(self.dir, "stdout.%d" % self.starts), "wb")
        self.p = subprocess.Popen(self.args, cwd=self.dir, stdout=out, stderr=subprocess.STDOUT, stdin=subprocess.DEVNULL)
        out.close()
        deadline = time.time() + 60
        while time.time() < deadline:
            if self.p.poll() is not None:
                raise InfraError(f"slock node {self.name} exited at start (rc {self.p.returncode}): " + self.tail_log())
            try:
                s = socket.create_connection(("127.0.0.1", self.port), timeout=1)
                s.close()
                return
            except OSError:
                time.sleep(0.05)
        raise InfraError(f"slock node {self.name} did not open its port: " + self.tail_log())

    def alive(self):
        return self.p is not None and self.p.poll() is None

    def kill(self):
        if self.p is not None:
            try:
                self.p.kill()
            except OSError:
                pass
            try:
                self.p.wait(timeout=30)
            except Exception:
                pass

    def tail_log(self, n=3000):
        try:
            with open(self.log, "rb") as fh:
                return fh.read()[-n:].decode(errors="replace")
        except OSError:
            return "<no log>"

# ----------------------------------------------------------------------------------------------- clients

def _recv_exact(sock, n):
    buf = b""
    while len(buf) < n:
        c = sock.recv(n - len(buf))
        if not c:
            raise ConnectionError("closed")
        buf += c
    return buf

def key16(k):
    return struct.pack("<QQ", k, 0)

class LockClient:
    """Raw 64-byte frames (README layout) to the leader."""
    def __init__(self, port, timeout=60):
        self.s = socket.create_connection(("127.0.0.1", port), timeout=timeout)
        self.s.setsockopt(socket.IPPROTO_TCP, socket.TCP_NODELAY, 1)
        self.rid = 0

    def close(self):
        try:
            self.s.close()
        except OSError:
            pass

    def request(self, ctype, db, key, lid, flag=0, tflag=0, timeout=0, eflag=0, expried=0, count=0, rcount=0, data=None):
        self.rid += 1
        rid = struct.pack("<QQ", self.rid, 0xC09)
        if data is not None:
            flag |= 0x20
        buf = struct.pack("<BBB16sBB16s16sHHHHHB", MAGIC, VERSION, ctype, rid, flag, db, key16(lid), key16(key),
                          timeout, tflag, expried, eflag, count, rcount)
        assert len(buf) == 64
        if data is not None:
            buf += data
        self.s.sendall(buf)
        while True:
            r = _recv_exact(self.s, 64)
            rdata = None
            if r[2] in (1, 2) and r[20] & 0x20:
                ln = struct.unpack("<I", _recv_exact(self.s, 4))[0]
                rdata = _recv_exact(self.s, ln)
            if r[3:19] == rid:
                return r[19], rdata
            # asynchronous notices (e.g. EXPRIED of an older request) are skipped

def data_frame(ctype, flag, payload):
    return struct.pack("<IBB", len(payload) + 2, ctype & 0x3f, flag) + payload

def data_set(s):
    return data_frame(0, 0, s)

def data_incr(n):
    return data_frame(2, 0x01, struct.pack("<q", n))

def data_append(s):
    return data_frame(3, 0, s)

def data_unset():
    return data_frame(1, 0, b"")

class Admin:
    """Text (RESP) admin connection: INFO / SHOW work locally on every node, follower included."""
    def __init__(self, port, timeout=60):
        self.s = socket.create_connection(("127.0.0.1", port), timeout=timeout)
        self.f = self.s.makefile("rb")

    def close(self):
        try:
            self.f.close()
            self.s.close()
        except OSError:
            pass

    def cmd(self, *args):
        out = b"*%d\r\n" % len(args)
        for a in args:
            if isinstance(a, str):
                a = a.encode()
            out += b"$%d\r\n%s\r\n" % (len(a), a)
        self.s.sendall(out)
        return self._read()

    def _read(self):
        line = self.f.readline()
        if not line:
            raise ConnectionError("admin connection closed")
        t, rest = line[:1], line[1:].rstrip(b"\r\n")
        if t == b"+":
            return rest.decode(errors="replace")
        if t == b"-":
            return ("ERR", rest.decode(errors="replace"))
        if t == b":":
            return int(rest)
        if t == b"$":
            n = int(rest)
            if n < 0:
                return None
            d = self.f.read(n + 2)
            return d[:-2]
        if t == b"*":
            n = int(rest)
            return [self._read() for _ in range(max(n, 0))]
        raise ConnectionError("bad RESP line %r" % line)

    def info_repl(self):
        r = self.cmd("INFO", "replication")
        txt = r.decode(errors="replace") if isinstance(r, bytes) else str(r)
        d = {}
        for ln in txt.splitlines():
            if ":" in ln and not ln.startswith("#"):
                k, v = ln.split(":", 1)
                d[k.strip()] = v.strip()
        return d

    def show_state(self, dbs=(0,)):
        """Live holds of a node: {(db, keyhex): {"data": hex|None, "holds": [(lidhex, depth, deadline)]}}"""
        res = {}
        for db in dbs:
            r = self.cmd("SELECT", str(db))
            r = self.cmd("SHOW")
            if isinstance(r, tuple):
                continue            # ERR DB Empty
            keys = [r[i].decode() for i in range(0, len(r), 2)]
            for k in keys:
                rr = self.cmd("SHOW", k)
                if isinstance(rr, tuple):
                    continue
                holds, data, i = [], None, 0
                while i + 7 <= len(rr):
                    lid, start, tot, exp, locked, aoft, st = rr[i:i + 7]
                    i += 7
                    holds.append((lid.decode(), int(locked), int(exp), int(st) & 0x08))
                    # an optional value element follows each hold when the key has a value
                    if i < len(rr) and not _looks_like_lockid(rr, i):
                        data = rr[i].hex()
                        i += 1
                res[(db, k)] = {"data": data, "holds": sorted(holds)}
        return res

def _looks_like_lockid(rr, i):
    """SHOW <key> prints 7 fields per hold plus the raw value when one exists; a following hold starts with a
    32-hex-digit LockId and has 6 decimal fields after it."""
    if i + 7 > len(rr):
        return False
    x = rr[i]
    if len(x) != 32:
        return False
    try:
        bytes.fromhex(x.decode())
        for j in range(1, 7):
            int(rr[i + j])
        return True
    except Exception:
        return False

# ----------------------------------------------------------------------------------------------- stream parsing

class ReplStreamParser:
    """Incremental parser of the leader->follower direction of one replication connection.
    feed(bytes) -> list of units (kind, start_offset, raw_bytes, info); kind in
      'resp'   SYNC call result (64-byte header + content)    info = {"err": str, "aofid": str}
      'rec'    one record (+ value frame)                        info = {"phase", "id", "buf", "data"}
      'marker' the files-finished marker                        info = {}
      'quit'   COMMAND_QUIT record
    expect_mode(mode): 'scratch' | 'resume' is told by the request direction before the response arrives."""
    def __init__(self):
        self.buf = b""
        self.pos = 0            # absolute offset of self.buf[0]
        self.state = "resp"
        self.mode = None
        self.phase = None

    def expect_mode(self, mode):
        self.mode = mode

    def peek_unit_len(self):
        """Length of the unit at the head of the buffer, or None if not yet determined."""
        b = self.buf
        if len(b) < 64:
            return None
        if self.state == "resp":
            clen = struct.unpack_from("<I", b, 23)[0]
            return 64 + clen
        if rec_is_marker(b) or b[2] == 6:
            return 64
        if rec_aofflag(b) & AOF_FLAG_CONTAINS_DATA:
            if len(b) < 68:
                return None
            return 64 + 4 + struct.unpack_from("<I", b, 64)[0]
        return 64

    def feed(self, data):
        self.buf += data
        out = []
        while True:
            n = self.peek_unit_len()
            if n is None or len(self.buf) < n:
                break
            raw, start = self.buf[:n], self.pos
            self.buf = self.buf[n:]
            self.pos += n
            if self.state == "resp":
                et = raw[27:64].split(b"\x00")[0].decode(errors="replace")
                aofid = ""
                c = raw[64:]
                if len(c) >= 2 and c[0] == 0x0a:
                    aofid = c[2:2 + c[1]].decode(errors="replace")
                out.append(("resp", start, raw, {"err": et, "aofid": aofid, "result": raw[19]}))
                if et == "" and raw[19] == 0:
                    self.state = "recs"
                    self.phase = "files" if self.mode == "scratch" else "live"
                # on ERR_NOT_FOUND the follower re-sends SYNC on the same connection: stay in 'resp'
            else:
                if rec_is_marker(raw):
                    out.append(("marker", start, raw, {}))
                    self.phase = "live"
                elif raw[2] == 6:
                    out.append(("quit", start, raw, {}))
                else:
                    buf, dat = raw[:64], (raw[64:] if len(raw) > 64 else None)
                    out.append(("rec", start, raw, {"phase": self.phase, "id": rec_id(buf), "buf": buf, "data": dat}))
        return out

class ReqStreamParser:
    """follower->leader direction: SYNC calls, the started marker, acks."""
    def __init__(self):
        self.buf = b""

    def feed(self, data):
        self.buf += data
        out = []
        while len(self.buf) >= 64:
            b = self.buf
            if b[0] == MAGIC and b[2] == 7:
                clen = struct.unpack_from("<I", b, 22)[0]
                if len(b) < 64 + clen:
                    break
                c = b[64:64 + clen]
                name = b[26:64].split(b"\x00")[0].decode(errors="replace")
                aofid = ""
                if len(c) >= 2 and c[0] == 0x0a:
                    aofid = c[2:2 + c[1]].decode(errors="replace")
                out.append(("call", name, aofid))
                self.buf = b[64 + clen:]
            else:
                out.append(("frame", None, None))
                self.buf = b[64:]
        return out

# ----------------------------------------------------------------------------------------------- event log

class EventLog:
    def __init__(self):
        self.mu = threading.Lock()
        self.events = []
        self.t0 = time.time()
        self.cv = threading.Condition(self.mu)

    def emit(self, ev):
        with self.cv:
            ev["seq"] = len(self.events)
            ev["ts"] = round(time.time() - self.t0, 2)
            self.events.append(ev)
            self.cv.notify_all()

    def wait_for(self, pred, timeout):
        """Wait until some event satisfies pred; returns it or None."""
        end = time.time() + timeout
        with self.cv:
            i = 0
            while True:
                while i < len(self.events):
                    if pred(self.events[i]):
                        return self.events[i]
                    i += 1
                left = end - time.time()
                if left <= 0:
                    return None
                self.cv.wait(min(left, 0.5))

    def snapshot(self):
        with self.mu:
            return list(self.events)

# ----------------------------------------------------------------------------------------------- tap

class Tap(threading.Thread):
    """Reference observer of the leader's log: a replication client that connects DIRECTLY to the leader before
    the workload starts and reads the live stream to the end.  It never acknowledges anything.  If the leader
    drops it, it reconnects at once and resumes by id like a follower would; if that is refused the reference is
    lost (self.lost) and the scenario is not evaluated."""
    def __init__(self, port, log):
        super().__init__(daemon=True)
        self.port, self.log = port, log
        self.stop = False
        self.error = None
        self.lost = None
        self.nrec = 0
        self.last = None          # (idx, off, time) of the last record received
        self.head = None
        self.reconnects = 0

    def run(self):
        first = True
        while not self.stop:
            try:
                again = self.session(first)
            except Exception as ex:
                if self.stop:
                    return
                again = True
                self.note = repr(ex)
            first = False
            if not again or self.stop:
                return
            self.reconnects += 1
            if self.reconnects > 20:
                self.error = "leader keeps closing the tap connection"
                return
            time.sleep(0.05)

    def session(self, first):
        s = socket.create_connection(("127.0.0.1", self.port), timeout=60)
        s.setsockopt(socket.IPPROTO_TCP, socket.TCP_NODELAY, 1)
        try:
            p = ReplStreamParser()
            if first or self.last is None:
                s.sendall(sync_call(""))
                p.expect_mode("scratch")
                if not first:
                    # nothing received yet: a fresh full transfer is still a complete reference
                    pass
            else:
                s.sendall(sync_call(fmt_aofid(*self.last)))
                p.expect_mode("resume")
            s.settimeout(0.5)
            while not self.stop:
                try:
                    d = s.recv(65536)
                except socket.timeout:
                    continue
                if not d:
                    return True           # dropped by the leader: reconnect and resume
                for kind, start, raw, info in p.feed(d):
                    if kind == "resp":
                        if info["err"]:
                            if first:
                                self.error = "tap SYNC refused: " + info["err"]
                            else:
                                self.lost = "leader dropped the tap and refused its resume (%s) after %d records" % (info["err"], self.nrec)
                            return False
                        if self.head is None:
                            self.head = parse_aofid(info["aofid"]) or (0, 0, 0)
                        s.sendall(started_marker())
                    elif kind == "rec":
                        if info["phase"] == "files" and self.nrec > 0:
                            continue
                        self.last = (info["id"][0], info["id"][1], rec_time(info["buf"]))
                        self.log.emit({"e": "L", "ph": info["phase"], "idx": info["id"][0], "off": info["id"][1],
                                       "h": rec_hash(info["buf"], info["data"]), "hr": rec_hash64(info["buf"]), "t": rec_time(info["buf"]),
                                       "raw": info["buf"].hex(), "dlen": len(info["data"]) if info["data"] else 0})
                        self.nrec += 1
                    elif kind == "quit":
                        return False
            return False
        finally:
            try:
                s.close()
            except OSError:
                pass

def sync_call(aofid):
    content = b""
    if aofid:
        content = bytes([0x0a, len(aofid)]) + aofid.encode()
    rid = os.urandom(16)
    hdr = struct.pack("<BBB16sBBBI", MAGIC, VERSION, 7, rid, 0, 3, 1, len(content)) + b"SYNC".ljust(38, b"\x00")
    assert len(hdr) == 64
    return hdr + content

def started_marker():
    b = bytearray(64)
    b[2] = 0
    b[3:19] = b"\xff" * 16
    return bytes(b)

# ----------------------------------------------------------------------------------------------- fault proxy

class FaultProxy(threading.Thread):
    """TCP proxy follower -> leader.  The leader->follower direction is parsed into protocol units; an armed
    fault acts on a chosen unit:
        {"kind":"cut",   "phase":"files"|"live"|"hs", "rec":k, "res":r}   forward r bytes of the k-th unit of that
                         phase on this connection (the files-finished marker counts as the last 'files' unit), then
                         close both sockets
        {"kind":"stall", "phase":..., "rec":k, "secs":s}                 stop reading from the leader for s seconds
                         before forwarding that unit (slow follower)
    Every unit that is forwarded completely is logged ('W' events), so the trace knows exactly which records each
    follower was given on which connection."""
    def __init__(self, fid, leader_port, log):
        super().__init__(daemon=True)
        self.fid, self.leader_port, self.log = fid, leader_port, log
        self.ls = socket.socket()
        self.ls.setsockopt(socket.SOL_SOCKET, socket.SO_REUSEADDR, 1)
        self.ls.bind(("127.0.0.1", 0))
        self.ls.listen(16)
        self.port = self.ls.getsockname()[1]
        self.mu = threading.Lock()
        self.faults = []          # armed faults, consumed in order, at most one per connection
        self.block = False        # refuse connections (follower kept away from the leader)
        self.stopflag = False
        self.nconn = 0
        self.conns = []

    def arm(self, fault):
        with self.mu:
            self.faults.append(dict(fault))

    def set_block(self, b):
        with self.mu:
            self.block = b

    def stop(self):
        self.stopflag = True
        try:
            self.ls.close()
        except OSError:
            pass
        for a, b in list(self.conns):
            for s in (a, b):
                try:
                    s.close()
                except OSError:
                    pass

    def run(self):
        self.ls.settimeout(0.5)
        while not self.stopflag:
            try:
                c, _ = self.ls.accept()
            except socket.timeout:
                continue
            except OSError:
                break
            with self.mu:
                blocked = self.block
            if blocked:
                c.close()
                continue
            self.nconn += 1
            threading.Thread(target=self.serve, args=(c, self.nconn), daemon=True).start()

    def serve(self, c, cn):
        fid, log = self.fid, self.log
        try:
            u = socket.socket()
            u.setsockopt(socket.SOL_SOCKET, socket.SO_RCVBUF, 4096)
            u.settimeout(30)
            u.connect(("127.0.0.1", self.leader_port))
        except OSError:
            c.close()
            return
        self.conns.append((c, u))
        c.setsockopt(socket.IPPROTO_TCP, socket.TCP_NODELAY, 1)
        u.setsockopt(socket.IPPROTO_TCP, socket.TCP_NODELAY, 1)
        with self.mu:
            fault = self.faults.pop(0) if self.faults else None
        log.emit({"e": "conn", "f": fid, "cn": cn, "fault": fault})
        fault0 = fault
        if fault and fault.get("kind") == "holdstart":
            fault = None
        down, reqp = ReplStreamParser(), ReqStreamParser()
        counts = {"hs": 0, "files": 0, "live": 0}
        why = "eof"
        c.settimeout(30)
        u.settimeout(30)

        held = [False]

        def pump_up(d):
            for kind, name, aofid in reqp.feed(d):
                if kind == "call" and name == "SYNC":
                    down.expect_mode("resume" if aofid else "scratch")
                    a = parse_aofid(aofid)
                    log.emit({"e": "sync", "f": fid, "cn": cn, "mode": "resume" if aofid else "scratch",
                              "idx": a[0] if a else 0, "off": a[1] if a else 0})
                elif kind == "frame" and fault0 and fault0.get("kind") == "holdstart" and not held[0]:
                    # slow follower: its "started" frame (the leader waits for it before it streams) is late
                    held[0] = True
                    log.emit({"e": "holdstart", "f": fid, "cn": cn, "secs": fault0["secs"]})
                    t_end = time.time() + fault0["secs"]
                    while time.time() < t_end and not self.stopflag:
                        time.sleep(0.05)
            u.sendall(d)

        try:
            done = False
            while not self.stopflag and not done:
                r, _, _ = select.select([c, u], [], [], 0.2)
                if c in r:
                    d = c.recv(65536)
                    if not d:
                        why = "follower-closed"
                        break
                    pump_up(d)
                if u in r:
                    d = u.recv(4096)
                    if not d:
                        why = "leader-closed"
                        break
                    for kind, start, raw, info in down.feed(d):
                        ph = "hs" if kind == "resp" else ("files" if kind == "marker" else (info.get("phase") or "live"))
                        k = counts[ph]
                        counts[ph] += 1
                        if fault and fault.get("kind") != "none" and fault["phase"] == ph and (fault["rec"] == k or (kind == "marker" and fault["rec"] > k)):
                            f, fault = fault, None
                            if f["kind"] == "cut":
                                r_ = min(max(int(f["res"]), 0), len(raw) - 1)
                                if r_ > 0:
                                    c.sendall(raw[:r_])
                                log.emit({"e": "cut", "f": fid, "cn": cn, "ph": ph, "rec": k, "res": r_, "ulen": len(raw),
                                          "idx": info["id"][0] if kind == "rec" else 0, "off": info["id"][1] if kind == "rec" else 0})
                                why = "cut"
                                done = True
                                break
                            if f["kind"] == "split":
                                r_ = min(max(int(f["res"]), 1), len(raw) - 1)
                                c.sendall(raw[:r_])
                                log.emit({"e": "split", "f": fid, "cn": cn, "ph": ph, "rec": k, "res": r_, "ulen": len(raw)})
                                time.sleep(0.15)
                                raw_rest = raw[r_:]
                                c.sendall(raw_rest)
                                self._log_unit(kind, info, cn)
                                continue
                            if f["kind"] == "stall":
                                log.emit({"e": "stall", "f": fid, "cn": cn, "ph": ph, "rec": k, "secs": f["secs"]})
                                t_end = time.time() + f["secs"]
                                while time.time() < t_end and not self.stopflag:
                                    rr, _, _ = select.select([c], [], [], 0.2)
                                    if c in rr:
                                        dd = c.recv(65536)
                                        if not dd:
                                            break
                                        pump_up(dd)
                        c.sendall(raw)
                        self._log_unit(kind, info, cn)
        except (OSError, ConnectionError) as ex:
            why = "error:" + type(ex).__name__
        finally:
            # graceful towards the follower: FIN first, let it close, so that every byte that was forwarded is readable
            try:
                c.shutdown(socket.SHUT_WR)
                c.settimeout(0.2)
                t_end = time.time() + 3
                while time.time() < t_end:
                    try:
                        if not c.recv(65536):
                            break
                    except socket.timeout:
                        continue
            except OSError:
                pass
            for s in (c, u):
                try:
                    s.close()
                except OSError:
                    pass
            log.emit({"e": "disc", "f": fid, "cn": cn, "why": why, "nfiles": counts["files"], "nlive": counts["live"]})

    def _log_unit(self, kind, info, cn):
        fid, log = self.fid, self.log
        if kind == "resp":
            a = parse_aofid(info["aofid"]) if info["aofid"] else None
            log.emit({"e": "resp", "f": fid, "cn": cn, "err": info["err"], "idx": a[0] if a else 0, "off": a[1] if a else 0})
        elif kind == "marker":
            log.emit({"e": "fdone", "f": fid, "cn": cn})
        elif kind == "rec":
            log.emit({"e": "W", "f": fid, "cn": cn, "ph": info["phase"], "idx": info["id"][0], "off": info["id"][1],
                      "h": rec_hash(info["buf"], info["data"]), "_buf": info["buf"], "_data": info["data"]})

# ----------------------------------------------------------------------------------------------- workload

class Workload:
    """Seeded generator of requests that each put (at least) one record into the leader's log: holds with the
    persist-immediately expiry flag 0x0100, releases, re-entrant re-locks, updates, value operations."""
    EXP = (7200, 9000, 12000, 18000, 30000)      # seconds: nothing may expire even if the machine stalls for an hour

    def __init__(self, rng, client, nkeys=10):
        self.rng, self.cl, self.nkeys = rng, client, nkeys
        self.holds = {}          # (key, lid) -> depth
        self.nlid = 0
        self.npat = 0
        self.issued = []

    PATTERN = (0, 300, 0, 200, 100, 0, 0, 0, 0, 0, 0, 0, 0, 0, 200, 0, 300, 0, 0, 0, 0)

    def one_pattern(self):
        """mix 'pattern': value-frame sizes cycle through a fixed pattern (0 = a plain lock or unlock record) that makes
        a small ring release several slots at once, refill from its free list and release again."""
        n = self.PATTERN[self.npat % len(self.PATTERN)]
        self.npat += 1
        rng = self.rng
        if n == 0 and self.holds and rng.random() < 0.6:
            (key, lid), depth = rng.choice(sorted(self.holds.items()))
            res, _ = self.cl.request(2, 0, key, lid)
            if res == 0:
                if depth <= 1:
                    del self.holds[(key, lid)]
                else:
                    self.holds[(key, lid)] = depth - 1
            self.issued.append({"op": "unlock", "key": key, "lid": lid, "res": res})
            return res == 0
        self.nlid += 1
        key = 1 + rng.randrange(self.nkeys)
        data = data_set(bytes(rng.randrange(97, 123) for _ in range(n - 6))) if n else None
        res, _ = self.cl.request(1, 0, key, self.nlid, eflag=0x0100, expried=rng.choice(self.EXP), count=40, rcount=3, data=data)
        if res == 0:
            self.holds[(key, self.nlid)] = 1
        self.issued.append({"op": "setval" if n else "lock", "key": key, "lid": self.nlid, "res": res, "dlen": n})
        return res == 0

    def one(self, mix):
        if mix == "pattern":
            return self.one_pattern()
        rng = self.rng
        ops = ["lock"] * 4 + ["unlock"] * 3 + ["relock", "update"]
        if mix in ("value", "big", "mixedbig"):
            ops += ["setval"] * 4 + ["incr", "append", "unlockval"]
        if mix in ("huge", "kb8"):
            ops = ["setval"] * 6 + ["unlock"] * 3
        if mix == "tiny":
            ops = ["lock"] * 3 + ["unlock"] * 3 + ["setval"] * 3
        if not self.holds:
            op = "lock" if mix == "plain" else ("setval" if mix in ("huge", "kb8") else rng.choice(["lock", "setval"]))
        else:
            op = rng.choice(ops)
        key = 1 + rng.randrange(self.nkeys)
        exp = rng.choice(self.EXP)
        if op in ("lock", "setval", "incr", "append"):
            self.nlid += 1
            lid = self.nlid
            data = None
            if op == "setval":
                n = (rng.choice([3, 17, 64, 120]) if mix != "tiny" else rng.choice([94, 194, 294])) if mix not in ("huge", "kb8") else (rng.randrange(30000, 50000) if mix == "huge" else rng.randrange(6000, 9000))
                if mix == "mixedbig" and rng.random() < 0.3:
                    n = rng.choice([3970, 4040, 5000, 7000])       # around and above one 4096-byte batch buffer of the stream writer
                data = data_set(bytes(rng.randrange(97, 123) for _ in range(n)))
            elif op == "incr":
                key = 100 + rng.randrange(3)
                data = data_incr(rng.randrange(1, 9))
            elif op == "append":
                key = 200 + rng.randrange(3)
                data = data_append(bytes(rng.randrange(65, 91) for _ in range(rng.randrange(1, 12))))
            res, _ = self.cl.request(1, 0, key, lid, eflag=0x0100, expried=exp, count=5, rcount=3, data=data)
            if res == 0:
                self.holds[(key, lid)] = 1
            self.issued.append({"op": op, "key": key, "lid": lid, "exp": exp, "res": res, "dlen": len(data) if data else 0})
            return res == 0
        (key, lid), depth = rng.choice(sorted(self.holds.items()))
        if op in ("unlock", "unlockval"):
            data = None
            if op == "unlockval":
                data = data_set(b"u%d" % lid)
            res, _ = self.cl.request(2, 0, key, lid, data=data)
            if res == 0:
                if depth <= 1:
                    del self.holds[(key, lid)]
                else:
                    self.holds[(key, lid)] = depth - 1
            self.issued.append({"op": op, "key": key, "lid": lid, "res": res})
            return res == 0
        if op == "relock":
            res, _ = self.cl.request(1, 0, key, lid, eflag=0x0100, expried=exp, count=5, rcount=3)
            if res == 0:
                self.holds[(key, lid)] = depth + 1
            self.issued.append({"op": op, "key": key, "lid": lid, "exp": exp, "res": res})
            return res == 0
        if op == "update":
            res, _ = self.cl.request(1, 0, key, lid, flag=0x02, eflag=0x0100, expried=exp, count=5, rcount=3)
            self.issued.append({"op": op, "key": key, "lid": lid, "exp": exp, "res": res})
            return True
        return False

# ----------------------------------------------------------------------------------------------- one cluster run

class TapStall(Exception):
    """A record the leader pushed into its ring did not reach the connected, otherwise caught-up reference follower."""
    def __init__(self, nrec, want, secs):
        super().__init__(f"tap has {nrec} of {want} records after {secs}s")
        self.nrec, self.want, self.secs = nrec, want, secs

class ReferenceLost(Exception):
    """The leader dropped the checker's reference tap and would not let it resume: the leader's complete log is not
    known for this scenario, nothing can be judged (not a verdict, not an infrastructure failure of the whole run)."""

class Cluster:
    def __init__(self, binp, workdir, sc, seed):
        import random
        self.binp, self.wd, self.sc = binp, workdir, sc
        self.rng = random.Random(f"{seed}/{sc['name']}")
        self.log = EventLog()
        cfg = sc.get("cfg", {})
        self.ring = int(cfg.get("ring", 4096))
        self.rewrite = int(cfg.get("rewrite", 0))
        self.leader = Node(binp, workdir, "leader", free_port(), ring=self.ring, rewrite=self.rewrite)
        self.followers, self.proxies = {}, {}
        self.tap = None
        self.pace = None
        self.ref_from_file = False
        self.rot = bool(self.rewrite) or any(st["op"] == "rotate" for st in sc["steps"])
        self.max_lag = 0.0
        # records per burst: the tap may lag by at most (ring bytes - one record) before the leader drops it
        self.burst = {"plain": 12, "value": 8, "huge": 3, "kb8": 3, "tiny": 1, "pattern": 1}
        self.why = ""
        self.notes = []

    # ---- helpers
    def note(self, **kw):
        kw["e"] = "note"
        self.log.emit(kw)

    def tap_wait(self, n, timeout=60):
        end = time.time() + timeout
        while self.tap.nrec < n:
            if self.tap.error:
                raise InfraError("reference tap failed: " + self.tap.error)
            if time.time() > end:
                raise InfraError(f"reference tap did not see record {n} in {timeout}s (saw {self.tap.nrec})")
            time.sleep(0.01)

    def tap_settle(self, quiet=0.3, timeout=60):
        """Wait until the tap has seen nothing new for `quiet` seconds."""
        end = time.time() + timeout
        last, t_last = self.tap.nrec, time.time()
        while time.time() < end:
            time.sleep(0.02)
            if self.tap.nrec != last:
                last, t_last = self.tap.nrec, time.time()
            elif time.time() - t_last >= quiet:
                return
        return

    def leader_offset(self):
        """Number of records the leader has pushed into its ring so far (INFO current_offset)."""
        if self.pace is None:
            self.pace = Admin(self.leader.port, timeout=60)
        try:
            return int(self.pace.info_repl().get("current_offset", "0"))
        except (OSError, ConnectionError, ValueError):
            self.pace = None
            raise InfraError("leader admin connection failed while pacing the workload: " + self.leader.tail_log(600))

    def tap_sync(self, timeout=60):
        """Wait until the leader has pushed everything it was asked to log (its offset is stable: the records are
        pushed by the shard channels after the client was answered) and the tap has received all of it."""
        want = self.leader_offset()
        end = time.time() + timeout
        while True:
            time.sleep(0.008)
            w2 = self.leader_offset()
            if w2 == want:
                break
            want = w2
            if time.time() > end:
                break
        while self.tap.nrec < want:
            if self.tap.error:
                raise InfraError("reference tap failed: " + self.tap.error)
            if self.tap.lost:
                if self.rot:
                    raise ReferenceLost(self.tap.lost)
                # the leader never starts a new file in this scenario: its own append file IS its complete persisted
                # command sequence and serves as the reference from here on (see collect)
                self.ref_from_file = True
                return
            if time.time() > end:
                if self.max_lag < 5 and self.leader.alive():
                    # the machine was responsive, the tap is connected and caught up otherwise: the leader did not
                    # stream a record it pushed
                    raise TapStall(self.tap.nrec, want, timeout)
                raise InfraError(f"reference tap is behind the leader ({self.tap.nrec} of {want} records) after {timeout}s (scheduling gaps up to {self.max_lag:.1f}s)")
            time.sleep(0.003)

    def logged(self):
        return self.leader_offset() if self.ref_from_file else self.tap.nrec

    def work(self, n, mix):
        """Issue requests until the leader's log has grown by n records.  After every small burst the driver waits
        until the tap has received everything the leader pushed, so the tap can never be overrun by the ring."""
        self.tap_sync()
        target = self.logged() + n
        tries = 0
        while self.logged() < target and tries < n * 6 + 20:
            burst = max(1, min(self.burst.get(mix, 8), target - self.logged()))
            for _ in range(burst):
                self.wl.one(mix)
                tries += 1
            self.tap_sync()

    def follower_info(self, f):
        a = Admin(self.followers[f].port, timeout=30)
        try:
            return a.info_repl()
        finally:
            a.close()

    def leader_info(self):
        a = Admin(self.leader.port, timeout=30)
        try:
            return a.info_repl()
        finally:
            a.close()

    def caughtup_now(self, f):
        try:
            li = self.leader_info()
            fi = self.follower_info(f)
        except (OSError, ConnectionError):
            return False
        return fi.get("leader_link_status") == "up" and fi.get("aof_file_recv_finish") == "yes" and \
            fi.get("current_aof_id") == li.get("current_aof_id") and fi.get("recv_count") == fi.get("replay_count") == fi.get("append_count") == fi.get("push_count")

    def wait_caughtup(self, f, timeout):
        """Follower f reports the leader's current id and has replayed and appended everything it received."""
        end = time.time() + timeout
        last = None
        while time.time() < end:
            if not self.followers[f].alive() or not self.leader.alive():
                break
            try:
                li = self.leader_info()
                fi = self.follower_info(f)
            except (OSError, ConnectionError):
                time.sleep(0.2)
                continue
            last = (li.get("current_aof_id"), fi.get("current_aof_id"), fi.get("leader_link_status"), fi.get("recv_count"), fi.get("replay_count"), fi.get("append_count"))
            if fi.get("leader_link_status") == "up" and fi.get("aof_file_recv_finish") == "yes" and \
               fi.get("current_aof_id") == li.get("current_aof_id") and fi.get("recv_count") == fi.get("replay_count") == fi.get("append_count") == fi.get("push_count"):
                return True
            time.sleep(0.15)
        self.note(what="caughtup-timeout", f=f, last=str(last))
        return False

    def watchdog(self):
        """Largest scheduling stall seen by this process during the run (the machine is shared)."""
        while not self.wd_stop:
            t = time.time()
            time.sleep(0.1)
            lag = time.time() - t - 0.1
            if lag > self.max_lag:
                self.max_lag = lag

    # ---- the run
    def run(self):
        sc = self.sc
        t0 = time.time()
        self.wd_stop, self.max_lag = False, 0.0
        threading.Thread(target=self.watchdog, daemon=True).start()
        try:
            self.leader.start()
            self.tap = Tap(self.leader.port, self.log)
            self.tap.start()
            end = time.time() + 60
            while self.tap.head is None:
                if self.tap.error or time.time() > end:
                    raise InfraError("reference tap could not start: " + str(self.tap.error))
                time.sleep(0.01)
            self.cl = LockClient(self.leader.port)
            self.wl = Workload(self.rng, self.cl)
            for st in sc["steps"]:
                self.step(st)
            ok = self.quiesce()
            obs = self.collect(ok)
            obs["wall"] = round(time.time() - t0, 1)
            obs["max_lag"] = round(self.max_lag, 2)
            return obs
        finally:
            self.wd_stop = True
            self.shutdown()

    def step(self, st):
        op = st["op"]
        self.note(what="step", step=st)
        if op == "work":
            self.work(st["n"], st.get("mix", "plain"))
        elif op == "join":
            f = st["f"]
            px = FaultProxy(f, self.leader.port, self.log)
            for flt in st.get("faults", []):
                px.arm(flt)
            px.start()
            self.proxies[f] = px
            nd = Node(self.binp, self.wd, "f%d" % f, free_port(), slaveof="127.0.0.1:%d" % px.port, ring=self.ring, rewrite=self.rewrite)
            self.followers[f] = nd
            nd.start()
        elif op == "arm":
            self.proxies[st["f"]].arm(st["fault"])
        elif op == "wait":
            f, ev = st["f"], st["ev"]
            tmo = st.get("timeout", 120)
            if ev == "caughtup":
                self.wait_caughtup(f, tmo)
            else:
                n0 = st.get("nth", 1)
                end = time.time() + tmo
                while True:
                    cnt = sum(1 for e in self.log.snapshot() if e.get("f") == f and e["e"] == ev and (ev != "resp" or e.get("err") == ""))
                    if cnt >= n0:
                        break
                    if time.time() > end:
                        self.note(what="wait-timeout", f=f, ev=ev, nth=n0)
                        break
                    if ev in ("cut", "resp") and self.followers[f].alive() and self.caughtup_now(f):
                        # the follower is connected and has everything: the awaited cut / reconnect of the model
                        # behaviour does not happen now (the armed cut lies further ahead, or the real leader did not
                        # close the link where the model's did)
                        self.note(what="not-reached", f=f, ev=ev, nth=n0)
                        break
                    time.sleep(0.1)
        elif op == "kill":
            f = st["f"]
            self.wait_caughtup(f, st.get("timeout", 120))
            time.sleep(0.6)
            self.followers[f].kill()
            self.log.emit({"e": "fkill", "f": f})
        elif op == "start":
            f = st["f"]
            if not self.followers[f].alive():
                self.followers[f].start()
                self.log.emit({"e": "fstart", "f": f})
        elif op == "rotate":
            a = Admin(self.leader.port, timeout=60)
            try:
                r = a.cmd("BGREWRITEAOF")
                self.note(what="rotate", reply=str(r))
            finally:
                a.close()
        elif op == "restart":
            # stale directory: the follower process is killed while idle and started again on the same directory
            f = st["f"]
            self.wait_caughtup(f, st.get("timeout", 60))
            time.sleep(0.6)
            self.followers[f].kill()
            self.log.emit({"e": "fkill", "f": f})
            self.work(st.get("n", 5), st.get("mix", "plain"))
            for flt in st.get("faults", []):
                self.proxies[f].arm(flt)
            self.followers[f].start()
            self.log.emit({"e": "fstart", "f": f})
        elif op == "sleep":
            time.sleep(st["secs"])
        elif op == "script":
            for rq in st["reqs"]:
                data = None
                if "incr" in rq:
                    data = data_incr(rq["incr"])
                elif "set" in rq:
                    data = data_set(rq["set"].encode())
                elif "append" in rq:
                    data = data_append(rq["append"].encode())
                if rq["ct"] == 1:
                    res, _ = self.cl.request(1, 0, rq["key"], rq["lid"], eflag=0x0100, expried=rq.get("exp", 9000), count=5, rcount=3, data=data)
                else:
                    res, _ = self.cl.request(2, 0, rq["key"], rq["lid"], data=data)
                self.wl.issued.append({"op": "script", "req": rq, "res": res})
            self.tap_sync()
        else:
            raise InfraError("unknown scenario step " + op)

    def quiesce(self):
        """Leader idle; every follower must report the leader's position with all three pipelines drained."""
        self.tap_sync()
        ok = True
        self.why = ""
        tmo = self.sc.get("quiesce_timeout", 120)
        for f in sorted(self.followers):
            if not self.followers[f].alive():
                ok = False
                self.why += f"follower {f} process is dead; "
                continue
            if not self.wait_caughtup(f, tmo):
                ok = False
                self.why += f"follower {f} did not report the leader's position with drained pipelines within {tmo}s; "
        time.sleep(0.8)      # follower flush timer is 200 ms; leader flushes when its channels go idle
        return ok

    def collect(self, ok):
        obs = {"quiescent": ok, "nodes": {}, "died": [], "why": self.why}
        for name, nd in [("L", self.leader)] + [("f%d" % f, self.followers[f]) for f in sorted(self.followers)]:
            live, info = {}, {}
            if nd.alive():
                try:
                    a = Admin(nd.port, timeout=60)
                    try:
                        live = a.show_state()
                        info = a.info_repl()
                    finally:
                        a.close()
                except (OSError, ConnectionError) as ex:
                    if nd.alive():
                        raise InfraError(f"admin connection to live node {name} failed: {ex!r}")
            if not nd.alive():
                out = ""
                try:
                    with open(os.path.join(nd.dir, "stdout.%d" % nd.starts), "rb") as fh:
                        out = fh.read()[-1500:].decode(errors="replace")
                except OSError:
                    pass
                obs["died"].append({"node": name, "log": out + "\n" + nd.tail_log(800)})
            cp = os.path.join(self.wd, "copy_" + name)
            shutil.copytree(nd.data, cp)
            obs["nodes"][name] = {"live": {"%d/%s" % k: v for k, v in live.items()}, "info": info, "copy": cp, "alive": nd.alive()}
        evs = self.log.snapshot()
        if self.ref_from_file:
            # reference = the leader's persisted command sequence read from its (never rotated) append file
            recs, _ = read_aof_file(os.path.join(obs["nodes"]["L"]["copy"], "append.aof.1"))
            evs = [e for e in evs if e["e"] != "L"]
            evs = [{"e": "L", "ph": "file", "idx": rec_id(b)[0], "off": rec_id(b)[1], "h": rec_hash(b, d), "hr": rec_hash64(b),
                    "t": rec_time(b), "raw": b.hex(), "dlen": len(d) if d else 0, "seq": -1, "ts": 0} for b, d in recs] + evs
        obs["events"] = evs
        obs["issued"] = len(self.wl.issued)
        obs["tap_error"] = self.tap.error
        obs["tap_lost"] = self.tap.lost if not self.ref_from_file else None
        obs["reference"] = "leader-file" if self.ref_from_file else "tap"
        obs["tap_dropped"] = self.tap.lost
        obs["tap_reconnects"] = self.tap.reconnects
        return obs

    def shutdown(self):
        if self.tap:
            self.tap.stop = True
        for px in self.proxies.values():
            px.stop()
        for nd in list(self.followers.values()) + [self.leader]:
            nd.kill()
        try:
            self.cl.close()
        except Exception:
            pass

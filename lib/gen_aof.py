"""Seeded history generator for engine F (persistence family C07 C08 C16).

A history is a list of engine-S steps (lock / unlock / tick) interleaved with engine-F steps:
  stop     quiescent stop point: directory image, recovery by a fresh instance (C07); with `cuts`
           also every torn-write image of the newest append file (C08) and a second epoch
  rewrite  admin-triggered compaction, optionally with requests issued while it runs (C16)
  restart  stop the instance (Close, or not at all = kill -9 after a drained queue), start a new one
           on the SAME directory (start-up compaction), continue with a tick-free second generation
The virtual clock of the first instance starts `back` seconds in the past; `back` exceeds the total
number of ticks so that virtual time never passes the wall clock."""
import random, struct

def frame(payload, typ=0, flag=0):
    """LockCommandData frame: 4-byte LE length, stage<<6|type, flag, payload."""
    return (struct.pack("<I", len(payload) + 2) + bytes([typ, flag]) + payload).hex()

def incr_frame(v):
    return (struct.pack("<I", 10) + bytes([2, 1]) + struct.pack("<q", v)).hex()

CLS_FLAGS = {"dflt": 0, "imm": 0x0100, "never": 0x0200, "pct": 0x1000}

def _value(rng, big=0.02):
    r = rng.random()
    if r < big:
        n = rng.choice([300, 1000, 4093, 5000])
    else:
        n = rng.choice([1, 2, 3, 5, 8, 13, 21, 40])
    return frame(bytes(rng.randrange(97, 123) for _ in range(n)))

class Gen:
    def __init__(self, seed, idx, kind):
        self.rng = random.Random(seed * 1000003 + idx * 7919 + sum(map(ord, kind)) % 1000)
        self.kind = kind
        self.idx = idx

    def profile(self):
        rng = self.rng
        p = {"dbs": rng.choice([[0], [0], [0, 1], [0, 3, 200]]), "keys": list(range(1, rng.choice([3, 4, 6, 9]))),
             "lids": list(range(1, rng.choice([3, 4, 6]))), "counts": rng.choice([[0], [0, 0, 1], [0, 1, 2], [2], [0xffff, 1]]),
             "rcounts": rng.choice([[0], [0, 1], [0, 1, 2], [2]]),
             "cls_w": rng.choice([{"dflt": 6, "imm": 3, "never": 1, "pct": 1}, {"dflt": 1, "imm": 1}, {"dflt": 1}, {"imm": 1},
                                  {"dflt": 4, "imm": 4, "never": 1}]),
             "pvalue": rng.choice([0, 0.2, 0.5]), "punlock": rng.choice([0.2, 0.3, 0.4]), "ptick": rng.choice([0.15, 0.25, 0.35]),
             "tickmax": rng.choice([1, 2, 3, 6]), "pminute": rng.choice([0, 0.1, 0.2]), "punlim": rng.choice([0, 0.05]),
             "pwait": rng.choice([0, 0, 0.1]), "pupdate": rng.choice([0, 0.1, 0.2]), "pzero": rng.choice([0, 0.05]),
             "pudata": rng.choice([0, 0.05]), "pincr": rng.choice([0, 0.05]), "wild": rng.random() < 0.12}
        return p

    def cls_of(self, p, db, key, lid):
        rng = self.rng
        names = sorted(p["cls_w"])
        h = (db * 131 + key * 31 + lid * 7 + self.idx) % 1000
        r2 = random.Random(h)
        tot = sum(p["cls_w"][n] for n in names)
        x = r2.random() * tot
        for n in names:
            x -= p["cls_w"][n]
            if x <= 0:
                return n
        return names[-1]

    def lock(self, p, horizon, **kw):
        rng = self.rng
        db, key, lid = rng.choice(p["dbs"]), rng.choice(p["keys"]), rng.choice(p["lids"])
        # a key is used the way applications use it: one Count and one Rcount for all its requests (unless the profile is wild)
        kr = random.Random((db * 131 + key * 31 + self.idx) % 100003)
        cnt, rc = kr.choice(p["counts"]), kr.choice(p["rcounts"])
        if p.get("wild"):
            cnt, rc = rng.choice(p["counts"]), rng.choice(p["rcounts"])
        d = {"op": "lock", "conn": rng.randint(1, 3), "db": db, "key": key, "lid": lid, "flag": 0, "tf": 0, "ef": 0, "to": 0,
             "ex": 0, "cnt": cnt, "rc": rc, "data": "", "nodup": True}
        cls = self.cls_of(p, db, key, lid)
        d["ef"] |= CLS_FLAGS[cls]
        r = rng.random()
        if r < p["pminute"]:
            d["ef"] |= 0x40
            d["ex"] = rng.choice([1, 1, 2, 3])
        elif r < p["pminute"] + p["punlim"]:
            d["ef"] |= 0x4000
            d["ex"] = 5
        else:
            # short (expires while the instance runs), medium (expires during the outage), long (survives)
            d["ex"] = rng.choice([2, 3, 5, 8, horizon // 2 + 1, horizon, horizon + 5, horizon + 30, horizon + 90, horizon + 300, 400])
        if rng.random() < p["pzero"]:
            d["ex"] = 0
            d["ef"] &= ~0x4040
        if rng.random() < p["pwait"]:
            d["to"] = rng.choice([2, 4])
        if p.get("wild") and rng.random() < p["pupdate"]:
            d["flag"] |= 0x02
        if rng.random() < p["pvalue"]:
            d["data"] = incr_frame(rng.randint(-3, 9)) if rng.random() < p["pincr"] else _value(rng)
        d.update(kw)
        return d

    def unlock(self, p, **kw):
        rng = self.rng
        d = {"op": "unlock", "conn": rng.randint(1, 3), "db": rng.choice(p["dbs"]), "key": rng.choice(p["keys"]), "lid": rng.choice(p["lids"]),
             "flag": 0, "tf": 0, "ef": 0, "to": 0, "ex": 0, "cnt": 0, "rc": rng.choice(p["rcounts"]), "data": ""}
        if rng.random() < 0.08:
            d["flag"] |= 0x01
        if rng.random() < p["pudata"]:
            d["data"] = _value(rng)
        d.update(kw)
        return d

    def body(self, p, n, horizon):
        rng = self.rng
        out, ticks = [], 0
        for _ in range(n):
            r = rng.random()
            if r < p["ptick"]:
                k = rng.randint(1, p["tickmax"])
                out.append({"op": "tick", "n": k, "order": rng.choice(["te", "te", "et"])})
                ticks += k
            elif r < p["ptick"] + p["punlock"]:
                out.append(self.unlock(p))
            else:
                out.append(self.lock(p, horizon))
        return out, ticks

    def epoch2(self, p, n, horizon):
        """Tick-free workload for a recovered instance: persist-immediately holds on fresh keys, releases and
        re-locks of recovered holds."""
        rng = self.rng
        out = []
        for i in range(n):
            r = rng.random()
            if r < 0.45:
                d = self.lock(p, horizon, key=100 + i, ex=rng.choice([30, 90, 300]), to=0)
                d["ef"] = (d["ef"] & ~0x1340) | 0x0100
                if d["ef"] & 0x4000:
                    d["ex"] = 5
                out.append(d)
            elif r < 0.75:
                out.append(self.unlock(p))
            else:
                d = self.lock(p, horizon, to=0)
                out.append(d)
        return out

CFGS = [
    {"bufsize": 64, "rewritesize": 12 + 64 * 3}, {"bufsize": 64, "rewritesize": 12 + 64 * 4}, {"bufsize": 64, "rewritesize": 12 + 64 * 9},
    {"bufsize": 128, "rewritesize": 12 + 64 * 5}, {"bufsize": 128, "rewritesize": 12 + 64 * 16}, {"bufsize": 256, "rewritesize": 12 + 64 * 7},
    {"bufsize": 4096, "rewritesize": 12 + 64 * 6}, {"bufsize": 4096, "rewritesize": 12 + 64 * 40}, {}, {"bufsize": 64},
]

def gen_history(seed, idx, kind, aoftime=None):
    g = Gen(seed, idx, kind)
    rng = g.rng
    p = g.profile()
    nsteps = rng.choice([12, 20, 30, 45])
    horizon = 60
    body, ticks = g.body(p, nsteps, horizon)
    back = ticks + rng.choice([2, 5, 12, 25, 40])
    cfg = dict(rng.choice(CFGS))
    if aoftime:
        cfg["aoftime"] = aoftime
    steps = []
    sc = {"name": f"{kind}-{seed}-{idx}", "kind": kind, "cfg": cfg, "back": back, "imgcpt": False}
    if kind == "restart":
        # C07: several quiescent stop points, then a real stop/start on the same directory and a second generation
        nstop = rng.choice([1, 2, 3])
        pos = sorted(rng.sample(range(1, len(body) + 1), min(nstop, len(body))))
        for i, st in enumerate(body):
            steps.append(st)
            if i + 1 in pos:
                steps.append({"op": "stop"})
        e2 = g.epoch2(p, rng.choice([0, 3, 6]), horizon) + [{"op": "stop"}]
        steps.append({"op": "restart", "hard": rng.random() < 0.4, "epoch2": e2})
    elif kind == "crash":
        # C08: torn-write images of the newest append file at a stop point, second epoch on a share of them
        if "rewritesize" in cfg and rng.random() < 0.5:
            cfg["rewritesize"] = 12 + 64 * rng.choice([5, 8, 12, 40])
        steps = list(body)
        # make sure the newest file ends with records that matter: a couple of persist-immediately requests with values
        for j in range(rng.choice([1, 2, 3])):
            d = g.lock(p, horizon, key=50 + j, to=0, ex=rng.choice([horizon + 30, 300]))
            d["ef"] = (d["ef"] & ~0x1300) | 0x0100
            if rng.random() < 0.6:
                d["data"] = _value(rng)
            steps.append(d)
            if rng.random() < 0.3:
                steps.append(g.unlock(p, key=50 + j, lid=d["lid"], db=d["db"]))
        steps.append({"op": "stop", "cuts": rng.choice(["tail", "tail", "tail1"]), "e2mod": rng.choice([3, 5, 9]), "e2off": rng.randint(0, 8),
                      "epoch2": g.epoch2(p, rng.choice([2, 4]), horizon)})
    elif kind == "compact":
        # C16: every file-system step of every compaction is imaged and recovered
        sc["imgcpt"] = True
        if "rewritesize" not in cfg or cfg["rewritesize"] > 12 + 64 * 12:
            cfg["rewritesize"] = 12 + 64 * rng.choice([3, 4, 6, 10])
        pos = sorted(rng.sample(range(1, len(body) + 1), min(rng.choice([1, 2]), len(body))))
        for i, st in enumerate(body):
            steps.append(st)
            if i + 1 in pos:
                during = [x for x in g.epoch2(p, rng.choice([0, 0, 2, 4]), horizon)]
                steps.append({"op": "rewrite", "during": during})
        if rng.random() < 0.6:
            steps.append({"op": "restart", "hard": rng.random() < 0.5, "cpt": rng.choice(["faithful", "held", "held"]),
                          "epoch2": g.epoch2(p, rng.choice([0, 2]), horizon) + [{"op": "rewrite", "during": []}, {"op": "stop"}]})
        else:
            steps.append({"op": "stop"})
    sc["steps"] = steps
    return sc

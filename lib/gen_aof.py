"""Seeded history generator for engine F (persistence family C07 C08 C16).

A history is a list of engine-S steps (lock / unlock / tick) interleaved with engine-F steps:
  stop     quiescent stop point: directory image, recovery by a fresh instance (C07); with `cuts`
           also every torn-write image of the newest append file (C08) and a second epoch
  rewrite  admin-triggered compaction, optionally with requests issued while it runs (C16)
  restart  stop the instance (Close, or not at all = kill -9 after a drained queue), start a new one
           on the SAME directory (start-up compaction), continue with a tick-free second generation
  burst    several requests run while the records of the earlier ones are still queued in the AofChannel
           (handed to the log by reference, not yet copied by the channel goroutine): value operations of every
           kind on few keys that are used by bursts only (C08, C07)
The virtual clock of the first instance starts `back` seconds in the past; `back` exceeds the total
number of ticks so that virtual time never passes the wall clock.

gen_update: directed-random histories around value-less deadline UPDATEs (update flag) of persisted holds,
lengthening and shortening, seconds and minutes, at different ages, followed by compactions (C16)."""
import random, struct

def frame(payload, typ=0, flag=0):
    """LockCommandData frame: 4-byte LE length, stage<<6|type, flag, payload."""
    return (struct.pack("<I", len(payload) + 2) + bytes([typ, flag]) + payload).hex()

def incr_frame(v):
    return (struct.pack("<I", 10) + bytes([2, 1]) + struct.pack("<q", v)).hex()

CLS_FLAGS = {"dflt": 0, "imm": 0x0100, "never": 0x0200, "pct": 0x1000}

# value operations (protocol LOCK_DATA_COMMAND_TYPE_*)
T_SET, T_UNSET, T_INCR, T_APPEND, T_SHIFT, T_PUSH, T_POP = 0, 1, 2, 3, 4, 7, 8
BURST_KEYS = [60, 61, 62, 63]       # used by burst steps only (the monitor computes their values from the bursts alone)

def _payload(rng):
    r = rng.random()
    if r < 0.08:
        n = rng.choice([64, 100, 250])
    else:
        n = rng.choice([1, 1, 2, 3, 4, 5, 7, 8, 9, 13, 16, 17, 31, 32, 33])
    return bytes(rng.randrange(97, 123) for _ in range(n))

def value_op(rng, first):
    """One value-operation frame.  first: the key has no value yet (SET / APPEND / PUSH / INCR create one)."""
    r = rng.random()
    if first:
        t = T_SET if r < 0.55 else T_APPEND if r < 0.75 else T_PUSH if r < 0.9 else T_INCR
    else:
        t = (T_APPEND if r < 0.42 else T_SET if r < 0.54 else T_PUSH if r < 0.68 else T_INCR if r < 0.78 else T_SHIFT if r < 0.86
             else T_POP if r < 0.93 else T_UNSET)
    if t == T_INCR:
        return incr_frame(rng.randint(-3, 1000))
    if t in (T_SHIFT, T_POP):
        return frame(struct.pack("<I", rng.choice([1, 1, 2, 3, 40])), t)
    if t == T_UNSET:
        return frame(b"", t)
    return frame(_payload(rng), t)

def _value(rng, big=0.02):
    r = rng.random()
    if r < big:
        n = rng.choice([300, 1000, 4093, 5000])
    else:
        n = rng.choice([1, 2, 3, 5, 8, 13, 21, 40])
    return frame(bytes(rng.randrange(97, 123) for _ in range(n)))

def longlived(sts):
    """The recoveries of one stop point can be many seconds apart on a busy machine: no hold of these histories ends while they
    run (a record that expires between two starts is finding A27 / the subject of the restart histories, not of these)."""
    for st in sts:
        if st.get("op") == "lock" and not (st["ef"] & 0x4000) and 0 < st["ex"] < 1200:
            st["ex"] = st["ex"] + 1200 if not (st["ef"] & 0x40) else st["ex"] + 20
        for sub in ("epoch2", "during", "reqs"):
            if isinstance(st.get(sub), list):
                longlived(st[sub])
    return sts

class Gen:
    def __init__(self, seed, idx, kind):
        self.rng = random.Random(seed * 1000003 + idx * 7919 + sum(map(ord, kind)) % 1000)
        self.kind = kind
        self.idx = idx

    def profile(self):
        rng = self.rng
        p = {"dbs": rng.choice([[0], [0], [0, 1], [0, 3, 200]]), "keys": list(range(1, rng.choice([3, 4, 6, 9]))),
             "lids": list(range(1, rng.choice([3, 4, 6]))), "counts": rng.choice([[0], [0, 0, 1], [0, 1, 2], [2], [0xffff, 1]]),
             "rcounts": rng.choice([[0], [0, 1], [0, 1, 2], [2]]),
             "cls_w": rng.choice([{"dflt": 6, "imm": 3, "never": 1, "pct": 1}, {"dflt": 1, "imm": 1}, {"dflt": 1}, {"imm": 1},
                                  {"dflt": 4, "imm": 4, "never": 1}]),
             "pvalue": rng.choice([0, 0.2, 0.5]), "punlock": rng.choice([0.2, 0.3, 0.4]), "ptick": rng.choice([0.15, 0.25, 0.35]),
             "tickmax": rng.choice([1, 2, 3, 6]), "pminute": rng.choice([0, 0.1, 0.2]), "punlim": rng.choice([0, 0.05]),
             "pwait": rng.choice([0, 0, 0.1]), "pupdate": rng.choice([0, 0.1, 0.2]), "pzero": rng.choice([0, 0.05]),
             "pudata": rng.choice([0, 0.05]), "pincr": rng.choice([0, 0.05]), "wild": rng.random() < 0.12}
        return p

    def cls_of(self, p, db, key, lid):
        rng = self.rng
        names = sorted(p["cls_w"])
        h = (db * 131 + key * 31 + lid * 7 + self.idx) % 1000
        r2 = random.Random(h)
        tot = sum(p["cls_w"][n] for n in names)
        x = r2.random() * tot
        for n in names:
            x -= p["cls_w"][n]
            if x <= 0:
                return n
        return names[-1]

    def lock(self, p, horizon, **kw):
        rng = self.rng
        db, key, lid = rng.choice(p["dbs"]), rng.choice(p["keys"]), rng.choice(p["lids"])
        # a key is used the way applications use it: one Count and one Rcount for all its requests (unless the profile is wild)
        kr = random.Random((db * 131 + key * 31 + self.idx) % 100003)
        cnt, rc = kr.choice(p["counts"]), kr.choice(p["rcounts"])
        if p.get("wild"):
            cnt, rc = rng.choice(p["counts"]), rng.choice(p["rcounts"])
        d = {"op": "lock", "conn": rng.randint(1, 3), "db": db, "key": key, "lid": lid, "flag": 0, "tf": 0, "ef": 0, "to": 0,
             "ex": 0, "cnt": cnt, "rc": rc, "data": "", "nodup": True}
        cls = self.cls_of(p, db, key, lid)
        d["ef"] |= CLS_FLAGS[cls]
        r = rng.random()
        if r < p["pminute"]:
            d["ef"] |= 0x40
            d["ex"] = rng.choice([1, 1, 2, 3])
        elif r < p["pminute"] + p["punlim"]:
            d["ef"] |= 0x4000
            d["ex"] = 5
        else:
            # short (expires while the instance runs), medium (expires during the outage), long (survives)
            d["ex"] = rng.choice([2, 3, 5, 8, horizon // 2 + 1, horizon, horizon + 5, horizon + 30, horizon + 90, horizon + 300, 400])
        if rng.random() < p["pzero"]:
            d["ex"] = 0
            d["ef"] &= ~0x4040
        if rng.random() < p["pwait"]:
            d["to"] = rng.choice([2, 4])
        if p.get("wild") and rng.random() < p["pupdate"]:
            d["flag"] |= 0x02
        if rng.random() < p["pvalue"]:
            d["data"] = incr_frame(rng.randint(-3, 9)) if rng.random() < p["pincr"] else _value(rng)
        d.update(kw)
        return d

    def unlock(self, p, **kw):
        rng = self.rng
        d = {"op": "unlock", "conn": rng.randint(1, 3), "db": rng.choice(p["dbs"]), "key": rng.choice(p["keys"]), "lid": rng.choice(p["lids"]),
             "flag": 0, "tf": 0, "ef": 0, "to": 0, "ex": 0, "cnt": 0, "rc": rng.choice(p["rcounts"]), "data": ""}
        if rng.random() < 0.08:
            d["flag"] |= 0x01
        if rng.random() < p["pudata"]:
            d["data"] = _value(rng)
        d.update(kw)
        return d

    def body(self, p, n, horizon):
        rng = self.rng
        out, ticks = [], 0
        for _ in range(n):
            r = rng.random()
            if r < p["ptick"]:
                k = rng.randint(1, p["tickmax"])
                out.append({"op": "tick", "n": k, "order": rng.choice(["te", "te", "et"])})
                ticks += k
            elif r < p["ptick"] + p["punlock"]:
                out.append(self.unlock(p))
            else:
                out.append(self.lock(p, horizon))
        return out, ticks

    def burst(self, p, n=None, rel=None):
        """A burst step: n requests on one or two burst-only keys; every hold persists at once (persist-immediately class,
        no waiting, long expiry), so every executed request hands a record with the key's value to the log."""
        rng = self.rng
        n = n or rng.choice([3, 4, 5, 6, 8, 10])
        keys = rng.sample(BURST_KEYS, rng.choice([1, 1, 2]))
        db = rng.choice(p["dbs"])
        shared = {k: rng.random() < 0.3 for k in keys}
        hasval = {k: False for k in keys}
        used = set()
        reqs = []
        for _ in range(n):
            k = rng.choice(keys)
            lid = rng.choice([1, 1, 2]) if shared[k] else 1
            cnt = 2 if shared[k] else 0
            r = rng.random()
            base = {"conn": rng.randint(1, 3), "db": db, "key": k, "lid": lid, "tf": 0, "to": 0, "cnt": cnt, "nodup": True}
            if (k, lid) not in used or r < 0.2:
                # take the key / one more level of a re-entrant hold
                d = dict(base, op="lock", flag=0, ef=0x0100, ex=rng.choice([1800, 3600]), rc=3,
                         data=value_op(rng, not hasval[k]) if rng.random() < 0.85 else "")
                used.add((k, lid))
            elif r < 0.85:
                # the holder runs a value operation (update flag: terms re-stated, no new level)
                d = dict(base, op="lock", flag=0x02, ef=0x0100, ex=rng.choice([1800, 3600]), rc=3,
                         data=value_op(rng, not hasval[k]) if rng.random() < 0.92 else "")
            else:
                d = dict(base, op="unlock", flag=0, ef=0, ex=0, rc=rng.choice([0, 1]),
                         data=value_op(rng, not hasval[k]) if rng.random() < 0.4 else "")
            if d["data"]:
                hasval[k] = True
            reqs.append(d)
        return {"op": "burst", "reqs": reqs, "rel": rel if rel is not None else rng.choice(["", "", "rev", "seq"])}

    def update_block(self, p, j, back_hint):
        """A persisted hold on a key of its own, a value-less deadline UPDATE (update flag) that lengthens or shortens it,
        ticks before and after (the age of the hold and of the update record at the compaction).  Returns (steps, ticks)."""
        rng = self.rng
        db = rng.choice(p["dbs"])
        key, lid = 70 + j, rng.choice([1, 2, 3])
        minute = rng.random() < 0.35
        floor = back_hint + 1200                # every deadline stays clear of the wall clock of the recoveries, also on a busy machine
        if minute:
            # LockManager.CheckLockedEqual treats a minute-unit request as "the same" when its deadline is within 60 s of the
            # hold's (live: the update is answered without effect; at REPLAY the same test runs against replayed deadlines
            # that are rounded to the minute of the start, so an update that moved the deadline by less than ~2 minutes may
            # or may not be re-applied depending on the second of the start).  The deadlines of one hold are kept at least
            # 4 minutes apart: what is recovered then does not depend on the second of the start.
            lo = floor // 60 + 2
            e1 = rng.randrange(lo, lo + 30)
            e2 = e1 + rng.choice([-14, -9, -4, 4, 5, 9, 20])
            ef = 0x40
        else:
            e1 = rng.choice([floor, floor + 1, floor + 37, floor + 300, 3000, 9000])
            e2 = e1 + rng.choice([-150, -61, -60, -3, -2, -1, 1, 2, 3, 59, 60, 61, 100, 500, 4000])
            ef = 0
        cls = rng.choice([0x0100, 0x0100, 0])  # persist-immediately, or the default delay (persisted by the first ticks)
        cnt, rc = rng.choice([(0, 0), (0, 0), (2, 0), (0, 2)])
        base = {"op": "lock", "conn": rng.randint(1, 3), "db": db, "key": key, "lid": lid, "tf": 0, "to": 0, "cnt": cnt, "rc": rc, "nodup": True}
        steps, ticks = [], 0
        def tick(n):
            nonlocal ticks
            if n > 0:
                steps.append({"op": "tick", "n": n, "order": rng.choice(["te", "et"])})
                ticks += n
        steps.append(dict(base, flag=0, ef=ef | cls, ex=e1, data=_value(rng) if rng.random() < 0.25 else ""))
        tick(rng.choice([0, 1, 2, 2, 3, 30, 59, 60, 61]) if cls else rng.choice([2, 3, 30, 60, 61]))
        nupd = rng.choice([1, 1, 1, 2])
        for u in range(nupd):
            ex = e2 if u == 0 else e2 + (rng.choice([-5, 6, 11]) if ef else rng.choice([-1, 1, 7]))
            # the same unit as the hold, sometimes the other one (then it is the last update of the block, and minutes
            # are again kept clear of the one-minute "same deadline" zone)
            uef = ef
            switch = rng.random() < 0.12
            if switch:
                uef = 0x40 - ef
                ex = ex // 60 + 6 if uef else ex * 60 + rng.choice([300, 301, 330])
            steps.append(dict(base, flag=0x02, ef=uef | cls, ex=min(ex, 65000), data=""))
            tick(rng.choice([0, 0, 1, 2, 29, 59, 60, 61, 119, 120, 121]))
            if switch:
                break
        return steps, ticks

    def epoch2(self, p, n, horizon):
        """Tick-free workload for a recovered instance: persist-immediately holds on fresh keys, releases and
        re-locks of recovered holds."""
        rng = self.rng
        out = []
        for i in range(n):
            r = rng.random()
            if r < 0.45:
                d = self.lock(p, horizon, key=100 + i, ex=rng.choice([30, 90, 300]), to=0)
                d["ef"] = (d["ef"] & ~0x1340) | 0x0100
                if d["ef"] & 0x4000:
                    d["ex"] = 5
                out.append(d)
            elif r < 0.75:
                out.append(self.unlock(p))
            else:
                d = self.lock(p, horizon, to=0)
                out.append(d)
        return out

CFGS = [
    {"bufsize": 64, "rewritesize": 12 + 64 * 3}, {"bufsize": 64, "rewritesize": 12 + 64 * 4}, {"bufsize": 64, "rewritesize": 12 + 64 * 9},
    {"bufsize": 128, "rewritesize": 12 + 64 * 5}, {"bufsize": 128, "rewritesize": 12 + 64 * 16}, {"bufsize": 256, "rewritesize": 12 + 64 * 7},
    {"bufsize": 4096, "rewritesize": 12 + 64 * 6}, {"bufsize": 4096, "rewritesize": 12 + 64 * 40}, {}, {"bufsize": 64},
]

def gen_history(seed, idx, kind, aoftime=None):
    g = Gen(seed, idx, kind)
    rng = g.rng
    p = g.profile()
    nsteps = rng.choice([12, 20, 30, 45])
    horizon = 60
    body, ticks = g.body(p, nsteps, horizon)
    back = ticks + rng.choice([2, 5, 12, 25, 40])
    cfg = dict(rng.choice(CFGS))
    if aoftime:
        cfg["aoftime"] = aoftime
    steps = []
    sc = {"name": f"{kind}-{seed}-{idx}", "kind": kind, "cfg": cfg, "back": back, "imgcpt": False}
    if kind == "restart":
        # C07: several quiescent stop points, then a real stop/start on the same directory and a second generation
        nstop = rng.choice([1, 2, 3])
        pos = sorted(rng.sample(range(1, len(body) + 1), min(nstop, len(body))))
        for i, st in enumerate(body):
            steps.append(st)
            if i + 1 in pos:
                steps.append({"op": "stop"})
        e2 = g.epoch2(p, rng.choice([0, 3, 6]), horizon) + [{"op": "stop"}]
        steps.append({"op": "restart", "hard": rng.random() < 0.4, "epoch2": e2})
    elif kind == "crash":
        # C08: torn-write images of the newest append file at a stop point, second epoch on a share of them
        if "rewritesize" in cfg and rng.random() < 0.5:
            cfg["rewritesize"] = 12 + 64 * rng.choice([5, 8, 12, 40])
        steps = list(body)
        # make sure the newest file ends with records that matter: a couple of persist-immediately requests with values
        for j in range(rng.choice([1, 2, 3])):
            d = g.lock(p, horizon, key=50 + j, to=0, ex=rng.choice([horizon + 30, 300]))
            d["ef"] = (d["ef"] & ~0x1300) | 0x0100
            if rng.random() < 0.6:
                d["data"] = _value(rng)
            steps.append(d)
            if rng.random() < 0.3:
                steps.append(g.unlock(p, key=50 + j, lid=d["lid"], db=d["db"]))
        withburst = rng.random() < 0.3
        if withburst:
            # the newest file ends with records that were queued together (no compaction while they drain)
            if "rewritesize" in cfg:
                cfg["rewritesize"] = max(cfg["rewritesize"], 12 + 64 * 40)
            steps.append(g.burst(p))
        steps.append({"op": "stop", "cuts": rng.choice(["tail", "tail", "tail1"]), "e2mod": rng.choice([3, 5, 9]), "e2off": rng.randint(0, 8),
                      "epoch2": g.epoch2(p, rng.choice([2, 4]), horizon), "child": withburst})
        # crash images are the subject, not expiry at restart: every hold outlasts the recovery phase (hundreds of starts,
        # second epochs and third starts - minutes on a busy machine) by a wide margin
        longlived(steps)
    elif kind == "compact":
        # C16: every file-system step of every compaction is imaged and recovered
        sc["imgcpt"] = True
        if "rewritesize" not in cfg or cfg["rewritesize"] > 12 + 64 * 12:
            cfg["rewritesize"] = 12 + 64 * rng.choice([3, 4, 6, 10])
        pos = sorted(rng.sample(range(1, len(body) + 1), min(rng.choice([1, 2]), len(body))))
        for i, st in enumerate(body):
            steps.append(st)
            if i + 1 in pos:
                during = [x for x in g.epoch2(p, rng.choice([0, 0, 2, 4]), horizon)]
                steps.append({"op": "rewrite", "during": during})
        if rng.random() < 0.6:
            steps.append({"op": "restart", "hard": rng.random() < 0.5, "cpt": rng.choice(["faithful", "held", "held"]),
                          "epoch2": g.epoch2(p, rng.choice([0, 2]), horizon) + [{"op": "rewrite", "during": []}, {"op": "stop"}]})
        else:
            steps.append({"op": "stop"})
    sc["steps"] = steps
    return sc


def gen_burst(seed, idx, kind):
    """Short histories around bursts (C08: crash images of the burst's records; C07: clean stop / start after it)."""
    g = Gen(seed, 500000 + idx, kind)
    rng = g.rng
    p = g.profile()
    p["ptick"], p["tickmax"] = 0.1, 1
    horizon = 60
    body, ticks = g.body(p, rng.choice([0, 2, 5, 9]), horizon)
    cfg = dict(rng.choice([{"bufsize": 64}, {"bufsize": 64}, {"bufsize": 128}, {"bufsize": 256}, {"bufsize": 4096}, {}]))
    steps = longlived(list(body))
    nb = rng.choice([1, 1, 2])
    for b in range(nb):
        steps.append(g.burst(p))
        if b + 1 < nb:
            more, t2 = g.body(p, rng.choice([0, 1, 3]), horizon)
            steps += longlived(more)
            ticks += t2
    sc = {"name": f"burst-{kind}-{seed}-{idx}", "kind": kind, "cfg": cfg, "imgcpt": False}
    if kind == "restart":
        # values are judged at a stop point once they are older than the persistence delay
        steps.append({"op": "tick", "n": 2, "order": "te"})
        ticks += 2
        steps.append({"op": "stop", "child": True})
    else:
        steps.append({"op": "stop", "cuts": rng.choice(["tail", "tail", "tail1"]), "e2mod": rng.choice([0, 5, 9]), "e2off": rng.randint(0, 8),
                      "epoch2": g.epoch2(p, 2, horizon), "child": True})
    sc["back"] = ticks + rng.choice([2, 5, 12])
    sc["steps"] = steps
    return sc


def gen_update(seed, idx, kind="compact"):
    """C16: holds whose deadline was moved by a value-less update, then compactions by every trigger (admin command with requests
    meanwhile, size threshold, start-up), each file-system step imaged and compared with the files it replaced."""
    g = Gen(seed, 700000 + idx, kind)
    rng = g.rng
    p = g.profile()
    p["ptick"], p["tickmax"] = 0.15, 2
    horizon = 60
    cfg = dict(rng.choice([{"bufsize": 64}, {"bufsize": 128}, {"bufsize": 4096}, {}]))
    cfg["rewritesize"] = 12 + 64 * rng.choice([3, 4, 6, 10, 40, 40])
    steps, ticks = [], 0
    nblk = rng.choice([1, 1, 2, 3])
    for j in range(nblk):
        pre, t0 = g.body(p, rng.choice([0, 0, 2, 4]), horizon)
        steps += pre
        ticks += t0
        blk, t1 = g.update_block(p, j, 330)    # 330 = the most a block and its neighbours tick
        steps += blk
        ticks += t1
        if rng.random() < 0.7:
            steps.append({"op": "rewrite", "during": g.epoch2(p, rng.choice([0, 0, 2]), horizon)})
            if rng.random() < 0.3:
                k = rng.choice([1, 2, 60, 61])
                steps.append({"op": "tick", "n": k, "order": "te"})
                ticks += k
                steps.append({"op": "rewrite", "during": []})
    if rng.random() < 0.5:
        steps.append({"op": "restart", "hard": rng.random() < 0.5, "cpt": rng.choice(["faithful", "held", "held"]),
                      "epoch2": [{"op": "rewrite", "during": []}, {"op": "stop"}]})
    else:
        steps.append({"op": "rewrite", "during": []})
        steps.append({"op": "stop"})
    return {"name": f"upd-{kind}-{seed}-{idx}", "kind": kind, "cfg": cfg, "back": ticks + rng.choice([2, 5, 12, 25]), "imgcpt": True, "steps": steps}


def gen_preflush(seed, idx):
    """C08: crash images taken at aof.flush.enter (records of the batch still in the write buffer), each followed by a second
    epoch with value-carrying persist-immediately holds on fresh keys and a third start."""
    g = Gen(seed, 800000 + idx, "crash")
    rng = g.rng
    p = g.profile()
    p["ptick"], p["tickmax"], p["pvalue"] = 0.1, 1, 0.6
    horizon = 60
    body, ticks = g.body(p, rng.choice([2, 4, 7]), horizon)
    steps = list(body)
    # value-carrying persist-immediately requests: the first record of a flush batch carries a value
    for j in range(rng.choice([1, 2, 3])):
        d = g.lock(p, horizon, key=50 + j, to=0, ex=1800, flag=0)
        d["ef"] = (d["ef"] & ~0x1340) | 0x0100
        d["data"] = _value(rng, big=0.1)
        steps.append(d)
        if rng.random() < 0.3:
            steps.append(g.lock(p, horizon, key=55 + j, to=0, ex=1800))
    e2 = []
    for j in range(rng.choice([2, 3])):
        d = g.lock(p, horizon, key=110 + j, lid=1, to=0, ex=1800, flag=0, cnt=0, rc=0)
        d["ef"] = 0x0100
        d["data"] = _value(rng, big=0.1)
        e2.append(d)
    e2.append(g.lock(p, horizon, key=120, lid=1, to=0, ex=1800, flag=0, cnt=0, rc=0, ef=0x0100, data=""))
    steps.append({"op": "stop", "cuts": "", "e2mod": 0, "e2off": 0, "epoch2": e2, "child": True})
    longlived(steps)
    cfg = dict(rng.choice([{"bufsize": 64}, {"bufsize": 128}, {"bufsize": 256}, {"bufsize": 4096}, {}]))
    return {"name": f"preflush-{seed}-{idx}", "kind": "crash", "cfg": cfg, "back": ticks + rng.choice([2, 5, 12]), "imgcpt": False, "preflush": 3, "steps": steps}


def gen_carrier(seed, idx):
    """C07: the value of a shared key is set by holder A; holder B takes the key afterwards (its LOCK record is written after the
    value operation); then A's records stop being replayed - A is released and a rotation + compaction drops them, or A's
    deadline passes during the outage - while B lives on.  The restart must restore B with the key's value."""
    g = Gen(seed, 900000 + idx, "restart")
    rng = g.rng
    p = g.profile()
    p["ptick"], p["tickmax"] = 0.15, 1
    horizon = 60
    db = rng.choice(p["dbs"])
    key = 80 + rng.randrange(4)
    cnt = rng.choice([1, 1, 2, 5])
    variant = rng.choice(["released-compacted", "released-compacted", "expired"])
    cfg = dict(rng.choice([{"bufsize": 64}, {"bufsize": 128}, {"bufsize": 4096}]))
    base = {"conn": 1, "db": db, "key": key, "tf": 0, "to": 0, "cnt": cnt, "rc": 0, "nodup": True}
    cls = rng.choice([0x0100, 0x0100, 0])
    steps, ticks = [], 0
    pre, t0 = g.body(p, rng.choice([0, 2, 4]), horizon)
    steps += longlived(pre)
    ticks += t0
    exa = 1800 if variant != "expired" else rng.choice([6, 9, 14])
    steps.append(dict(base, op="lock", lid=1, flag=0, ef=cls, ex=exa, data=_value(rng, big=0.1)))
    if rng.random() < 0.4:
        # the value is changed once more by its holder (update flag) before the second holder arrives
        steps.append(dict(base, op="lock", lid=1, flag=0x02, ef=cls, ex=exa, data=value_op(rng, False)))
    if not cls or rng.random() < 0.5:
        steps.append({"op": "tick", "n": 2, "order": "te"})
        ticks += 2
    nb = rng.choice([1, 1, 2]) if cnt >= 2 else 1
    for b in range(nb):
        steps.append(dict(base, op="lock", lid=2 + b, flag=0, ef=cls, ex=1800, data=""))
    if not cls:
        steps.append({"op": "tick", "n": 2, "order": "te"})
        ticks += 2
    outage = rng.choice([2, 5, 12])
    if variant == "expired":
        outage = exa + rng.choice([8, 20])       # A's record is over at the restart (the instance itself is stopped before)
        steps.append({"op": "tick", "n": 2, "order": "te"})
        ticks += 2
    else:
        steps.append(dict(base, op="unlock", lid=1, flag=0, ef=0, ex=0, cnt=0, data=""))
        cfg["rewritesize"] = 12 + 64 * rng.choice([3, 4, 6])
        # fillers on another database: rotation, compaction of the file that holds A's records
        for j in range(rng.choice([4, 7, 10])):
            steps.append({"op": "lock", "conn": 2, "db": db, "key": 90 + j, "lid": 7, "flag": 0, "tf": 0, "ef": 0x0100, "to": 0, "ex": 1800, "cnt": 0, "rc": 0,
                          "data": "", "nodup": True})
        if rng.random() < 0.5:
            steps.append({"op": "rewrite", "during": []})
        steps.append({"op": "tick", "n": 2, "order": "te"})
        ticks += 2
    steps.append({"op": "stop"})
    if rng.random() < 0.5:
        steps.append({"op": "restart", "hard": rng.random() < 0.5, "epoch2": [{"op": "stop"}]})
    return {"name": f"carrier-{seed}-{idx}", "kind": "restart", "cfg": cfg, "back": ticks + outage, "imgcpt": False, "steps": steps}


def gen_leftover(seed, idx):
    """C16: a compaction that STARTS on the directory an interrupted compaction left behind (rewrite.aof.tmp(.dat) partial or
    complete), followed by one more start.  Plain value-carrying holds (distinct keys, no re-entrancy), long-lived."""
    g = Gen(seed, 950000 + idx, "compact")
    rng = g.rng
    p = g.profile()
    db = rng.choice(p["dbs"])
    cfg = {"bufsize": rng.choice([64, 64, 128]), "rewritesize": 12 + 64 * rng.choice([4, 6, 40, 40])}
    steps = []
    n = rng.choice([3, 4, 6, 9])
    for j in range(n):
        d = {"op": "lock", "conn": 1, "db": db, "key": 20 + j, "lid": 1 + j % 3, "flag": 0, "tf": 0, "ef": 0x0100, "to": 0, "ex": 1800 + 60 * j, "cnt": 0, "rc": 0,
             "data": _value(rng, big=0.1) if rng.random() < 0.8 else "", "nodup": True}
        steps.append(d)
        if rng.random() < 0.2:
            steps.append({"op": "unlock", "conn": 1, "db": db, "key": 20 + j, "lid": 1 + j % 3, "flag": 0, "tf": 0, "ef": 0, "to": 0, "ex": 0, "cnt": 0, "rc": 0, "data": ""})
        if rng.random() < 0.15:
            steps.append({"op": "rewrite", "during": []})
    steps.append({"op": "rewrite", "during": []})
    steps.append({"op": "stop"})
    return {"name": f"leftover-{seed}-{idx}", "kind": "compact", "cfg": cfg, "back": rng.choice([3, 6, 12]), "imgcpt": True, "leftover": True, "steps": steps}

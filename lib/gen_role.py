"""Scenarios for C10 (engine S part): a leader builds up state, the node's role changes to one of the
non-leader states, clients keep sending requests, the clock runs past the deadlines."""
import random
import gen_core

def gen_role(seed, idx):
    rng = random.Random(seed * 48271 + idx)
    p = gen_core.profile(rng.choice(["mutex", "sem", "reent", "flags"]), rng)
    p = dict(p)
    p["expireds"] = [3, 5, 8, 20, 40]
    p["timeouts"] = [0, 2, 5, 30]
    p["unlimited"] = 0
    steps = []
    for _ in range(rng.randint(6, 16)):
        r = rng.random()
        if r < 0.25:
            steps.append({"op": "tick", "n": rng.randint(1, 3)})
        elif r < 0.4:
            steps.append(gen_core._unlock(rng, p))
        else:
            steps.append(gen_core._lock(rng, p))
    steps.append({"op": "tick", "n": 2})      # let the default persistence delay pass: holds become persisted
    status = rng.choice([2, 3, 4, 5])         # FOLLOWER, SYNC, CONFIG, VOTE
    steps.append({"op": "status", "status": status})
    for _ in range(rng.randint(5, 14)):
        r = rng.random()
        if r < 0.3:
            steps.append({"op": "tick", "n": rng.choice([1, 3, 10, 45])})
        elif r < 0.6:
            steps.append(gen_core._unlock(rng, p))
        else:
            d = gen_core._lock(rng, p)
            d["nodup"] = False
            steps.append(d)
    if rng.random() < 0.5:
        steps.append({"op": "tick", "n": rng.choice([120, 290, 345])})
    if rng.random() < 0.3:
        steps.append({"op": "status", "status": rng.choice([2, 3, 4, 5])})
        steps.append(gen_core._lock(rng, p))
        steps.append({"op": "tick", "n": 5})
    steps.append({"op": "status", "status": 1})
    steps.append({"op": "drain", "n": 45})
    return {"name": f"role-{seed}-{idx}", "cfg": p.get("cfg", {}), "steps": steps, "complete": True, "mode": "seq"}

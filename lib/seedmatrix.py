#!/usr/bin/env python3
"""Print the seeded-change catch matrix (markdown) from seeded/<id>/caught.json and notes.md."""
import json, os, glob
rows = []
for d in sorted(glob.glob(os.path.join(os.path.dirname(os.path.dirname(os.path.abspath(__file__))), "seeded", "C*"))):
    t = os.path.basename(d)
    try:
        title = [l for l in open(os.path.join(d, "notes.md")) if l.strip()][0].strip("# \n")
    except Exception:
        title = ""
    for pre in ("Seed %s — " % t, "Seed %s - " % t, "%s seeded defect: " % t, "Seeded defect %s — " % t, "%s - seeded defect against " % t, "Seeded defect %s" % t, "Seed %s" % t):
        if title.startswith(pre):
            title = title[len(pre):]
    f = [l for l in open(os.path.join(d, "patch.diff")) if l.startswith("+++")][0][6:].strip()
    cp = os.path.join(d, "caught.json")
    res = json.load(open(cp)) if os.path.exists(cp) else {}
    by = []
    for k, v in sorted(res.items()):
        c = k.split("/")[0]
        by.append(f"{c}: {'caught' if v['caught'] else ('exit 2' if v['rc'] == 2 else 'MISSED')}" + (f" ({', '.join(v['codes'][:2])})" if v.get("codes") else ""))
    rows.append(f"| {t} | {title.strip(' —-')[:110]} | `{f}` | {'; '.join(by) or 'not run'} |")
print("| seed | change | file | last run of each check (quick, VERIF_SEED=1) |\n|---|---|---|---|")
print("\n".join(rows))

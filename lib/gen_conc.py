"""Seeded scenario generator for engine C (gated concurrent replay).

A scenario alternates sequential set-up steps with `par` steps: a handful of client requests
(and optionally the sweepers of one clock tick) executed as concurrently scheduled actors with a
seeded schedule."""
import random
import gen_core

def gen_conc(seed, idx):
    rng = random.Random(seed * 2654435761 % (2**31) + idx * 97)
    kind = idx % 5
    name = ["race", "race", "zero", "prio", "sem"][kind]
    p = gen_core.profile({"race": "mutex", "zero": "zero", "prio": "prio", "sem": "sem"}[name], rng)
    p = dict(p)
    p["timeouts"] = [0, 1, 2, 3, 5]
    p["expireds"] = [0, 1, 2, 3, 6]
    if name == "zero":
        p["keys"] = [0, 1]
        p["lids"] = [0, 1, 2]
    if name == "race":
        if rng.random() < 0.5:
            p["cfg"] = {"fastkeys": 1}
            p["keys"] = [1, 2]
        else:
            p["keys"] = [1]
        p["lids"] = [1, 2, 3]
        p["counts"] = rng.choice([[0], [0, 1]])
    steps = []
    nphase = rng.randint(6, 12)
    maxT = 6
    for ph in range(nphase):
        # a little sequential context
        for _ in range(rng.randint(0, 2)):
            if rng.random() < 0.5:
                steps.append(gen_core._lock(rng, p))
            else:
                steps.append(gen_core._unlock(rng, p))
        ops = []
        used = set()
        for _ in range(rng.randint(2, 4)):
            if rng.random() < 0.55:
                d = gen_core._lock(rng, p)
                # one in-flight lock request per (key, LockId) inside a phase (finding A12 is explored separately)
                if (d["db"], d["key"], d["lid"]) in used:
                    continue
                used.add((d["db"], d["key"], d["lid"]))
                ops.append(d)
            else:
                ops.append(gen_core._unlock(rng, p))
        if rng.random() < 0.6:
            ops.append({"op": "tick"})
        sched = [rng.randint(0, 7) for _ in range(rng.randint(4, 40))]
        step = {"op": "par", "ops": ops, "sched": sched}
        if rng.random() < 0.12:
            step["gates"] = ["mgr.fast.alloc", "mgr.slow.enter"]     # yield points inside the key table (finding A16)
        steps.append(step)
    steps.append({"op": "drain", "n": maxT + 6})
    return {"name": f"conc-{name}-{seed}-{idx}", "cfg": p.get("cfg", {}), "steps": steps, "complete": True}


def gen_conc_role(seed, idx):
    """Role changes RACING client requests (C10): a `par` phase holds a few requests and one role change of the node
    as concurrently scheduled actors; the schedule decides whether a request's critical section runs before or
    after the change.  The node is made leader again before the next phase."""
    rng = random.Random(seed * 40503 % (2**31) + idx * 131 + 7)
    p = dict(gen_core.profile(rng.choice(["mutex", "sem", "prio"]), rng))
    p["timeouts"] = [0, 0, 1, 2, 3]
    p["expireds"] = [1, 2, 3, 6, 30]
    p["keys"] = rng.choice([[1], [1, 2]])
    p["lids"] = [1, 2, 3]
    steps = []
    for ph in range(rng.randint(4, 9)):
        for _ in range(rng.randint(0, 2)):
            steps.append(gen_core._lock(rng, p) if rng.random() < 0.6 else gen_core._unlock(rng, p))
        ops, used = [], set()
        for _ in range(rng.randint(1, 3)):
            if rng.random() < 0.65:
                d = gen_core._lock(rng, p)
                if (d["db"], d["key"], d["lid"]) in used:
                    continue
                used.add((d["db"], d["key"], d["lid"]))
                ops.append(d)
            else:
                ops.append(gen_core._unlock(rng, p))
        pos = rng.randint(0, len(ops))
        ops.insert(pos, {"op": "status", "status": rng.choice([2, 3, 4, 5])})
        if rng.random() < 0.5:
            # every request first runs to its entry yield point, then the role change, then the rest
            n = len(ops)
            order = [i for i in range(n) if i != pos]
            sched = []
            ready = list(range(n))
            for i in order:
                sched.append(ready.index(i))
            sched.append(ready.index(pos))
            ready.remove(pos)
            sched += [rng.randint(0, 5) for _ in range(rng.randint(4, 20))]
        else:
            sched = [rng.randint(0, 7) for _ in range(rng.randint(4, 30))]
        steps.append({"op": "par", "ops": ops, "sched": sched})
        if rng.random() < 0.5:
            steps.append(gen_core._lock(rng, p) if rng.random() < 0.6 else gen_core._unlock(rng, p))
        steps.append({"op": "status", "status": 1})
    steps.append({"op": "drain", "n": 12})
    return {"name": f"conc-role-{seed}-{idx}", "cfg": p.get("cfg", {}), "steps": steps, "complete": True}


def gen_conc_free(seed, idx):
    """Really concurrent bursts (no gates): first requests for databases that do not exist yet, and for keys that do
    not exist yet, from several connections at once.  Every burst holds no-wait locks with distinct LockIds on ONE
    exclusive (or Count-limited) key, so the verdict (at most Count+1 SUCCED) does not depend on the reply order."""
    rng = random.Random(seed * 69069 % (2**31) + idx * 17 + 3)
    steps = []
    dbs = rng.sample(range(1, 250), rng.randint(3, 8))
    lid = 1
    for db in dbs:
        cnt = rng.choice([0, 0, 0, 1, 2])
        key = rng.randint(1, 3)
        ops = []
        for _ in range(rng.randint(3, 8)):
            ops.append({"op": "lock", "conn": rng.randint(1, 6), "db": db, "key": key, "lid": lid, "flag": 0, "tf": 0, "ef": 0,
                        "to": 0, "ex": 60, "cnt": cnt, "rc": 0})
            lid += 1
        steps.append({"op": "par", "free": True, "ops": ops})
        if rng.random() < 0.5:
            # a second burst on the (now existing) database, fresh key
            ops = []
            for _ in range(rng.randint(3, 6)):
                ops.append({"op": "lock", "conn": rng.randint(1, 6), "db": db, "key": key + 10, "lid": lid, "flag": 0, "tf": 0, "ef": 0,
                            "to": 0, "ex": 60, "cnt": cnt, "rc": 0})
                lid += 1
            steps.append({"op": "par", "free": True, "ops": ops})
    steps.append({"op": "drain", "n": 12})
    return {"name": f"conc-free-{seed}-{idx}", "cfg": {}, "steps": steps, "complete": True}


def gen_conc_recycle(seed, idx):
    """A request parked between its key-manager lookup and the shard mutex while the key's last hold ends, its manager
    is freed and handed out again for ANOTHER key (managers are recycled through the ring LockDB.freeLockManagers, refilled
    eight at a time: a freed manager comes back within a dozen or two first requests of fresh keys): the parked request
    must notice (key re-check under the mutex) and start over.  `hold` keeps actor 0 at its first yield point
    (lock.mgr.got / unlock.mgr.got) until the sweepers of the tick and the other requests have finished."""
    rng = random.Random(seed * 48271 % (2**31) + idx * 11 + 1)
    k1 = rng.choice([1, 2, 3])
    holder = rng.choice([1, 2, 3])
    x = rng.choice([1, 2, 3])
    L = lambda **kw: dict({"op": "lock", "conn": 1, "db": 0, "key": k1, "lid": holder, "flag": 0, "tf": 0, "ef": 0, "to": 0, "ex": 30, "cnt": 0, "rc": 0}, **kw)
    U = lambda **kw: dict({"op": "unlock", "conn": 1, "db": 0, "key": k1, "lid": holder, "flag": 0, "tf": 0, "ef": 0, "to": 0, "ex": 0, "cnt": 0, "rc": 0}, **kw)
    steps = [L(ex=1), {"op": "tick", "n": 1}]                    # K1's Lock record leaves the expiry wheel with the NEXT tick
    if rng.random() < 0.6:
        parked = U(conn=2, lid=x, flag=rng.choice([0, 0, 0, 1, 2]))                                   # parked unlock addressed to K1
    else:
        parked = L(conn=2, lid=x if x != holder else 9, to=rng.choice([0, 3]), ex=30)                 # parked lock of K1
    ops = [parked]
    if rng.random() < 0.6:
        ops.append(U(conn=1))                                    # the holder releases K1 (else the hold expires with the tick)
    ops.append({"op": "tick"})
    fresh = rng.sample(range(100, 400), rng.randint(10, 26))
    for k in fresh:
        ops.append(L(conn=3, key=k, lid=x, ex=30, cnt=rng.choice([0, 0, 1])))
    sched = [0] * 400 if rng.random() < 0.7 else [rng.randint(0, 3) for _ in range(200)]
    steps.append({"op": "par", "ops": ops, "hold": [0], "sched": sched})
    steps.append({"op": "tick", "n": 1})
    for k in rng.sample(fresh, min(len(fresh), 6)):
        steps.append(U(conn=3, key=k, lid=x))                    # the owner's own unlocks must still work, once each
    steps.append(L(conn=4, key=fresh[0], lid=77, to=0, ex=5))
    steps.append({"op": "drain", "n": 12})
    return {"name": f"conc-recycle-{seed}-{idx}", "cfg": {}, "steps": steps, "complete": True}

"""Seeded scenario generator for engine C (gated concurrent replay).

A scenario alternates sequential set-up steps with `par` steps: a handful of client requests
(and optionally the sweepers of one clock tick) executed as concurrently scheduled actors with a
seeded schedule."""
import random
import gen_core

def gen_conc(seed, idx):
    rng = random.Random(seed * 2654435761 % (2**31) + idx * 97)
    kind = idx % 5
    name = ["race", "race", "zero", "prio", "sem"][kind]
    p = gen_core.profile({"race": "mutex", "zero": "zero", "prio": "prio", "sem": "sem"}[name], rng)
    p = dict(p)
    p["timeouts"] = [0, 1, 2, 3, 5]
    p["expireds"] = [0, 1, 2, 3, 6]
    if name == "zero":
        p["keys"] = [0, 1]
        p["lids"] = [0, 1, 2]
    if name == "race":
        if rng.random() < 0.5:
            p["cfg"] = {"fastkeys": 1}
            p["keys"] = [1, 2]
        else:
            p["keys"] = [1]
        p["lids"] = [1, 2, 3]
        p["counts"] = rng.choice([[0], [0, 1]])
    steps = []
    nphase = rng.randint(6, 12)
    maxT = 6
    for ph in range(nphase):
        # a little sequential context
        for _ in range(rng.randint(0, 2)):
            if rng.random() < 0.5:
                steps.append(gen_core._lock(rng, p))
            else:
                steps.append(gen_core._unlock(rng, p))
        ops = []
        used = set()
        for _ in range(rng.randint(2, 4)):
            if rng.random() < 0.55:
                d = gen_core._lock(rng, p)
                # one in-flight lock request per (key, LockId) inside a phase (finding A12 is explored separately)
                if (d["db"], d["key"], d["lid"]) in used:
                    continue
                used.add((d["db"], d["key"], d["lid"]))
                ops.append(d)
            else:
                ops.append(gen_core._unlock(rng, p))
        if rng.random() < 0.6:
            ops.append({"op": "tick"})
        sched = [rng.randint(0, 7) for _ in range(rng.randint(4, 40))]
        step = {"op": "par", "ops": ops, "sched": sched}
        if rng.random() < 0.12:
            step["gates"] = ["mgr.fast.alloc", "mgr.slow.enter"]     # yield points inside the key table (finding A16)
        steps.append(step)
    steps.append({"op": "drain", "n": maxT + 6})
    return {"name": f"conc-{name}-{seed}-{idx}", "cfg": p.get("cfg", {}), "steps": steps, "complete": True}

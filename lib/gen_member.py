"""Scenario sources of the growth check `extra member` (engine Mb, harness/inpkg/server/zz_verif_member_test.go):
seeded wide-range schedules for the driver's adaptive scheduler and directed histories.  Steps are the schedule alphabet
of spec/Membership.tla (cmd / ann / brk / up / vote / poll / crash / restart) as MembershipSim prints them."""
import random

def cmd(n, k, x=0, w=1, a=0):
    return {"op": "cmd", "n": n, "k": k, "x": x, "w": w, "a": a}
def ann(i, j): return {"op": "ann", "i": i, "j": j}
def brk(i, j): return {"op": "brk", "i": i, "j": j}
def up(i, j): return {"op": "up", "i": i, "j": j}
VOTE = {"op": "vote"}

def grow(n, weights=None, arbs=None):
    """config on 1, add 2..n, every announcement delivered"""
    st = [cmd(1, "config", 1)]
    for x in range(2, n + 1):
        st.append(cmd(1, "add", x, (weights or {}).get(x, 1), (arbs or {}).get(x, 0)))
        for j in range(2, x + 1):
            st.append(ann(1, j))
        st.append(VOTE)
        for j in range(2, x + 1):
            st.append(ann(1, j))
    return st

def directed():
    out = []
    def sc(name, n, steps, heal=30):
        out.append({"name": "dir-" + name, "n": n, "steps": steps, "heal": heal})
    sc("grow3", 3, grow(3))
    sc("grow5", 5, grow(5))
    sc("grow4-arbiter-weight0", 4, grow(4, {3: 0}, {4: 1}))
    # two commands on two members before either announcement arrives (lost update)
    sc("concurrent-adds-leader-and-follower", 4, grow(2) + [cmd(1, "add", 3), cmd(2, "add", 4), ann(1, 2), ann(2, 1), VOTE])
    sc("concurrent-sets-two-followers", 3, grow(3) + [cmd(2, "set", 2, 2, 0), cmd(3, "set", 3, 2, 0), ann(2, 1), ann(3, 1), VOTE])
    # a member changes the list while its link to the leader is cut: it stays ahead of the leader
    sc("follower-command-leader-unreachable", 3, grow(3) + [brk(2, 1), cmd(2, "set", 3, 2, 0), VOTE, up(2, 1), VOTE])
    # a new member hears of the set before an old member hears of the new member
    sc("new-member-meets-stale-member", 3, grow(2) + [brk(1, 2), cmd(1, "add", 3), ann(1, 3), VOTE, up(1, 2), VOTE])
    sc("new-member-meets-stale-member-held", 3, grow(2) + [cmd(1, "add", 3), ann(1, 3), VOTE, ann(1, 2), VOTE])
    # weight / arbiter of the leader
    sc("set-leader-arbiter", 3, grow(3) + [cmd(1, "set", 1, 1, 1), ann(1, 2), ann(1, 3), VOTE])
    sc("set-leader-weight0", 3, grow(3) + [cmd(1, "set", 1, 0, 0), ann(1, 2), ann(1, 3), VOTE, VOTE])
    sc("set-leader-weight0-from-follower", 3, grow(3) + [cmd(2, "set", 1, 0, 0), ann(2, 1), VOTE, VOTE])
    sc("set-follower-weight", 3, grow(3) + [cmd(1, "set", 2, 5, 0), ann(1, 2), ann(1, 3)])
    # removals
    sc("remove-follower", 3, grow(3) + [cmd(1, "remove", 3), ann(1, 2), ann(1, 3), VOTE])
    sc("remove-leader-from-follower", 3, grow(3) + [cmd(2, "remove", 1), ann(2, 3), ann(2, 1), VOTE, VOTE])
    sc("remove-unreachable-then-it-returns", 3, grow(3) + [brk(1, 3), brk(3, 1), cmd(1, "remove", 3), ann(1, 2), VOTE, up(3, 1), up(1, 3), VOTE])
    sc("remove-and-add-again", 3, grow(3) + [cmd(1, "remove", 3), ann(1, 2), ann(1, 3), VOTE, cmd(1, "add", 3), ann(1, 2), ann(1, 3), VOTE])
    # leader changes
    sc("quit-leader", 3, grow(3) + [cmd(1, "quit"), ann(1, 2), ann(1, 3), VOTE, VOTE])
    sc("quit-leader-of-two", 2, grow(2) + [cmd(1, "quit"), ann(1, 2), VOTE, VOTE])
    sc("crash-leader-restart", 3, grow(3) + [{"op": "crash", "n": 1}, VOTE, VOTE, {"op": "restart", "n": 1}, VOTE])
    sc("crash-follower-command-restart", 3, grow(3) + [{"op": "crash", "n": 3}, cmd(1, "set", 2, 2, 0), ann(1, 2), {"op": "restart", "n": 3}, VOTE])
    sc("leader-loses-majority", 3, grow(3) + [brk(1, 2), brk(1, 3), VOTE, VOTE, up(1, 2), up(1, 3), VOTE])
    sc("election-with-stale-candidate", 3, grow(3) + [brk(1, 3), cmd(1, "set", 2, 2, 0), ann(1, 2), cmd(1, "set", 2, 3, 0), ann(1, 2),
                                                       {"op": "crash", "n": 1}, VOTE, VOTE, VOTE])
    sc("restart-all", 3, grow(3) + [{"op": "crash", "n": k} for k in (1, 2, 3)] + [{"op": "restart", "n": k} for k in (3, 2, 1)] + [VOTE, VOTE])
    sc("poll-after-leader-change", 3, grow(3) + [cmd(1, "quit"), ann(1, 2), VOTE, {"op": "poll", "i": 3, "j": 1}, {"op": "poll", "i": 3, "j": 2}, VOTE])
    return out

def seeded(seed, count):
    rng = random.Random(seed * 7919 + 11)
    out = []
    for k in range(count):
        n = rng.choice([2, 3, 3, 3, 4, 4, 5])
        fam = k % 4
        r = {"seed": rng.randrange(1 << 30), "maxsteps": rng.choice([25, 40, 60]), "cmds": rng.choice([3, 5, 7, 9]),
             "flaps": [0, 2, 4, 6][fam] if fam else 0, "crashes": rng.choice([0, 0, 1, 2]) if fam >= 2 else 0,
             "pbreak": rng.choice([0.0, 0.1, 0.25]), "phold": rng.choice([0.0, 0.3, 0.6])}
        out.append({"name": f"rnd-{seed}-{k}", "n": n, "rand": r, "heal": 30})
    return out

def from_behaviour(name, n, hist, heal=30):
    """a history printed by MembershipSim / a CEX of Membership -> scenario (the `vote` step of the model names candidate and
    winner; the driver only fires the retry timers: who wins is the real election's business)"""
    steps = []
    for h in hist:
        op = h["op"]
        if op == "cmd":
            steps.append(cmd(h["n"], h["k"], h.get("x", 0), h.get("w", 0), h.get("a", 0)))
        elif op in ("ann", "brk", "up", "poll"):
            steps.append({"op": op, "i": h["i"], "j": h["j"]})
        elif op == "vote":
            steps.append(VOTE)
        elif op in ("crash", "restart"):
            steps.append({"op": op, "n": h["n"]})
    return {"name": name, "n": n, "steps": steps, "heal": heal}

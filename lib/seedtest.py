#!/usr/bin/env python3
"""seedtest.py confirm <tag>   : confirm a seeded change from /tmp/seedwork/<tag>_out in a scratch worktree and archive it to /verif/seeded/<tag>/
   seedtest.py run <tag> [checks...] : apply /verif/seeded/<tag>/patch.diff to /repo, run the quick checks, revert"""
import json, os, shutil, subprocess, sys, time, glob
ENV = dict(os.environ, GOFLAGS="-mod=mod", GOPROXY="off", GOSUMDB="off", GOTOOLCHAIN="local")
def sh(cmd, cwd=None, timeout=1200):
    p = subprocess.run(cmd, shell=True, cwd=cwd, env=ENV, capture_output=True, text=True, timeout=timeout)
    return p.returncode, p.stdout + p.stderr
def apply_patch(wt, patch):
    rc, out = sh(f"git apply --whitespace=nowarn {patch}", cwd=wt)
    if rc != 0:
        rc, out = sh(f"patch -p1 --fuzz=3 < {patch}", cwd=wt)
    return rc, out
def confirm(tag):
    src = f"/tmp/seedwork/{tag}_out"
    wt = f"/tmp/seedconf_{tag}"
    sh(f"git -C /repo worktree remove --force {wt}")
    rc, out = sh(f"git -C /repo worktree add --detach {wt} HEAD")
    assert rc == 0, out
    res = {"tag": tag}
    try:
        demo_files = [f for f in glob.glob(src + "/*.go")]
        demo_cmd = open(src + "/demo_cmd.txt").read()
        # pick the go test command line
        cmdline = None
        for ln in demo_cmd.splitlines():
            ln = ln.strip().strip("`")
            if "go test" in ln and not ln.startswith("#"):
                ln = ln[ln.index("go test"):]
            if ln.startswith("go test") or ln.startswith("go run"):
                cmdline = ln
                break
        res["demo_cmd"] = cmdline
        def place():
            for f in demo_files:
                # demo goes into server/ unless its package clause says otherwise
                pkg = "server"
                head = open(f).read(2000)
                if "package protocol" in head: pkg = "protocol"
                if "package client" in head: pkg = "client"
                if "package main" in head: pkg = "."
                shutil.copy(f, os.path.join(wt, pkg, os.path.basename(f)))
        place()
        rc0, out0 = sh(cmdline, cwd=wt)
        res["demo_passes_without_patch"] = rc0 == 0
        rc, out = apply_patch(wt, src + "/patch.diff")
        res["patch_applies"] = rc == 0
        if rc != 0:
            res["apply_out"] = out[-1500:]
            return res
        rc, out = sh("go build ./...", cwd=wt)
        res["builds"] = rc == 0
        rc1, out1 = sh(cmdline, cwd=wt)
        res["demo_fails_with_patch"] = rc1 != 0
        res["demo_out_with_patch"] = out1[-1200:]
        for f in demo_files:
            for pkg in ("server", "protocol", "client", "."):
                q = os.path.join(wt, pkg, os.path.basename(f))
                if os.path.exists(q): os.remove(q)
        rc2, out2 = sh("go test -vet=off -count=1 ./protocol/... ./server/...", cwd=wt)
        res["suite_passes_with_patch"] = rc2 == 0
        if rc2 != 0: res["suite_out"] = out2[-1500:]
        ok = all(res.get(k) for k in ("demo_passes_without_patch", "patch_applies", "builds", "demo_fails_with_patch", "suite_passes_with_patch"))
        res["confirmed"] = ok
        if ok:
            dst = f"/verif/seeded/{tag}"
            os.makedirs(dst, exist_ok=True)
            # re-diff against current HEAD so it applies cleanly
            rc, diff = sh("git diff", cwd=wt)
            open(dst + "/patch.diff", "w").write(diff)
            for f in demo_files: shutil.copy(f, dst)
            shutil.copy(src + "/demo_cmd.txt", dst)
            if os.path.exists(src + "/notes.md"): shutil.copy(src + "/notes.md", dst)
            meta = {"id": tag, "property": tag[:3], "demo_cmd": cmdline, "confirmed_at_repo_head": sh("git -C /repo rev-parse --short HEAD")[1].strip(),
                    "ran": ["demo without patch: pass", "patch applies + go build: ok", "demo with patch: FAIL", "existing suite with patch: pass"],
                    "needs": "see notes.md"}
            json.dump(meta, open(dst + "/meta.json", "w"), indent=1)
        return res
    finally:
        sh(f"git -C /repo worktree remove --force {wt}")
        shutil.rmtree(wt, ignore_errors=True)
def run(tag, checks, tier="quick"):
    """apply the seeded change, run the checks, undo.  Default: on /repo itself (git apply / git checkout -- .).
    With SEED_WT=1 the change is applied in a scratch worktree and the checks run with VERIF_REPO pointing at it
    (lets several seeds run while /repo is in use); evidence goes to a scratch directory either way."""
    patch = f"/verif/seeded/{tag}/patch.diff"
    use_wt = os.environ.get("SEED_WT") == "1"
    evdir = f"/tmp/seedev_{tag}"
    shutil.rmtree(evdir, ignore_errors=True)
    env_prefix = f"VERIF_EVIDENCE_DIR={evdir} "
    if use_wt:
        wt = f"/tmp/seedrun_{tag}"
        sh(f"git -C /repo worktree remove --force {wt}")
        rc, out = sh(f"git -C /repo worktree add --detach {wt} HEAD")
        assert rc == 0, out
        rc, out = sh(f"git apply --whitespace=nowarn {patch}", cwd=wt)
        assert rc == 0, out
        env_prefix += f"VERIF_REPO={wt} "
    else:
        rc, out = sh("git -C /repo status --porcelain")
        assert out.strip() == "", "repo dirty: " + out
        rc, out = sh(f"git -C /repo apply --whitespace=nowarn {patch}")
        assert rc == 0, out
    results = {}
    try:
        for c in checks:
            t = time.time()
            rc, out = sh(f"{env_prefix}bin/check {c} {tier}", cwd="/verif", timeout=7200)
            results[c] = {"rc": rc, "wall": round(time.time() - t, 1), "lines": ([l for l in out.splitlines() if l.startswith(("VIOLATION", "INFRA", "  {"))][:6] + [l[:160] for l in out.splitlines() if l.startswith("KNOWN")][:4]),
                          "tail": out[-2500:] if rc not in (0, 1) else ""}
    finally:
        if use_wt:
            sh(f"git -C /repo worktree remove --force {wt}")
            shutil.rmtree(wt, ignore_errors=True)
        else:
            sh("git -C /repo checkout -- .")
        shutil.rmtree(evdir, ignore_errors=True)
    # catch record kept with the seed
    recp = f"/verif/seeded/{tag}/caught.json"
    rec = json.load(open(recp)) if os.path.exists(recp) else {}
    head = sh("git -C /repo rev-parse --short HEAD")[1].strip()
    for c, r in results.items():
        viol = [l for l in r["lines"] if l.startswith("VIOLATION")]
        codes = []
        for l in r["lines"]:
            if l.startswith("  {"):
                try: codes.append(json.loads(l.strip()).get("code"))
                except Exception: pass
        rec[f"{c}/{tier}/seed{os.environ.get('VERIF_SEED', '1')}"] = {"caught": r["rc"] == 1 and bool(viol), "rc": r["rc"], "wall_s": r["wall"],
                                                               "codes": sorted(set(x for x in codes if x))[:4], "repo_head": head}
    json.dump(rec, open(recp, "w"), indent=1, sort_keys=True)
    return results
if __name__ == "__main__":
    if sys.argv[1] == "confirm":
        print(json.dumps(confirm(sys.argv[2]), indent=1))
    else:
        tier = os.environ.get("TIER", "quick")
        print(json.dumps(run(sys.argv[2], sys.argv[3:] or [sys.argv[2][:3]], tier), indent=1))

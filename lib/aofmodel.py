"""TLC on spec/AofLog.tla for the persistence family (used by checks/aoffam.py).

  positive configs   exhaustive check of the design invariants of one property with the switches of the
                     deviations that concern it set to 'repaired' (or the constants chosen so that the deviation
                     is out of reach) - "the design is right within the constants"
  refutation configs the same invariants with a switch as the code is: TLC MUST refute them; the printed
                     counterexample (driver steps) becomes a directed history for the real code
  simulation         random walks of AofLogSim -> histories for engine F
"""
import json, os, random
import vtlc, engine, gen_aof
from vbuild import VERIF, InfraError

BASE = dict(keys="1", lids="1, 2", counts="0", rcounts="0", exps="2, 20", classes='"imm", "dflt", "never"', units='"s"', vals="0, 1", delay=1,
            rewriteat=3, maxops=4, maxnow=5, maxoutage=4, crash="FALSE", admin="FALSE", a2="TRUE", a2b="TRUE", a3="TRUE", a11="FALSE", a26="FALSE", invs="",
            updexps="", eqlater=1, eqearlier=1, vfirst="FALSE", leftover="FALSE", tmpdat="FALSE")

def cfg_text(**kw):
    with open(os.path.join(VERIF, "spec", "mc", "AofLog_base.cfg")) as fh:
        t = fh.read()
    d = dict(BASE)
    d.update(kw)
    return t % d

# per property: (positive configs, refutation configs)
def plans(prop, quick):
    p, n, _ = plans3(prop, quick)
    return p, n

def plans3(prop, quick):
    """(positive configs, refutations of the code's deviations, refutations of model MUTATIONS - defect classes the code does not have)"""
    ops = 3 if quick else 4
    mut = []
    if prop == "C07":
        pos = [("single-holder keys, no re-entrancy, delay 1", dict(maxops=ops + 1, invs="Inv_C07_Replay Inv_C07_Discipline")),
               ("minute unit (3 s), values", dict(maxops=ops, units='"s", "m"', exps="1, 7", vals="0, 1" if quick else "0, 1, 2", classes='"imm", "dflt"', invs="Inv_C07_Replay Inv_C07_Discipline"))]
        if not quick:
            pos.append(("two keys", dict(keys="1, 2", lids="1", maxops=5, invs="Inv_C07_Replay Inv_C07_Discipline")))
        neg = [("A11", "delay 3: persisted only at wheel visits", dict(delay=3, invs="Inv_C07_Discipline")),
               ("A26", "two holders of a key: delay inherited from the oldest", dict(counts="0, 1", maxops=3, invs="Inv_C07_Discipline")),
               ("A27", "re-entrant holds: expired records skipped one by one", dict(rcounts="0, 1", maxops=3, classes='"imm"', invs="Inv_C07_Replay"))]
    elif prop == "C08":
        pos = [("torn tail repaired: every crash image of the last batch + second epoch", dict(maxops=ops, crash="TRUE", a2="TRUE", invs="Inv_C08_Prefix Inv_C07_Replay"))]
        # A2 (torn record / header) is repaired in the code (7883626): A2Fixed = TRUE everywhere; what is left is A2b
        mut = [("ValueFirst", "the value of a request is written before its record: a stop in between leaves an orphan frame, values appended after the restart shift",
                dict(maxops=3, crash="TRUE", a2="TRUE", a2b="TRUE", vfirst="TRUE", classes='"imm"', vals="1, 2", lids="1", invs="Inv_C07_Replay"))]
        neg = [("A2b", "a whole record whose value frame was never written stays on reopen (second epoch)",
                dict(maxops=3, crash="TRUE", a2="TRUE", a2b="FALSE", classes='"imm"', vals="1", invs="Inv_C07_Replay"))]
    else:
        pos = [("publish-then-remove protocol, crash after every step, admin + threshold triggers", dict(maxops=ops + (0 if quick else 1), admin="TRUE", a3="TRUE", invs="Inv_C16_Steps Inv_C07_Replay")),
               ("value-less deadline updates by holders (lengthening), seconds and minutes, compaction filter with the code's tolerance",
                dict(maxops=ops + (0 if quick else 1), admin="TRUE", a3="TRUE", units='"s", "m"', exps="2, 7", updexps="7", lids="1", classes='"imm", "dflt"', vals="0",
                     invs="Inv_C16_Steps Inv_C07_Replay"))]
        neg = [("A3", "inputs removed before the rename; two renames", dict(maxops=3, admin="TRUE", a3="FALSE", classes='"imm"', invs="Inv_C16_Steps"))]
        pos.append(("a compaction that dies while / after writing rewrite.aof.tmp; the restart's start-up compaction starts on the leftover files (both appended to)",
                    dict(maxops=3, admin="TRUE", a3="TRUE", leftover="TRUE", keys="1, 2", lids="1", classes='"imm"', vals="1, 2", exps="20", invs="Inv_C16_Steps Inv_C07_Replay")))
        mut = [("TmpDatKept", "a compaction that finds a leftover rewrite.aof.tmp starts the record file afresh but keeps appending to the leftover value file",
                dict(maxops=3, admin="TRUE", a3="TRUE", leftover="TRUE", tmpdat="TRUE", keys="1, 2", lids="1", classes='"imm"', vals="1, 2", exps="20", invs="Inv_C16_Steps Inv_C07_Replay")),
               ("EqLater0", "CheckLockedEqual one second too strict on the later side: the compaction drops the current update record of a live hold",
                dict(maxops=3, admin="TRUE", a3="TRUE", eqlater=0, exps="2, 20", updexps="20", lids="1", classes='"imm"', vals="0", invs="Inv_C16_Steps"))]
    return pos, neg, mut

def parse_cex(out):
    res = []
    for ln in out.splitlines():
        ln = ln.strip()
        if ln.startswith('"CEX '):
            try:
                res.append(json.loads(json.loads(ln)[4:]))
            except Exception:
                pass
    res.sort(key=lambda c: (len(c["hist"]), json.dumps(c["hist"], sort_keys=True)))
    return res

CLS = {"imm": 0x0100, "dflt": 0, "never": 0x0200}
VAL = {0: "", 1: gen_aof.frame(b"v1"), 2: gen_aof.frame(b"v2-longer-value")}

def hist_to_steps(hist):
    steps, ticks = [], 0
    for h in hist:
        op = h["op"]
        if op == "lock":
            steps.append({"op": "lock", "conn": 1, "db": 0, "key": h["key"], "lid": h["lid"], "flag": 0, "tf": 0,
                          "ef": CLS[h["cls"]] | (0x40 if h["unit"] == "m" else 0), "to": 0, "ex": h["ex"], "cnt": h["cnt"], "rc": h["rc"],
                          "data": VAL[h["val"]], "nodup": True})
        elif op == "update":
            steps.append({"op": "lock", "conn": 1, "db": 0, "key": h["key"], "lid": h["lid"], "flag": 0x02, "tf": 0,
                          "ef": CLS[h["cls"]] | (0x40 if h["unit"] == "m" else 0), "to": 0, "ex": h["ex"], "cnt": h["cnt"], "rc": h["rc"],
                          "data": "", "nodup": True})
        elif op == "unlock":
            steps.append({"op": "unlock", "conn": 1, "db": 0, "key": h["key"], "lid": h["lid"], "flag": 0, "tf": 0, "ef": 0, "to": 0, "ex": 0,
                          "cnt": 0, "rc": h["rc"], "data": ""})
        elif op == "tick":
            ticks += 1
            if steps and steps[-1]["op"] == "tick":
                steps[-1]["n"] += 1
            else:
                steps.append({"op": "tick", "n": 1, "order": "te"})
        elif op == "rewrite":
            steps.append({"op": "rewrite", "during": []})
    return steps, ticks

E2 = [{"op": "lock", "conn": 1, "db": 0, "key": 90, "lid": 1, "flag": 0, "tf": 0, "ef": 0x0100, "to": 0, "ex": 300, "cnt": 0, "rc": 0, "data": gen_aof.frame(b"epoch2"), "nodup": True},
      {"op": "lock", "conn": 1, "db": 0, "key": 91, "lid": 2, "flag": 0, "tf": 0, "ef": 0x0100, "to": 0, "ex": 300, "cnt": 0, "rc": 0, "data": "", "nodup": True}]

def cex_to_scenario(prop, tag, cex, n, delay):
    hist = cex["hist"]
    cut = [i for i, h in enumerate(hist) if h["op"] == "crash"]
    first = hist[:cut[0]] if cut else hist
    rest = hist[cut[0] + 1:] if cut else []
    steps, ticks = hist_to_steps(first)
    outage = max(2, cex.get("at", cex["now"]) - cex["now"])
    cfg = {"bufsize": 64, "rewritesize": 12 + 64 * 3}
    if delay != 1:
        cfg["aoftime"] = delay
    sc = {"name": f"cex-{prop}-{tag}-{n}", "kind": "cex", "cfg": cfg, "back": ticks + outage, "imgcpt": prop == "C16", "props": [prop],
          "from_model": {"invariant": cex["inv"], "switch": tag}}
    if prop == "C07":
        steps.append({"op": "stop"})
    elif prop == "C08":
        e2, _ = hist_to_steps(rest)
        steps.append({"op": "stop", "cuts": "tail", "e2mod": 3, "e2off": 0, "epoch2": (e2 or []) + E2, "child": tag == "ValueFirst"})
        gen_aof.longlived(steps)
        if tag == "ValueFirst":
            sc["preflush"] = 3      # the crash of the counterexample sits between the value and its record: images at aof.flush.enter
    else:
        if tag == "TmpDatKept":
            sc["leftover"] = True       # the counterexample's crash sits inside the compaction: images with partial / complete tmp files
            gen_aof.longlived(steps)
        if not any(s["op"] == "rewrite" for s in steps):
            steps.append({"op": "rewrite", "during": []})
        steps.append({"op": "stop"})
    # model expiries are a few seconds: keep them, but holds meant to survive get the long value of the model (20 s)
    sc["steps"] = steps
    return sc

def behaviours(seed, n, prop, wd):
    """TLC -simulate on AofLogSim -> engine-F histories of the kind the property needs."""
    with open(os.path.join(VERIF, "spec", "sim", "AofLog_sim.cfg")) as fh:
        t = fh.read()
    rng = random.Random(seed * 77 + 5)
    out = []
    for part, (ra, mo) in enumerate([(3, 10), (5, 14), (40, 12)]):
        simc = {"rewriteat": ra, "maxops": mo, "updexps": "", "moreturns": ""}
        if prop == "C16":
            # deadline updates of holders, then compactions (admin trigger, size threshold, start-up)
            simc.update(updexps="30, 60, 200, 300", moreturns=', "update", "update2"')
        r = vtlc.run_tlc(os.path.join(VERIF, "spec"), "AofLogSim", t % simc, os.path.join(wd, f"sim{part}"), workers=1,
                         timeout=600, simulate=f"num={max(4, n // 3)}", depth=80, seed=seed + part)
        hs = set()
        for ln in r["out"].splitlines():
            ln = ln.strip()
            if ln.startswith('"BEHAVIOUR '):
                try:
                    hs.add(json.loads(ln)[10:])
                except Exception:
                    pass
        if "Error:" in r["out"] and not hs:
            raise InfraError("behaviour generation failed:\n" + r["out"][-2000:])
        for h in sorted(hs):
            out.append((ra, json.loads(h)))
    rng.shuffle(out)
    out = out[:n]
    scs = []
    for i, (ra, hist) in enumerate(out):
        steps, ticks = hist_to_steps(hist)
        cfg = {"bufsize": rng.choice([64, 128, 4096]), "rewritesize": 12 + 64 * ra}
        sc = {"name": f"tlc-{prop}-{seed}-{i}", "kind": "tlc", "cfg": cfg, "back": ticks + rng.choice([2, 5, 15, 40]), "imgcpt": prop == "C16"}
        if prop == "C07":
            pos = sorted(rng.sample(range(1, len(steps) + 1), min(2, len(steps))))
            st2 = []
            for j, s in enumerate(steps):
                st2.append(s)
                if j + 1 in pos:
                    st2.append({"op": "stop"})
            st2.append({"op": "restart", "hard": rng.random() < 0.5, "epoch2": E2 + [{"op": "stop"}]})
            steps = st2
        elif prop == "C08":
            steps = [s for s in steps if s["op"] != "rewrite"]
            steps.append({"op": "stop", "cuts": "tail", "e2mod": 4, "e2off": rng.randint(0, 3), "epoch2": E2})
            gen_aof.longlived(steps)      # crash images are the subject: no hold ends during the (wall-clock) recovery phase
        else:
            steps.append({"op": "restart", "hard": rng.random() < 0.5, "cpt": "held", "epoch2": E2 + [{"op": "stop"}]})
        sc["steps"] = steps
        scs.append(sc)
    return scs

# ------------------------------------------------------------------ spec/AofQueue.tla: value frames handed to the log by reference

QSYM = {11: b"a", 12: b"xyz", 13: b"0123456789abcdefghijklmnopqrstuvwxyzABCD"}

def qhist_to_steps(hist, prop, rel=""):
    """AofQueue behaviour -> engine-F steps: consecutive operations = one burst (the channel goroutines held back), drain = the gate opens."""
    steps, cur, held = [], [], set()
    for h in hist:
        if h["op"] == "drain":
            if cur:
                steps.append({"op": "burst", "reqs": cur, "rel": rel})
                cur = []
            continue
        k = 60 + h["key"]
        typ = gen_aof.T_SET if h["op"] == "set" else gen_aof.T_APPEND
        cur.append({"op": "lock", "conn": 1, "db": 0, "key": k, "lid": 1, "flag": 0x02 if k in held else 0, "tf": 0, "ef": 0x0100, "to": 0, "ex": 1800,
                    "cnt": 0, "rc": 0, "data": gen_aof.frame(QSYM[h["sym"]], typ), "nodup": True})
        held.add(k)
    if cur:
        steps.append({"op": "burst", "reqs": cur, "rel": rel})
    if prop == "C07":
        steps += [{"op": "tick", "n": 2, "order": "te"}, {"op": "stop", "child": True}]
    else:
        steps.append({"op": "stop", "cuts": "tail", "e2mod": 0, "e2off": 0, "epoch2": [], "child": True})
    return steps

def queue_model(prop, quick, seed, wd):
    """Exhaustive check of AofQueue as the code is (FreshFrame), refutation of the in-place APPEND, simulated bursts."""
    with open(os.path.join(VERIF, "spec", "mc", "AofQueue_base.cfg")) as fh:
        t = fh.read()
    consts = dict(keys="1, 2", syms="11, 12", maxops=5 if quick else 6, maxqueue=4 if quick else 5, invs="Inv_FramesAreRecords Inv_CrashPrefix")
    r = vtlc.run_tlc(os.path.join(VERIF, "spec"), "AofQueue", t % dict(consts, fresh="TRUE"), os.path.join(wd, "mcq_pos"), workers=engine.NCPU, timeout=600)
    st = vtlc.parse_stats(r["out"])
    if st is None or "No error has been found" not in r["out"]:
        raise InfraError("AofQueue exhaustive check (every value operation builds a fresh frame) did not complete cleanly (design model, not a verdict on the code):\n" + r["out"][-3000:])
    pos = {"config": "value frames handed to the log by reference, every value operation builds a fresh frame (as the code does)",
           "invariants": "FramesAreRecords CrashPrefix", "distinct_states": st["distinct"], "states_generated": st["generated"], "wall_s": round(r["wall"], 1),
           "constants": {k: v for k, v in consts.items() if k != "invs"}}
    r2 = vtlc.run_tlc(os.path.join(VERIF, "spec"), "AofQueue", t % dict(consts, fresh="FALSE", maxops=4), os.path.join(wd, "mcq_neg"), workers=4, timeout=600)
    cex = parse_cex(r2["out"])
    if "is violated" not in r2["out"] or not cex:
        raise InfraError("AofQueue with APPEND extending the live buffer in place was NOT refuted by TLC: the model no longer exhibits the aliasing:\n" + r2["out"][-2500:])
    sc = {"name": f"cex-{prop}-InPlaceAppend-0", "kind": "cex", "cfg": {"bufsize": 64}, "back": 6, "imgcpt": False, "props": [prop],
          "from_model": {"invariant": cex[0]["inv"], "switch": "FreshFrame"}, "steps": qhist_to_steps(cex[0]["hist"], prop)}
    refut = {"switch": "FreshFrame=FALSE", "what": "APPEND extends the live value buffer in place while an earlier record still references it",
             "invariant": cex[0]["inv"], "counterexample_steps": len(cex[0]["hist"]), "scenario": sc["name"]}
    # simulated bursts
    with open(os.path.join(VERIF, "spec", "sim", "AofQueue_sim.cfg")) as fh:
        ts = fh.read()
    n = 6 if quick else 60
    rng = random.Random(seed * 131 + 7)
    hs = set()
    for part, (mo, mq) in enumerate([(6, 5), (10, 8)]):
        rs = vtlc.run_tlc(os.path.join(VERIF, "spec"), "AofQueueSim", ts % {"maxops": mo, "maxqueue": mq}, os.path.join(wd, f"simq{part}"), workers=1,
                          timeout=300, simulate=f"num={max(4, n)}", depth=60, seed=seed + 40 + part)
        for ln in rs["out"].splitlines():
            ln = ln.strip()
            if ln.startswith('"BEHAVIOUR '):
                try:
                    hs.add(json.loads(ln)[10:])
                except Exception:
                    pass
        if "Error:" in rs["out"] and not hs:
            raise InfraError("burst generation (AofQueueSim) failed:\n" + rs["out"][-2000:])
    hl = sorted(hs)
    rng.shuffle(hl)
    beh = []
    for i, h in enumerate(hl[:n]):
        beh.append({"name": f"tlcq-{prop}-{seed}-{i}", "kind": "tlc", "cfg": {"bufsize": rng.choice([64, 128, 4096])}, "back": rng.choice([6, 12]), "imgcpt": False,
                    "steps": qhist_to_steps(json.loads(h), prop, rel=rng.choice(["", "rev"]))})
    return {"states": st["distinct"], "transitions": st["generated"], "positive": pos, "refutation": refut,
            "refuted": {"switch": "FreshFrame=FALSE", "config": refut["what"], "invariant": cex[0]["inv"], "wall_s": round(r2["wall"], 1)},
            "scenarios": [sc] + beh, "nbeh": len(beh)}

def run(prop, tier, seed, wd):
    quick = tier == "quick"
    pos, neg, mut = plans3(prop, quick)
    states = trans = 0
    info = {"module": "spec/AofLog.tla (+ spec/AofReplay.tla)", "positive": [], "refuted_as_the_code_is": []}
    for i, (what, kw) in enumerate(pos):
        r = vtlc.run_tlc(os.path.join(VERIF, "spec"), "AofLog", cfg_text(**kw), os.path.join(wd, f"mc_pos{i}"), workers=engine.NCPU,
                         timeout=600 if quick else 2400)
        st = vtlc.parse_stats(r["out"])
        if st is None or "No error has been found" not in r["out"]:
            raise InfraError(f"AofLog exhaustive check ({what}) did not complete cleanly (design model, not a verdict on the code):\n" + r["out"][-3000:])
        states += st["distinct"]
        trans += st["generated"]
        info["positive"].append({"config": what, "invariants": kw["invs"].replace("Inv_", ""), "distinct_states": st["distinct"],
                                 "states_generated": st["generated"], "wall_s": round(r["wall"], 1),
                                 "constants": {k: v for k, v in dict(BASE, **kw).items() if k != "invs"}})
    scenarios, refut = [], []
    for i, (tag, what, kw) in enumerate(neg):
        r = vtlc.run_tlc(os.path.join(VERIF, "spec"), "AofLog", cfg_text(**kw), os.path.join(wd, f"mc_neg{i}"), workers=4, timeout=600)
        cex = parse_cex(r["out"])
        if "is violated" not in r["out"] or not cex:
            raise InfraError(f"AofLog with the deviation {tag} as the code has it ({what}) was NOT refuted by TLC: the model no longer exhibits it:\n" + r["out"][-2500:])
        sc = cex_to_scenario(prop, tag, cex[0], i, dict(BASE, **kw)["delay"])
        scenarios.append(sc)
        refut.append({"switch": tag, "what": what, "invariant": cex[0]["inv"], "counterexample_steps": len(cex[0]["hist"]), "scenario": sc["name"]})
        info["refuted_as_the_code_is"].append({"switch": tag, "config": what, "invariant": cex[0]["inv"], "wall_s": round(r["wall"], 1)})
    info["refuted_mutations"] = []
    for i, (tag, what, kw) in enumerate(mut):
        r = vtlc.run_tlc(os.path.join(VERIF, "spec"), "AofLog", cfg_text(**kw), os.path.join(wd, f"mc_mut{i}"), workers=4, timeout=600)
        cex = parse_cex(r["out"])
        if "is violated" not in r["out"] or not cex:
            raise InfraError(f"AofLog with the mutation {tag} ({what}) was NOT refuted by TLC: the model does not see this class of defect:\n" + r["out"][-2500:])
        sc = cex_to_scenario(prop, tag, cex[0], 100 + i, dict(BASE, **kw)["delay"])
        scenarios.append(sc)
        refut.append({"switch": tag + " (mutation of the model, not the code)", "what": what, "invariant": cex[0]["inv"], "counterexample_steps": len(cex[0]["hist"]), "scenario": sc["name"]})
        info["refuted_mutations"].append({"mutation": tag, "config": what, "invariant": cex[0]["inv"], "wall_s": round(r["wall"], 1)})
    beh = behaviours(seed, 18 if quick else 150, prop, wd)
    info["behaviours"] = {"module": "spec/AofLogSim.tla", "generated": len(beh)}
    if prop in ("C07", "C08"):
        q = queue_model(prop, quick, seed, wd)
        states += q["states"]
        trans += q["transitions"]
        info["queue_model"] = {"module": "spec/AofQueue.tla", "positive": q["positive"], "refuted_as_mutated": q["refuted"],
                               "behaviours": {"module": "spec/AofQueueSim.tla", "generated": q["nbeh"]}}
        scenarios += q["scenarios"]
        refut.append(q["refutation"])
    return {"states": states, "transitions": trans, "exhaustive": True, "info": info, "scenarios": scenarios + beh, "refutations": refut}

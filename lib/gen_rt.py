"""Real-time histories (engine RT): millisecond timeouts / expiries, which the server drives with the wall clock.
Each history lasts a few seconds; the final sleep outlasts every timer so eventual firing can be judged."""
import random

def gen_rt(seed, idx):
    rng = random.Random(seed * 69069 + idx)
    kind = idx % 4
    steps = []
    maxms = 0
    maxto = maxex = 0
    if kind in (0, 1):
        if rng.random() < 0.5:
            # hand-over of the millisecond wheel (3000 slots) to the second ring: a waiter / a hold with a millisecond timer of
            # 3 s and more is visited by the millisecond sweeper after (timer mod 3000) ms and re-queued on the second wheel.
            # Here the request is ANSWERED (granted / cancelled / released) before that visit: its entry is a tombstone when
            # the sweeper meets it, and nothing more may be heard of it at the original deadline.
            visit = rng.choice([120, 250, 400, 700])
            T = 3000 + visit + rng.choice([0, 0, 3000])
            if rng.random() < 0.7:
                steps.append({"op": "lock", "conn": 20, "key": 3, "lid": 30, "to": 0, "ex": rng.choice([5, 8]), "cnt": 0})
                steps.append({"op": "lock", "conn": 21, "key": 3, "lid": 31, "tf": 0x0400, "ef": rng.choice([0, 0x0400]), "to": T, "ex": rng.choice([9, 12]), "cnt": 0, "nodup": True})
                steps.append({"op": "sleep", "n": rng.choice([5, 20, 60])})
                if rng.random() < 0.7:
                    steps.append({"op": "unlock", "conn": 20, "key": 3, "lid": 30})            # the waiter is granted now
                else:
                    steps.append({"op": "unlock", "conn": 21, "key": 3, "lid": 31, "flag": 0x02})   # cancel-wait
                maxto = max(maxto, T)
            else:
                steps.append({"op": "lock", "conn": 20, "key": 3, "lid": 30, "ef": 0x0400, "to": 0, "ex": T, "cnt": 0})
                steps.append({"op": "sleep", "n": rng.choice([5, 20, 60])})
                steps.append({"op": "unlock", "conn": 20, "key": 3, "lid": 30})
                steps.append({"op": "lock", "conn": 22, "key": 3, "lid": 32, "to": 0, "ex": rng.choice([9, 12]), "cnt": 0})   # must survive the old deadline
                maxex = max(maxex, T)
            maxms = max(maxms, T)
        # ms holds and ms waiters on a few keys
        for _ in range(rng.randint(4, 9)):
            key = rng.choice([1, 2]); lid = rng.choice([1, 2, 3, 4])
            r = rng.random()
            if r < 0.6:
                ex = rng.choice([5, 20, 50, 120, 400, 900]); to = rng.choice([0, 10, 60, 300, 800])
                if rng.random() < 0.15:
                    # the length of the millisecond wheel (3000 slots) and its multiples: hand-over to the second ring
                    ex = rng.choice([2999, 3000, 3001, 6000])
                elif rng.random() < 0.1:
                    to = rng.choice([2999, 3000, 3001])
                steps.append({"op": "lock", "conn": lid, "key": key, "lid": lid, "tf": 0x0400, "ef": 0x0400, "to": to, "ex": ex,
                              "cnt": rng.choice([0, 0, 1]), "nodup": True})
                maxms = max(maxms, ex + to)
                maxto, maxex = max(maxto, to), max(maxex, ex)
            elif r < 0.8:
                steps.append({"op": "unlock", "conn": lid, "key": key, "lid": lid})
            else:
                steps.append({"op": "sleep", "n": rng.choice([5, 30, 100, 250])})
    elif kind == 2:
        # mixed: second-granularity hold, ms waiters behind it
        steps.append({"op": "lock", "conn": 1, "key": 1, "lid": 1, "to": 0, "ex": 1, "cnt": 0})
        for i in range(rng.randint(2, 5)):
            to = rng.choice([20, 100, 500, 1500, 2500])
            steps.append({"op": "lock", "conn": 2 + i, "key": 1, "lid": 10 + i, "tf": 0x0400, "ef": 0x0400, "to": to, "ex": rng.choice([30, 200]), "cnt": 0, "nodup": True})
            maxms = max(maxms, to + 2300)
        # the two timers of one request in DIFFERENT units (each wheel is chosen by the unit flag of its own field)
        for i in range(rng.randint(1, 3)):
            if rng.random() < 0.5:
                steps.append({"op": "lock", "conn": 7 + i, "key": 1, "lid": 20 + i, "tf": 0, "ef": 0x0400, "to": rng.choice([1, 2]), "ex": rng.choice([200, 900]), "cnt": 0, "nodup": True})
                maxms = max(maxms, 2000 + 2300)
            else:
                steps.append({"op": "lock", "conn": 7 + i, "key": 1, "lid": 20 + i, "tf": 0x0400, "ef": 0, "to": rng.choice([300, 800, 1500]), "ex": 1, "cnt": 0, "nodup": True})
                maxms = max(maxms, 1500 + 2300)
    else:
        # C10: a persisted ms hold on a node that stops being the leader must not be expired by its own clock
        ex = rng.choice([50, 200, 600, 1500])
        steps.append({"op": "lock", "conn": 1, "key": 1, "lid": 1, "ef": 0x0400 | 0x0100, "to": 0, "ex": ex, "cnt": 0})
        steps.append({"op": "lock", "conn": 2, "key": 2, "lid": 2, "ef": 0x0400, "to": 0, "ex": ex, "cnt": 0})
        steps.append({"op": "sleep", "n": 20})
        steps.append({"op": "status", "status": rng.choice([2, 3, 4, 5])})
        steps.append({"op": "lock", "conn": 3, "key": 1, "lid": 3, "tf": 0x0400, "to": 50, "ex": 100, "cnt": 0})
        maxms = max(maxms, ex)
        steps.append({"op": "sleep", "n": maxms + 400})
        steps.append({"op": "status", "status": 1})
        steps.append({"op": "unlock", "conn": 1, "key": 1, "lid": 1})
        steps.append({"op": "unlock", "conn": 2, "key": 2, "lid": 2})
        return {"name": f"rt-role-{seed}-{idx}", "cfg": {}, "steps": steps, "complete": True}
    # a request queued by the last step is granted within its own wait and then holds for its own expiry
    steps.append({"op": "sleep", "n": max(min(maxms, 3400), maxto + maxex if maxto + maxex < 7000 else max(maxto, maxex)) + 1300})
    return {"name": f"rt-{kind}-{seed}-{idx}", "cfg": {}, "steps": steps, "complete": True}

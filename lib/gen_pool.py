"""Engine-W histories that exercise the recycled command objects of the connections (spec/CmdPool.tla).

compile_behaviour: one TLC behaviour of CmdPoolSim (model Cap C) -> driver steps, one model object = K = 64 // C real
requests, so a model stack that is full stands for the real 64-slot stack being full.
directed: hand-shaped boundary histories (N simultaneous holds released by one connection, N around the guard)."""
import random

REAL_CAP = 64
TICK = 10

def _tail():
    return [{"op": "settle", "n": 12}, {"op": "closeall"}, {"op": "drain", "n": 70}]

def compile_behaviour(beh, cap, name, seed):
    rng = random.Random(seed)
    K = REAL_CAP // cap
    hist = beh["hist"]
    # the virtual time of every model step: an `expire` step advances the clock by TICK seconds
    t, at = 0, []
    for h in hist:
        at.append(t)
        if h["op"] == "expire":
            t += TICK
    expire_at = {}                      # (object id, index of the lock step) -> time of its expire step
    last_lock = {}
    for i, h in enumerate(hist):
        if h["op"] == "lock":
            last_lock[h["g"]] = i
        elif h["op"] == "expire" and h["g"] in last_lock:
            expire_at[last_lock[h["g"]]] = at[i]
    steps, conn_of, nconn, epoch, group = [], {}, 0, 0, {}
    kinds = {}
    for i, h in enumerate(hist):
        op, c, g = h["op"], h["c"], h["g"]
        if op == "connect":
            nconn += 1
            conn_of[c] = nconn
            kinds[nconn] = "text" if rng.random() < 0.2 else "bin"
            steps.append({"op": "conn", "c": nconn, "kind": kinds[nconn]})
            continue
        rc = conn_of.get(c)
        if rc is None:
            continue
        if op == "lock":
            epoch += 1
            base = 100000 + epoch * 100
            ex = 3000 if i not in expire_at else expire_at[i] - at[i] + TICK // 2
            group[g] = (base, rc)
            for j in range(K):
                steps.append({"op": "lock", "c": rc, "key": base + j, "lid": base + j, "to": 0, "ex": ex, "rc": 0, "cnt": 0})
        elif op == "refused":
            for j in range(K):
                steps.append({"op": "unlock", "c": rc, "key": 99000 + j, "lid": 99000 + j, "rc": 0})
        elif op == "unlock":
            if g in group:
                base, _ = group.pop(g)
                for j in range(K):
                    steps.append({"op": "unlock", "c": rc, "key": base + j, "lid": base + j, "rc": 0})
        elif op == "expire":
            group.pop(g, None)
            steps.append({"op": "tick", "n": TICK})
        elif op == "close":
            steps.append({"op": "close", "c": rc, "how": rng.choice(["client", "server"])})
            steps.append({"op": "waitclosed", "c": rc})
            conn_of.pop(c, None)
        if op in ("lock", "unlock", "refused"):
            steps.append({"op": "pool", "c": rc, "n": -1})
    return {"name": name, "steps": steps + _tail(), "complete": True}

def directed(seed):
    """N holds outstanding at once, all released by ONE connection (its own holds / another connection's), N around the
    64-slot guard; text and binary; refusals and further requests at the full stack."""
    D = []
    for n in (31, 32, 33, 63, 64, 65, 80, 130):
        for who in ("own", "other"):
            for kind in ("bin", "text"):
                if kind == "text" and n not in (32, 33, 64, 65):
                    continue
                steps = [{"op": "conn", "c": 1, "kind": kind}, {"op": "conn", "c": 2, "kind": "bin"}]
                holder = 1 if who == "own" else 2
                for j in range(n):
                    steps.append({"op": "lock", "c": holder, "key": 200000 + j, "lid": 200000 + j, "to": 0, "ex": 3000, "rc": 0, "cnt": 0})
                for j in range(n):
                    steps.append({"op": "unlock", "c": 1, "key": 200000 + j, "lid": 200000 + j, "rc": 0})
                steps.append({"op": "pool", "c": 1, "n": -1})
                # the connection keeps working at the full stack: refusals, a fresh round of holds, a second release
                for j in range(3):
                    steps.append({"op": "unlock", "c": 1, "key": 99000 + j, "lid": 99000 + j, "rc": 0})
                for j in range(8):
                    steps.append({"op": "lock", "c": 1, "key": 210000 + j, "lid": 210000 + j, "to": 0, "ex": 3000, "rc": 0, "cnt": 0})
                for j in range(8):
                    steps.append({"op": "unlock", "c": 1, "key": 210000 + j, "lid": 210000 + j, "rc": 0})
                steps.append({"op": "pool", "c": 1, "n": -1})
                D.append({"name": f"pool-dir-{n}-{who}-{kind}", "steps": steps + _tail(), "complete": True})
    return D

#!/usr/bin/env python3
"""seedprompt.py <tag>  (e.g. C07e): creates the scratch worktree /tmp/seed_<tag> and prints the prompt for a fresh seeding agent
(property text + the one-line subjects of earlier seeds of that property, nothing about the checks)."""
import json, os, subprocess, sys, glob
V = os.path.dirname(os.path.dirname(os.path.abspath(__file__)))
tag = sys.argv[1]
prop = tag[:3]
P = [json.loads(l) for l in open(os.path.join(V, "properties.jsonl"))]
p = [x for x in P if x["id"] == prop][0]
wt = f"/tmp/seed_{tag}"
subprocess.run(["git", "-C", "/repo", "worktree", "remove", "--force", wt], capture_output=True)
r = subprocess.run(["git", "-C", "/repo", "worktree", "add", "--detach", wt, "HEAD"], capture_output=True, text=True)
assert r.returncode == 0, r.stderr
os.makedirs(f"/tmp/seedwork/{tag}_out", exist_ok=True)
earlier = []
for d in sorted(glob.glob(os.path.join(V, "seeded", prop + "*"))):
    try:
        title = [l for l in open(os.path.join(d, "notes.md")) if l.strip()][0].strip("# \n")[:160]
        f = sorted({l[6:].strip() for l in open(os.path.join(d, "patch.diff")) if l.startswith("+++")})
        earlier.append(f"  - {title}  [{', '.join(f)}]")
    except Exception:
        pass
hint = sys.argv[2] if len(sys.argv) > 2 else ""
print(f"""You are helping to test a verification effort for the Go project snower/slock (a distributed lock / semaphore / flow-control server: 64-byte binary protocol, Redis-style text protocol, AOF persistence, leader-follower replication, arbiter-based leader election). Your job is to play a careless-but-plausible developer: produce ONE realistic change to the source that BREAKS the property below while the code still compiles and the existing test suite still passes - plus a demonstration that the property is broken.

Your scratch git worktree of the repository is {wt} (work only there; never touch /repo or /verif, do not read anything under /verif). Shell setup for every command: `export GOFLAGS=-mod=mod GOPROXY=off GOSUMDB=off GOTOOLCHAIN=local` (no network). The existing test suite is `cd {wt} && go test -vet=off -count=1 ./protocol/... ./server/...` (about 5 s).

## The property ({p['id']}: {p['title']})

{p['statement']}

Quantified over: {p['quantifier']['text']}

Code anchors: {json.dumps(p.get('anchors', p.get('anchor', '')))[:3000]}

## What is wanted

* A change of the kind a maintainer could really make (a refactor that drops a case, an off-by-one, a wrong variable, a reordered pair of statements, a condition that is slightly too wide / narrow, state that is not reset on one path, two sites that each look fine alone ...) - small (1-15 lines), plausible in a code review, in the non-test sources of the repository.
* It must need something SPECIFIC to manifest - a particular interleaving, a crash or fault at a particular point, a multi-step sequence of operations, an unusual-but-legal input or configuration, a boundary value, or two cooperating sites - NOT something that ordinary use or any simple smoke test would expose at once. The existing test suite must still pass with it.
* It must really violate the property as stated (not merely some neighbouring expectation), for inputs inside the property's quantifier (respect its exclusions).
* It must be DIFFERENT in file/function/mechanism from these earlier changes made for the same property:
{chr(10).join(earlier) if earlier else '  (none)'}
{hint}
## Deliverables: write them to /tmp/seedwork/{tag}_out/

1. `patch.diff` - `git diff` of your change relative to HEAD of the worktree (source change only, NOT the demo).
2. a demonstration: one Go test file `zz_seed_demo_{tag.lower()}_test.go` (package of the directory it must be placed in - server, protocol or client; state it in its package clause) that FAILS with the change and PASSES without it, deterministic (run it 5 times each way), finishing within 60 s, using only the standard library and the repository's own packages. Put a copy in the output directory.
3. `demo_cmd.txt` - the exact `go test -vet=off -count=1 -run <TestName> ./<pkg>/` command.
4. `notes.md` - first line a one-line title `# Seed {tag} - <what>`; then: the change, why it breaks the property (in the property's terms), exactly what it needs to manifest, why the existing tests do not notice.

Before you finish: `git stash`/revert to check the demo passes on the unchanged tree, re-apply and check it fails with the change, run the whole existing suite with the change (must pass; the demo file must not be in the tree when you run it, or name the run so that it is excluded), and leave the worktree clean of everything except your change. Your final message: the title line, the files written, and the three results (demo without change, demo with change, suite with change).""")

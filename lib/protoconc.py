"""Concretiser for property C13: input classes of spec/ProtoClasses.tla -> bytes.

A behaviour printed by TLC (spec/ProtoSession.tla) is a list of {"c": class record, "mode": protocol the
connection speaks after the step, "pend": server left waiting for more bytes}.  `deliveries(path, rng, name)`
turns it into one or more deliveries for harness/inpkg/server/zz_verif_proto_test.go: every step a byte
string (class representative + seed-derived fill: keys, ids, payload contents) with the write boundaries the
fragmentation class names.  The fragmentation class "all2" expands into one delivery per 2-way split.

The meaning of every class field is fixed here and nowhere else; keep in step with the comments in the spec.
"""
import struct, random, json

CAP = 1048576
DBK = 0          # "dbK": the db a fresh text connection uses, so text and binary steps meet on the same key K
DB1 = 1

CT = {"init": 0, "lock": 1, "unlock": 2, "state": 3, "admin": 4, "ping": 5, "quit": 6, "call": 7, "willlock": 8,
      "willunlock": 9, "leader": 10, "subscribe": 11, "publish": 12, "unk13": 13, "unk255": 255}
FLAG = {"plain": 0x00, "aof": 0x04, "show": 0x01, "update": 0x02, "all-nodata": 0xdf, "data": 0x20, "aofdata": 0x24, "-": 0}
OPTYPE = {"set": 0, "unset": 1, "incr": 2, "append": 3, "shift": 4, "execute": 5, "pipeline": 6, "push": 7, "pop": 8, "t9": 9, "t63": 63}
OPFLAG = {"none": 0x00, "num": 0x01, "arr": 0x02, "kv": 0x04, "prop": 0x10, "fl": 0x20, "all": 0xff}


class Ctx:
    """per-delivery identities: the prepared key K, fresh keys, lock ids"""
    def __init__(self, rng):
        self.rng = rng
        self.tag = "%08x" % rng.getrandbits(32)
        self.kname = ("K" + self.tag).encode()                 # 9 chars: left-padded with NUL to 16 by the text converter
        self.K = bytes(16 - len(self.kname)) + self.kname
        self.nfresh = 0
        self.client = rng.randbytes(16)

    def fresh_name(self):
        self.nfresh += 1
        return ("k%s%02d" % (self.tag, self.nfresh)).encode()

    def fresh_key(self):
        n = self.fresh_name()
        return bytes(16 - len(n)) + n

    def rid(self):
        return self.rng.randbytes(16)


def frame(ct, rid, rest=b"", magic=0x56, ver=0x01):
    f = bytes([magic, ver, ct]) + rid + rest
    assert len(f) <= 64, len(f)
    return f + bytes(64 - len(f))


def lock_rest(flag, db, lid, key, to=0, tf=0, ex=0, ef=0, cnt=0, rc=0):
    return bytes([flag & 0xff, db & 0xff]) + lid + key + struct.pack("<HHHHHB", to & 0xffff, tf & 0xffff, ex & 0xffff, ef & 0xffff, cnt & 0xffff, rc & 0xff)


def fields(u, rng):
    """timeout, tflag, expried, eflag, count, rcount of field class u"""
    if u == "zero":
        return (0, 0, 0, 0, 0, 0)
    if u == "typ":
        return (0, 0, 30, 0, 0, 0)                   # no waiting; held for 30 s
    if u == "max":
        return (0xffff, 0xffff, 0xffff, 0xffff, 0xffff, 0xff)
    if u == "ms":
        return (3, 0x0400, 3, 0x0400, 0, 0)          # millisecond timers: fire while the delivery is observed
    if u == "ack":
        return (1, 0x1000, 2, 0, 0, 0)               # require-acked
    return (rng.getrandbits(16), rng.getrandbits(16), rng.getrandbits(16), rng.getrandbits(16), rng.getrandbits(16), rng.getrandbits(8))


def db_of(z, rng):
    return {"dbK": DBK, "db1": DB1, "db255": 255, "db0": 0, "-": 0}.get(z, None) if z != "dbrnd" else rng.choice([d for d in range(2, 255) if d not in (126, 250)])   # 126 / 250: the probes' dbs


def props_section(rng, bad=False):
    val = b"propkey"
    body = bytes([1]) + struct.pack("<H", len(val)) + val
    plen = len(body) if not bad else 0xffff
    return struct.pack("<H", plen) + body


def embedded_command(ctx, with_data=False, ct=1):
    """a 64-byte LOCK frame embedded in an EXECUTE value (db must equal the carrier's)"""
    key = ctx.fresh_key()
    flag = 0x20 if with_data else 0
    f = frame(ct, ctx.rid(), lock_rest(flag, DBK, key, key, 0, 0, 1, 0x0400, 0, 0))
    if with_data:
        inner = bytes([0, 0]) + b"inner"
        f += struct.pack("<I", len(inner)) + inner
    return f


def typ_value(optype, dflag, ctx, depth=0):
    """well-formed value bytes (after the 2-byte header and the optional property section)"""
    rng = ctx.rng
    if optype == "unset":
        return b""
    if optype in ("incr",):
        return struct.pack("<q", rng.randrange(-5, 1000))
    if optype in ("shift", "pop"):
        return struct.pack("<I", rng.randrange(0, 4))
    if optype == "execute":
        return embedded_command(ctx, with_data=bool(rng.getrandbits(1)), ct=rng.choice([1, 2]))
    if optype == "pipeline":
        subs = []
        for t in (["set", "append", "push"] if depth else ["set", "incr", "execute", "pipeline", "pop"]):
            if t == "pipeline" and depth >= 1:
                continue
            b = bytes([OPTYPE[t], 0]) + typ_value(t, "none", ctx, depth + 1)
            subs.append(struct.pack("<I", len(b)) + b)
        return b"".join(subs)
    if dflag == "num":
        return struct.pack("<q", rng.randrange(0, 100))
    if dflag == "arr":
        return b"".join(struct.pack("<I", len(x)) + x for x in (b"one", b"", b"three"))
    if dflag == "kv":
        return b"".join(struct.pack("<I", len(x)) + x for x in (b"k1", b"v1", b"k2", b"v2"))
    return b"value-" + ctx.tag.encode()


def op_frame(v, n, ctx):
    """the value frame announced after a 64-byte command.  returns (head bytes, fill_n, fill_byte, tail bytes)
    v = "stage.type.dflag.body", n = length class"""
    stage, optype, dflag, body = v.split(".")
    rng = ctx.rng
    hdr = bytes([(int(stage) << 6) | (OPTYPE[optype] & 0x3f), OPFLAG[dflag]])
    if body == "typ":
        content = (props_section(rng) if OPFLAG[dflag] & 0x10 else b"") + typ_value(optype, dflag, ctx)
    else:
        L = 70
        content = {"zero": bytes(L), "ff": b"\xff" * L, "rnd": rng.randbytes(L)}[body]
    full = hdr + content
    fillb = {"typ": 0x61, "zero": 0x00, "ff": 0xff, "rnd": 0x5a}[body]
    if n == "fit":
        return struct.pack("<I", len(full)) + full, 0, 0, b""
    if n == "cap":
        head = struct.pack("<I", CAP) + full
        return head, CAP - len(full), fillb, b""
    if n == "cap1":
        return struct.pack("<I", CAP + 1), 0, 0, b""
    if n == "max32":
        return struct.pack("<I", 0xffffffff), 0, 0, b""
    if n == "short":
        return struct.pack("<I", 64) + (full + bytes(10))[:10], 0, 0, b""
    k = int(n)
    data = (full + bytes([fillb]) * k)[:k]
    return struct.pack("<I", k) + data, 0, 0, b""


# what a follower sends after the SYNC response to say "stream me the log now" (replication.go waitStarted)
STARTED = bytes([0x56, 0x01, 0x00]) + b"\xff" * 16 + bytes(45)


def pb_varint(x):
    out = b""
    while True:
        b = x & 0x7f
        x >>= 7
        if x:
            out += bytes([b | 0x80])
        else:
            return out + bytes([b])


def call_payload(p, ctx):
    if p == "empty":
        return b""
    if p == "garbage":
        return ctx.rng.randbytes(20)
    if p in ("db0", "dbK"):
        return b"\x08" + pb_varint(0 if p == "db0" else DBK) + (b"" if p == "db0" else b"\x12\x10" + ctx.K)
    if p == "db255":
        return b"\x08" + pb_varint(255)
    if p == "db256":
        return b"\x08" + pb_varint(256)
    if p == "dbmax":
        return b"\x08" + pb_varint(0xffffffff)
    if p == "keyK":
        return b"\x12\x10" + ctx.K
    if p in ("sync-empty", "sync-started"):
        return b""                                   # SyncRequest{AofId: ""}
    if p == "sync-aofid":
        aid = "%032x" % ctx.rng.getrandbits(128)
        return b"\x0a" + pb_varint(len(aid)) + aid.encode()
    raise KeyError(p)


def bin_bytes(c, ctx):
    """returns (head, fill_n, fill_b, tail)"""
    rng = ctx.rng
    k = c["k"]
    magic, ver = 0x56, 0x01
    if c["x"] == "badmagic":
        magic = 0x57
    if c["x"] == "badver":
        ver = 0x02
    ct = CT[k]
    if k in ("lock", "unlock", "willlock", "willunlock"):
        flag = FLAG[c["y"]]
        db = db_of(c["z"], rng)
        key = ctx.K if c["w"] == "K" else ctx.fresh_key()
        # the prefix step that prepares K uses lock id = key; detailed steps on K use another id unless unlocking
        if c["w"] == "K" and k in ("unlock", "willunlock"):
            lid = ctx.K
        elif c["w"] == "K" and c.get("_coarse"):
            lid = ctx.K
        else:
            lid = rng.randbytes(16) if c["w"] == "K" else key
        to, tf, ex, ef, cnt, rc = fields(c["u"], rng)
        f = frame(ct, ctx.rid(), lock_rest(flag, db, lid, key, to, tf, ex, ef, cnt, rc), magic, ver)
        if c["n"] != "-":
            head, fn, fb, tail = op_frame(c["v"], c["n"], ctx)
            return f + head, fn, fb, tail
        return f, 0, 0, b""
    if k == "call":
        method = {"UNKNOWN": b"NO_SUCH_METHOD", "EMPTY": b"", "MAX38": b"A" * 38}.get(c["y"], c["y"].encode())
        payload = call_payload(c["v"], ctx)
        n = c["n"]
        fn, fb = 0, 0
        if n == "fit":
            clen, body = len(payload), payload
        elif n == "0":
            clen, body = 0, b""
        elif n == "1":
            clen, body = 1, (payload + b"\x00")[:1]
        elif n == "cap":
            clen, body, fn, fb = CAP, payload, CAP - len(payload), 0x00
        elif n == "cap1":
            clen, body = CAP + 1, b""
        elif n == "max32":
            clen, body = 0xffffffff, b""
        else:  # short
            clen, body = 64, (payload + bytes(10))[:10]
        rest = bytes([0, 3, 1]) + struct.pack("<I", clen) + method + bytes(38 - len(method))
        return frame(ct, ctx.rid(), rest, magic, ver) + body, fn, fb, (STARTED if c["v"] == "sync-started" and n == "fit" else b"")
    if k == "init":
        cid = {"rnd": rng.randbytes(16), "zero": bytes(16), "same": ctx.client}[c["u"]]
        return frame(ct, ctx.rid(), cid, magic, ver), 0, 0, b""
    if k == "state":
        return frame(ct, ctx.rid(), bytes([0, db_of(c["z"], rng)]), magic, ver), 0, 0, b""
    rest = {"zero": bytes(45), "max": b"\xff" * 45, "rnd": rng.randbytes(45), "typ": bytes(45)}[c["u"]]
    if k == "lock":
        rest = lock_rest(0, DB1, ctx.fresh_key(), ctx.fresh_key())
    return frame(ct, ctx.rid(), rest, magic, ver), 0, 0, b""


TOK = {"v": None, "vlong": None, "vbin": b"a\r\nb\x00\xffc$3\r\n", "e": b"", "big": b"99999999", "huge": b"99999999999999999999999",
       "x": b"notnum", "ackflag": str((0x1000 << 16) | 1).encode(), "msflag": str((0x0400 << 16) | 5).encode(),
       "k16": None, "k32": None, "k40": None}


def token(t, ctx):
    rng = ctx.rng
    if t == "K":
        return ctx.kname
    if t == "k":
        return ctx.fresh_name()
    if t == "k16":
        return ("k16-" + ctx.tag + "0000").encode()[:16]
    if t == "k32":
        return ("%032x" % rng.getrandbits(128)).encode()
    if t == "k40":
        return ("k40-" + ctx.tag).encode() + b"z" * 28
    if t == "v":
        return b"val" + ctx.tag.encode()
    if t == "vlong":
        return (b"L" + ctx.tag.encode()) * 223                 # 2007 bytes: crosses the 1024-byte parser buffer
    if t in TOK and TOK[t] is not None:
        return TOK[t]
    return t.encode()


def resp(args):
    out = b"*%d\r\n" % len(args)
    for a in args:
        out += b"$%d\r\n%s\r\n" % (len(a), a)
    return out


def text_bytes(c, ctx):
    name = c["k"].encode()
    if c["x"] == "lower":
        name = name.lower()
    return resp([name] + [token(t, ctx) for t in c["args"]])


def resp_bytes(c, ctx):
    k = c["k"]
    table = {
        "nostar": b"$4\r\nPING\r\n", "inline": b"PING\r\n", "emptyline": b"\r\n", "argc-neg": b"*-1\r\n$4\r\nPING\r\n",
        "argc0": b"*0\r\n", "argc0-then-arg": b"*0\r\n$4\r\nPING\r\n", "argc-nonnum": b"*x\r\n$4\r\nPING\r\n",
        "argc-huge": b"*99999999999999999999\r\n$4\r\nPING\r\n", "argc-long": b"*" + b"1" * 200 + b"\r\n",
        "argc-more": b"*3\r\n$4\r\nPING\r\n", "argc-less": b"*1\r\n$4\r\nECHO\r\n$1\r\na\r\n", "nodollar": b"*1\r\nPING\r\n",
        "len-neg": b"*1\r\n$-1\r\n\r\n", "len-neg-argc0": b"*0\r\n$-1\r\n\r\n", "len-nonnum": b"*1\r\n$x\r\nPING\r\n",
        "len-huge": b"*1\r\n$99999999999999999999\r\nPING\r\n", "len-long": b"*1\r\n$" + b"1" * 200 + b"\r\n",
        "len-short": b"*1\r\n$2\r\nPING\r\n", "len-over": b"*1\r\n$10\r\nPING\r\n", "lf-only": b"*1\n$4\nPING\n",
        "cr-missing": b"*1\r\n$4\r\nPING\n", "nul-bytes": bytes(10), "len-zero": b"*2\r\n$4\r\nECHO\r\n$0\r\n\r\n",
    }
    if k in table:
        return table[k], 0, 0, b""
    if k == "bigarg-64k":
        return b"*2\r\n$4\r\nECHO\r\n$65536\r\n", 65536, 0x62, b"\r\n"
    if k == "bigarg-1m":
        return b"*2\r\n$4\r\nECHO\r\n$1048576\r\n", 1048576, 0x62, b"\r\n"
    if k == "many-args":
        return b"*2001\r\n$4\r\nECHO\r\n" + b"$1\r\na\r\n" * 2000, 0, 0, b""
    raise KeyError(k)


def mutate(b, rng, n):
    b = bytearray(b)
    for _ in range(n):
        op = rng.randrange(4)
        i = rng.randrange(len(b))
        if op == 0:
            b[i] ^= 1 << rng.randrange(8)
        elif op == 1:
            b[i] = rng.randrange(256)
        elif op == 2 and len(b) > 8:
            del b[i]
        else:
            b.insert(i, rng.randrange(256))
    return bytes(b)


def raw_bytes(c, ctx):
    rng = ctx.rng
    k = c["k"]
    if k == "eof":
        return b""
    if k.startswith("rnd") :
        return rng.randbytes(int(k[3:]))
    if k == "zero64":
        return bytes(64)
    if k == "ff64":
        return b"\xff" * 64
    if k == "ff4096":
        return b"\xff" * 4096
    if k == "magicrnd":
        return bytes([0x56, 0x01, rng.randrange(0, 13)]) + rng.randbytes(61)
    if k == "magicrnd-data":
        f = bytearray(bytes([0x56, 0x01, rng.choice([1, 2, 8, 9])]) + rng.randbytes(61))
        f[19] |= 0x20
        f[20] = rng.choice([0, 1, 7])
        n = rng.choice([0, 1, 2, 3, 6, 7, 8, 9, 16, 40, 100])
        return bytes(f) + struct.pack("<I", n) + rng.randbytes(n)
    if k == "textmut":
        base = resp([b"SET", ctx.kname, b"v", b"EX", b"10"]) + resp([b"LOCK", ctx.kname, b"TIMEOUT", b"0", b"SET", b"x"]) + resp([b"GET", ctx.kname])
        return mutate(base, rng, rng.randrange(1, 6))
    if k == "binmut":
        key = ctx.fresh_key()
        val = bytes([0, 0]) + b"abc"
        base = frame(0, ctx.rid(), rng.randbytes(16)) + frame(1, ctx.rid(), lock_rest(0x20, DBK, key, key, 0, 0, 5, 0)) + struct.pack("<I", len(val)) + val \
            + frame(2, ctx.rid(), lock_rest(0, DBK, key, key)) + frame(5, ctx.rid())
        m = mutate(base[2:], rng, rng.randrange(1, 6))
        return base[:2] + m
    if k == "textrnd":
        n = rng.randrange(0, 6)
        out = b"*%d\r\n" % n
        for _ in range(n):
            L = rng.choice([0, 1, 3, 10, 200])
            out += b"$%d\r\n" % rng.choice([L, L, L, L + 1, max(0, L - 1)]) + bytes(rng.choice(b"abcXYZ019*$\r\n") for _ in range(L)) + b"\r\n"
        return out
    raise KeyError(k)


def class_id(c):
    if c["fam"] == "bin":
        return "bin:%s:%s:%s:%s:%s:%s:%s:%s:%s" % (c["k"], c["x"], c["y"], c["z"], c["u"], c["v"], c["w"], c["n"], c["frag"])
    if c["fam"] == "text":
        return "text:%s:%s:%s:%s" % (c["k"], c["x"], " ".join(c["args"]), c["frag"])
    return "%s:%s:%s:%s" % (c["fam"], c["k"], c["x"], c["frag"])


def env_aux(c, ctx):
    """auxiliary connections of an environment class: list of (bytes, ms to wait afterwards)"""
    sync = frame(7, ctx.rid(), bytes([0, 3, 1]) + struct.pack("<I", 0) + b"SYNC" + bytes(34)) + STARTED
    k = c["k"]
    if k == "follower":
        return [(sync, 40)]
    reads = {"get": [b"GET", ctx.kname], "strlen": [b"STRLEN", ctx.kname], "dump": [b"DUMP", ctx.kname], "type": [b"TYPE", ctx.kname],
             "keys": [b"KEYS", b"*"], "scan": [b"SCAN", b"0", b"COUNT", b"100"], "show": [b"SHOW", ctx.kname], "showwait": [b"SHOW", ctx.kname, b"WAIT"],
             "lockshow": [b"LOCK", ctx.kname, b"TIMEOUT", b"0", b"EXPRIED", b"0", b"FLAG", b"1"], "ttl": [b"TTL", ctx.kname],
             "append": [b"APPEND", ctx.kname, b"x"], "incr": [b"INCR", ctx.kname], "pop": [b"LOCK", ctx.kname, b"LOCK_ID", ctx.kname, b"FLAG", b"2", b"POP", b"1"]}
    if k in reads:
        return [(resp(reads[k]), 60)]
    if k in ("listlocked", "listlock", "listwait"):
        method = {"listlocked": b"LIST_LOCKED", "listlock": b"LIST_LOCK", "listwait": b"LIST_WAIT"}[k]
        payload = b"\x08" + pb_varint(DBK) + b"\x12\x10" + ctx.K
        rest = bytes([0, 3, 1]) + struct.pack("<I", len(payload)) + method + bytes(38 - len(method))
        return [(frame(7, ctx.rid(), rest) + payload, 60)]
    lock = resp([b"LOCK", ctx.kname, b"LOCK_ID", ctx.kname, b"TIMEOUT", str((0x1000 << 16) | 60).encode(), b"EXPRIED", b"120"])
    return [(sync, 40), (lock, 40)]


def step_bytes(c, ctx):
    fam = c["fam"]
    if fam == "env":
        return b"", 0, 0, b""
    if fam == "bin":
        return bin_bytes(c, ctx)
    if fam == "text":
        return text_bytes(c, ctx), 0, 0, b""
    if fam == "resp":
        return resp_bytes(c, ctx)
    return raw_bytes(c, ctx), 0, 0, b""


def cuts_for(c, total, headlen, rng):
    """write boundaries of fragmentation class c.frag for a byte string of `total` bytes.  returns a list of
    cut lists (one delivery each)."""
    f = c["frag"]
    if f == "whole" or total <= 1:
        return [[]]
    if f == "bytes":
        lim = min(total, 300)                          # byte-by-byte over the structured head, the bulk in one piece
        return [list(range(1, lim))]
    if f == "hdr":                                      # the 64-byte command | its trailing frame
        return [[64]] if total > 64 else [[]]
    if f == "len":                                      # ... and inside the 4-byte length
        return [[64, 66, 68]] if total > 68 else ([[64]] if total > 64 else [[]])
    if f == "first":
        return [[1], [63]] if total > 63 else [[1]]
    if f == "rnd3":
        return [sorted(rng.sample(range(1, total), min(3, total - 1)))]
    if f == "all2":
        pos = list(range(1, min(total, 96)))
        if total > 96:
            pos += sorted(rng.sample(range(96, total), min(12, total - 96)))
        return [[p] for p in pos]
    raise KeyError(f)


def deliveries(path, rng, name):
    """path: list of {"c":..., "mode":..., "pend":...} -> list of delivery dicts"""
    ctx = Ctx(rng)
    steps = []
    last = len(path) - 1
    variants = [[]]
    for i, rec in enumerate(path):
        c = dict(rec["c"])
        if i < last:
            c["_coarse"] = True
        head, fn, fb, tail = step_bytes(c, ctx)
        total = len(head) + fn + len(tail)
        mode = rec["mode"]
        if rec["pend"] or mode == "closed" or total == 0:
            sent, wait = "none", 120
        elif mode == "bin":
            sent, wait = "bin", 400
        else:
            sent, wait = "text", 400
        if c["fam"] == "bin" and c["n"] in ("cap",) or (c["fam"] == "resp" and c["k"] in ("bigarg-1m", "bigarg-64k", "many-args")):
            wait = 2000
        st = {"aux": [{"hex": b.hex(), "wait": w} for b, w in env_aux(c, ctx)] if c["fam"] == "env" else [],
              "cls": class_id(rec["c"]), "hex": head.hex(), "fn": fn, "fb": fb, "hex2": tail.hex(), "cuts": [], "sent": sent,
              "wait": wait, "mode": "bin" if c["fam"] == "bin" or (c["fam"] == "raw" and mode == "bin") else "text"}
        steps.append(st)
        if i == last:
            variants = cuts_for(c, total, len(head), rng)
    hold = 0
    lastc = path[-1]["c"]
    if lastc["fam"] == "bin" and (lastc["u"] == "ms" or lastc["v"][:1] in ("2", "3")):
        hold = 30                                      # let millisecond timers / timeout-, expiry-stage commands run
    if hold == 0 and any(r["c"]["k"] in ("willlock", "willunlock") or "WILL" in r["c"]["args"] for r in path):
        hold = -1                                      # wills run on the close path: the driver waits longer for it to finish
    out = []
    for j, cuts in enumerate(variants):
        ss = [dict(s) for s in steps]
        ss[-1]["cuts"] = cuts
        out.append({"name": name if len(variants) == 1 else "%s/%d" % (name, j), "steps": ss, "hold": hold,
                    "path": [r["c"] for r in path]})
    return out

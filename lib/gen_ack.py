"""Seeded histories for engine A (C11): ack-required locks on a leader with 0..2 follower links, interleaved with
follower acks (positive / negative / lost by a cut), leader flushes (ok / failing), timeouts, unlock pre-emption,
demotion; wider than the bounded AckQuorum model (several keys, more requests, INCR / APPEND / SET value operations,
shared keys, parked DoAckLock).  Same step format as the TLC-generated behaviours."""
import random, struct

TF_ACK = 0x1000

def frame(kind, payload, flag=0):
    body = bytes([kind, flag]) + payload
    return (struct.pack("<I", len(body)) + body).hex()

def data_set(s):
    return frame(0, s.encode())

def data_incr(n):
    return frame(2, struct.pack("<q", n), 1)

def data_append(s):
    return frame(3, s.encode())

def lock(rid, key, lid, ack, to, ex=30, cnt=0, data="", conn=None):
    return {"op": "lock", "id": rid, "conn": conn or (1 + lid % 3), "db": 0, "key": key, "lid": lid, "flag": 0, "tf": TF_ACK if ack else 0,
            "ef": 0, "to": to, "ex": ex, "cnt": cnt, "rc": 0, "data": data}

def unlock(rid, key, lid, conn=None):
    return {"op": "unlock", "id": rid, "conn": conn or (1 + lid % 3), "db": 0, "key": key, "lid": lid, "flag": 0, "tf": 0, "ef": 0, "to": 0, "ex": 0,
            "cnt": 0, "rc": 0}

def fack(f, target, key, lid, ok=True, park=False):
    d = {"op": "fack", "f": f, "target": target, "res": 0 if ok else 11, "db": 0, "key": key, "lid": lid}
    if park:
        d["park"] = True
    return d

def gen_ack(seed, i):
    rng = random.Random(seed * 1000003 + i * 7919 + 17)
    nf = rng.choice([0, 1, 1, 2, 2, 2])
    mode = rng.choice([0, 1, 1, 2])
    nkeys = rng.choice([1, 1, 2])
    shared = rng.random() < 0.15
    numeric = {k: rng.random() < 0.4 for k in range(1, nkeys + 1)}   # value kind per key
    steps, rid = [], 0
    acks = []          # (rid, key, lid) of ack requests issued so far
    up = set(range(1, nf + 1))
    faults = rng.choice(["none", "neg", "fail", "cut", "dem", "mix", "neg", "cut"])
    failed = demoted = False
    # optionally give the keys a value first (plain lock + unlock)
    for k in range(1, nkeys + 1):
        if rng.random() < 0.5:
            rid += 1
            steps.append(lock(rid, k, 9, False, 0, ex=5, data=data_incr(rng.randint(1, 9)) if numeric[k] else data_set("v%d" % rng.randint(0, 9))))
            rid += 1
            steps.append(unlock(rid, k, 9))
    n = rng.randint(5, 16)
    parked = False
    for _ in range(n):
        x = rng.random()
        k = rng.randint(1, nkeys)
        lid = rng.randint(1, 4)
        if x < 0.30:
            rid += 1
            d = ""
            if rng.random() < 0.5:
                if numeric[k]:
                    d = data_incr(rng.randint(1, 5))
                else:
                    d = rng.choice([data_set("s%d" % rid), data_append("a%d" % rid)])
            to = rng.choice([1, 2, 3, 5])
            steps.append(lock(rid, k, lid, True, to, cnt=(1 if shared and rng.random() < 0.5 else 0), data=d))
            acks.append((rid, k, lid))
        elif x < 0.42:
            rid += 1
            steps.append(lock(rid, k, lid, False, rng.choice([0, 0, 2, 4, 6]), ex=rng.choice([3, 30])))
        elif x < 0.50 and acks:
            # a request naming the LockId of a (probably) pending ack request
            r0, k0, l0 = rng.choice(acks[-3:])
            rid += 1
            steps.append(unlock(rid, k0, l0) if rng.random() < 0.5 else lock(rid, k0, l0, rng.random() < 0.3, rng.choice([0, 2])))
        elif x < 0.56:
            rid += 1
            steps.append(unlock(rid, k, lid))
        elif x < 0.78 and acks and nf > 0:
            r0, k0, l0 = rng.choice(acks[-3:])
            neg = faults in ("neg", "mix") and rng.random() < 0.3
            pk = (not parked) and rng.random() < 0.12
            steps.append(fack(rng.randint(1, nf), r0, k0, l0, ok=not neg, park=pk))
            parked = parked or pk
        elif x < 0.88:
            bad = faults in ("fail", "mix") and not failed and rng.random() < 0.3
            failed = failed or bad
            pk = (not parked) and rng.random() < 0.1
            st = {"op": "flush", "ok": not (bad or failed)}
            if pk:
                st["park"] = True
                parked = True
            steps.append(st)
        elif x < 0.93:
            steps.append({"op": "tick", "n": rng.choice([1, 1, 2, 3])})
        elif x < 0.95 and parked:
            steps.append({"op": "resume"})
            parked = False
        elif x < 0.975 and faults in ("cut", "mix") and up:
            f = rng.choice(sorted(up))
            up.discard(f)
            steps.append({"op": "cut", "f": f})
        elif faults in ("dem", "mix") and not demoted and rng.random() < 0.5:
            demoted = True
            parked = False
            steps.append({"op": "demote"})
        else:
            steps.append({"op": "tick", "n": 1})
    steps.append({"op": "drain", "n": 12})
    return {"name": f"ackrnd-{seed}-{i}", "followers": nf, "mode": mode, "steps": steps, "complete": True, "cfg": {}}

"""Seeded histories for engine A (C11): ack-required locks on a leader with 0..2 follower links, interleaved with
follower acks (positive / negative / lost by a cut), leader flushes (ok / failing in the entry write, in the value write, in
both; for good or for a while; with the channel goroutine let run between the two writes), timeouts, unlock pre-emption,
demotion; wider than the bounded AckQuorum model (several keys, more requests, the whole value-operation alphabet of
spec/ValueReg.tla - SET / UNSET / INCR / APPEND / SHIFT / PUSH / POP / PIPELINE incl. nested, empty and header-only sub-frames -
on keys in every prior state: no value, unset value object, value, value with properties; shared keys, parked DoAckLock).
value_matrix is the systematic operation x prior state x ack outcome matrix for the rollback clause.  Same step format as the TLC-generated behaviours."""
import random, struct

TF_ACK = 0x1000

def frame(kind, payload, flag=0):
    body = bytes([kind, flag]) + payload
    return (struct.pack("<I", len(body)) + body).hex()

def data_set(s):
    return frame(0, s.encode())

def data_incr(n):
    return frame(2, struct.pack("<q", n), 1)

def data_append(s):
    return frame(3, s.encode())

# ---- the whole value-operation alphabet of spec/ValueReg.tla (frame = LE32(len) . cmd . flag . [LE16(plen) . props] . payload)
def vframe(ctype, flag=0, payload=b"", props=None):
    body = bytes([ctype, flag | (0x10 if props is not None else 0)])
    if props is not None:
        pr = b"".join(bytes([c]) + struct.pack("<H", len(v)) + v for c, v in props)
        body += struct.pack("<H", len(pr)) + pr
    body += payload
    return struct.pack("<I", len(body)) + body

PROPS = [(1, b"pk"), (2, b"q")]
def b_set(p, props=None): return vframe(0, 0, p, props)
def b_unset(): return vframe(1, 0)
def b_incr(n, props=None): return vframe(2, 1, struct.pack("<q", n), props)
def b_append(p, props=None): return vframe(3, 0, p, props)
def b_shift(n): return vframe(4, 1, struct.pack("<I", n))
def b_pipe(subs): return vframe(6, 0, b"".join(subs))
def b_push(p, props=None): return vframe(7, 0, p, props)
def b_pop(n): return vframe(8, 1, struct.pack("<I", n))
def b_arr(items, props=None): return vframe(0, 2, b"".join(struct.pack("<I", len(i)) + i for i in items), props)
def b_num(n, props=None): return vframe(0, 1, struct.pack("<q", n), props)

# operation kinds a require-ack LOCK can carry: name -> (frame bytes, type of value it is at home on)
VALUE_OPS = {
    "set":            (b_set(b"new"), "str"),
    "set-props":      (b_set(b"newp", PROPS), "str"),
    "unset":          (b_unset(), "str"),
    "incr":           (b_incr(3), "num"),
    "append":         (b_append(b"+x"), "str"),
    "append-props":   (b_append(b"+y", [(1, b"zz")]), "str"),
    "shift":          (b_shift(2), "str"),
    "push":           (b_push(b"it"), "arr"),
    "pop":            (b_pop(1), "arr"),
    "pipe-set":       (b_pipe([b_set(b"aaa")]), "str"),
    "pipe-append":    (b_pipe([b_append(b"+p")]), "str"),
    "pipe-incr":      (b_pipe([b_incr(7)]), "num"),
    "pipe-push":      (b_pipe([b_push(b"pi")]), "arr"),
    "pipe-unset":     (b_pipe([b_unset()]), "str"),
    "pipe-set-append": (b_pipe([b_set(b"s1"), b_append(b"s2")]), "str"),
    "pipe-three":     (b_pipe([b_append(b"a"), b_shift(1), b_append(b"b")]), "str"),
    "pipe-header-only": (b_pipe([b_append(b""), vframe(0, 0), b_push(b"")]), "str"),   # sub-frames that are a bare cmd + flag
    "pipe-empty":     (b_pipe([]), "str"),
    "pipe-nested":    (b_pipe([b_pipe([b_set(b"in")])]), "str"),
}
PRIORS = ["none", "unset", "value", "props"]
OUTCOMES = ["success", "wfail-entry", "wfail-value", "neg", "timeout", "cut", "demote", "unlock"]

def model_op_frame(code, typ, salt=0):
    """operation code of spec/AckQuorum.tla (After) -> a concrete frame on a value of type typ (str / num / arr)"""
    sv = {"str": [b_set(b"ma"), b_set(b"mb")], "num": [b_num(11), b_num(22)], "arr": [b_arr([b"a1"]), b_arr([b"b1", b"b2"])]}[typ]
    mod = {"str": b_append(b"+m"), "num": b_incr(3), "arr": b_push(b"pm")}[typ]
    trim = {"str": b_shift(1), "num": b_shift(1), "arr": b_pop(1)}[typ]
    if code == 0:
        return b""
    if code in (1, 2):
        return sv[code - 1]
    if code == 3:
        return b_unset()
    if code == 4:
        return mod
    if code == 5:
        return trim
    if code == 6:
        return b_pipe([sv[0]])
    if code == 7:
        return b_pipe([mod])
    return [b_pipe([]), b_pipe([b_shift(0)]), b_pipe([b_pop(0)])][salt % 3]

def prior_frame(prior, typ):
    """the value the key holds before the ack lock (None: no value at all)"""
    props = PROPS if prior == "props" else None
    if prior == "none":
        return None
    if typ == "num":
        return b_num(41, props)
    if typ == "arr":
        return b_arr([b"i1", b"i22", b"i333"], props)
    return b_set(b"base-value", props)

def lock(rid, key, lid, ack, to, ex=30, cnt=0, data="", conn=None):
    return {"op": "lock", "id": rid, "conn": conn or (1 + lid % 3), "db": 0, "key": key, "lid": lid, "flag": 0, "tf": TF_ACK if ack else 0,
            "ef": 0, "to": to, "ex": ex, "cnt": cnt, "rc": 0, "data": data}

def unlock(rid, key, lid, conn=None, data="", cnt=0):
    return {"op": "unlock", "id": rid, "conn": conn or (1 + lid % 3), "db": 0, "key": key, "lid": lid, "flag": 0, "tf": 0, "ef": 0, "to": 0, "ex": 0,
            "cnt": cnt, "rc": 0, "data": data}

def fack(f, target, key, lid, ok=True, park=False):
    d = {"op": "fack", "f": f, "target": target, "res": 0 if ok else 11, "db": 0, "key": key, "lid": lid}
    if park:
        d["park"] = True
    return d

def gen_ack(seed, i):
    rng = random.Random(seed * 1000003 + i * 7919 + 17)
    nf = rng.choice([0, 1, 1, 2, 2, 2])
    mode = rng.choice([0, 1, 1, 2])
    nkeys = rng.choice([1, 1, 2])
    shared = rng.random() < 0.15
    numeric = {k: rng.random() < 0.4 for k in range(1, nkeys + 1)}   # value kind per key
    ktype = {k: ("num" if numeric[k] else rng.choice(["str", "str", "arr"])) for k in numeric}
    anchored = {k: rng.random() < 0.45 for k in numeric}             # Count-1 key kept alive by a dataless anchor hold (see prelude)
    steps, rid = [], 0
    acks = []          # (rid, key, lid) of ack requests issued so far
    up = set(range(1, nf + 1))
    faults = rng.choice(["none", "neg", "fail", "cut", "dem", "mix", "neg", "cut", "fail", "mix"])
    demoted = False
    recbad = valbad = False     # state of the two log files (entries / values)
    def nxt():
        nonlocal rid
        rid += 1
        return rid
    # prior state of the keys: anchored keys keep whatever the prelude leaves there (none / unset / value / value with properties)
    for k in range(1, nkeys + 1):
        if anchored[k]:
            prelude(steps, nxt, k, rng.choice(PRIORS), ktype[k])
        elif rng.random() < 0.5:
            rid += 1
            steps.append(lock(rid, k, 9, False, 0, ex=5, data=data_incr(rng.randint(1, 9)) if numeric[k] else data_set("v%d" % rng.randint(0, 9))))
            rid += 1
            steps.append(unlock(rid, k, 9))
    n = rng.randint(5, 16)
    parked = False
    for _ in range(n):
        x = rng.random()
        k = rng.randint(1, nkeys)
        lid = rng.randint(1, 4)
        if x < 0.30:
            rid += 1
            d = ""
            if rng.random() < 0.6:
                # any value operation a require-ack lock can carry; mostly one that is at home on the key's value type
                fit = [n for n, (_, t) in VALUE_OPS.items() if t == ktype[k] or n in ("unset", "pipe-unset", "pipe-empty")]
                d = VALUE_OPS[rng.choice(fit if rng.random() < 0.7 else list(VALUE_OPS))][0].hex()
            to = rng.choice([1, 2, 3, 5])
            steps.append(lock(rid, k, lid, True, to, cnt=(1 if anchored[k] or (shared and rng.random() < 0.5) else 0), data=d))
            acks.append((rid, k, lid))
        elif x < 0.42:
            rid += 1
            steps.append(lock(rid, k, lid, False, rng.choice([0, 0, 2, 4, 6]), ex=rng.choice([3, 30]), cnt=1 if anchored[k] else 0))
        elif x < 0.50 and acks:
            # a request naming the LockId of a (probably) pending ack request
            r0, k0, l0 = rng.choice(acks[-3:])
            rid += 1
            steps.append(unlock(rid, k0, l0) if rng.random() < 0.5 else lock(rid, k0, l0, rng.random() < 0.3, rng.choice([0, 2])))
        elif x < 0.56:
            rid += 1
            steps.append(unlock(rid, k, lid))
        elif x < 0.78 and acks and nf > 0:
            r0, k0, l0 = rng.choice(acks[-3:])
            neg = faults in ("neg", "mix") and rng.random() < 0.3
            pk = (not parked) and rng.random() < 0.12
            steps.append(fack(rng.randint(1, nf), r0, k0, l0, ok=not neg, park=pk))
            parked = parked or pk
        elif x < 0.88:
            # a flush is two writes: either file can start to fail (for good, or until a later flush finds it working again)
            st = {"op": "flush", "ok": True, "rec": "", "val": "", "mid": rng.random() < 0.5}
            if faults in ("fail", "mix"):
                if (recbad or valbad) and rng.random() < 0.25:
                    recbad = valbad = False
                    st["rec"], st["val"] = "ok", "ok"
                elif not (recbad and valbad) and rng.random() < 0.45:
                    which = rng.choice(["rec", "val", "val", "both"])
                    if which in ("rec", "both"):
                        recbad = True
                    if which in ("val", "both"):
                        valbad = True
                if recbad:
                    st["rec"] = "fail"
                if valbad:
                    st["val"] = "fail"
            st["ok"] = not (recbad or valbad)
            pk = (not parked) and rng.random() < 0.1
            if pk:
                st["park"] = True
                parked = True
            steps.append(st)
        elif x < 0.93:
            steps.append({"op": "tick", "n": rng.choice([1, 1, 2, 3])})
        elif x < 0.95 and parked:
            steps.append({"op": "resume"})
            parked = False
        elif x < 0.975 and faults in ("cut", "mix") and up:
            f = rng.choice(sorted(up))
            up.discard(f)
            steps.append({"op": "cut", "f": f})
        elif faults in ("dem", "mix") and not demoted and rng.random() < 0.5:
            demoted = True
            parked = False
            steps.append({"op": "demote"})
        else:
            steps.append({"op": "tick", "n": 1})
    steps.append({"op": "drain", "n": 12})
    return {"name": f"ackrnd-{seed}-{i}", "followers": nf, "mode": mode, "steps": steps, "complete": True, "cfg": {}}


CARRIERS = ["set", "incr", "append", "keyval", "none"]

def flush_case(nf, mode, fault, carrier, pos, order, heal, tag):
    """One directed history around ONE failing flush: ack lock B (value carrier `carrier`) on key 1 with a plain waiter C
    behind it; the flush that carries B's record fails in `fault` (entry write / value write / both); follower acks are
    delivered before or after that flush; pos = 2: an earlier ack lock on another key went through a healthy flush first;
    heal: afterwards the files work again and a further value-carrying ack lock must go through."""
    steps, rid = [], 0
    def nxt():
        nonlocal rid
        rid += 1
        return rid
    def facks(target, key, lid):
        for f in range(1, nf + 1):
            steps.append(fack(f, target, key, lid))
    if carrier in ("keyval", "append"):
        steps.append(lock(nxt(), 1, 9, False, 0, ex=5, data=data_set("v0")))
        steps.append(unlock(nxt(), 1, 9))
    elif carrier == "incr":
        steps.append(lock(nxt(), 1, 9, False, 0, ex=5, data=data_incr(5)))
        steps.append(unlock(nxt(), 1, 9))
    if pos == 2:
        a = nxt()
        steps.append(lock(a, 2, 3, True, 3, data=data_set("early")))
        facks(a, 2, 3)
        steps.append({"op": "flush", "ok": True, "rec": "ok", "val": "ok", "mid": True})
    b = nxt()
    d = {"set": data_set("new"), "incr": data_incr(2), "append": data_append("+x"), "keyval": "", "none": ""}[carrier]
    steps.append(lock(b, 1, 1, True, 3, data=d))
    steps.append(lock(nxt(), 1, 7, False, 6, ex=30))           # queued behind B: must be served when B fails
    steps.append(lock(nxt(), 1, 1, False, 0))                  # names B's LockId while B is pending
    if order == "before":
        facks(b, 1, 1)
    steps.append({"op": "flush", "ok": False, "rec": "fail" if fault in ("rec", "both") else "ok", "val": "fail" if fault in ("val", "both") else "ok", "mid": True})
    if order == "after":
        facks(b, 1, 1)
    if heal:
        e = nxt()
        steps.append(lock(e, 3, 2, True, 3, data=data_set("later")))
        facks(e, 3, 2)
        steps.append({"op": "flush", "ok": True, "rec": "ok", "val": "ok", "mid": True})
    steps.append({"op": "tick", "n": 1})
    steps.append({"op": "drain", "n": 12})
    return {"name": f"ackflush-{tag}nf{nf}-m{mode}-{fault}-{carrier}-p{pos}-{order}{'-heal' if heal else ''}", "followers": nf, "mode": mode,
            "steps": steps, "complete": True, "cfg": {}}

def flush_matrix(seed, sample=None):
    """followers 0..2 x ack mode x failing write x value carrier x flush position x ack order (x seeded: files healing or not)."""
    rng = random.Random(seed * 7907 + 5)
    out = []
    for nf in (0, 1, 2):
        for mode in (0, 1):
            for fault in ("val", "rec", "both"):
                for carrier in CARRIERS:
                    for pos in (1, 2):
                        for order in (("before",) if nf == 0 else ("before", "after")):
                            out.append(flush_case(nf, mode, fault, carrier, pos, order, rng.random() < 0.4, f"{seed}-"))
    if sample is not None and sample < len(out):
        out = rng.sample(out, sample)
    return out


def prelude(steps, nxt, key, prior, typ, cnt=1):
    """Bring the key into a prior state and keep it there: the value lives in the key's manager, which is recycled when nobody
    holds or waits - so a dataless ANCHOR hold (LockId 9) on a key with room for two holders (Count 1) keeps it alive; the
    value is put there by a separate lock / unlock pair (LockId 8); 'unset': a value, then an UNSET (the value object stays,
    marked unset)."""
    steps.append(lock(nxt(), key, 9, False, 0, ex=120, cnt=cnt))
    pf = prior_frame("value" if prior == "unset" else prior, typ)
    if pf is not None:
        steps.append(lock(nxt(), key, 8, False, 0, ex=60, cnt=cnt, data=pf.hex()))
        steps.append(unlock(nxt(), key, 8, cnt=cnt))
    if prior == "unset":
        steps.append(lock(nxt(), key, 8, False, 0, ex=60, cnt=cnt, data=b_unset().hex()))
        steps.append(unlock(nxt(), key, 8, cnt=cnt))

def value_case(opname, prior, outcome, nf, mode, shape, tag):
    """One directed history for the rollback clause: key in `prior` state; B = require-ack lock carrying value operation
    `opname`; W = a plain dataless request queued behind B (it must be served, and with the value before B's grant, when B
    fails); a request naming B's LockId while B is pending; then `outcome`.  shape 'anchor': Count-1 key with the anchor
    hold (any prior); 'bare': exclusive fresh key, B is the first holder (prior none only)."""
    steps, rid = [], 0
    def nxt():
        nonlocal rid
        rid += 1
        return rid
    frame_b, typ = VALUE_OPS[opname]
    cnt = 1 if shape == "anchor" else 0
    if shape == "anchor":
        prelude(steps, nxt, 1, prior, typ)
    b = nxt()
    steps.append(lock(b, 1, 1, True, 3, ex=40, cnt=cnt, data=frame_b.hex()))
    steps.append(lock(nxt(), 1, 7, False, 9, ex=30, cnt=cnt))        # W: queued behind B
    steps.append(lock(nxt(), 1, 1, False, 0, cnt=cnt))                # names B's LockId
    def facks(ok=True, only=None):
        for f in range(1, nf + 1):
            if only is None or f in only:
                steps.append(fack(f, b, 1, 1, ok=ok))
    good = {"op": "flush", "ok": True, "rec": "ok", "val": "ok", "mid": True}
    if outcome == "success":
        facks()
        steps.append(good)
    elif outcome == "wfail-entry":
        facks()
        steps.append({"op": "flush", "ok": False, "rec": "fail", "val": "ok", "mid": True})
    elif outcome == "wfail-value":
        facks()
        steps.append({"op": "flush", "ok": False, "rec": "ok", "val": "fail", "mid": True})
    elif outcome == "neg":
        steps.append(good)
        facks(ok=False, only={1})
        facks(ok=True, only=set(range(2, nf + 1)))
    elif outcome == "timeout":
        steps.append(good)
        steps.append({"op": "tick", "n": 5})
    elif outcome == "cut":
        steps.append(good)
        steps.append({"op": "cut", "f": 1})
        steps.append({"op": "tick", "n": 5})
    elif outcome == "demote":
        steps.append(good)
        steps.append({"op": "demote"})
    elif outcome == "unlock":
        steps.append(good)
        steps.append(unlock(nxt(), 1, 1, cnt=cnt))                    # pre-emption attempt while pending
        steps.append({"op": "tick", "n": 5})
    steps.append({"op": "tick", "n": 1})
    steps.append({"op": "drain", "n": 12})
    return {"name": f"ackval-{tag}{opname}-on-{prior}-{outcome}-nf{nf}-m{mode}-{shape}", "followers": nf, "mode": mode, "steps": steps, "complete": True, "cfg": {}}

def value_matrix(seed, per_cell=None):
    """value operation kind x prior state of the key x ack outcome (x seeded: followers, ack mode, anchor / bare shape).
    per_cell: number of outcomes drawn per (operation, prior) cell (None: all eight); at least two of them are failures."""
    rng = random.Random(seed * 6701 + 29)
    out = []
    for opname in VALUE_OPS:
        for prior in PRIORS:
            outs = list(OUTCOMES)
            if per_cell is not None and per_cell < len(outs):
                fails = [o for o in outs if o != "success"]
                rng.shuffle(fails)
                pick = fails[:max(2, per_cell - 1)]
                if len(pick) < per_cell:
                    pick.append("success")
                outs = pick
            for outcome in outs:
                nf = rng.choice([1, 1, 2, 2]) if outcome in ("neg", "cut") else rng.choice([0, 1, 2])
                mode = rng.choice([0, 0, 1])
                shape = "bare" if prior == "none" and rng.random() < 0.5 else "anchor"
                out.append(value_case(opname, prior, outcome, nf, mode, shape, f"{seed}-"))
    return out


def frec(op, rid, key, lid, data="", ack=True):
    return {"op": op, "id": rid, "db": 0, "key": key, "lid": lid, "tf": TF_ACK if ack else 0, "ex": 30, "cnt": 0, "data": data}

def follower_case(fault, carrier, order, second, pos, tag):
    """Follower part of engine A: record 1 (ack-required LOCK, value frame or not) reaches a follower-role node; its append
    (log) and replay halves come in `order` (arf: append, replay, flush; afr: append, flush, replay; raf: replay, append,
    flush); the flush that carries it fails in `fault`; second: another ack record (other key; with / without value) shares
    that flush; pos = 2: a healthy flush of an earlier record went first."""
    steps = []
    d1 = {"set": data_set("fv"), "incr": data_incr(3), "none": ""}[carrier]
    if pos == 2:
        steps += [frec("append", 9, 5, 5, data_set("e")), frec("replay", 9, 5, 5, data_set("e")), {"op": "flush", "ok": True, "rec": "ok", "val": "ok", "mid": True}]
    fl = {"op": "flush", "ok": fault == "none", "rec": "fail" if fault in ("rec", "both") else "ok", "val": "fail" if fault in ("val", "both") else "ok", "mid": True}
    r1a, r1r = frec("append", 1, 1, 1, d1), frec("replay", 1, 1, 1, d1)
    extra = []
    if second != "no":
        d2 = data_set("w") if second == "val" else ""
        extra = [frec("append", 2, 2, 2, d2), frec("replay", 2, 2, 2, d2)]
    if order == "arf":
        steps += [r1a, r1r] + extra + [fl]
    elif order == "afr":
        steps += [r1a] + extra[:1] + [fl, r1r] + extra[1:]
    else:
        steps += [r1r, r1a] + extra[::-1] + [fl]
    steps.append({"op": "tick", "n": 1})
    return {"name": f"ackfol-{tag}{fault}-{carrier}-{order}-second{second}-p{pos}", "cfg": {}, "steps": steps}

def follower_matrix(seed, sample=None):
    rng = random.Random(seed * 4801 + 11)
    out = []
    for fault in ("none", "val", "rec", "both"):
        for carrier in ("set", "incr", "none"):
            for order in ("arf", "afr", "raf"):
                for second in ("no", "val", "noval"):
                    for pos in (1, 2):
                        out.append(follower_case(fault, carrier, order, second, pos, f"{seed}-"))
    # a record whose replay fails on the follower (the key is held by another LockId): negative ack whatever the log does
    for fault in ("none", "val"):
        steps = [frec("append", 1, 1, 1, data_set("a")), frec("replay", 1, 1, 1, data_set("a")), {"op": "flush", "ok": True, "rec": "ok", "val": "ok", "mid": True},
                 frec("append", 2, 1, 2, data_set("b")), frec("replay", 2, 1, 2, data_set("b")),
                 {"op": "flush", "ok": fault == "none", "rec": "ok", "val": "fail" if fault == "val" else "ok", "mid": True}, {"op": "tick", "n": 1}]
        out.append({"name": f"ackfol-{seed}-replay-refused-{fault}", "cfg": {}, "steps": steps})
    if sample is not None and sample < len(out):
        out = rng.sample(out, sample)
    return out

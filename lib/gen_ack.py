"""Seeded histories for engine A (C11): ack-required locks on a leader with 0..2 follower links, interleaved with
follower acks (positive / negative / lost by a cut), leader flushes (ok / failing in the entry write, in the value write, in
both; for good or for a while; with the channel goroutine let run between the two writes), timeouts, unlock pre-emption,
demotion; wider than the bounded AckQuorum model (several keys, more requests, INCR / APPEND / SET value operations,
shared keys, parked DoAckLock).  Same step format as the TLC-generated behaviours."""
import random, struct

TF_ACK = 0x1000

def frame(kind, payload, flag=0):
    body = bytes([kind, flag]) + payload
    return (struct.pack("<I", len(body)) + body).hex()

def data_set(s):
    return frame(0, s.encode())

def data_incr(n):
    return frame(2, struct.pack("<q", n), 1)

def data_append(s):
    return frame(3, s.encode())

def lock(rid, key, lid, ack, to, ex=30, cnt=0, data="", conn=None):
    return {"op": "lock", "id": rid, "conn": conn or (1 + lid % 3), "db": 0, "key": key, "lid": lid, "flag": 0, "tf": TF_ACK if ack else 0,
            "ef": 0, "to": to, "ex": ex, "cnt": cnt, "rc": 0, "data": data}

def unlock(rid, key, lid, conn=None):
    return {"op": "unlock", "id": rid, "conn": conn or (1 + lid % 3), "db": 0, "key": key, "lid": lid, "flag": 0, "tf": 0, "ef": 0, "to": 0, "ex": 0,
            "cnt": 0, "rc": 0}

def fack(f, target, key, lid, ok=True, park=False):
    d = {"op": "fack", "f": f, "target": target, "res": 0 if ok else 11, "db": 0, "key": key, "lid": lid}
    if park:
        d["park"] = True
    return d

def gen_ack(seed, i):
    rng = random.Random(seed * 1000003 + i * 7919 + 17)
    nf = rng.choice([0, 1, 1, 2, 2, 2])
    mode = rng.choice([0, 1, 1, 2])
    nkeys = rng.choice([1, 1, 2])
    shared = rng.random() < 0.15
    numeric = {k: rng.random() < 0.4 for k in range(1, nkeys + 1)}   # value kind per key
    steps, rid = [], 0
    acks = []          # (rid, key, lid) of ack requests issued so far
    up = set(range(1, nf + 1))
    faults = rng.choice(["none", "neg", "fail", "cut", "dem", "mix", "neg", "cut", "fail", "mix"])
    demoted = False
    recbad = valbad = False     # state of the two log files (entries / values)
    # optionally give the keys a value first (plain lock + unlock)
    for k in range(1, nkeys + 1):
        if rng.random() < 0.5:
            rid += 1
            steps.append(lock(rid, k, 9, False, 0, ex=5, data=data_incr(rng.randint(1, 9)) if numeric[k] else data_set("v%d" % rng.randint(0, 9))))
            rid += 1
            steps.append(unlock(rid, k, 9))
    n = rng.randint(5, 16)
    parked = False
    for _ in range(n):
        x = rng.random()
        k = rng.randint(1, nkeys)
        lid = rng.randint(1, 4)
        if x < 0.30:
            rid += 1
            d = ""
            if rng.random() < 0.5:
                if numeric[k]:
                    d = data_incr(rng.randint(1, 5))
                else:
                    d = rng.choice([data_set("s%d" % rid), data_append("a%d" % rid)])
            to = rng.choice([1, 2, 3, 5])
            steps.append(lock(rid, k, lid, True, to, cnt=(1 if shared and rng.random() < 0.5 else 0), data=d))
            acks.append((rid, k, lid))
        elif x < 0.42:
            rid += 1
            steps.append(lock(rid, k, lid, False, rng.choice([0, 0, 2, 4, 6]), ex=rng.choice([3, 30])))
        elif x < 0.50 and acks:
            # a request naming the LockId of a (probably) pending ack request
            r0, k0, l0 = rng.choice(acks[-3:])
            rid += 1
            steps.append(unlock(rid, k0, l0) if rng.random() < 0.5 else lock(rid, k0, l0, rng.random() < 0.3, rng.choice([0, 2])))
        elif x < 0.56:
            rid += 1
            steps.append(unlock(rid, k, lid))
        elif x < 0.78 and acks and nf > 0:
            r0, k0, l0 = rng.choice(acks[-3:])
            neg = faults in ("neg", "mix") and rng.random() < 0.3
            pk = (not parked) and rng.random() < 0.12
            steps.append(fack(rng.randint(1, nf), r0, k0, l0, ok=not neg, park=pk))
            parked = parked or pk
        elif x < 0.88:
            # a flush is two writes: either file can start to fail (for good, or until a later flush finds it working again)
            st = {"op": "flush", "ok": True, "rec": "", "val": "", "mid": rng.random() < 0.5}
            if faults in ("fail", "mix"):
                if (recbad or valbad) and rng.random() < 0.25:
                    recbad = valbad = False
                    st["rec"], st["val"] = "ok", "ok"
                elif not (recbad and valbad) and rng.random() < 0.45:
                    which = rng.choice(["rec", "val", "val", "both"])
                    if which in ("rec", "both"):
                        recbad = True
                    if which in ("val", "both"):
                        valbad = True
                if recbad:
                    st["rec"] = "fail"
                if valbad:
                    st["val"] = "fail"
            st["ok"] = not (recbad or valbad)
            pk = (not parked) and rng.random() < 0.1
            if pk:
                st["park"] = True
                parked = True
            steps.append(st)
        elif x < 0.93:
            steps.append({"op": "tick", "n": rng.choice([1, 1, 2, 3])})
        elif x < 0.95 and parked:
            steps.append({"op": "resume"})
            parked = False
        elif x < 0.975 and faults in ("cut", "mix") and up:
            f = rng.choice(sorted(up))
            up.discard(f)
            steps.append({"op": "cut", "f": f})
        elif faults in ("dem", "mix") and not demoted and rng.random() < 0.5:
            demoted = True
            parked = False
            steps.append({"op": "demote"})
        else:
            steps.append({"op": "tick", "n": 1})
    steps.append({"op": "drain", "n": 12})
    return {"name": f"ackrnd-{seed}-{i}", "followers": nf, "mode": mode, "steps": steps, "complete": True, "cfg": {}}


CARRIERS = ["set", "incr", "append", "keyval", "none"]

def flush_case(nf, mode, fault, carrier, pos, order, heal, tag):
    """One directed history around ONE failing flush: ack lock B (value carrier `carrier`) on key 1 with a plain waiter C
    behind it; the flush that carries B's record fails in `fault` (entry write / value write / both); follower acks are
    delivered before or after that flush; pos = 2: an earlier ack lock on another key went through a healthy flush first;
    heal: afterwards the files work again and a further value-carrying ack lock must go through."""
    steps, rid = [], 0
    def nxt():
        nonlocal rid
        rid += 1
        return rid
    def facks(target, key, lid):
        for f in range(1, nf + 1):
            steps.append(fack(f, target, key, lid))
    if carrier in ("keyval", "append"):
        steps.append(lock(nxt(), 1, 9, False, 0, ex=5, data=data_set("v0")))
        steps.append(unlock(nxt(), 1, 9))
    elif carrier == "incr":
        steps.append(lock(nxt(), 1, 9, False, 0, ex=5, data=data_incr(5)))
        steps.append(unlock(nxt(), 1, 9))
    if pos == 2:
        a = nxt()
        steps.append(lock(a, 2, 3, True, 3, data=data_set("early")))
        facks(a, 2, 3)
        steps.append({"op": "flush", "ok": True, "rec": "ok", "val": "ok", "mid": True})
    b = nxt()
    d = {"set": data_set("new"), "incr": data_incr(2), "append": data_append("+x"), "keyval": "", "none": ""}[carrier]
    steps.append(lock(b, 1, 1, True, 3, data=d))
    steps.append(lock(nxt(), 1, 7, False, 6, ex=30))           # queued behind B: must be served when B fails
    steps.append(lock(nxt(), 1, 1, False, 0))                  # names B's LockId while B is pending
    if order == "before":
        facks(b, 1, 1)
    steps.append({"op": "flush", "ok": False, "rec": "fail" if fault in ("rec", "both") else "ok", "val": "fail" if fault in ("val", "both") else "ok", "mid": True})
    if order == "after":
        facks(b, 1, 1)
    if heal:
        e = nxt()
        steps.append(lock(e, 3, 2, True, 3, data=data_set("later")))
        facks(e, 3, 2)
        steps.append({"op": "flush", "ok": True, "rec": "ok", "val": "ok", "mid": True})
    steps.append({"op": "tick", "n": 1})
    steps.append({"op": "drain", "n": 12})
    return {"name": f"ackflush-{tag}nf{nf}-m{mode}-{fault}-{carrier}-p{pos}-{order}{'-heal' if heal else ''}", "followers": nf, "mode": mode,
            "steps": steps, "complete": True, "cfg": {}}

def flush_matrix(seed, sample=None):
    """followers 0..2 x ack mode x failing write x value carrier x flush position x ack order (x seeded: files healing or not)."""
    rng = random.Random(seed * 7907 + 5)
    out = []
    for nf in (0, 1, 2):
        for mode in (0, 1):
            for fault in ("val", "rec", "both"):
                for carrier in CARRIERS:
                    for pos in (1, 2):
                        for order in (("before",) if nf == 0 else ("before", "after")):
                            out.append(flush_case(nf, mode, fault, carrier, pos, order, rng.random() < 0.4, f"{seed}-"))
    if sample is not None and sample < len(out):
        out = rng.sample(out, sample)
    return out


def frec(op, rid, key, lid, data="", ack=True):
    return {"op": op, "id": rid, "db": 0, "key": key, "lid": lid, "tf": TF_ACK if ack else 0, "ex": 30, "cnt": 0, "data": data}

def follower_case(fault, carrier, order, second, pos, tag):
    """Follower part of engine A: record 1 (ack-required LOCK, value frame or not) reaches a follower-role node; its append
    (log) and replay halves come in `order` (arf: append, replay, flush; afr: append, flush, replay; raf: replay, append,
    flush); the flush that carries it fails in `fault`; second: another ack record (other key; with / without value) shares
    that flush; pos = 2: a healthy flush of an earlier record went first."""
    steps = []
    d1 = {"set": data_set("fv"), "incr": data_incr(3), "none": ""}[carrier]
    if pos == 2:
        steps += [frec("append", 9, 5, 5, data_set("e")), frec("replay", 9, 5, 5, data_set("e")), {"op": "flush", "ok": True, "rec": "ok", "val": "ok", "mid": True}]
    fl = {"op": "flush", "ok": fault == "none", "rec": "fail" if fault in ("rec", "both") else "ok", "val": "fail" if fault in ("val", "both") else "ok", "mid": True}
    r1a, r1r = frec("append", 1, 1, 1, d1), frec("replay", 1, 1, 1, d1)
    extra = []
    if second != "no":
        d2 = data_set("w") if second == "val" else ""
        extra = [frec("append", 2, 2, 2, d2), frec("replay", 2, 2, 2, d2)]
    if order == "arf":
        steps += [r1a, r1r] + extra + [fl]
    elif order == "afr":
        steps += [r1a] + extra[:1] + [fl, r1r] + extra[1:]
    else:
        steps += [r1r, r1a] + extra[::-1] + [fl]
    steps.append({"op": "tick", "n": 1})
    return {"name": f"ackfol-{tag}{fault}-{carrier}-{order}-second{second}-p{pos}", "cfg": {}, "steps": steps}

def follower_matrix(seed, sample=None):
    rng = random.Random(seed * 4801 + 11)
    out = []
    for fault in ("none", "val", "rec", "both"):
        for carrier in ("set", "incr", "none"):
            for order in ("arf", "afr", "raf"):
                for second in ("no", "val", "noval"):
                    for pos in (1, 2):
                        out.append(follower_case(fault, carrier, order, second, pos, f"{seed}-"))
    # a record whose replay fails on the follower (the key is held by another LockId): negative ack whatever the log does
    for fault in ("none", "val"):
        steps = [frec("append", 1, 1, 1, data_set("a")), frec("replay", 1, 1, 1, data_set("a")), {"op": "flush", "ok": True, "rec": "ok", "val": "ok", "mid": True},
                 frec("append", 2, 1, 2, data_set("b")), frec("replay", 2, 1, 2, data_set("b")),
                 {"op": "flush", "ok": fault == "none", "rec": "ok", "val": "fail" if fault == "val" else "ok", "mid": True}, {"op": "tick", "n": 1}]
        out.append({"name": f"ackfol-{seed}-replay-refused-{fault}", "cfg": {}, "steps": steps})
    if sample is not None and sample < len(out):
        out = rng.sample(out, sample)
    return out
